#!/bin/sh
# run every claimed check in the thorough tier; print the summary lines
cd /verif
props=${PROPS:-$(python3 -c "import json;print(' '.join(c['property_id'] for c in json.load(open('MANIFEST.json'))['checks']))")}
for p in $props; do
  out=$(VERIF_SEED=${VERIF_SEED:-3} ./check $p --tier thorough 2>&1 | grep -v condarc | grep "VIOLATION\|^\[" | tr '\n' ' ')
  echo "$out"
done
