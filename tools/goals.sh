#!/bin/sh
# usage: goals.sh theories/File.v LINE  -- show the proof state after line LINE (scratch copy; nothing is admitted in the tree)
f=$1; n=$2
d=$(mktemp -d)
head -n "$n" "/verif/coq/$f" > "$d/Scratch.v"
printf '\nShow.\n' >> "$d/Scratch.v"
cd /verif/coq && timeout 120 coqc -Q theories OL -Q gen OLGen -Q Properties OLProps "$d/Scratch.v" 2>&1 | grep -v condarc | head -${3:-60}
rm -rf "$d"
