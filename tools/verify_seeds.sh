#!/bin/sh
# Re-verify every kept seed against the current /repo HEAD: patch applies, the repository's tests still pass with it, the demo
# fails with it and passes without it, and the property's own check reports a violation.  Results: seeded/<id>/verify.json
cd /verif
for d in ${SEED_DIRS:-seeded/C*/}; do
  id=$(basename $d); prop=${id%-*}
  if ! git -C /repo apply --check /verif/$d/patch.diff 2>/dev/null; then echo "$id: patch does not apply"; continue; fi
  git -C /repo apply /verif/$d/patch.diff
  tests=$(cd /repo && /venv/bin/python -m pytest -q -p no:cacheprovider --timeout=900 2>&1 | tail -1)
  (cd /tmp && PYTHONPATH=/repo timeout 300 /venv/bin/python /verif/$d/demo.py >/dev/null 2>&1); demo_with=$?
  out=$(VERIF_SEED=${VERIF_SEED:-1} ./check $prop 2>&1 | grep "VIOLATION\|^\[" | tr '\n' ' ')
  git -C /repo checkout -- .
  (cd /tmp && PYTHONPATH=/repo timeout 300 /venv/bin/python /verif/$d/demo.py >/dev/null 2>&1); demo_without=$?
  python3 - "$d" "$id" "$prop" "$tests" "$demo_with" "$demo_without" "$out" <<'PY'
import json, sys, subprocess
d, id_, prop, tests, dw, dwo, out = sys.argv[1:8]
head = subprocess.run(["git", "-C", "/repo", "rev-parse", "--short", "HEAD"], capture_output=True, text=True).stdout.strip()
json.dump({"seed": id_, "repo_head": head, "tests_with_patch": tests, "demo_exit_with_patch": int(dw), "demo_exit_without_patch": int(dwo),
           "check": f"./check {prop}", "check_output": out,
           "detected": "VIOLATION" in out, "concrete_failing_input": "VIOLATION" in out and "no-failing-input-found" not in out},
          open(d + "verify.json", "w"), indent=1)
print(id_, tests, "demo", dw, dwo, "|", out[:160])
PY
done
git -C /repo status --short | head -3
