#!/bin/sh
# run every claimed check (quick tier) under a few seeds; print the summary lines
cd /verif
props=$(python3 -c "import json;print(' '.join(c['property_id'] for c in json.load(open('MANIFEST.json'))['checks']))")
for seed in ${SEEDS:-1 2 0}; do
  for p in $props; do
    out=$(VERIF_SEED=$seed ./check $p 2>&1 | grep -v condarc | tail -3 | tr '\n' ' ')
    echo "seed=$seed $out"
  done
done
