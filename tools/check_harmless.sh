#!/bin/sh
# apply each behaviour-preserving refactoring under seeded/harmless/, run the repository's tests and every quick check, undo.
# A VIOLATION here is an alarm on code where the properties still hold (allowed only as `no-failing-input-found`).
cd /verif
for d in ${HARMLESS_DIRS:-seeded/harmless/R*/}; do
  id=$(basename $d)
  if ! git -C /repo apply --check /verif/$d/patch.diff 2>/dev/null; then echo "$id: patch does not apply"; continue; fi
  git -C /repo apply /verif/$d/patch.diff
  tests=$(cd /repo && /venv/bin/python -m pytest -q -p no:cacheprovider --timeout=900 2>&1 | tail -1)
  echo "$id tests: $tests"
  for p in $(python3 -c "import json;print(' '.join(c['property_id'] for c in json.load(open('MANIFEST.json'))['checks']))"); do
    out=$(VERIF_SEED=1 ./check $p 2>&1 | grep "VIOLATION\|^\[" | tr '\n' ' ')
    echo "$id $out" | cut -c1-260
  done
  git -C /repo checkout -- .
done
git -C /repo status --short | head -3
