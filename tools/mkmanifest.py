#!/usr/bin/env python3
"""Writes /verif/MANIFEST.json from the table below (kept in one place so that it stays valid)."""
import json, os
base = json.load(open('/root/.vp/BASELINE.json'))
TRUST = ("Trusted: Coq 8.16.1 kernel + vm_compute; no axioms (Print Assumptions recorded per run); extraction "
         "(ExtrOcamlBasic, ExtrOcamlString) + OCaml + 10-line driver; harness/gen_tables.py and harness/sexp.py; CPython as "
         "the definition of Python. The code is modelled, not verified: the tie is tables regenerated from /repo on every run "
         "plus model-vs-implementation correspondence on generated inputs. ")
CLAIMED = {
 "C10": dict(
   text="Theorem C10_history (all histories of new/set/convert/reseed, by induction with an invariant): every conversion uses "
        "exactly the last valid values set on its own option object, defaults otherwise; C10_none_uses_defaults; the "
        "class-level-cell design is refuted by a vm_compute witness. The option table is regenerated from config.py. "
        "Independence from hash seed / random state is not provable in a model and is decided by fresh-process comparison.",
   note=TRUST + "Config.v is a hand-written model of config.py tied by running histories through model and real API in fresh interpreters.",
   technique="Coq proof by induction over API histories (invariant), generated option table, differential correspondence",
   ref="5/C10"),
 "C06": dict(
   text="Theorems over the namespace model (Scope.v), for EVERY stack of scopes / namespace / name: C06_origin_is_nearest_binder and "
        "C06_nearest_binder_is_found - generate_nsp's search for the origin of a free/nonlocal name is Python's rule (nearest enclosing "
        "function that binds it, classes skipped, a global declaration ends the search); C06_dict_storage_consistent - in the namespace tree "
        "of every symbol table every outer-map entry names a function on the chain that keeps the name in its dictionary (induction over "
        "the table tree through both passes of generate_nsp); C06_load_form / C06_store_form / "
        "C06_walrus_value_form - what get_load_name / get_assign / get_load_assigned emit is the rendering of an access decision; "
        "C06_global_load_is_module - a module variable is never captured by the lambda of an enclosing function; "
        "C06_function_load_store_agree, C06_class_load_store_agree - loads and stores of a name in one namespace meet in one cell "
        "(class: dictionary first, module next); C06_class_inner_never_member and C06_enclosing_load_follows_python - lambda / "
        "comprehension bodies in a class body do not see members and follow Python's rule; C06_inner_binder_wins, "
        "C06_walrus_in_lambda_is_local, C06_lambda_scope - parameters, comprehension targets and assignment expressions inside a "
        "lambda are local to it. The hypotheses on CPython's symbol flags (sym_ok, maps_ok, dict_ok) are boolean checks evaluated by the "
        "model on every explored symbol table. That the emitted accesses behave like the cells they denote when CPython runs the "
        "converted program (closures of nested lambdas) is decided by the exhaustive/sampled scope-tree oracle on 3.10-3.13 (support).",
   note=TRUST + "Scope.v's cells and name_cell are a model of CPython's closure semantics; the symbol flags are CPython's output (input data). Differences that CPython 3.12/3.13's comprehension inlining defect causes in the converted class body (UnboundLocalError for a free variable named like a comprehension target of the same lambda; plain def code shows it too) are attributed to the interpreter only when the same pair agrees on 3.11.",
   technique="Coq proof (induction over scope stacks / ancestor chains, case analysis of the access decisions) over the namespace model + boolean hypothesis checks in the model + AST correspondence + exhaustive depth-2 / sampled depth-4 scope-tree differential execution on four interpreters",
   ref="5/C06"),
 "C07": dict(
   text="Theorems over the whole-converter model with an event semantics of the emitted expression forms (EvalOrder.v): "
        "C07_assign_order - for every assignment with ANY number of name/attribute/subscript targets whose operand expressions the "
        "rewriting leaves unchanged, the emitted expressions evaluate the value exactly once and first, then each target's object and "
        "index, targets left to right; C07_augassign_name/attr/sub_order - for every operator, target object (and index) once, then "
        "the value, the store re-using the saved object/index; C07_def_order - any decorators and defaults: decorators top-down, then "
        "positional, then keyword-only defaults, once each; C07_class_header_order - the bases, then the keywords in the order written "
        "(`metaclass=` among them), once each. Destructuring targets, the rest of class statements, loop/if headers, return values, call "
        "arguments and all other forms are decided by ordered probe logs (templates for every form in the property's list plus random "
        "probe programs in which every operation on a probe value is logged) under the configurations - support, not theorem. "
        "Two known findings (class decorators evaluated late; annotations not evaluated).",
   note=TRUST + "EvalOrder.v's event semantics (left-to-right evaluation of the emitted expression forms; reference orders from the language reference 6.16/7.2/8.7) is a hand-written model of CPython validated by the probe logs. Implicit truth tests (__bool__) are not compared (CPython elides them itself in jump contexts).",
   technique="Coq proof over the converter model with a syntactic event semantics (induction over target/decorator lists) + AST correspondence + ordered probe-log differential execution",
   ref="5/C07"),
 "C13": dict(
   text="Theorems C13_unpack_tuple/_list: for every flat target list with at most one starred name, every source length Python "
        "accepts and every value type, the accessors the converter emits (t[i], list(t[s:s-n+1 or None]), t[i-n] over tuple(value)) "
        "select exactly what Python's unpacking binds (reference index/slice semantics in Coq); C13_unpack_nested: the same for EVERY "
        "nested pattern of any depth (tuple/list patterns inside each other, one starred target per level, starred sub-patterns): the "
        "stores the converter emits - temporaries __ol_assign_<position> := tuple(accessor), names receiving accessors - run IN ORDER "
        "bind exactly what Python's nested unpacking binds, in the same order, and the temporaries of different levels never collide "
        "(induction over the pattern; reference semantics and store evaluator validated against CPython's own unpacking on every run); "
        "C13_two_stars_rejected; "
        "C13_op_table: the operator table regenerated from the code equals the data model's in-place method table; "
        "C13_aug_name_rebinds: both branches of the emitted conditional rebind the name; C13_aug_binds_when_not_declined_partial (object model with NotImplemented: "
        "the emitted conditional stores Python's value whenever the in-place method, if any, does not decline) and C13_aug_binds_refuted (a declining method: "
        "known finding K-inplace-notimplemented, witness replayed on the real code on every run). Other target kinds inside patterns and other "
        "placements are decided by AST correspondence of the whole-converter model plus differential execution (support).",
   note=TRUST + "Unpack.v reference semantics of indexing/slicing/unpacking is hand-written from the language reference and validated against CPython by differential execution.",
   technique="Coq proof (induction over the target list and over nested patterns, lia arithmetic on negative indices/slices, position-derived names) over the converter model + generated operator table + AST correspondence + differential execution",
   ref="5/C13"),
 "C15": dict(
   text="Theorems over the unparser model and the precedence table regenerated from the code (Compat.v): "
        "C15_walrus_bare_only_as_call_argument / C15_walrus_parenthesised_under_operators / C15_walrus_wrapped - for EVERY slot of the "
        "table and every operator, an assignment expression is printed without parentheses only as a positional call argument (legal "
        "since 3.8) and wrapped everywhere else (subscript index, set element, keyword value ... became legal later); "
        "C15_quote_alternates / C15_two_levels_differ - string literals use the quote their context does not, so two levels of f-string "
        "nesting never re-use a quote; C15_third_level_reuses_refuted - the third level does (known finding). That no OTHER construct of the "
        "output is version-sensitive cannot be a theorem without the six grammars: it is decided by compiling and running every distinct "
        "output of every (program, 8 configurations, host 3.10-3.13) on the runtimes 3.8-3.13 and comparing with the script on the same "
        "runtime (support). Three known findings (f-string nesting depth 3, escapes inside replacement fields, ast.unparse on 3.12+ hosts).",
   note=TRUST + "The grammars and compilers of CPython 3.8-3.13 are CPython's; the ast.unparse path is the host interpreter's code and is only observed. Programs are restricted to those that compile on 3.8.",
   technique="Coq proof (finite check by vm_compute over the regenerated slot/precedence table lifted to all slots, structural lemma on the unparser model) + cross-interpreter differential execution (4 converter hosts x 6 runtimes)",
   ref="5/C15"),
 "C16": dict(
   text="Theorems over the argument machine Cli.v (option table regenerated from config.py): C16_bad_option_no_output - for every "
        "argument list, if any -C is malformed, unknown or illegal the run is an error and the effect trace is empty (the output file "
        "is neither opened nor written); C16_good_options_effects - otherwise read, then open+write (or print) exactly the text for "
        "the accumulated options, --unparser applied last; C16_output_touched_only_on_success. argparse, file I/O and exit status "
        "are CPython's and are observed by running the real command line.",
   note=TRUST + "Cli.v is a hand-written model of __main__.py tied by running generated command lines through the model and the real CLI in subprocesses (exit status, stdout, bytes of a pre-existing output file).",
   technique="Coq proof over an argument/effect-trace machine with generated option table + subprocess correspondence",
   ref="5/C16"),
 "C01": dict(
   text="PARTIAL. Proved, for all inputs: C01_if_styles_agree_partial - for ALL conditions and branches, oracles and fuels, the "
        "short-circuit form `not not t and [b] or o` reaches the state of the conditional expression in the evaluator of the scaffolding "
        "expressions; C01_wrappers_agree_partial - for EVERY number of statements the chained-call wrapper performs the statements' "
        "effects once each in order, as the list display does (call-by-value evaluation); C01_module_control_flow_partial - the C05 "
        "simulation. Together with the per-construct theorems of C05/C06/C07/C11/C12/C13/C14 over the same converter model these are the "
        "proved components; their composition into one whole-program theorem is NOT proved. The property itself (stdout, user globals, no "
        "lost/renamed/rebound user name) is decided on the explored programs by exec/eval comparison: feature scripts covering the "
        "fragment list, the repository's 16 test scripts, control-flow skeletons, destructuring, class programs, scope trees, probe "
        "programs with operation-level logs, statement templates - each under all 8 option combinations, and on 3.10/3.11/3.13 (support).",
   note=TRUST + "KSem.run and Equiv.eval_chain are models of CPython's evaluation of the scaffolding expressions (validated by traces / differential execution).",
   technique="Coq proof (evaluator-level equivalence of the option-dependent shapes; simulation for control flow) + AST correspondence of the whole-converter model + differential execution under 8 configurations on four interpreters",
   ref="5/C01"),
 "C02": dict(
   text="Theorem C02_single_line: for EVERY expression tree (all node kinds, f-strings nested to any depth) whose identifiers and "
        "number/bytes reprs contain no line break, the text of the project's own unparser (model tied by string correspondence, "
        "escape table regenerated from the code) contains no line break - by structural induction with a finite vm_compute check of "
        "the 0..0x2FF escape table and the surrogate block. C02_module_output_is_one_expression: for EVERY program of the modelled "
        "fragment (any statements, nesting, size, both wrappers, both if styles) whose own expressions lie in the core (stmt_ok, "
        "decidable; evaluated on every explored program: ~90% inside, counted in the evidence, and for those the real converter's "
        "output is checked to be in the core), the converter model's ONE output expression, printed by the unparser model, is "
        "read back by the expression parser as exactly that expression with nothing left over (statement layer by induction over "
        "statements: StmtCore; expression layer: LowerCore; printer = unparser: ParseTie; parser inverts printer: ParseProof). "
        "C02_core_output_is_one_expression_partial: for every output tree inside the "
        "core of the C03 round-trip theorem (more than 90% of the explored outputs, counted in the evidence) the tokens of the "
        "unparser model's text are read by the expression parser as exactly that tree with no token left over; outside the core, "
        "that the returned text is exactly one expression is decided by compile() "
        "on every output of generated programs and stripped standard-library modules under all 8 configurations (support); the "
        "ast.unparse path is CPython's code and is only observed. One known finding (walrus in a loop header).",
   note=TRUST + "Outside the core of the C03 round-trip theorem (f-strings, yield/await, generator expressions as operands), 'compiles as one expression' rests on CPython's compile() on the explored outputs.",
   technique="Coq proof by structural induction over all expression trees + finite table check (vm_compute) + string/AST correspondence + compile() oracle",
   ref="5/C02"),
 "C03": dict(
   text="Theorem C03_roundtrip_core_partial (ParseProof.roundtrip_core, by induction over the tree with a simulation of the parser's "
        "loops): a precedence-climbing parser of Python's expression grammar (Parse.pc) reads back EXACTLY the tree from the tokens the "
        "unparser prints, for every tree of any depth over the operator core - 13 binary, 4 unary, 2 boolean operators, comparison "
        "chains of all 10 operators, conditional expressions, lambdas with every parameter list (positional-only, positional, *args / bare *, keyword-only, **kwargs, defaults), assignment expressions, attribute / subscript (plain, tuple, slice, index tuples with slices among their items) trailers, calls with "
        "positional / starred / keyword / double-starred arguments, list / tuple / set / dict displays with starred elements, list / set / "
        "dict comprehensions, generator expressions as the bare only argument of a call and as a whole parenthesised expression, groups, names, opaque literals - with the precedence ladder and slot table REGENERATED from the code (C03_context_* are the "
        "finite table facts: a changed precedence or slot breaks them); C03_is_not_ambiguity (`a is (not b)`); C03_paren_iff. PARTIAL: "
        "generator expressions as operands of other nodes, f-strings, yield/await are outside the proved "
        "core and are decided by CPython's parser on the exhaustive (parent,slot) x child compositions, every lambda signature, sampled "
        "depth-3 / deep / right-edge trees, standard-library expressions (support). The parser model is validated against ast.parse "
        "through CPython's tokenizer. C03_printer_is_unparser (ParseTie.tie_all, induction over the tree): the printer of the theorem IS the unparser model - "
        "for every core tree the fragments Unparse.utoks emits, split into words, are exactly its tokens; C03_roundtrip_unparser_core_partial "
        "states the round trip on the unparser model itself (the model tied to expr_unparse.py by string equality); the word splitting is "
        "checked against CPython's tokenizer on the real unparser's text. C03_scope_rewriting_keeps_core (LowerCore.transf_keeps_core, "
        "induction over the tree): the expression the converter's scope-rewriting layer emits for ANY core expression - dictionary "
        "loads/stores, conditional loads, globals(), written-out super() - is again in the core; C03_statement_layer_keeps_core "
        "(StmtCore.lower_module_core_top, induction over statements): so is the ONE expression the statement layer makes of ANY program "
        "of the fragment whose own expressions are in the core; whole converter outputs are explored "
        "too (how many lie inside the core is counted in the evidence).",
   note=TRUST + "Parse.pc is a hand-written model of CPython's parser on the core (validated, not verified); literals are opaque tokens whose spelling is C04's theorem; tokenisation is CPython's.",
   technique="Coq proof (structural induction + simulation of a fuelled precedence-climbing parser, finite table checks by vm_compute) over the generated precedence tables + parser/printer correspondence with CPython + exhaustive composition round trips",
   ref="5/C03"),
 "C04": dict(
   text="Theorems C04_str_codec (for every code point list and both quotes, decode(escape s) = s under a reference decoder of Python's "
        "escape rules), C04_escape_single_line, C04_fstring_text_codec (brace doubling), C04_unparse_single_line (whole unparser, any "
        "nesting). Finite parts (generated 0..0x2FF x 2 escape table, 2048 surrogates) by vm_compute lifted with forallb_forall; the "
        "rule above the table is checked against code samples at build time. Structure of f-strings (conversions, specs) and numeric "
        "literals are decided by reparsing with CPython (support).",
   note=TRUST + "StrLit.decode is a hand-written reference decoder validated against ast.literal_eval each run; float/complex/bytes texts are CPython's repr (opaque).",
   technique="Coq proof: per-code-point lemma from a vm_compute-checked table, lifted by induction to all strings; structural induction for the one-line theorem; string correspondence + reparse oracle",
   ref="5/C04"),
 "C08": dict(
   text="Theorems over the converter model: C08_dead_code_unchecked_refuted (the unrestricted statement is false of the faithful model: dead statements are not dispatched - known finding); C08_dispatch_table (the converted statement kinds are exactly the keys of the code's "
        "dispatch table, regenerated each run); C08_unsupported_stmt_rejected / _module_rejected - by structural induction over "
        "statements: a statement kind outside the table at ANY nesting depth and position the traversal reaches makes conversion fail; "
        "yield / yield from / await are refused by the expression rewriter; break/continue outside a loop and return outside a "
        "function are refused; a second starred target is refused (C13_two_stars_rejected). Statements after a literal "
        "break/continue/return in the same block are never converted (they cannot run): what they contain is not checked - two known findings "
        "(K-dead-code-unchecked: a `yield` there no longer makes the function a generator; K-annotation-yield-unchecked: a yield inside a dropped annotation), "
        "witnesses replayed on the real code on every run.",
   note=TRUST + "That the rewriter reaches every sub-expression and that Lower.v mirrors the traversal is tied by AST/error-class correspondence on programs with every unsupported construct injected at every reachable position.",
   technique="Coq proof by structural induction over the statement AST (custom nested induction principle) + generated dispatch table + injection-based correspondence/oracle",
   ref="5/C08"),
 "C05": dict(
   text="Theorem C05_module_simulation (Qed, closed under the global context): for EVERY nesting of markers, if/else, while, for, "
        "loop-else, break and continue at module level, every oracle of condition outcomes / iterator exhaustion and every fuel, if "
        "the reference semantics of the source completes with trace tr then the expression produced by the converter model "
        "(expr_wrapper=list, if_style=if_expr) evaluates under the scaffolding evaluation rules with exactly the same trace "
        "(markers, every condition with its outcome, iterable evaluation, iter(), every next()). Proved by induction on the fuel of "
        "the source interpreter with invariants on the break/interrupt/return flags (C05_simulation_invariant covers any context, "
        "incl. return inside nested loops); guard placement is characterised by structural predicates that replace the code's "
        "counters. Partial: function/class placement, chain_call and short_circuit are decided by AST correspondence plus trace "
        "equality on the real code only.",
   note=TRUST + "KSem.v holds the reference semantics of the skeleton statements and the evaluation rules of the scaffolding expressions; both are validated against CPython each run by comparing traces of instrumented probes on the source and on the REAL converter output (model evaluator run on the real output AST).",
   technique="Coq simulation proof (induction on interpreter fuel, flag invariants, fuel-monotone evaluator) over the whole-converter model + AST correspondence + trace-equality oracle",
   ref="5/C05, Appendix A"),
 "C11": dict(
   text="Theorem C11_signature_copied (all function definitions: any number and mix of the five parameter kinds, defaults, decorators): "
        "the emitted lambda carries exactly the source's five parameter lists, its defaults are the source's default expressions rewritten "
        "in the defining namespace in the same order, decorators are applied bottom-up, the result is bound to the function name in the "
        "defining namespace. C11_return_value: a call returns the value of the executed return or None (the C05 function-placement "
        "simulation). That equal `arguments` records bind calls identically for def and lambda is CPython's construction (trusted); the "
        "text-level signature round trip is decided by the oracle (inspect.signature, 20 call shapes, TypeError) over all 2700+ "
        "parameter-list shapes (thorough); that the printed lambda signature parses back to exactly that `arguments` record is part of the C03 round-trip theorem (Parse.MParams).",
   note=TRUST + "Annotations are erased and not modelled.",
   technique="Coq proof about the converter model (shape theorem + C05 simulation) + AST correspondence + call-binding oracle over the exhaustive parameter-shape matrix",
   ref="5/C11"),
 "C12": dict(
   text="Theorems C12_members_replay (for EVERY sequence of class-body stores: running them against a dictionary and installing the "
        "dictionary's items in order with setattr yields exactly the ordered attribute map of the stores: names, final values, "
        "first-insertion order), C12_last_write_wins, C12_header (metaclass or type called with the class name, the rewritten bases in "
        "order, the remaining keywords in order; bound in the defining namespace), C12_decorators_after_members (creation, loader, "
        "installation of the members, and only then the decorators - last listed first, each applied to the name as bound then and "
        "rebinding it). Method kinds, MRO, super() are decided by executing the "
        "1900-program skeleton product (support). Class-creation hooks are excluded by the property.",
   note=TRUST + "ClassNs.v models dict/class-namespace ordering; the class object is created - and its name bound - before its body runs (visible to class-creation hooks and to a body that reads the previous binding of its own name: known finding K-class-name-bound-early); private names are not mangled (known finding K-private-name-mangling); both witnesses are replayed on the real code on every run.",
   technique="Coq proof (ordered-map replay by induction with NoDup invariant; header shape theorem) + AST correspondence + differential execution of the skeleton product",
   ref="5/C12"),
 "C14": dict(
   text="Theorems over an abstract import system (any finder, any module attributes, any state): C14_import_equiv - for `import a.b.c "
        "[as x]` the emitted operation (importlib.import_module, or __import__ for an un-aliased dotted name) loads the same modules in "
        "the same order and binds the same object to the same name; C14_from_equiv - for `from m import n1 as x1, n2, ...` (any number "
        "of clauses mixing attributes and not-yet-imported submodules) `tmp := __import__(m, g, l, [n1, ...], level)` plus attribute reads "
        "leaves the same loaded set, execution order and ordered bindings; C14_lower_* tie those operations to what the converter model "
        "emits (C14_lower_import_in_order: one expression per module of a multi-module import, in the order written). Relative-name resolution is performed by __import__ at run time and is observed on a vendored package tree.",
   note=TRUST + "Imports.v's statement and importlib semantics are models written from the language reference / importlib documentation, validated on corpus/pkgroot (modules log their own execution). Limit of that reference semantics: `import pkg.b as c` is modelled as the sys.modules reading, which differs from CPython when the package rebinds its attribute `b` (known finding K-import-alias-attribute, witness replayed on the real code on every run).",
   technique="Coq proof over an import-system state machine (statement semantics vs emitted operations) + shape lemmas on the converter model + differential execution on a logging package tree",
   ref="5/C14"),
 "C17": dict(
   text="Theorems C17_wrap_list_depth and C17_statements_depth_list (for EVERY n, a module of n consecutive simple statements lowers, with "
        "expr_wrapper=list, to an expression of nesting depth <= 3) and C17_statements_depth_chain_refuted (with the default chain_call the "
        "depth is >= n); for the full tree height (every child of every node counted): C17_statements_height_list, "
        "C17_guarded_statements_height_list (an `if c: break` followed by n statements in a while body lowers to height 7 for EVERY n: "
        "the rest of the block sits under one test of the flag), C17_continued_statements_height_list (same after `continue` in a "
        "for loop) and C17_returned_statements_height_list (after `return` in a function body); C17_elif_chain_height_short (an if/elif/.../else chain of n tests under "
        "if_style=short_circuit is one flat `or`: height <= 6 for EVERY n) and C17_elif_chain_height_ifexp (under if_expr: exactly the nesting of the source plus one). "
        "C17_each_guard_adds_a_level (for EVERY statement lowering, context and block: a statement that can take an early exit puts the whole rest of the block at least one level below itself - the mechanism of the known finding K-guard-clause-nesting; computed family: height 2k + 5 for k guards). "
        "The programs of every height theorem are converted by the real converter on every run (tree equality with the model, the stated bound measured on the real tree). Partial: whether CPython accepts an expression of a given depth (C stack, parser limits, the recursion limit hit "
        "by CPython's own ast.unparse) is interpreter behaviour; it is measured on a geometric schedule over 50 program families (statements after an early exit, many guard clauses in one block, operator and conditional-expression chains in 17 statement positions) with the "
        "default recursion limit. Three known findings (ast.unparse recursion; chain_call depth; one nesting level per guard clause of a block).",
   note=TRUST + "Acceptance limits of CPython are measured, not proved.",
   technique="Coq depth bound (induction) over the converter model + measured size schedule per family/config",
   ref="5/C17"),
 "C09": dict(
   text="Theorems over the converter model's naming function: C09_helper_reserved / C09_user_name_not_helper (every helper name carries "
        "the reserved prefix, so no identifier without it - `_`, `k`, `v`, `self`, `it`, `itertools`, builtins ... - can equal a helper "
        "name), C09_distinct_kinds / _positions / _namespaces (temporaries created for different purposes, statement positions or "
        "namespaces never share a name; injectivity of the position code). Partial: that no un-reserved scaffolding binder captures user "
        "code is audited syntactically on every real output and decided by executing the (identifier x role x feature) matrix; the real "
        "converter's random suffixes are assumed collision-free. One known finding (shadowed builtins).",
   note=TRUST + "Names in the model are derived from statement positions; the real code draws random suffixes (both are renamed by first occurrence before comparison).",
   technique="Coq proof of prefix/injectivity properties of the naming function + AST correspondence + binder audit + differential execution of the identifier matrix",
   ref="5/C09"),
}
PENDING_REASON = "not yet built in this round: model/theorem under construction (see DESIGN.md section 8 build order); not claimed until its minimum is proved and tied"
ALL = [f"C{i:02d}" for i in range(1, 18)]
checks = []
for pid in ALL:
    if pid in CLAIMED:
        c = CLAIMED[pid]
        checks.append({
            "property_id": pid,
            "quick_cmd": f"./check {pid} --tier quick",
            "thorough_cmd": f"./check {pid} --tier thorough",
            "evidence_file": f"/verif/evidence/{pid}.json",
            "replay_cmd_template": f"./check {pid} --replay {{path}}",
            "engine": "coq-model",
            "level_claimed": {"category": "proof", "text": c["text"], "design_ref": c["ref"]},
            "level_note": c["note"],
            "technique": c["technique"],
        })
m = {
 "version": 1,
 "setup_cmd": "./setup.sh",
 "hooks": {"guard": "ONELINER_PY_VERIF",
           "enable": "no source hooks are needed: the checks import /repo's modules directly (PYTHONPATH=/repo); ONELINER_PY_VERIF=1 is exported for uniformity",
           "baseline_off_cmd": base["cmd"].replace("<file>", "/tmp/oneliner_baseline.junit.xml"),
           "source_commits": [], "add_only": True},
 "engines": [{"name": "coq-model", "path": "coq/", "serves_properties": sorted(CLAIMED),
              "kind_free_text": "Coq 8.16.1 development: hand-written Gallina models of converter/unparser/option machinery, tables "
                                "regenerated from /repo on every run, theorems per property in coq/Properties, extracted to "
                                "extract/modelrun for the correspondence check"}],
 "checks": checks,
 "not_applicable": [{"property_id": p, "reason": PENDING_REASON} for p in ALL if p not in CLAIMED],
 "notes": "Fixes applied to /repo as 'fix:' commits are listed in known_findings.json. See DESIGN.md.",
}
json.dump(m, open(os.path.join(os.path.dirname(__file__), "..", "MANIFEST.json"), "w"), indent=1)
print("claimed:", sorted(CLAIMED))
