(* Moves lines of text between stdin/stdout and the extracted [run_line]. Nothing else. *)
let explode s = List.init (String.length s) (String.get s)
let implode l = let b = Buffer.create 256 in List.iter (Buffer.add_char b) l; Buffer.contents b
let () =
  try
    while true do
      let line = input_line stdin in
      print_string (implode (Modelrun_core.run_line (explode line)));
      print_newline ()
    done
  with End_of_file -> ()
