(* C17: nesting depth of the generated expression.  With expr_wrapper = list a block of statements becomes ONE list
   display (depth independent of the number of statements); with chain_call every statement adds one level of call
   nesting.  The expression unparser and CPython's compiler recurse on depth, not on width. *)
From Coq Require Import String List ZArith Bool Arith Lia.
From OL Require Import Sexp PyAst Namespace Lower KSem KSim.
Import ListNotations.
Open Scope string_scope.
Open Scope list_scope.

Definition list_max (l : list nat) : nat := fold_right Nat.max 0 l.

(* depth of the call/display spine (enough to state the two wrappers' behaviour) *)
Fixpoint depth (e : expr) : nat :=
  match e with
  | EList es | ETuple es | ESet es => S (list_max (map depth es))
  | Call f args _ => S (Nat.max (depth f) (list_max (map depth args)))
  | Subscript v s => S (Nat.max (depth v) (depth s))
  | IfExp t b o => S (Nat.max (depth t) (Nat.max (depth b) (depth o)))
  | NamedExpr _ v => S (depth v)
  | Lambda _ _ _ _ _ _ _ b => S (depth b)
  | UnaryOp _ v => S (depth v)
  | _ => 1
  end.

Lemma list_max_le l n : Forall (fun x => x <= n) l -> list_max l <= n.
Proof. induction 1; cbn; [lia|]. apply Nat.max_lub; assumption. Qed.

Lemma list_max_ge l x : List.In x l -> x <= list_max l.
Proof. induction l as [|y r IH]; intros []; cbn; [subst; apply Nat.le_max_l|]. etransitivity; [apply IH; assumption|apply Nat.le_max_r]. Qed.

(* ---- the two wrappers ---- *)
Definition cfg_list : config := mkCfg false false false.
Definition cfg_chain_call : config := mkCfg true false false.

(* list: one more level than the deepest element, however many elements there are *)
Theorem wrap_list_depth : forall es d, Forall (fun e => depth e <= d) es -> depth (wrap cfg_list es) <= S d.
Proof.
  intros es d H. destruct es as [|e [|e2 r]]; cbn [wrap cfg_list cfg_chain].
  - cbn. lia.
  - inversion H; subst. lia.
  - cbn [depth]. apply le_n_S. apply list_max_le. rewrite Forall_map. exact H.
Qed.

(* chain_call: every element adds a level *)
Lemma chain_fold_depth : forall rest acc, length rest + depth acc <= depth (fold_left (fun c n => call c [n]) rest acc).
Proof.
  induction rest as [|n r IH]; intros acc; cbn [fold_left length]; [lia|].
  specialize (IH (call acc [n])). unfold call in IH at 1. cbn [depth] in IH. lia.
Qed.

Theorem chain_call_depth : forall es, length es <= depth (chain_call es).
Proof.
  intros [|e0 rest]; [cbn; lia|]. unfold chain_call.
  pose proof (chain_fold_depth rest (call chain_runner [e0])) as H.
  assert (D : 1 <= depth (call chain_runner [e0])) by (unfold call; cbn [depth]; lia).
  cbn [length]. lia.
Qed.

Theorem wrap_chain_depth : forall es, 2 <= length es -> length es <= depth (wrap cfg_chain_call es).
Proof.
  intros es H. destruct es as [|e [|e2 r]]; cbn [length] in H; try lia.
  cbn [wrap cfg_chain_call cfg_chain]. apply chain_call_depth.
Qed.

(* ---- a family: n consecutive simple statements at module level ---- *)
Definition marks (n : nat) : list stmt := repeat (SExpr (probe "m" 0)) n.

Lemma lower_marks cfg g : n_kind g = NGlobal -> forall n i,
  lower_block cfg (fun c0 p0 s0 => lower_stmt cfg c0 p0 s0) (mkCtx g [] false) [] 0 i (marks n) = inl (repeat (probe "m" 0) n).
Proof.
  intros Hg. induction n as [|n IH]; intros i; [reflexivity|].
  cbn [marks repeat lower_block]. fold (marks n).
  assert (E : lower_stmt cfg (mkCtx g [] false) [i; 0] (SExpr (probe "m" 0)) = inl [probe "m" 0]).
  { cbn [lower_stmt c_nsp]. unfold tr, probe. cbn [transf rmap rbind ret]. unfold get_load_name. rewrite Hg. reflexivity. }
  rewrite E. cbn [rbind is_interrupt].
  destruct n as [|n']; [reflexivity|].
  change (marks (S n')) with (SExpr (probe "m" 0) :: marks n') in *. rewrite (IH (S i)). cbn [rbind].
  unfold guard_of. cbn [c_loops c_nsp]. rewrite Hg. reflexivity.
Qed.

Lemma marks_no_prelude f : (forall e, f (SExpr e) = false) -> forall n, existsb (visits f) (marks n) = false.
Proof. intros Hf. induction n as [|n IH]; [reflexivity|]. cbn [marks repeat existsb visits]. rewrite Hf. cbn. exact IH. Qed.

Lemma lower_module_marks cfg n :
  lower_module cfg top_symtab (marks n) = inl (wrap cfg (repeat (probe "m" 0) n)).
Proof.
  unfold lower_module. destruct (module_nsp (cfg_host_lt_312 cfg)) as [g [Hg [Hk _]]]. rewrite Hg. cbn [rbind].
  rewrite (lower_marks cfg g Hk n 0). cbn [rbind].
  rewrite !marks_no_prelude by (intros e; reflexivity). reflexivity.
Qed.

(* list wrapper: whatever the number of statements, the whole module is an expression of depth at most 3 *)
Theorem statements_depth_list : forall n, exists e, lower_module cfg_list top_symtab (marks n) = inl e /\ depth e <= 3.
Proof.
  intros n. eexists. split; [apply lower_module_marks|].
  apply (wrap_list_depth _ 2). apply Forall_forall. intros e He. apply repeat_spec in He. subst. cbn. lia.
Qed.

(* chain_call wrapper: the depth grows with the number of statements *)
Theorem statements_depth_chain : forall n, 2 <= n -> exists e, lower_module cfg_chain_call top_symtab (marks n) = inl e /\ n <= depth e.
Proof.
  intros n Hn. eexists. split; [apply lower_module_marks|].
  pose proof (wrap_chain_depth (repeat (probe "m" 0) n)) as H. rewrite repeat_length in H. apply H. exact Hn.
Qed.
