(* C17: nesting depth of the generated expression.  With expr_wrapper = list a block of statements becomes ONE list
   display (depth independent of the number of statements); with chain_call every statement adds one level of call
   nesting.  The expression unparser and CPython's compiler recurse on depth, not on width. *)
From Coq Require Import String List ZArith Bool Arith Lia.
From OL Require Import Sexp PyAst Namespace Lower KSem KSim.
Import ListNotations.
Open Scope string_scope.
Open Scope list_scope.

Definition list_max (l : list nat) : nat := fold_right Nat.max 0 l.

(* depth of the call/display spine (enough to state the two wrappers' behaviour) *)
Fixpoint depth (e : expr) : nat :=
  match e with
  | EList es | ETuple es | ESet es => S (list_max (map depth es))
  | Call f args _ => S (Nat.max (depth f) (list_max (map depth args)))
  | Subscript v s => S (Nat.max (depth v) (depth s))
  | IfExp t b o => S (Nat.max (depth t) (Nat.max (depth b) (depth o)))
  | NamedExpr _ v => S (depth v)
  | Lambda _ _ _ _ _ _ _ b => S (depth b)
  | UnaryOp _ v => S (depth v)
  | _ => 1
  end.

Lemma list_max_le l n : Forall (fun x => x <= n) l -> list_max l <= n.
Proof. induction 1; cbn; [lia|]. apply Nat.max_lub; assumption. Qed.

Lemma list_max_ge l x : List.In x l -> x <= list_max l.
Proof. induction l as [|y r IH]; intros []; cbn; [subst; apply Nat.le_max_l|]. etransitivity; [apply IH; assumption|apply Nat.le_max_r]. Qed.

(* ---- the two wrappers ---- *)
Definition cfg_list : config := mkCfg false false false.
Definition cfg_chain_call : config := mkCfg true false false.

(* list: one more level than the deepest element, however many elements there are *)
Theorem wrap_list_depth : forall es d, Forall (fun e => depth e <= d) es -> depth (wrap cfg_list es) <= S d.
Proof.
  intros es d H. destruct es as [|e [|e2 r]]; cbn [wrap cfg_list cfg_chain].
  - cbn. lia.
  - inversion H; subst. lia.
  - cbn [depth]. apply le_n_S. apply list_max_le. rewrite Forall_map. exact H.
Qed.

(* chain_call: every element adds a level *)
Lemma chain_fold_depth : forall rest acc, length rest + depth acc <= depth (fold_left (fun c n => call c [n]) rest acc).
Proof.
  induction rest as [|n r IH]; intros acc; cbn [fold_left length]; [lia|].
  specialize (IH (call acc [n])). unfold call in IH at 1. cbn [depth] in IH. lia.
Qed.

Theorem chain_call_depth : forall es, length es <= depth (chain_call es).
Proof.
  intros [|e0 rest]; [cbn; lia|]. unfold chain_call.
  pose proof (chain_fold_depth rest (call chain_runner [e0])) as H.
  assert (D : 1 <= depth (call chain_runner [e0])) by (unfold call; cbn [depth]; lia).
  cbn [length]. lia.
Qed.

Theorem wrap_chain_depth : forall es, 2 <= length es -> length es <= depth (wrap cfg_chain_call es).
Proof.
  intros es H. destruct es as [|e [|e2 r]]; cbn [length] in H; try lia.
  cbn [wrap cfg_chain_call cfg_chain]. apply chain_call_depth.
Qed.

(* ---- a family: n consecutive simple statements at module level ---- *)
Definition marks (n : nat) : list stmt := repeat (SExpr (probe "m" 0)) n.

Lemma lower_marks cfg g : n_kind g = NGlobal -> forall n i,
  lower_block cfg (fun c0 p0 s0 => lower_stmt cfg c0 p0 s0) (mkCtx g [] false) [] 0 i (marks n) = inl (repeat (probe "m" 0) n).
Proof.
  intros Hg. induction n as [|n IH]; intros i; [reflexivity|].
  cbn [marks repeat lower_block]. fold (marks n).
  assert (E : lower_stmt cfg (mkCtx g [] false) [i; 0] (SExpr (probe "m" 0)) = inl [probe "m" 0]).
  { cbn [lower_stmt c_nsp]. unfold tr, probe. cbn [transf rmap rbind ret]. unfold get_load_name. rewrite Hg. reflexivity. }
  rewrite E. cbn [rbind is_interrupt].
  destruct n as [|n']; [reflexivity|].
  change (marks (S n')) with (SExpr (probe "m" 0) :: marks n') in *. rewrite (IH (S i)). cbn [rbind].
  unfold guard_of. cbn [c_loops c_nsp]. rewrite Hg. reflexivity.
Qed.

Lemma marks_no_prelude f : (forall e, f (SExpr e) = false) -> forall n, existsb (visits f) (marks n) = false.
Proof. intros Hf. induction n as [|n IH]; [reflexivity|]. cbn [marks repeat existsb visits]. rewrite Hf. cbn. exact IH. Qed.

Lemma lower_module_marks cfg n :
  lower_module cfg top_symtab (marks n) = inl (wrap cfg (repeat (probe "m" 0) n)).
Proof.
  unfold lower_module. destruct (module_nsp (cfg_host_lt_312 cfg)) as [g [Hg [Hk _]]]. rewrite Hg. cbn [rbind].
  rewrite (lower_marks cfg g Hk n 0). cbn [rbind].
  rewrite !marks_no_prelude by (intros e; reflexivity). reflexivity.
Qed.

(* list wrapper: whatever the number of statements, the whole module is an expression of depth at most 3 *)
Theorem statements_depth_list : forall n, exists e, lower_module cfg_list top_symtab (marks n) = inl e /\ depth e <= 3.
Proof.
  intros n. eexists. split; [apply lower_module_marks|].
  apply (wrap_list_depth _ 2). apply Forall_forall. intros e He. apply repeat_spec in He. subst. cbn. lia.
Qed.

(* chain_call wrapper: the depth grows with the number of statements *)
Theorem statements_depth_chain : forall n, 2 <= n -> exists e, lower_module cfg_chain_call top_symtab (marks n) = inl e /\ n <= depth e.
Proof.
  intros n Hn. eexists. split; [apply lower_module_marks|].
  pose proof (wrap_chain_depth (repeat (probe "m" 0) n)) as H. rewrite repeat_length in H. apply H. exact Hn.
Qed.

(* ================================================================================================== *)
(* full nesting height of an expression tree: every child of every node counts *)
Fixpoint height (e : expr) : nat :=
  let hs := fix hs (l : list expr) : nat := match l with [] => 0 | x :: r => Nat.max (height x) (hs r) end in
  let ho := fun (o : option expr) => match o with Some x => height x | None => 0 end in
  let hos := fix hos (l : list (option expr)) : nat :=
    match l with [] => 0 | o :: r => Nat.max (match o with Some x => height x | None => 0 end) (hos r) end in
  let hk := fix hk (l : list (option ident * expr)) : nat :=
    match l with [] => 0 | (_, x) :: r => Nat.max (height x) (hk r) end in
  let hg := fix hg (l : list (expr * expr * list expr * bool)) : nat :=
    match l with
    | [] => 0
    | (t, i, ifs, _) :: r => Nat.max (Nat.max (height t) (Nat.max (height i) (hs ifs))) (hg r)
    end in
  S match e with
    | Name _ | Constant _ | Other _ => 0
    | JoinedStr vs => hs vs
    | FormattedValue v _ spec => Nat.max (height v) (ho spec)
    | Starred v | UnaryOp _ v | Attribute v _ | NamedExpr _ v | YieldFrom v | Await v => height v
    | BinOp l _ r => Nat.max (height l) (height r)
    | BoolOp _ vs | EList vs | ETuple vs | ESet vs => hs vs
    | EDict ks vs => Nat.max (hos ks) (hs vs)
    | Compare l _ cs => Nat.max (height l) (hs cs)
    | Subscript v s => Nat.max (height v) (height s)
    | Slice a b c => Nat.max (ho a) (Nat.max (ho b) (ho c))
    | Call f args kws => Nat.max (height f) (Nat.max (hs args) (hk kws))
    | Lambda _ _ _ _ kwd _ ds b => Nat.max (hos kwd) (Nat.max (hs ds) (height b))
    | ListComp x gens | SetComp x gens | GeneratorExp x gens => Nat.max (height x) (hg gens)
    | DictComp k v gens => Nat.max (height k) (Nat.max (height v) (hg gens))
    | IfExp t b o => Nat.max (height t) (Nat.max (height b) (height o))
    | Yield v => ho v
    end.

Definition heights (l : list expr) : nat := fold_right (fun x a => Nat.max (height x) a) 0 l.

Lemma heights_repeat x n : heights (repeat x n) <= height x.
Proof. unfold heights. induction n as [|n IH]; cbn [repeat fold_right]; lia. Qed.

Lemma heights_app a b : heights (a ++ b) = Nat.max (heights a) (heights b).
Proof. unfold heights. induction a as [|x a IH]; cbn [app fold_right]; [reflexivity|]. rewrite IH. lia. Qed.

Lemma height_EList es : height (EList es) = S (heights es).
Proof. reflexivity. Qed.

Lemma wrap_list_height es : height (wrap cfg_list es) <= S (heights es).
Proof.
  destruct es as [|e [|e2 r]]; cbn [wrap cfg_list cfg_chain].
  - cbn. lia.
  - cbn. lia.
  - rewrite height_EList. lia.
Qed.

(* ---- a long run of statements AFTER an early exit of the same block ---- *)
Definition guard_stmt : stmt := SIf (probe "c" 1) [SBreak] [].
Definition guard_prog (n : nat) : list stmt := [SWhile (probe "c" 0) (guard_stmt :: marks n) []].

Lemma tr_probe g f k : n_kind g = NGlobal -> tr g (probe f k) = inl (probe f k).
Proof. intros Hg. unfold tr, probe. cbn [transf rmap rbind ret]. unfold get_load_name. rewrite Hg. reflexivity. Qed.

Lemma lower_marks_ctx cfg c : n_kind (c_nsp c) = NGlobal -> forall n p br i,
  lower_block cfg (fun c0 p0 s0 => lower_stmt cfg c0 p0 s0) c p br i (marks n) = inl (repeat (probe "m" 0) n).
Proof.
  intros Hg. induction n as [|n IH]; intros p br i; [reflexivity|].
  cbn [marks repeat lower_block]. fold (marks n).
  assert (E : lower_stmt cfg c (i :: br :: p) (SExpr (probe "m" 0)) = inl [probe "m" 0]).
  { cbn [lower_stmt]. rewrite tr_probe by exact Hg. reflexivity. }
  rewrite E. cbn [rbind is_interrupt].
  destruct n as [|n']; [reflexivity|].
  change (marks (S n')) with (SExpr (probe "m" 0) :: marks n') in *. rewrite (IH p br (S i)). cbn [rbind].
  unfold guard_of. destruct (c_loops c) as [|l ls]; [rewrite Hg; reflexivity|].
  reflexivity.
Qed.

Lemma lower_guard_while g n : n_kind g = NGlobal ->
  lower_stmt cfg_list (mkCtx g [] false) [0; 0] (SWhile (probe "c" 0) (guard_stmt :: marks (S n)) []) =
  inl [NamedExpr "__ol_break_0_0_" cfalse;
       while_comp "__ol_while_0_0_"
         (EList
            [NamedExpr "__ol_interrupt_0_0_" cfalse;
             IfExp (probe "c" 1)
                   (EList [NamedExpr "__ol_break_0_0_" ctrue; NamedExpr "__ol_interrupt_0_0_" ctrue])
                   ellipsis;
             guarded cfg_list "__ol_interrupt_0_0_" (repeat (probe "m" 0) (S n))])
         (BoolOp And [UnaryOp Not (Name "__ol_break_0_0_"); probe "c" 0])].
Proof.
  intros Hk.
  assert (HB : brk_block (guard_stmt :: marks (S n)) = true) by reflexivity.
  assert (HU : uses_flag mi_loop (guard_stmt :: marks (S n)) = true) by reflexivity.
  cbn [lower_stmt]. rewrite HB, HU. cbn [c_nsp c_loops c_ret_used].
  cbn [lower_block].
  match goal with |- context [lower_block cfg_list _ ?c _ _ _ (marks (S n))] =>
    rewrite (lower_marks_ctx cfg_list c Hk (S n)) end.
  match goal with |- context [lower_stmt cfg_list ?c ?p guard_stmt] =>
    assert (E : lower_stmt cfg_list c p guard_stmt =
                inl [IfExp (probe "c" 1)
                       (EList [NamedExpr "__ol_break_0_0_" ctrue; NamedExpr "__ol_interrupt_0_0_" ctrue]) ellipsis])
  end.
  { unfold guard_stmt. cbn [lower_stmt lower_block c_nsp c_loops rbind ret is_interrupt]. rewrite tr_probe by exact Hk.
    reflexivity. }
  rewrite E. rewrite tr_probe by exact Hk. reflexivity.
Qed.

Lemma marks_ex_live f : (forall e, f (SExpr e) = false) -> forall n, ex_live f (marks n) = false.
Proof. intros Hf. induction n as [|n IH]; [reflexivity|]. cbn [marks repeat ex_live is_interrupt]. rewrite Hf. exact IH. Qed.

Lemma marks_not_visited f : (forall e, f (SExpr e) = false) -> forall n, ex_live (visits f) (marks n) = false.
Proof. intros Hf. apply marks_ex_live. intros e. cbn [visits]. rewrite Hf. reflexivity. Qed.

Definition guard_out (rest : list expr) : expr :=
  EList
    [import_lib "itertools";
     NamedExpr "__ol_break_0_0_" cfalse;
     while_comp "__ol_while_0_0_"
       (EList
          [NamedExpr "__ol_interrupt_0_0_" cfalse;
           IfExp (probe "c" 1)
                 (EList [NamedExpr "__ol_break_0_0_" ctrue; NamedExpr "__ol_interrupt_0_0_" ctrue])
                 ellipsis;
           guarded cfg_list "__ol_interrupt_0_0_" rest])
       (BoolOp And [UnaryOp Not (Name "__ol_break_0_0_"); probe "c" 0])].

Lemma lower_guard_prog n :
  lower_module cfg_list top_symtab (guard_prog (S n)) = inl (guard_out (repeat (probe "m" 0) (S n))).
Proof.
  unfold lower_module. destruct (module_nsp (cfg_host_lt_312 cfg_list)) as [g [Hg [Hk _]]]. rewrite Hg. cbn [rbind].
  unfold guard_prog. cbn [lower_block]. rewrite (lower_guard_while g n Hk). cbn [rbind is_interrupt ret].
  cbn [existsb visits ex_live is_interrupt guard_stmt orb].
  rewrite !marks_not_visited by (intros e; reflexivity).
  reflexivity.
Qed.


Lemma guard_out_height rest : heights rest <= 2 -> height (guard_out rest) <= 7.
Proof.
  intros H. pose proof (wrap_list_height rest) as W.
  unfold guard_out, while_comp, guarded, import_lib, probe, call, cfalse, ctrue, ellipsis.
  remember (wrap cfg_list rest) as w eqn:Ew. clear Ew.
  cbn [height]. change (height (cstr "itertools")) with 1.
  assert (Hw : height w <= 3) by lia. clear W H. remember (height w) as hw eqn:E. clear E.
  destruct hw as [|[|[|[|hw]]]]; [vm_compute; lia ..|lia].
Qed.


(* list wrapper: an early exit followed by ANY number of statements in the same block is an expression of height 7:
   the rest of the block sits under ONE test of the exit's flag, not one nesting level per statement *)
Theorem guarded_statements_height_list : forall n,
  exists e, lower_module cfg_list top_symtab (guard_prog n) = inl e /\ height e <= 7.
Proof.
  intros [|n].
  - eexists. split; [vm_compute; reflexivity|]. vm_compute. lia.
  - eexists. split; [apply lower_guard_prog|]. apply guard_out_height.
    etransitivity; [apply heights_repeat|]. vm_compute. lia.
Qed.

(* ---- the same after a `continue` of a for loop ---- *)
Definition cont_stmt : stmt := SIf (probe "c" 1) [SContinue] [].
Definition cont_prog (n : nat) : list stmt := [SFor (Name "x") (probe "it" 0) (cont_stmt :: marks n) []].

Definition cont_out (rest : list expr) : expr :=
  ListComp
    (EList
       [NamedExpr "__ol_interrupt_0_0_" cfalse;
        NamedExpr "x" (Name "__ol_for_0_0_");
        IfExp (probe "c" 1) (EList [NamedExpr "__ol_interrupt_0_0_" ctrue]) ellipsis;
        guarded cfg_list "__ol_interrupt_0_0_" rest])
    [(Name "__ol_for_0_0_", probe "it" 0, [], false)].

Lemma lower_cont_for g n : n_kind g = NGlobal ->
  lower_stmt cfg_list (mkCtx g [] false) [0; 0] (SFor (Name "x") (probe "it" 0) (cont_stmt :: marks (S n)) []) =
  inl [cont_out (repeat (probe "m" 0) (S n))].
Proof.
  intros Hk.
  assert (HB : brk_block (cont_stmt :: marks (S n)) = false).
  { unfold brk_block. cbn [ex_live cont_stmt brk_loop is_interrupt orb]. apply marks_ex_live. reflexivity. }
  assert (HU : uses_flag mi_loop (cont_stmt :: marks (S n)) = true) by reflexivity.
  assert (HM : mi_block (cont_stmt :: marks (S n)) = true) by reflexivity.
  cbn [lower_stmt]. rewrite HB, HU, HM. cbn [c_nsp c_loops c_ret_used].
  cbn [lower_block].
  match goal with |- context [lower_block cfg_list _ ?c _ _ _ (marks (S n))] =>
    rewrite (lower_marks_ctx cfg_list c Hk (S n)) end.
  match goal with |- context [lower_stmt cfg_list ?c ?p cont_stmt] =>
    assert (E : lower_stmt cfg_list c p cont_stmt =
                inl [IfExp (probe "c" 1) (EList [NamedExpr "__ol_interrupt_0_0_" ctrue]) ellipsis])
  end.
  { unfold cont_stmt. cbn [lower_stmt lower_block c_nsp c_loops rbind ret is_interrupt]. rewrite tr_probe by exact Hk.
    reflexivity. }
  rewrite E. rewrite tr_probe by exact Hk. cbn [assign_auto]. unfold get_assign. rewrite Hk. reflexivity.
Qed.

Lemma lower_cont_prog n :
  lower_module cfg_list top_symtab (cont_prog (S n)) = inl (cont_out (repeat (probe "m" 0) (S n))).
Proof.
  unfold lower_module. destruct (module_nsp (cfg_host_lt_312 cfg_list)) as [g [Hg [Hk _]]]. rewrite Hg. cbn [rbind].
  unfold cont_prog. cbn [lower_block]. rewrite (lower_cont_for g n Hk). cbn [rbind is_interrupt ret].
  assert (HB : brk_block (cont_stmt :: marks (S n)) = false).
  { unfold brk_block. cbn [ex_live cont_stmt brk_loop is_interrupt orb]. apply marks_ex_live. reflexivity. }
  cbn [existsb visits orb]. rewrite HB.
  cbn [ex_live visits is_interrupt cont_stmt orb].
  rewrite !marks_not_visited by (intros e; reflexivity).
  reflexivity.
Qed.

Lemma cont_out_height rest : heights rest <= 2 -> height (cont_out rest) <= 6.
Proof.
  intros H. pose proof (wrap_list_height rest) as W.
  unfold cont_out, guarded, probe, call, cfalse, ctrue, ellipsis.
  remember (wrap cfg_list rest) as w eqn:Ew. clear Ew.
  cbn [height].
  assert (Hw : height w <= 3) by lia. clear W H. remember (height w) as hw eqn:E. clear E.
  destruct hw as [|[|[|[|hw]]]]; [vm_compute; lia ..|lia].
Qed.

Theorem continued_statements_height_list : forall n,
  exists e, lower_module cfg_list top_symtab (cont_prog n) = inl e /\ height e <= 6.
Proof.
  intros [|n].
  - eexists. split; [vm_compute; reflexivity|]. vm_compute. lia.
  - eexists. split; [apply lower_cont_prog|]. apply cont_out_height.
    etransitivity; [apply heights_repeat|]. vm_compute. lia.
Qed.

(* the plain statement family again, for the full height (every child of every node counted) *)
Theorem statements_height_list : forall n, exists e, lower_module cfg_list top_symtab (marks n) = inl e /\ height e <= 3.
Proof.
  intros n. eexists. split; [apply lower_module_marks|].
  etransitivity; [apply wrap_list_height|]. apply le_n_S. etransitivity; [apply heights_repeat|]. vm_compute. lia.
Qed.

(* ---- the same after a `return` inside a function ---- *)
Definition ret_stmt : stmt := SIf (probe "c" 1) [SReturn None] [].
Definition ret_prog (n : nat) : list stmt := [SFunctionDef "f" 1 no_args (ret_stmt :: marks n) []].

Lemma lower_marks_transparent cfg c : transparent (c_nsp c) -> forall n p br i,
  lower_block cfg (fun c0 p0 s0 => lower_stmt cfg c0 p0 s0) c p br i (marks n) = inl (repeat (probe "m" 0) n).
Proof.
  intros Ht. induction n as [|n IH]; intros p br i; [reflexivity|].
  cbn [marks repeat lower_block]. fold (marks n).
  assert (E : lower_stmt cfg c (i :: br :: p) (SExpr (probe "m" 0)) = inl [probe "m" 0]).
  { cbn [lower_stmt]. rewrite KSim.tr_probe by exact Ht. reflexivity. }
  rewrite E. cbn [rbind is_interrupt].
  destruct n as [|n']; [reflexivity|].
  change (marks (S n')) with (SExpr (probe "m" 0) :: marks n') in *. rewrite (IH p br (S i)). cbn [rbind].
  unfold guard_of. destruct (c_loops c) as [|l ls]; [|reflexivity].
  destruct (n_kind (c_nsp c)); reflexivity.
Qed.

Definition ret_out (rest : list expr) : expr :=
  NamedExpr "f"
    (Lambda [] [] None [] [] None []
       (Subscript
          (EList
             [NamedExpr "__ol_retv_1" cnone;
              NamedExpr "__ol_ret_1" cfalse;
              IfExp (probe "c" 1) (EList [NamedExpr "__ol_ret_1" ctrue]) ellipsis;
              guarded cfg_list "__ol_ret_1" rest;
              Name "__ol_retv_1"])
          minus1)).

Lemma lower_ret_def g fn n :
  n_kind g = NGlobal -> find_inner g "f" 1 = Some fn -> n_kind fn = NFunction -> n_id fn = 1 -> transparent fn ->
  n_zero_super fn = false -> n_inner_nonlocal fn = [] -> n_is_method fn = false -> set_params fn [] = fn ->
  lower_stmt cfg_list (mkCtx g [] false) [0; 0] (SFunctionDef "f" 1 no_args (ret_stmt :: marks (S n)) []) =
  inl [ret_out (repeat (probe "m" 0) (S n))].
Proof.
  intros Hk Hf Hfk Hid Ht Hz Hin Him Hsp.
  assert (HU : uses_flag has_ret (ret_stmt :: marks (S n)) = true) by reflexivity.
  cbn [lower_stmt c_nsp]. rewrite Hf, Hfk. cbn [no_args a_defaults a_kw_defaults a_posonly a_args a_vararg a_kwonly a_kwarg rmap rbind ret app].
  rewrite HU, Hsp. cbn [lower_block].
  match goal with |- context [lower_block cfg_list _ ?c _ _ _ (marks (S n))] =>
    rewrite (lower_marks_transparent cfg_list c Ht (S n)) end.
  match goal with |- context [lower_stmt cfg_list ?c ?p ret_stmt] =>
    assert (E : lower_stmt cfg_list c p ret_stmt =
                inl [IfExp (probe "c" 1) (EList [NamedExpr "__ol_ret_1" ctrue]) ellipsis])
  end.
  { unfold ret_stmt. cbn [lower_stmt lower_block c_nsp c_loops c_ret_used rbind ret is_interrupt]. rewrite Hfk.
    rewrite KSim.tr_probe by exact Ht. cbn [rbind ret rev map flat_map app]. rewrite Hid. reflexivity. }
  rewrite E. cbn [rbind ret is_interrupt].
  unfold guard_of. cbn [c_loops c_nsp]. rewrite Hfk. cbn [has_ret ret_stmt].
  cbn [is_interrupt marks repeat ex_live has_ret orb rbind ret rev]. fold (repeat (probe "m" 0) n).
  rewrite Hz, Hin, Hid, Him. cbn [andb hook_wrap]. unfold hook_wrap. cbn [andb].
  unfold get_assign. rewrite Hk. reflexivity.
Qed.

Lemma lower_ret_prog n :
  lower_module cfg_list fun_symtab (ret_prog (S n)) = inl (ret_out (repeat (probe "m" 0) (S n))).
Proof.
  unfold lower_module. destruct fun_nsp as [g [fn [Hg [Hk [Hfind [Hfk [Hfid [Hft [Hzs [Hin [Him Hsp]]]]]]]]]]].
  cbn [cfg_list cfg_host_lt_312]. rewrite Hg. cbn [rbind]. fold cfg_list.
  unfold ret_prog. cbn [lower_block].
  rewrite (lower_ret_def g fn n Hk Hfind Hfk Hfid Hft Hzs Hin Him Hsp). cbn [rbind is_interrupt ret].
  cbn [existsb visits orb].
  assert (HB : forall f, (forall e, f (SExpr e) = false) -> f ret_stmt = false -> f (SReturn None) = false ->
                ex_live (visits f) (ret_stmt :: marks (S n)) = false).
  { intros f H1 H2 H3. cbn [ex_live visits ret_stmt is_interrupt orb]. unfold ret_stmt in H2. rewrite H2, H3. cbn [orb].
    apply marks_not_visited. exact H1. }
  rewrite !HB by (first [intros e; reflexivity|reflexivity]).
  reflexivity.
Qed.

Lemma ret_out_height rest : heights rest <= 2 -> height (ret_out rest) <= 8.
Proof.
  intros H. pose proof (wrap_list_height rest) as W.
  unfold ret_out, guarded, probe, call, cfalse, ctrue, cnone, ellipsis, minus1, cint.
  remember (wrap cfg_list rest) as w eqn:Ew. clear Ew.
  cbn [height].
  assert (Hw : height w <= 3) by lia. clear W H. remember (height w) as hw eqn:E. clear E.
  destruct hw as [|[|[|[|hw]]]]; [vm_compute; lia ..|lia].
Qed.

(* a `def` whose body is `if c(1): return` followed by n statements: height 8 for EVERY n *)
Theorem returned_statements_height_list : forall n,
  exists e, lower_module cfg_list fun_symtab (ret_prog n) = inl e /\ height e <= 8.
Proof.
  intros [|n].
  - eexists. split; [vm_compute; reflexivity|]. vm_compute. lia.
  - eexists. split; [apply lower_ret_prog|]. apply ret_out_height.
    etransitivity; [apply heights_repeat|]. vm_compute. lia.
Qed.
