(* C17: the mechanism behind the known finding K-guard-clause-nesting.  In the lowering of a block, a statement that can take
   an early exit (`bumps`) puts the lowering of the REST of the block under one test of the exit's flag (`guarded`), and with
   the list wrapper that test is at least one level above everything in the rest - so k guard clauses in one block nest the
   output k levels deep, whatever the statements are. *)
From Coq Require Import String List ZArith Bool Arith Lia.
From OL Require Import PyAst Namespace Lower KSem KSim Depth.
Import ListNotations.

Lemma height_IfExp t b o : height (IfExp t b o) = S (Nat.max (height t) (Nat.max (height b) (height o))).
Proof. reflexivity. Qed.

Lemma guarded_adds_a_level flag rs : rs <> [] -> S (heights rs) <= height (guarded cfg_list flag rs).
Proof.
  intros Hne. unfold guarded. rewrite height_IfExp.
  destruct rs as [|x [|y r]]; [contradiction| |].
  - cbn [wrap heights fold_right]. lia.
  - change (wrap cfg_list (x :: y :: r)) with (EList (x :: y :: r)). rewrite height_EList. lia.
Qed.

(* what lower_block does with a statement that bumps the flag of its context, for ANY statement lowering L *)
Lemma block_after_guard cfg L c p br i s rest es rs bumps flag :
  rest <> [] -> L c (i :: br :: p) s = inl es -> is_interrupt s = false ->
  lower_block cfg L c p br (S i) rest = inl rs ->
  guard_of c = (bumps, Some flag) -> bumps s = true ->
  lower_block cfg L c p br i (s :: rest) = inl (es ++ [guarded cfg flag rs]).
Proof.
  intros Hne HL Hi Hr Hg Hb. cbn [lower_block]. rewrite HL. cbn [rbind]. rewrite Hi.
  destruct rest as [|r0 rest']; [contradiction|]. rewrite Hr. cbn [rbind]. rewrite Hg, Hb. reflexivity.
Qed.

Lemma heights_In x l : List.In x l -> height x <= heights l.
Proof. induction l as [|y l IH]; [contradiction|]. intros [->|H]; cbn [heights fold_right]; [lia|]. specialize (IH H). unfold heights in IH. lia. Qed.

(* THEOREM: every guard of a block adds (at least) one level above the whole rest of the block *)
Theorem each_guard_adds_a_level : forall L c p br i s rest es rs bumps flag,
  rest <> [] -> rs <> [] -> L c (i :: br :: p) s = inl es -> is_interrupt s = false ->
  lower_block cfg_list L c p br (S i) rest = inl rs ->
  guard_of c = (bumps, Some flag) -> bumps s = true ->
  exists out, lower_block cfg_list L c p br i (s :: rest) = inl out /\ S (heights rs) <= heights out.
Proof.
  intros L c p br i s rest es rs bumps flag Hne Hrs HL Hi Hr Hg Hb.
  eexists. split; [eapply block_after_guard; eassumption|].
  etransitivity; [apply (guarded_adds_a_level flag rs Hrs)|].
  apply heights_In. apply List.in_or_app. right. left. reflexivity.
Qed.

(* the family of the finding, computed on the converter model: k guard clauses `if c(1): break` followed by one statement in a
   while body - the height of the module's expression grows by TWO per guard (the test and the list display of the rest): 2k + 5 *)
Definition guards_prog (k : nat) : list stmt := [SWhile (probe "c" 0) (repeat guard_stmt k ++ marks 1) []].
Definition guards_height (k : nat) : option nat :=
  match lower_module cfg_list top_symtab (guards_prog k) with inl e => Some (height e) | inr _ => None end.

Example guards_height_grows :
  map guards_height [1; 2; 3; 4; 10; 30] = [Some 7; Some 9; Some 11; Some 13; Some 25; Some 65].
Proof. vm_compute. reflexivity. Qed.
