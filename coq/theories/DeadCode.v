From Coq Require Import String List ZArith Bool.
From OL Require Import PyAst Namespace Lower KSem KSim Depth Reject.
Import ListNotations.
Local Open Scope string_scope.

(* the statements after a direct break / continue / return of a block are not dispatched: the FULL statement "a program that
   contains an unsupported statement anywhere is refused" is false of the faithful model (known finding K-dead-code-unchecked) *)
Definition dead_code_prog : list stmt := [SWhile (probe "c" 0) [SBreak; SUnsupported "Try"] []].

Lemma dead_code_unchecked :
  (exists e, lower_module cfg_list top_symtab dead_code_prog = inl e) /\
  existsb reaches_unsupported dead_code_prog = false.
Proof. split; [eexists; vm_compute; reflexivity | vm_compute; reflexivity]. Qed.
