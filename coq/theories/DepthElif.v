(* C17: a long if / elif / ... / else chain.

   Python's own tree of such a chain nests one `If` per branch (the `orelse` of a branch holds the next branch), so the
   source itself is n levels deep.  Theorems, for EVERY number n of branches:
     - if_style = short_circuit (list wrapper): the whole chain is ONE flat `or` of n `and` pairs - height 6, however long
       the chain is (pending_nodes.py: "a long elif chain stays flat");
     - if_style = if_expr: one conditional expression per branch, nested in the else position - height n + 2 (probes are calls), i.e. the
       nesting of the source plus a constant (no amplification). *)
From Coq Require Import String List ZArith Bool Arith Lia.
From OL Require Import PyAst Namespace Lower KSem KSim Depth.
Import ListNotations.
Local Open Scope string_scope.
Local Open Scope list_scope.

Definition cfg_short_list : config := mkCfg false true false.

(* n tests, each guarding one statement, and a final else *)
Fixpoint elif_chain (n : nat) : list stmt :=
  match n with
  | 0 => [SExpr (probe "m" 0)]
  | S k => [SIf (probe "c" 0) [SExpr (probe "m" 0)] (elif_chain k)]
  end.

(* nesting of the SOURCE statement tree *)
Fixpoint stmt_nest (n : nat) : nat := match n with 0 => 1 | S k => S (stmt_nest k) end.

Definition semi : expr := BoolOp And [UnaryOp Not (UnaryOp Not (probe "c" 0)); EList [probe "m" 0]].

Definition elif_out_short (n : nat) : expr :=
  match n with
  | 0 => probe "m" 0
  | S k => BoolOp Or (repeat semi (S k) ++ [probe "m" 0])
  end.

Fixpoint elif_out_ifexp (n : nat) : expr :=
  match n with
  | 0 => probe "m" 0
  | S k => IfExp (probe "c" 0) (probe "m" 0) (elif_out_ifexp k)
  end.

Lemma lower_one_mark cfg c p br i : n_kind (c_nsp c) = NGlobal ->
  lower_block cfg (fun c0 p0 s0 => lower_stmt cfg c0 p0 s0) c p br i [SExpr (probe "m" 0)] = inl [probe "m" 0].
Proof. intros Hg. exact (lower_marks_ctx cfg c Hg 1 p br i). Qed.

Lemma lower_elif_short c : n_kind (c_nsp c) = NGlobal -> forall n p br i,
  lower_block cfg_short_list (fun c0 p0 s0 => lower_stmt cfg_short_list c0 p0 s0) c p br i (elif_chain n)
  = inl [elif_out_short n].
Proof.
  intros Hg. induction n as [|n IH]; intros p br i.
  - apply lower_one_mark. exact Hg.
  - cbn [elif_chain lower_block].
    assert (E : lower_stmt cfg_short_list c (i :: br :: p) (SIf (probe "c" 0) [SExpr (probe "m" 0)] (elif_chain n))
                = inl [elif_out_short (S n)]).
    { cbn [lower_stmt]. rewrite (lower_one_mark cfg_short_list c _ 0 0 Hg). cbn [rbind].
      rewrite (IH (i :: br :: p) 1 0). cbn [rbind]. rewrite tr_probe by exact Hg. cbn [rbind ret].
      unfold if_result. cbn [cfg_short cfg_short_list wrap].
      destruct n as [|k]; [reflexivity|]. cbn [elif_out_short]. reflexivity. }
    rewrite E. reflexivity.
Qed.

Lemma lower_elif_ifexp c : n_kind (c_nsp c) = NGlobal -> forall n p br i,
  lower_block cfg_list (fun c0 p0 s0 => lower_stmt cfg_list c0 p0 s0) c p br i (elif_chain n)
  = inl [elif_out_ifexp n].
Proof.
  intros Hg. induction n as [|n IH]; intros p br i.
  - apply lower_one_mark. exact Hg.
  - cbn [elif_chain lower_block].
    assert (E : lower_stmt cfg_list c (i :: br :: p) (SIf (probe "c" 0) [SExpr (probe "m" 0)] (elif_chain n))
                = inl [elif_out_ifexp (S n)]).
    { cbn [lower_stmt]. rewrite (lower_one_mark cfg_list c _ 0 0 Hg). cbn [rbind].
      rewrite (IH (i :: br :: p) 1 0). cbn [rbind]. rewrite tr_probe by exact Hg. cbn [rbind ret].
      reflexivity. }
    rewrite E. reflexivity.
Qed.

Lemma elif_not_visited f : (forall e, f (SExpr e) = false) -> (forall t b o, f (SIf t b o) = false) ->
  forall n, ex_live (visits f) (elif_chain n) = false.
Proof.
  intros Hf Hi. induction n as [|n IH].
  - cbn [elif_chain ex_live visits is_interrupt]. rewrite Hf. reflexivity.
  - cbn [elif_chain ex_live visits is_interrupt]. rewrite Hi, IH. cbn [ex_live visits is_interrupt]. rewrite Hf. reflexivity.
Qed.

Lemma elif_existsb f : (forall e, f (SExpr e) = false) -> (forall t b o, f (SIf t b o) = false) ->
  forall n, existsb (visits f) (elif_chain n) = false.
Proof.
  intros Hf Hi n. pose proof (elif_not_visited f Hf Hi n) as H.
  destruct n as [|n]; cbn [elif_chain existsb ex_live is_interrupt] in *; rewrite orb_false_r in *; exact H.
Qed.

Lemma lower_module_elif_short n : lower_module cfg_short_list top_symtab (elif_chain n) = inl (elif_out_short n).
Proof.
  unfold lower_module. destruct (module_nsp (cfg_host_lt_312 cfg_short_list)) as [g [Hg [Hk _]]]. rewrite Hg. cbn [rbind].
  rewrite (lower_elif_short (mkCtx g [] false) Hk n [] 0 0). cbn [rbind].
  rewrite !elif_existsb by (intros; reflexivity). reflexivity.
Qed.

Lemma lower_module_elif_ifexp n : lower_module cfg_list top_symtab (elif_chain n) = inl (elif_out_ifexp n).
Proof.
  unfold lower_module. destruct (module_nsp (cfg_host_lt_312 cfg_list)) as [g [Hg [Hk _]]]. rewrite Hg. cbn [rbind].
  rewrite (lower_elif_ifexp (mkCtx g [] false) Hk n [] 0 0). cbn [rbind].
  rewrite !elif_existsb by (intros; reflexivity). reflexivity.
Qed.

Lemma heights_semis k : heights (repeat semi k ++ [probe "m" 0]) <= 5.
Proof.
  rewrite heights_app. pose proof (heights_repeat semi k) as H.
  assert (Hs : height semi = 5) by (vm_compute; reflexivity).
  assert (Hm : heights [probe "m" 0] = 2) by (vm_compute; reflexivity).
  rewrite Hm. rewrite Hs in H. lia.
Qed.

Lemma height_BoolOp op vs : height (BoolOp op vs) = S (heights vs).
Proof. reflexivity. Qed.

(* short-circuit style: flat, for every number of branches *)
Theorem elif_chain_height_short : forall n,
  exists e, lower_module cfg_short_list top_symtab (elif_chain n) = inl e /\ height e <= 6.
Proof.
  intros n. eexists. split; [apply lower_module_elif_short|].
  destruct n as [|k]; [vm_compute; lia|]. cbn [elif_out_short]. rewrite height_BoolOp.
  change (semi :: repeat semi k) with (repeat semi (S k)). pose proof (heights_semis (S k)). lia.
Qed.

Lemma height_elif_ifexp n : height (elif_out_ifexp n) = n + 2.
Proof.
  induction n as [|n IH]; [vm_compute; reflexivity|].
  cbn [elif_out_ifexp]. cbn [height] in *. change (height (probe "c" 0)) with 2. change (height (probe "m" 0)) with 2.
  fold height. rewrite IH. lia.
Qed.

(* conditional-expression style: exactly the nesting of the source plus two *)
Theorem elif_chain_height_ifexp : forall n,
  exists e, lower_module cfg_list top_symtab (elif_chain n) = inl e /\ height e = stmt_nest n + 1.
Proof.
  intros n. eexists. split; [apply lower_module_elif_ifexp|]. rewrite height_elif_ifexp.
  induction n as [|n IH]; cbn [stmt_nest]; lia.
Qed.
