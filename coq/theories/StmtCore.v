(* The statement layer keeps the core: every expression the converter model emits for a statement whose own expressions are
   in the core of the C03 round trip is again in that core; hence the one expression a whole module is lowered to. *)
From Coq Require Import String List ZArith Bool Arith Lia.
From OL Require Import Sexp PyAst Unparse Namespace Lower Parse ParseProof ParseTie LowerCore.
From OL Require Import StmtOk.
From OLGen Require Import Tables.
Import ListNotations.
Open Scope string_scope.
Open Scope list_scope.

Definition okL (es : list expr) : Prop := Forall okE es.

Lemma rmap_length {X Y} (f : X -> res Y) l : forall ys, rmap f l = inl ys -> length ys = length l.
Proof.
  induction l as [|x r IH]; intros ys H; cbn [rmap] in H.
  - injection H as <-. reflexivity.
  - destruct (f x) as [y|]; cbn [rbind] in H; [|discriminate].
    destruct (rmap f r) as [ys'|]; cbn [rbind ret] in H; [|discriminate].
    injection H as <-. cbn. f_equal. apply IH. reflexivity.
Qed.

Lemma okE_core e : okE e -> core e = true. Proof. intros [H _]. exact H. Qed.
Lemma okL_core es : okL es -> forallb core es = true.
Proof. induction 1 as [|x r Hx _ IH]; [reflexivity|]. cbn [forallb]. rewrite (okE_core x Hx), IH. reflexivity. Qed.
Lemma okL_ecb es : okL es -> forallb (fun x => core x && negb (is_starred x)) es = true.
Proof. induction 1 as [|x r Hx _ IH]; [reflexivity|]. cbn [forallb]. rewrite (ecore_of x Hx), IH. reflexivity. Qed.
Lemma okL_app a b : okL a -> okL b -> okL (a ++ b).
Proof. intros Ha Hb. apply Forall_app. split; assumption. Qed.

Lemma okE_const c : lit_ok c = true -> okE (Constant c).
Proof. intros H. split; [exact H|reflexivity]. Qed.
Lemma okE_ctrue : okE ctrue. Proof. apply okE_const. reflexivity. Qed.
Lemma okE_cfalse : okE cfalse. Proof. apply okE_const. reflexivity. Qed.
Lemma okE_cnone : okE cnone. Proof. apply okE_const. reflexivity. Qed.
Lemma okE_ellipsis : okE ellipsis. Proof. apply okE_const. reflexivity. Qed.
Lemma okE_cint z : (0 <= z)%Z -> okE (cint z).
Proof. intros H. apply okE_const. cbn. apply Z.leb_le. exact H. Qed.
Lemma okE_unop op v : okE v -> okE (UnaryOp op v).
Proof. intros Hv. split; [cbn [core]; exact (ecore_of _ Hv)|reflexivity]. Qed.
Lemma okE_nint z : okE (nint z).
Proof.
  unfold nint. destruct (Z.ltb_spec z 0).
  - apply okE_unop. apply okE_cint. lia.
  - apply okE_cint. assumption.
Qed.
Lemma okE_minus1 : okE minus1. Proof. apply okE_unop. apply okE_cint. lia. Qed.
Lemma okE_named x v : okE v -> okE (NamedExpr x v).
Proof. intros Hv. split; [cbn [core]; exact (ecore_of _ Hv)|reflexivity]. Qed.
Lemma okE_attr v a : okE v -> okE (Attribute v a).
Proof. intros Hv. split; [cbn [core]; exact (ecore_of _ Hv)|reflexivity]. Qed.
Lemma okE_elist es : okL es -> okE (EList es).
Proof. intros H. split; [cbn [core]; exact (okL_core _ H)|reflexivity]. Qed.
Lemma okE_etuple es : okL es -> okE (ETuple es).
Proof. intros H. split; [cbn [core]; exact (okL_core _ H)|reflexivity]. Qed.
Lemma okE_callk f args kws : okE f -> okL args -> okL (map snd kws) -> okE (Call f args kws).
Proof.
  intros Hf Ha Hk. split; [|reflexivity]. apply core_call_intro.
  - exact (ecore_of _ Hf).
  - exact (okL_core _ Ha).
  - unfold okL in Hk. rewrite Forall_map in Hk. unfold ecb.
    induction Hk as [|x r Hx _ IH]; [reflexivity|]. cbn [forallb]. rewrite (ecore_of _ Hx), IH. reflexivity.
Qed.
Lemma okE_call f args : okE f -> okL args -> okE (call f args).
Proof. intros Hf Ha. unfold call. apply okE_callk; [exact Hf|exact Ha|constructor]. Qed.
Lemma okE_boolop op vs : 2 <= length vs -> okL vs -> okE (BoolOp op vs).
Proof.
  intros HL H. split; [|reflexivity]. cbn [core]. rewrite (okL_ecb _ H). apply Nat.leb_le in HL. rewrite HL. reflexivity.
Qed.
Lemma okE_lambda po ar va ko kd kw de body :
  okE body -> length de <= length (po ++ ar) -> length kd = length ko -> okL de ->
  Forall (fun o => match o with Some x => okE x | None => True end) kd ->
  okE (Lambda po ar va ko kd kw de body).
Proof.
  intros Hb HL HK Hd Hkd. split; [|reflexivity]. cbn [core]. rewrite (ecore_of _ Hb), (okL_ecb _ Hd).
  apply Nat.leb_le in HL. rewrite HL. rewrite HK, Nat.eqb_refl. cbn [andb]. clear HK.
  induction Hkd as [|o r Ho _ IH]; [reflexivity|]. cbn [forallb]. rewrite IH.
  destruct o as [x|]; [rewrite (ecore_of _ Ho)|]; reflexivity.
Qed.
Lemma okE_lambda0 body : okE body -> okE (lambda0 body).
Proof. intros H. unfold lambda0. apply okE_lambda; [exact H|cbn; lia|reflexivity|constructor|constructor]. Qed.
Lemma okE_listcomp1 x t i : okE x -> core t = true -> is_target t = true -> okE i -> okE (ListComp x [(t, i, [], false)]).
Proof.
  intros Hx Ct Tt Hi. split; [|reflexivity]. cbn [core length Nat.leb forallb andb negb].
  rewrite (ecore_of _ Hx), Ct, Tt. destruct Hi as [Ci Ni]. rewrite Ci, Ni. reflexivity.
Qed.
Lemma okE_edict ks vs : length ks = length vs -> Forall (fun o => match o with Some x => okE x | None => True end) ks ->
  okL vs -> okE (EDict ks vs).
Proof.
  intros HL Hk Hv. split; [|reflexivity]. cbn [core]. rewrite HL, Nat.eqb_refl, (okL_ecb _ Hv). cbn [andb]. rewrite andb_true_r. clear HL.
  induction Hk as [|o r Ho _ IH]; [reflexivity|]. cbn [forallb]. rewrite IH.
  destruct o as [x|]; [rewrite (ecore_of _ Ho)|]; reflexivity.
Qed.
Lemma okE_subscript_plain v s : okE v -> okE s -> (forall l, s <> ETuple l) -> okE (Subscript v s).
Proof.
  intros Hv Hs Ht. apply okE_sub; [exact Hv|exact Hs|exact Ht|]. intros a b c ->. destruct Hs as [C _]. discriminate C.
Qed.
Lemma okE_subscript_slice v a b c : okE v ->
  (match a with Some x => okE x | None => True end) -> (match b with Some x => okE x | None => True end) ->
  (match c with Some x => okE x | None => True end) -> okE (Subscript v (Slice a b c)).
Proof.
  intros Hv Ha Hb Hc. split; [|reflexivity]. cbn [core]. rewrite (ecore_of _ Hv). cbn [andb].
  destruct a as [x|]; [rewrite (ecore_of _ Ha)|]; (destruct b as [y|]; [rewrite (ecore_of _ Hb)|]);
    (destruct c as [z|]; [rewrite (ecore_of _ Hc)|]); reflexivity.
Qed.

(* ---- wrappers ---- *)
Lemma okE_chain_runner : okE chain_runner.
Proof. split; reflexivity. Qed.
Lemma okE_chain_fold rest : forall acc, okE acc -> okL rest -> okE (fold_left (fun c n => call c [n]) rest acc).
Proof.
  induction rest as [|x r IH]; intros acc Ha Hr; [exact Ha|]. cbn [fold_left]. inversion Hr; subst.
  apply IH; [|assumption]. apply okE_call; [exact Ha|]. constructor; [assumption|constructor].
Qed.
Lemma okE_wrap cfg es : okL es -> okE (wrap cfg es).
Proof.
  intros H. destruct es as [|x [|y r]]; cbn [wrap].
  - apply okE_ellipsis.
  - inversion H; assumption.
  - destruct (cfg_chain cfg).
    + unfold chain_call. inversion H; subst. apply okE_chain_fold; [|assumption].
      apply okE_call; [apply okE_chain_runner|]. constructor; [assumption|constructor].
    + apply okE_elist. exact H.
Qed.
Lemma okE_guarded cfg flag rest : okL rest -> okE (guarded cfg flag rest).
Proof.
  intros H. unfold guarded. apply okE_ifexp; [apply okE_unop; apply okE_name|apply okE_wrap; exact H|apply okE_ellipsis].
Qed.

(* ---- the expression layer ---- *)
Lemma tr_ok n e e' : ecb e = true -> tr n e = inl e' -> okE e'.
Proof.
  unfold tr, ecb. intros Hc H. apply andb_prop in Hc as [C N]. destruct (transf_keeps_core n e [] false e' C H) as [C' N'].
  split; [exact C'|]. rewrite N'. destruct (is_starred e); [discriminate N|reflexivity].
Qed.
Lemma tr_ok_core n e e' : core e = true -> tr n e = inl e' -> core e' = true.
Proof. unfold tr. intros C H. exact (proj1 (transf_keeps_core n e [] false e' C H)). Qed.
Lemma rmap_tr_ok n : forall l l', forallb ecb l = true -> rmap (tr n) l = inl l' -> okL l'.
Proof.
  induction l as [|x r IH]; intros l' Hc H; cbn [rmap] in H.
  - injection H as <-. constructor.
  - cbn [forallb] in Hc. apply andb_prop in Hc as [Cx Cr].
    destruct (tr n x) as [y|] eqn:Ey; cbn [rbind] in H; [|discriminate].
    destruct (rmap (tr n) r) as [ys|] eqn:Er; cbn [rbind ret] in H; [|discriminate]. injection H as <-.
    constructor; [exact (tr_ok n x y Cx Ey)|exact (IH ys Cr eq_refl)].
Qed.

Lemma convert_index_core : forall e, core e = true -> convert_index e = e.
Proof.
  induction e using expr_ind'; intros C; try reflexivity.
  - (* ETuple *) cbn [convert_index]. f_equal. cbn [core] in C.
    induction H as [|x r Hx _ IH]; [reflexivity|]. cbn [forallb] in C. apply andb_prop in C as [Cx Cr].
    cbn [map]. rewrite (Hx Cx), (IH Cr). reflexivity.
  - (* Slice *) discriminate C.
Qed.

Definition okO (o : option expr) : Prop := match o with Some x => okE x | None => True end.
Lemma topt_ok n o o' : oecb o = true ->
  match o with Some x => let! y := transf n [] false x in ret (Some y) | None => ret None end = inl o' -> okO o'.
Proof.
  destruct o as [x|]; cbn [oecb]; intros Hc H.
  - destruct (transf n [] false x) as [y|] eqn:E; cbn [rbind ret] in H; [|discriminate]. injection H as <-.
    exact (tr_ok n x y Hc E).
  - injection H as <-. exact I.
Qed.
Lemma okE_convert_slice a b c : okO a -> okO b -> okO c -> okE (convert_slice a b c).
Proof.
  intros Ha Hb Hc. unfold convert_slice. apply okE_call; [apply okE_name|].
  constructor; [destruct a; [exact Ha|apply okE_cnone]|].
  constructor; [destruct b; [exact Hb|apply okE_cnone]|].
  constructor; [destruct c; [exact Hc|apply okE_cnone]|constructor].
Qed.
Lemma tr_slice n a b c s1 : slice_ok a b c = true -> tr n (Slice a b c) = inl s1 -> okE (convert_index s1).
Proof.
  unfold slice_ok, tr. intros Hc H. apply andb_prop in Hc as [Hc C3]. apply andb_prop in Hc as [C1 C2].
  cbn [transf] in H.
  match type of H with rbind ?r _ = _ => destruct r as [a'|] eqn:Ea end; cbn [rbind] in H; [|discriminate].
  match type of H with rbind ?r _ = _ => destruct r as [b'|] eqn:Eb end; cbn [rbind] in H; [|discriminate].
  match type of H with rbind ?r _ = _ => destruct r as [c'|] eqn:Ec end; cbn [rbind ret] in H; [|discriminate].
  injection H as <-. cbn [convert_index].
  apply okE_convert_slice; [exact (topt_ok n a a' C1 Ea)|exact (topt_ok n b b' C2 Eb)|exact (topt_ok n c c' C3 Ec)].
Qed.
Lemma tr_item n x x' : item_ok x = true -> transf n [] false x = inl x' -> okE (convert_index x').
Proof.
  intros Hc H. destruct x; try (cbn [item_ok] in Hc; pose proof (tr_ok n _ x' Hc H) as Hx;
    rewrite (convert_index_core x' (okE_core _ Hx)); exact Hx).
  exact (tr_slice n lower upper step x' Hc H).
Qed.
Lemma tr_index n s s1 : index_ok s = true -> tr n s = inl s1 -> okE (convert_index s1).
Proof.
  intros Hc H. destruct s; try (cbn [index_ok] in Hc; pose proof (tr_ok n _ s1 Hc H) as Hx;
    rewrite (convert_index_core s1 (okE_core _ Hx)); exact Hx).
  - (* ETuple *) cbn [index_ok] in Hc. unfold tr in H. cbn [transf] in H.
    destruct (rmap (transf n [] false) elts) as [l'|] eqn:El; cbn [rbind ret] in H; [|discriminate]. injection H as <-.
    cbn [convert_index]. apply okE_etuple.
    revert l' El. induction elts as [|x r IH]; intros l' El; cbn [rmap] in El.
    + injection El as <-. constructor.
    + cbn [forallb] in Hc. apply andb_prop in Hc as [Cx Cr].
      destruct (transf n [] false x) as [y|] eqn:Ey; cbn [rbind] in El; [|discriminate].
      destruct (rmap (transf n [] false) r) as [ys|] eqn:Er; cbn [rbind ret] in El; [|discriminate]. injection El as <-.
      cbn [map]. constructor; [exact (tr_item n x y Cx Ey)|exact (IH Cr ys eq_refl)].
  - (* Slice *) exact (tr_slice n lower upper step s1 Hc H).
Qed.

Section AssignCore.
  Variable n : nsp.
  Definition A (t : expr) : Prop :=
    forall p v es, target_ok t = true -> okE v -> assign_auto n p t v = inl es -> okL es.
  Definition A' (t : expr) : Prop := A t /\ match t with Starred y => A y | _ => True end.

  Lemma okE_tmp_index tmp e : (forall l, e <> ETuple l) -> okE e -> okE (Subscript (Name tmp) e).
  Proof. intros Ht He. apply okE_subscript_plain; [apply okE_name|exact He|exact Ht]. Qed.

  Lemma pattern_go_ok tmp len p : forall elts index starred es,
    Forall A' elts ->
    forallb (fun x => match x with Starred y => target_ok y | _ => target_ok x end) elts = true ->
    pattern_go (fun p0 t0 v0 => assign_auto n p0 t0 v0) (Name tmp) len p elts index starred = inl es -> okL es.
  Proof.
    induction elts as [|t r IH]; intros index starred es HA Hc H; cbn [pattern_go] in H.
    - injection H as <-. constructor.
    - inversion HA as [|? ? [At At'] Ar]; subst. cbn [forallb] in Hc. apply andb_prop in Hc as [Ct Cr].
      assert (Hplain : forall sub, okE sub -> (match t with Starred _ => False | _ => True end) ->
                (let! a := assign_auto n (index :: p) t sub in
                 let! b := pattern_go (fun p0 t0 v0 => assign_auto n p0 t0 v0) (Name tmp) len p r (S index) starred in ret (a ++ b))
                = inl es -> okL es).
      { intros sub Hs Hns Hb.
        destruct (assign_auto n (index :: p) t sub) as [a|] eqn:Ea; cbn [rbind] in Hb; [|discriminate].
        destruct (pattern_go _ _ _ _ r (S index) starred) as [b|] eqn:Eb; cbn [rbind ret] in Hb; [|discriminate].
        injection Hb as <-. apply okL_app; [|exact (IH _ _ _ Ar Cr Eb)].
        apply (At (index :: p) sub a); [destruct t; try exact Ct; contradiction|exact Hs|exact Ea]. }
      assert (Hsub : okE (Subscript (Name tmp) (if starred then nint (Z.of_nat index - len) else cint (Z.of_nat index)))).
      { apply okE_tmp_index.
        - intros l. destruct starred; [unfold nint; destruct (_ <? 0)%Z|]; discriminate.
        - destruct starred; [apply okE_nint|apply okE_cint; lia]. }
      destruct t; try (apply (Hplain _ Hsub I); exact H).
      (* Starred *)
      destruct starred; [discriminate H|].
      match type of H with rbind (assign_auto n _ t ?sub) _ = _ => assert (Hs : okE sub) end.
      { apply okE_call; [apply okE_name|]. constructor; [|constructor].
        apply okE_subscript_slice; [apply okE_name|apply okE_cint; lia| |exact I].
        destruct (_ =? 0)%Z; [exact I|apply okE_nint]. }
      destruct (assign_auto n (index :: p) t _) as [a|] eqn:Ea; cbn [rbind] in H; [|discriminate].
      destruct (pattern_go _ _ _ _ r (S index) true) as [b|] eqn:Eb; cbn [rbind ret] in H; [|discriminate].
      injection H as <-. apply okL_app; [|exact (IH _ _ _ Ar Cr Eb)].
      exact (At' (index :: p) _ a Ct Hs Ea).
  Qed.

  Lemma assign_auto_all : forall t, A' t.
  Proof.
    induction t using expr_ind'; (split; [|try exact I]); try (intros ? ? ? Hc0; discriminate Hc0).
    - (* Name *) intros p v es _ Hv H. cbn [assign_auto] in H.
      destruct (get_assign n i v) as [e|] eqn:E; cbn [rbind ret] in H; [|discriminate]. injection H as <-.
      constructor; [exact (okE_get_assign n i v e Hv E)|constructor].
    - (* Starred *) exact (proj1 IHt).
    - (* EList *) intros p v es Hc Hv Hr. cbn [assign_auto] in Hr. cbn [target_ok] in Hc.
      destruct (pattern_go _ _ _ _ l 0 false) as [rest|] eqn:E; cbn [rbind ret] in Hr; [|discriminate]. injection Hr as <-.
      constructor; [apply okE_named; apply okE_call; [apply okE_name|constructor; [exact Hv|constructor]]|].
      exact (pattern_go_ok _ _ _ l 0 false rest H Hc E).
    - (* ETuple *) intros p v es Hc Hv Hr. cbn [assign_auto] in Hr. cbn [target_ok] in Hc.
      destruct (pattern_go _ _ _ _ l 0 false) as [rest|] eqn:E; cbn [rbind ret] in Hr; [|discriminate]. injection Hr as <-.
      constructor; [apply okE_named; apply okE_call; [apply okE_name|constructor; [exact Hv|constructor]]|].
      exact (pattern_go_ok _ _ _ l 0 false rest H Hc E).
    - (* Attribute *) intros p v es Hc Hv Hr. cbn [assign_auto target_ok] in *. unfold assign_attribute in Hr.
      destruct (tr n t) as [v'|] eqn:E; cbn [rbind ret] in Hr; [|discriminate]. injection Hr as <-.
      constructor; [|constructor]. apply okE_call; [apply okE_name|].
      constructor; [exact (tr_ok n t v' Hc E)|]. constructor; [apply okE_cstr|]. constructor; [exact Hv|constructor].
    - (* Subscript *) intros p v es Hc Hv Hr. cbn [assign_auto target_ok] in *. unfold assign_subscript in Hr.
      apply andb_prop in Hc as [C1 C2].
      destruct (tr n t1) as [v'|] eqn:E1; cbn [rbind] in Hr; [|discriminate].
      destruct (tr n t2) as [s1|] eqn:E2; cbn [rbind ret] in Hr; [|discriminate]. injection Hr as <-.
      constructor; [|constructor]. apply okE_call; [apply okE_attr; exact (tr_ok n t1 v' C1 E1)|].
      constructor; [exact (tr_index n t2 s1 C2 E2)|]. constructor; [exact Hv|constructor].
  Qed.

  Theorem assign_auto_ok : forall t p v es, target_ok t = true -> okE v -> assign_auto n p t v = inl es -> okL es.
  Proof. intros t. exact (proj1 (assign_auto_all t)). Qed.
End AssignCore.

(* ---- augmented assignment, imports ---- *)
Lemma okE_binop l op r : okE l -> okE r -> okE (BinOp l op r).
Proof. intros Hl Hr. split; [cbn [core]; rewrite (ecore_of _ Hl), (ecore_of _ Hr); reflexivity|reflexivity]. Qed.

Lemma okE_of_ecb e : ecb e = true -> okE e.
Proof. unfold ecb. intros H. exact (okE_of e H). Qed.
Lemma ecb_of_okE e : okE e -> ecb e = true.
Proof. unfold ecb. exact (ecore_of e). Qed.

Lemma okO_of o : oecb o = true -> okO o.
Proof. destruct o; [apply okE_of_ecb|intros _; exact I]. Qed.
Lemma convert_slice_src a b c : slice_ok a b c = true -> okE (convert_slice a b c).
Proof.
  unfold slice_ok. intros H. apply andb_prop in H as [H C3]. apply andb_prop in H as [C1 C2].
  apply okE_convert_slice; apply okO_of; assumption.
Qed.
Lemma convert_index_src s : index_ok s = true -> okE (convert_index s).
Proof.
  intros H. destruct s; try (cbn [index_ok] in H; pose proof (okE_of_ecb _ H) as Hx;
    rewrite (convert_index_core _ (okE_core _ Hx)); exact Hx).
  - cbn [index_ok] in H. cbn [convert_index]. apply okE_etuple.
    induction elts as [|x r IH]; [constructor|]. cbn [forallb] in H. apply andb_prop in H as [Cx Cr].
    cbn [map]. constructor; [|exact (IH Cr)].
    destruct x; try (cbn [item_ok] in Cx; pose proof (okE_of_ecb _ Cx) as Hx;
      rewrite (convert_index_core _ (okE_core _ Hx)); exact Hx).
    exact (convert_slice_src _ _ _ Cx).
  - exact (convert_slice_src _ _ _ H).
Qed.

Lemma okE_aug_expr target op value fb : okE target -> okE value -> okE fb -> okE (aug_expr target op value fb).
Proof.
  intros Ht Hv Hf. unfold aug_expr. apply okE_ifexp; [| |exact Hf].
  - apply okE_call; [apply okE_name|]. constructor; [exact Ht|]. constructor; [apply okE_cstr|constructor].
  - apply okE_call; [apply okE_attr; exact Ht|]. constructor; [exact Hv|constructor].
Qed.

Lemma lower_augassign_ok n p target op value es :
  aug_target_ok target = true -> ecb value = true -> lower_augassign n p target op value = inl es -> okL es.
Proof.
  intros Ht Hv H. unfold lower_augassign in H.
  destruct (tr n value) as [v|] eqn:Ev; cbn [rbind] in H; [|discriminate]. pose proof (tr_ok n value v Hv Ev) as Hv'.
  destruct target; try discriminate Ht; cbn [aug_target_ok] in Ht.
  - (* Name *)
    destruct (get_load_name n [] false id) as [t|] eqn:El; cbn [rbind] in H; [|discriminate].
    pose proof (okE_get_load_name n [] false id t El) as Ht'.
    destruct (get_assign n id (BinOp t op v)) as [fb|] eqn:Ef; cbn [rbind] in H; [|discriminate].
    destruct (get_assign n id (call (Attribute t (aug_op_name op)) [v])) as [st|] eqn:Es; cbn [rbind ret] in H; [|discriminate].
    injection H as <-. constructor; [|constructor]. apply okE_ifexp.
    + apply okE_call; [apply okE_name|]. constructor; [exact Ht'|]. constructor; [apply okE_cstr|constructor].
    + refine (okE_get_assign n id _ st _ Es). apply okE_call; [apply okE_attr; exact Ht'|]. constructor; [exact Hv'|constructor].
    + refine (okE_get_assign n id _ fb _ Ef). apply okE_binop; assumption.
  - (* Attribute *)
    destruct (tr n target) as [par'|] eqn:Ep; cbn [rbind ret] in H; [|discriminate]. injection H as <-.
    pose proof (tr_ok n target par' Ht Ep) as Hp.
    repeat constructor; try (apply okE_named; first [exact Hp|apply okE_attr; apply okE_name]).
    apply okE_call; [apply okE_name|]. constructor; [apply okE_name|]. constructor; [apply okE_cstr|].
    constructor; [|constructor]. apply okE_aug_expr; [apply okE_name|exact Hv'|].
    apply okE_named. apply okE_binop; [apply okE_name|exact Hv'].
  - (* Subscript *)
    apply andb_prop in Ht as [C1 C2].
    destruct (tr n target1) as [par'|] eqn:Ep; cbn [rbind] in H; [|discriminate].
    destruct (tr n (convert_index target2)) as [s'|] eqn:Es; cbn [rbind ret] in H; [|discriminate]. injection H as <-.
    pose proof (tr_ok n target1 par' C1 Ep) as Hp.
    pose proof (tr_ok n _ s' (ecb_of_okE _ (convert_index_src _ C2)) Es) as Hs.
    constructor; [apply okE_named; exact Hp|]. constructor; [apply okE_named; exact Hs|].
    constructor; [apply okE_named; apply okE_subscript_plain; [apply okE_name|apply okE_name|discriminate]|].
    constructor; [|constructor].
    apply okE_call; [apply okE_attr; apply okE_name|]. constructor; [apply okE_name|]. constructor; [|constructor].
    apply okE_aug_expr; [apply okE_name|exact Hv'|]. apply okE_named. apply okE_binop; [apply okE_name|exact Hv'].
Qed.

Lemma lower_import_ok n names es : lower_import n names = inl es -> okL es.
Proof.
  unfold lower_import. revert es. induction names as [|al r IH]; intros es H; cbn [rmap] in H.
  - injection H as <-. constructor.
  - match type of H with rbind ?x _ = _ => destruct x as [e|] eqn:E end; cbn [rbind] in H; [|discriminate].
    match type of H with rbind ?x _ = _ => destruct x as [rs|] eqn:Er end; cbn [rbind ret] in H; [|discriminate].
    injection H as <-. constructor; [|exact (IH rs eq_refl)].
    assert (Hc1 : forall f s, okE (call (Name f) [cstr s])).
    { intros f s. apply okE_call; [apply okE_name|]. constructor; [apply okE_cstr|constructor]. }
    assert (Hc2 : forall s, okE (call (Attribute (Name "__ol_importlib") "import_module") [cstr s])).
    { intros s. apply okE_call; [apply okE_attr; apply okE_name|]. constructor; [apply okE_cstr|constructor]. }
    destruct al as [nm [a|]]; cbn [fst snd] in E.
    + eapply okE_get_assign; [|exact E]. apply Hc2.
    + destruct (has_dot nm); (eapply okE_get_assign; [|exact E]); [apply Hc1|apply Hc2].
Qed.

Lemma lower_importfrom_ok n p m names lv es : (0 <= lv)%Z -> lower_importfrom n p m names lv = inl es -> okL es.
Proof.
  intros Hlv. unfold lower_importfrom.
  match goal with |- rbind ?x _ = _ -> _ => destruct x as [binds|] eqn:E end; cbn [rbind ret]; [|discriminate].
  intros H. injection H as <-. constructor.
  - apply okE_named. apply okE_call; [apply okE_name|].
    constructor; [apply okE_cstr|]. constructor; [apply okE_call; [apply okE_name|constructor]|].
    constructor; [apply okE_call; [apply okE_name|constructor]|].
    constructor; [|constructor; [apply okE_cint; exact Hlv|constructor]].
    apply okE_elist. clear E. induction names as [|al r IH]; [constructor|]. cbn [map]. constructor; [apply okE_cstr|exact IH].
  - revert binds E. induction names as [|al r IH]; intros binds E; cbn [rmap] in E.
    + injection E as <-. constructor.
    + match type of E with rbind ?x _ = _ => destruct x as [e|] eqn:E1 end; cbn [rbind] in E; [|discriminate].
      match type of E with rbind ?x _ = _ => destruct x as [rs|] eqn:Er end; cbn [rbind ret] in E; [|discriminate].
      injection E as <-. constructor; [|exact (IH rs eq_refl)].
      match type of E1 with (if ?c then _ else _) = _ => destruct c end; [discriminate E1|].
      eapply okE_get_assign; [|exact E1]. apply okE_attr. apply okE_name.
Qed.

Section StmtCore.
  Variable cfg : config.
  Definition S (s : stmt) : Prop := forall c p es, stmt_ok s = true -> lower_stmt cfg c p s = inl es -> okL es.

  Lemma block_ok : forall b c p br i es, Forall S b -> forallb stmt_ok b = true ->
    lower_block cfg (fun c0 p0 s0 => lower_stmt cfg c0 p0 s0) c p br i b = inl es -> okL es.
  Proof.
    induction b as [|s rest IH]; intros c p br i es HS Hc H; cbn [lower_block] in H.
    - injection H as <-. constructor.
    - inversion HS as [|? ? Hs Hr]; subst. cbn [forallb] in Hc. apply andb_prop in Hc as [Cs Cr].
      destruct (lower_stmt cfg c (i :: br :: p) s) as [e1|] eqn:E1; cbn [rbind] in H; [|discriminate].
      pose proof (Hs c _ e1 Cs E1) as H1.
      destruct (is_interrupt s); [injection H as <-; exact H1|].
      destruct rest as [|s2 rest']; [injection H as <-; exact H1|].
      destruct (lower_block cfg _ c p br (Datatypes.S i) (s2 :: rest')) as [rs|] eqn:E2; cbn [rbind] in H; [|discriminate].
      pose proof (IH c p br (Datatypes.S i) rs Hr Cr E2) as H2.
      destruct (guard_of c) as [bumps [flag|]]; [destruct (bumps s)|]; injection H as <-;
        (apply okL_app; [exact H1|]); try exact H2.
      constructor; [apply okE_guarded; exact H2|constructor].
  Qed.

  Lemma okL_of_forallb vs : forallb (fun x => core x && negb (is_starred x)) vs = true -> okL vs.
  Proof.
    induction vs as [|x r IH]; intros HF; [constructor|]. cbn [forallb] in HF. apply andb_prop in HF as [Hx Hr].
    constructor; [exact (okE_of x Hx)|exact (IH Hr)].
  Qed.
  Lemma okE_boolop_or_tail vs : okE (BoolOp Or vs) -> okL vs /\ 2 <= length vs.
  Proof.
    intros [C _]. cbn [core] in C. apply andb_prop in C as [HL HF]. apply Nat.leb_le in HL. split; [|exact HL].
    exact (okL_of_forallb vs HF).
  Qed.

  Lemma okE_if_result isb t b o : okE t -> okL b -> okL o -> okE (if_result cfg isb t b o).
  Proof.
    intros Ht Hb Ho. unfold if_result. destruct (cfg_short cfg).
    - assert (Hw : okE (wrap cfg b)) by (apply okE_wrap; exact Hb).
      assert (Hite : okE (IfExp t ctrue cfalse)) by (apply okE_ifexp; [exact Ht|apply okE_ctrue|apply okE_cfalse]).
      destruct o as [|o1 orest].
      + apply okE_boolop; [cbn; lia|]. constructor; [destruct isb; assumption|]. constructor; [exact Hw|constructor].
      + set (once := if isb then IfExp t ctrue cfalse else UnaryOp Not (UnaryOp Not t)).
        assert (Honce : okE once) by (unfold once; destruct isb; [exact Hite|apply okE_unop; apply okE_unop; exact Ht]).
        assert (Hsemi : okE (BoolOp And [once; EList [wrap cfg b]])).
        { apply okE_boolop; [cbn; lia|]. constructor; [exact Honce|]. constructor; [|constructor].
          apply okE_elist. constructor; [exact Hw|constructor]. }
        pose proof (okE_wrap cfg (o1 :: orest) Ho) as Hoe.
        destruct (wrap cfg (o1 :: orest)) eqn:Ew;
          try (apply okE_boolop; [cbn; lia|]; constructor; [exact Hsemi|]; constructor; [exact Hoe|constructor]).
        destruct op.
        * apply okE_boolop; [cbn; lia|]. constructor; [exact Hsemi|]. constructor; [exact Hoe|constructor].
        * destruct (okE_boolop_or_tail _ Hoe) as [Hvs HL]. apply okE_boolop; [cbn [length]; lia|]. constructor; assumption.
    - apply okE_ifexp; [exact Ht|apply okE_wrap; exact Hb|apply okE_wrap; exact Ho].
  Qed.
End StmtCore.

Section StmtCases.
  Variable cfg : config.
  Notation L := (fun c0 p0 s0 => lower_stmt cfg c0 p0 s0).
  Ltac bindH H :=
    match type of H with
    | rbind ?r _ = inl _ => let E := fresh "E" in destruct r eqn:E; cbn [rbind ret] in H; [|discriminate H]
    end.

  Lemma S_expr e : S cfg (SExpr e).
  Proof.
    intros c p es Hc H. cbn [stmt_ok lower_stmt] in *. bindH H. injection H as <-.
    constructor; [exact (tr_ok _ e _ Hc E)|constructor].
  Qed.

  Lemma S_if t b o : Forall (S cfg) b -> Forall (S cfg) o -> S cfg (SIf t b o).
  Proof.
    intros Hb Ho c p es Hc H. cbn [stmt_ok] in Hc. apply andb_prop in Hc as [Hc Co]. apply andb_prop in Hc as [Ct Cb].
    cbn [lower_stmt] in H. bindH H. bindH H. bindH H. injection H as <-.
    constructor; [|constructor]. apply okE_if_result; [exact (tr_ok _ t _ Ct E1)|exact (block_ok cfg b _ _ _ _ _ Hb Cb E)|
      exact (block_ok cfg o _ _ _ _ _ Ho Co E0)].
  Qed.

  Lemma okE_while_comp var body test : okE body -> okE test -> okE (while_comp var body test).
  Proof.
    intros Hb Ht. unfold while_comp. apply okE_listcomp1; [exact Hb|reflexivity|reflexivity|].
    apply okE_call; [apply okE_attr; apply okE_name|].
    constructor; [|constructor; [apply okE_call; [apply okE_attr; apply okE_name|constructor]|constructor]].
    apply okE_lambda; [exact Ht|cbn; lia|reflexivity|constructor|constructor].
  Qed.

  Lemma S_while t b o : Forall (S cfg) b -> Forall (S cfg) o -> S cfg (SWhile t b o).
  Proof.
    intros Hb Ho c p es Hc H. cbn [stmt_ok] in Hc. apply andb_prop in Hc as [Hc Co]. apply andb_prop in Hc as [Ct Cb].
    cbn [lower_stmt] in H. cbv zeta in H. bindH H. bindH H. bindH H. injection H as <-.
    pose proof (block_ok cfg b _ _ _ _ _ Hb Cb E) as Hb'. pose proof (block_ok cfg o _ _ _ _ _ Ho Co E0) as Ho'.
    pose proof (tr_ok _ t _ Ct E1) as Ht'.
    assert (Htest : okE (match t with BoolOp _ _ => IfExp e ctrue cfalse | _ => e end)).
    { destruct t; try exact Ht'. apply okE_ifexp; [exact Ht'|apply okE_ctrue|apply okE_cfalse]. }
    apply okL_app; [destruct (brk_block b); [constructor; [apply okE_named; apply okE_cfalse|constructor]|constructor]|].
    change (?a :: ?b) with ([a] ++ b). apply okL_app.
    - constructor; [|constructor]. apply okE_while_comp.
      + apply okE_wrap. apply okL_app; [|exact Hb'].
        match goal with |- okL (if ?x then _ else _) => destruct x end; [constructor; [apply okE_named; apply okE_cfalse|constructor]|constructor].
      + destruct (brk_block b); [|exact Htest]. apply okE_boolop; [cbn; lia|].
        constructor; [apply okE_unop; apply okE_name|]. constructor; [exact Htest|constructor].
    - destruct l0 as [|x r]; [constructor|]. constructor; [|constructor].
      destruct (brk_block b); [|apply okE_wrap; exact Ho'].
      apply okE_ifexp; [apply okE_unop; apply okE_name|apply okE_wrap; exact Ho'|apply okE_ellipsis].
  Qed.

  Lemma okE_set_break l : okE (set_break l).
  Proof.
    unfold set_break. destruct (lp_kind l); [apply okE_named; apply okE_ctrue|].
    apply okE_call; [apply okE_name|]. constructor; [apply okE_name|]. constructor; [apply okE_cstr|].
    constructor; [apply okE_ctrue|constructor].
  Qed.
  Lemma okL_intr_set (b : bool) x : okL (if b then [NamedExpr x ctrue] else []).
  Proof. destruct b; [constructor; [apply okE_named; apply okE_ctrue|constructor]|constructor]. Qed.
  Lemma okL_intr_clear (b : bool) x : okL (if b then [NamedExpr x cfalse] else []).
  Proof. destruct b; [constructor; [apply okE_named; apply okE_cfalse|constructor]|constructor]. Qed.

  Lemma S_for tg it b o : Forall (S cfg) b -> Forall (S cfg) o -> S cfg (SFor tg it b o).
  Proof.
    intros Hb Ho c p es Hc H. cbn [stmt_ok] in Hc. apply andb_prop in Hc as [Hc Co]. apply andb_prop in Hc as [Hc Cb].
    apply andb_prop in Hc as [Ctg Cit].
    cbn [lower_stmt] in H. cbv zeta in H. bindH H. bindH H. bindH H. bindH H.
    pose proof (block_ok cfg b _ _ _ _ _ Hb Cb E) as Hb'. pose proof (block_ok cfg o _ _ _ _ _ Ho Co E0) as Ho'.
    pose proof (assign_auto_ok _ tg _ _ _ Ctg (okE_name _) E1) as Hbind.
    pose proof (tr_ok _ it _ Cit E2) as Hit.
    match type of H with (if ?x then _ else _) = _ => destruct x end.
    - injection H as <-. constructor; [|constructor].
      apply okE_listcomp1; [apply okE_wrap; apply okL_app; assumption|reflexivity|reflexivity|exact Hit].
    - injection H as <-.
      apply okL_app.
      { destruct (brk_block b); [|constructor]. constructor; [|constructor]. apply okE_named.
        apply okE_call; [apply okE_name|]. constructor; [exact Hit|constructor]. }
      change (?a :: ?r) with ([a] ++ r). apply okL_app.
      + constructor; [|constructor].
        apply okE_listcomp1; [|reflexivity|reflexivity|destruct (brk_block b); [apply okE_name|exact Hit]].
        apply okE_wrap. apply okL_app; [apply okL_intr_clear|]. apply okL_app; assumption.
      + destruct l0 as [|x r]; [constructor|]. constructor; [|constructor].
        destruct (brk_block b); [|apply okE_wrap; exact Ho'].
        apply okE_ifexp; [apply okE_unop; apply okE_attr; apply okE_name|apply okE_wrap; exact Ho'|apply okE_ellipsis].
  Qed.

  Lemma S_break : S cfg SBreak.
  Proof.
    intros c p es _ H. cbn [lower_stmt] in H. destruct (c_loops c) as [|l ls]; [discriminate|]. injection H as <-.
    constructor; [|constructor]. apply okE_elist. constructor; [apply okE_set_break|apply okL_intr_set].
  Qed.
  Lemma S_continue : S cfg SContinue.
  Proof.
    intros c p es _ H. cbn [lower_stmt] in H. destruct (c_loops c) as [|l ls]; [discriminate|]. injection H as <-.
    constructor; [|constructor]. apply okE_elist. apply okL_intr_set.
  Qed.
  Lemma S_pass : S cfg SPass.
  Proof. intros c p es _ H. cbn [lower_stmt] in H. injection H as <-. constructor; [apply okE_ellipsis|constructor]. Qed.
  Lemma S_global ns : S cfg (SGlobal ns).
  Proof. intros c p es _ H. cbn [lower_stmt] in H. injection H as <-. constructor. Qed.
  Lemma S_nonlocal ns : S cfg (SNonlocal ns).
  Proof. intros c p es _ H. cbn [lower_stmt] in H. injection H as <-. constructor. Qed.
  Lemma S_unsupported k : S cfg (SUnsupported k).
  Proof. intros c p es _ H. cbn [lower_stmt] in H. discriminate H. Qed.
  Lemma S_augassign t op v : S cfg (SAugAssign t op v).
  Proof.
    intros c p es Hc H. cbn [stmt_ok lower_stmt] in *. apply andb_prop in Hc as [Ct Cv].
    exact (lower_augassign_ok _ _ _ _ _ _ Ct Cv H).
  Qed.
  Lemma S_import ns : S cfg (SImport ns).
  Proof. intros c p es _ H. cbn [lower_stmt] in H. exact (lower_import_ok _ _ _ H). Qed.
  Lemma S_importfrom m ns lv : S cfg (SImportFrom m ns lv).
  Proof.
    intros c p es Hc H. cbn [stmt_ok lower_stmt] in *. apply Z.leb_le in Hc. exact (lower_importfrom_ok _ _ _ _ _ _ Hc H).
  Qed.

  Lemma S_assign ts v : S cfg (SAssign ts v).
  Proof.
    intros c p es Hc H. cbn [stmt_ok] in Hc. apply andb_prop in Hc as [Ct Cv].
    cbn [lower_stmt] in H. bindH H. pose proof (tr_ok _ v _ Cv E) as Hv.
    set (val := if shared_value ts then Name (ol "assign" (path_str p)) else e) in *.
    assert (Hval : okE val) by (unfold val; destruct (shared_value ts); [apply okE_name|exact Hv]).
    clearbody val. bindH H. injection H as <-.
    apply okL_app; [destruct (shared_value ts); [constructor; [apply okE_named; exact Hv|constructor]|constructor]|].
    clear E. revert l E0. generalize 0 as k. induction ts as [|t r IH]; intros k l E0.
    - injection E0 as <-. constructor.
    - cbn [forallb] in Ct. apply andb_prop in Ct as [C1 Cr]. bindH E0. bindH E0. injection E0 as <-.
      apply okL_app; [exact (assign_auto_ok _ t _ _ _ C1 Hval E)|exact (IH Cr _ _ E1)].
  Qed.

  Lemma S_annassign t v : S cfg (SAnnAssign t v).
  Proof.
    intros c p es Hc H. cbn [stmt_ok] in Hc. apply andb_prop in Hc as [Ct Cv].
    destruct v as [v|]; cbn [lower_stmt] in H; [|injection H as <-; constructor].
    cbn [oecb] in Cv. bindH H. pose proof (tr_ok _ v _ Cv E) as Hv.
    remember (shared_value [t]) as sh eqn:Esh. clear Esh. bindH H. injection H as <-.
    apply okL_app; [destruct sh; [constructor; [apply okE_named; exact Hv|constructor]|constructor]|].
    refine (assign_auto_ok _ t _ _ _ Ct _ E0). destruct sh; [apply okE_name|exact Hv].
  Qed.

  Lemma S_return v : S cfg (SReturn v).
  Proof.
    intros c p es Hc H. cbn [stmt_ok lower_stmt] in *. destruct (n_kind (c_nsp c)); try discriminate H.
    bindH H. injection H as <-. constructor; [|constructor]. apply okE_elist.
    apply okL_app.
    { destruct v as [x|]; [|injection E as <-; constructor]. cbn [oecb] in Hc. bindH E. injection E as <-.
      constructor; [apply okE_named; exact (tr_ok _ x _ Hc E0)|constructor]. }
    apply okL_app.
    { induction (rev (c_loops c)) as [|x r IH]; [constructor|]. cbn [map]. constructor; [apply okE_set_break|exact IH]. }
    apply okL_app.
    { induction (c_loops c) as [|x r IH]; [constructor|]. cbn [flat_map]. apply okL_app; [apply okL_intr_set|exact IH]. }
    apply okL_intr_set.
  Qed.

  Lemma rmap_topt_ok n : forall l l', forallb oecb l = true ->
    rmap (fun d => match d with Some x => let! y := tr n x in ret (Some y) | None => ret None end) l = inl l' ->
    Forall okO l' /\ length l' = length l.
  Proof.
    induction l as [|o r IH]; intros l' Hc H; cbn [rmap] in H.
    - injection H as <-. split; [constructor|reflexivity].
    - cbn [forallb] in Hc. apply andb_prop in Hc as [Co Cr]. bindH H. bindH H. injection H as <-.
      destruct (IH _ Cr eq_refl) as [HF HL]. split; [|cbn [length]; rewrite HL; reflexivity].
      constructor; [|exact HF]. destruct o as [x|]; [|injection E as <-; exact I].
      bindH E. injection E as <-. exact (tr_ok n x _ Co E1).
  Qed.

  Lemma deco_fold_ok n : forall ds acc e, forallb ecb ds = true -> okE acc ->
    (fix go (ds : list expr) (acc : expr) : res expr :=
       match ds with [] => ret acc | d :: r => let! d' := tr n d in go r (call d' [acc]) end) ds acc = inl e -> okE e.
  Proof.
    induction ds as [|d r IH]; intros acc e Hc Ha H.
    - injection H as <-. exact Ha.
    - cbn [forallb] in Hc. apply andb_prop in Hc as [Cd Cr]. bindH H.
      apply (IH _ _ Cr) in H; [exact H|]. apply okE_call; [exact (tr_ok n d _ Cd E)|]. constructor; [exact Ha|constructor].
  Qed.

  Lemma forallb_rev {X} (f : X -> bool) l : forallb f l = true -> forallb f (rev l) = true.
  Proof.
    intros H. rewrite forallb_forall in *. intros x Hx. apply H. apply in_rev. exact Hx.
  Qed.

  Lemma okE_compare1 l op c : okE l -> okE c -> okE (Compare l [op] [c]).
  Proof.
    intros Hl Hc. split; [|reflexivity]. cbn [core length Nat.eqb Nat.leb forallb].
    rewrite (ecore_of _ Hl), (ecore_of _ Hc). reflexivity.
  Qed.
  Lemma okE_hook_wrap p m name decs decorated : okE decorated -> okE (hook_wrap p m name decs decorated).
  Proof.
    intros H. unfold hook_wrap. destruct (m && is_class_hook name); [|exact H].
    destruct decs as [|d0 dr].
    - apply okE_call; [apply okE_name|]. constructor; [exact H|constructor].
    - apply okE_call; [|constructor; [exact H|constructor]].
      apply okE_lambda; [|cbn; lia|reflexivity|constructor|constructor].
      apply okE_ifexp; [|apply okE_call; [apply okE_name|constructor; [apply okE_name|constructor]]|apply okE_name].
      apply okE_compare1; (apply okE_call; [apply okE_name|]); (constructor; [|constructor]); [apply okE_name|].
      apply okE_lambda0. apply okE_cint. lia.
  Qed.

  Lemma S_functiondef name ln a b decs : Forall (S cfg) b -> S cfg (SFunctionDef name ln a b decs).
  Proof.
    intros Hb c p es Hc H. cbn [stmt_ok] in Hc. apply andb_prop in Hc as [Hc Cb]. apply andb_prop in Hc as [Ca Cd].
    unfold args_ok in Ca. apply andb_prop in Ca as [Ca C4]. apply andb_prop in Ca as [Ca C3]. apply andb_prop in Ca as [C1 C2].
    cbn [lower_stmt] in H. destruct (find_inner (c_nsp c) name ln) as [fn|]; [|discriminate].
    destruct (n_kind fn); try discriminate H.
    bindH H. bindH H. cbv zeta in H. bindH H. bindH H. bindH H. injection H as <-.
    pose proof (rmap_tr_ok _ _ _ C1 E) as Hde. pose proof (rmap_length _ _ _ E) as Lde.
    destruct (rmap_topt_ok _ _ _ C2 E0) as [Hkd Lkd].
    pose proof (block_ok cfg b _ _ _ _ _ Hb Cb E1) as Hb'.
    constructor; [|constructor]. refine (okE_get_assign _ _ _ _ _ E3).
    assert (Hlam : okE e) .
    { refine (deco_fold_ok _ _ _ _ (forallb_rev _ _ Cd) _ E2).
      apply okE_lambda.
      - apply okE_subscript_plain; [|apply okE_minus1|discriminate]. apply okE_elist.
        constructor; [apply okE_named; apply okE_cnone|].
        apply okL_app; [destruct (n_zero_super fn); [constructor; [apply okE_name|constructor]|constructor]|].
        apply okL_app; [apply okL_intr_clear|].
        apply okL_app.
        { destruct (n_inner_nonlocal fn); [constructor|]. constructor; [|constructor]. apply okE_named.
          apply okE_edict; [rewrite !map_length; reflexivity| |].
          - generalize (sort_dedup (n_nonlocal_params fn)) as ps. intros ps.
            induction ps as [|x r IH]; [constructor|]. cbn [map]. constructor; [apply okE_cstr|exact IH].
          - generalize (sort_dedup (n_nonlocal_params fn)) as ps. intros ps.
            induction ps as [|x r IH]; [constructor|]. cbn [map]. constructor; [apply okE_name|exact IH]. }
        apply okL_app; [|constructor; [apply okE_name|constructor]].
        destruct (cfg_chain cfg); [constructor; [apply okE_wrap; exact Hb'|constructor]|exact Hb'].
      - rewrite Lde. apply Nat.leb_le. exact C3.
      - rewrite Lkd. apply Nat.eqb_eq. exact C4.
      - exact Hde.
      - exact Hkd. }
    apply okE_hook_wrap. exact Hlam.
  Qed.

  Lemma rmap_tr_core n : forall l l', forallb core l = true -> rmap (tr n) l = inl l' -> forallb core l' = true.
  Proof.
    induction l as [|x r IH]; intros l' Hc H; cbn [rmap] in H.
    - injection H as <-. reflexivity.
    - cbn [forallb] in Hc. apply andb_prop in Hc as [Cx Cr]. bindH H. bindH H. injection H as <-.
      cbn [forallb]. rewrite (tr_ok_core n x _ Cx E), (IH _ Cr eq_refl). reflexivity.
  Qed.
  Lemma rmap_kws_ok n : forall (kws kws' : list (option ident * expr)),
    forallb (fun kw => ecb (snd kw)) kws = true ->
    rmap (fun kw => let! v := tr n (snd kw) in ret (fst kw, v)) kws = inl kws' -> okL (map snd kws').
  Proof.
    induction kws as [|[k v] r IH]; intros kws' Hc H; cbn [rmap] in H.
    - injection H as <-. constructor.
    - cbn [forallb snd fst] in *. apply andb_prop in Hc as [Cv Cr]. bindH H. bindH H. injection H as <-.
      bindH E. injection E as <-.
      cbn [map snd]. constructor; [exact (tr_ok n v _ Cv E1)|exact (IH _ Cr eq_refl)].
  Qed.
  Lemma okL_filter_snd (f : option ident * expr -> bool) kws : okL (map snd kws) -> okL (map snd (filter f kws)).
  Proof.
    induction kws as [|kw r IH]; intros H; [constructor|]. cbn [map] in H. inversion H; subst.
    cbn [filter]. destruct (f kw); [cbn [map]; constructor; [assumption|apply IH; assumption]|apply IH; assumption].
  Qed.

  Lemma okE_class_create p name bases' kws' : forallb core bases' = true -> okL (map snd kws') ->
    okE (class_create p name bases' kws').
  Proof.
    intros Hbs Hks. unfold class_create.
    assert (Hb : okE (ETuple bases')) by (split; [cbn [core]; exact Hbs|reflexivity]).
    destruct (existsb is_meta_kw kws').
    - apply okE_callk; [|constructor; [exact Hb|constructor]|exact Hks].
      apply okE_lambda; [|cbn; lia|reflexivity|constructor|constructor].
      apply okE_callk.
      + apply okE_call; [apply okE_attr; apply okE_name|]. constructor; [apply okE_cstr|constructor].
      + constructor; [apply okE_cstr|]. constructor; [apply okE_name|].
        constructor; [apply okE_edict; [reflexivity|constructor|constructor]|constructor].
      + cbn [map snd]. constructor; [apply okE_name|constructor].
    - apply okE_callk; [apply okE_name| |exact Hks].
      constructor; [apply okE_cstr|]. constructor; [exact Hb|].
      constructor; [apply okE_edict; [reflexivity|constructor|constructor]|constructor].
  Qed.

  Lemma S_classdef name ln bases kws b decs : Forall (S cfg) b -> S cfg (SClassDef name ln bases kws b decs).
  Proof.
    intros Hb c p es Hc H. cbn [stmt_ok] in Hc. apply andb_prop in Hc as [Hc Cb]. apply andb_prop in Hc as [Hc Cd].
    apply andb_prop in Hc as [Cbs Ck].
    cbn [lower_stmt] in H. destruct (find_inner (c_nsp c) name ln) as [cn|]; [|discriminate].
    destruct (n_kind cn); try discriminate H.
    bindH H. bindH H. bindH H. cbv zeta in H. bindH H. bindH H. bindH H. injection H as <-.
    pose proof (block_ok cfg b _ _ _ _ _ Hb Cb E) as Hb'.
    pose proof (rmap_tr_core _ _ _ Cbs E0) as Hbs.
    pose proof (rmap_kws_ok _ _ _ Ck E1) as Hks.
    pose proof (okE_get_load_name _ _ _ _ _ E3) as Hld.
    constructor.
    { refine (okE_get_assign _ _ _ _ _ E2). apply okE_class_create; assumption. }
    constructor.
    { apply okE_named. apply okE_lambda0. apply okE_subscript_plain; [|apply okE_minus1|discriminate]. apply okE_elist.
      constructor; [apply okE_named; exact Hld|]. constructor; [apply okE_named; apply okE_edict; [reflexivity|constructor|constructor]|].
      apply okL_app; [exact Hb'|]. constructor; [apply okE_name|constructor]. }
    constructor.
    { apply okE_listcomp1; [|reflexivity|reflexivity|].
      - apply okE_call; [apply okE_name|]. constructor; [exact Hld|]. constructor; [apply okE_name|]. constructor; [apply okE_name|constructor].
      - apply okE_call; [apply okE_attr; apply okE_call; [apply okE_name|constructor]|constructor]. }
    apply forallb_rev in Cd. revert l2 E4. induction (rev decs) as [|d r IH]; intros l2 E4; cbn [rmap] in E4.
    - injection E4 as <-. constructor.
    - cbn [forallb] in Cd. apply andb_prop in Cd as [C1 Cr]. bindH E4. bindH E4. injection E4 as <-. bindH E5.
      constructor; [|exact (IH Cr _ eq_refl)].
      refine (okE_get_assign _ _ _ _ _ E5). apply okE_call; [exact (tr_ok _ d _ C1 E4)|]. constructor; [exact Hld|constructor].
  Qed.

  (* every statement of the fragment, at any nesting *)
  Theorem lower_stmt_ok : forall s, S cfg s.
  Proof.
    induction s using stmt_ind'.
    - apply S_expr.
    - apply S_if; assumption.
    - apply S_while; assumption.
    - apply S_for; assumption.
    - apply S_break.
    - apply S_continue.
    - apply S_pass.
    - apply S_assign.
    - apply S_annassign.
    - apply S_augassign.
    - apply S_functiondef; assumption.
    - apply S_return.
    - apply S_global.
    - apply S_nonlocal.
    - apply S_classdef; assumption.
    - apply S_import.
    - apply S_importfrom.
    - apply S_unsupported.
  Qed.

  Lemma okE_import_lib lib : okE (import_lib lib).
  Proof.
    unfold import_lib. apply okE_named. apply okE_call; [apply okE_name|]. constructor; [apply okE_cstr|constructor].
  Qed.
  Lemma okE_preset : okE preset_iter_wrapper.
  Proof. split; vm_compute; reflexivity. Qed.

  (* THE MODULE: the ONE expression a program of the fragment is lowered to lies in the core of the round-trip theorem *)
  Theorem lower_module_ok : forall root body e,
    forallb stmt_ok body = true -> lower_module cfg root body = inl e -> okE e.
  Proof.
    intros root body e Hc H. unfold lower_module in H. bindH H. bindH H. injection H as <-.
    apply okE_wrap.
    apply okL_app; [match goal with |- okL (if ?x then _ else _) => destruct x end; [constructor; [apply okE_preset|constructor]|constructor]|].
    apply okL_app; [match goal with |- okL (if ?x then _ else _) => destruct x end; [constructor; [apply okE_import_lib|constructor]|constructor]|].
    apply okL_app; [match goal with |- okL (if ?x then _ else _) => destruct x end; [constructor; [apply okE_import_lib|constructor]|constructor]|].
    refine (block_ok cfg body _ _ _ _ _ _ Hc E0). apply Forall_forall. intros s _. apply lower_stmt_ok.
  Qed.

  Corollary lower_module_core_top : forall root body e,
    forallb stmt_ok body = true -> lower_module cfg root body = inl e -> core_top e = true.
  Proof.
    intros root body e Hc H. destruct (lower_module_ok root body e Hc H) as [C N]. unfold core_top. rewrite C, N. reflexivity.
  Qed.
End StmtCases.


(* C02 / C03 for WHOLE PROGRAMS of the modelled fragment: whatever program (any statements, any nesting, any size) the converter
   model accepts, if the program's own expressions lie in the core, then the tokens of the text the unparser model prints for
   the ONE output expression are read back by the expression parser as exactly that expression, nothing left over. *)
Theorem module_output_is_one_expression : forall cfg root body e,
  forallb stmt_ok body = true -> lower_module cfg root body = inl e ->
  exists f0, forall f, f0 <= f -> pc f (MExpr slot_top) (norm (unparse_toks e)) = Some (e, []).
Proof.
  intros cfg root body e Hc H. apply roundtrip_unparser_core_top. exact (lower_module_core_top cfg root body e Hc H).
Qed.
