(* C05: fuel monotonicity of the scaffolding evaluator and compositional evaluation judgements. *)
From Coq Require Import String Ascii List ZArith Bool Arith Lia.
From OL Require Import Sexp PyAst Namespace Lower KSem.
Import ListNotations.
Open Scope string_scope.
Open Scope list_scope.

Section Mono.
  Variable orc : nat -> bool.

  Lemma run_mono : forall f m s r, run orc f m s = Some r -> forall f', f <= f' -> run orc f' m s = Some r.
  Proof.
    induction f as [|f IH]; intros m s r H f' Hle; [discriminate|].
    destruct f' as [|f']; [lia|]. assert (Hf : f <= f') by lia.
    cbn [run] in *.
    repeat match goal with
    | |- context [match ?m with MExpr _ => _ | _ => _ end] => is_var m; destruct m
    | H : context [match ?l with [] => _ | _ :: _ => _ end] |- _ => is_var l; destruct l
    | H : context [match ?e with Name _ => _ | _ => _ end] |- _ => is_var e; destruct e
    | H : context [match ?c with CNone => _ | _ => _ end] |- _ => is_var c; destruct c
    | H : context [match ?o with Some _ => _ | None => _ end] |- _ => is_var o; destruct o
    | H : context [match ?u with Invert => _ | _ => _ end] |- _ => is_var u; destruct u
    | H : context [match ?u with And => _ | Or => _ end] |- _ => is_var u; destruct u
    | H : context [match ?p with (_, _) => _ end] |- _ => is_var p; destruct p
    | H : context [if ?b then _ else _] |- _ => is_var b; destruct b
    | H : context [match run orc f ?m ?s with _ => _ end] |- _ =>
        let E := fresh "E" in destruct (run orc f m s) as [[? ?]|] eqn:E; [rewrite (IH _ _ _ E _ Hf)|discriminate]
    | H : run orc f ?m ?s = Some _ |- _ => rewrite (IH _ _ _ H _ Hf); clear H
    | H : context [if ?b then _ else _] |- _ => let E := fresh "E" in destruct b eqn:E
    | H : context [match ?x with _ => _ end] |- _ => let E := fresh "E" in destruct x eqn:E
    end; try discriminate; try assumption; try reflexivity.
  Qed.
End Mono.

Section Ev.
  Variable orc : nat -> bool.

  Definition Ev (m : mode) (s : st) (r : val * st) : Prop := exists f, run orc f m s = Some r.

  Lemma Ev2 m1 s1 r1 m2 s2 r2 : Ev m1 s1 r1 -> Ev m2 s2 r2 ->
    exists f, run orc f m1 s1 = Some r1 /\ run orc f m2 s2 = Some r2.
  Proof. intros [f1 H1] [f2 H2]. exists (f1 + f2). split; eapply run_mono; eauto; lia. Qed.

  Lemma Ev3 m1 s1 r1 m2 s2 r2 m3 s3 r3 : Ev m1 s1 r1 -> Ev m2 s2 r2 -> Ev m3 s3 r3 ->
    exists f, run orc f m1 s1 = Some r1 /\ run orc f m2 s2 = Some r2 /\ run orc f m3 s3 = Some r3.
  Proof. intros [f1 H1] [f2 H2] [f3 H3]. exists (f1 + f2 + f3). repeat split; eapply run_mono; eauto; lia. Qed.

  (* ---- atoms ---- *)
  Lemma Ev_true s : Ev (MExpr ctrue) s (VBool true, s). Proof. exists 1. reflexivity. Qed.
  Lemma Ev_false s : Ev (MExpr cfalse) s (VBool false, s). Proof. exists 1. reflexivity. Qed.
  Lemma Ev_none s : Ev (MExpr cnone) s (VNone, s). Proof. exists 1. reflexivity. Qed.
  Lemma Ev_ellipsis s : Ev (MExpr ellipsis) s (VEll, s). Proof. exists 1. reflexivity. Qed.
  Lemma Ev_name s x v : lookup (s_env s) x = Some v -> Ev (MExpr (Name x)) s (v, s).
  Proof. intros H. exists 1. cbn [run]. rewrite H. reflexivity. Qed.
  Lemma Ev_mark s k : Ev (MExpr (probe "m" k)) s (VNone, emit s (EMark k)). Proof. exists 1. reflexivity. Qed.
  Lemma Ev_cond s k : Ev (MExpr (probe "c" k)) s (VBool (orc (s_pos s)), emit (tick s) (ECond k (orc (s_pos s)))).
  Proof. exists 1. reflexivity. Qed.
  Lemma Ev_val s k : Ev (MExpr (probe "v" k)) s (VProbe k, emit s (EVal k)). Proof. exists 1. reflexivity. Qed.
  Lemma Ev_iterable s k : Ev (MExpr (probe "it" k)) s (VIterable k, emit s (EIterable k)). Proof. exists 1. reflexivity. Qed.
  Lemma Ev_break_attr s itn v : lookup (s_env s) (brk_key itn) = Some v -> Ev (MExpr (Attribute (Name itn) "_break")) s (v, s).
  Proof. intros H. exists 1. cbn [run]. rewrite H. reflexivity. Qed.

  (* ---- compound ---- *)
  Lemma Ev_named_const s x c v : Ev (MExpr (Constant c)) s (v, s) -> Ev (MExpr (NamedExpr x (Constant c))) s (v, setv s x v).
  Proof. intros [f H]. exists (S f). cbn [run]. rewrite H. reflexivity. Qed.

  Lemma Ev_named_name s x y v : lookup (s_env s) y = Some v -> Ev (MExpr (NamedExpr x (Name y))) s (v, setv s x v).
  Proof. intros H. exists 2. cbn [run]. rewrite H. reflexivity. Qed.

  Lemma Ev_named_probe_v s x k : Ev (MExpr (NamedExpr x (probe "v" k))) s (VProbe k, setv (emit s (EVal k)) x (VProbe k)).
  Proof. exists 2. reflexivity. Qed.

  Lemma Ev_named_wrapper s itn it k s1 : Ev (MExpr it) s (VIterable k, s1) ->
    Ev (MExpr (NamedExpr itn (call (Name "__ol_iter_wrapper") [it]))) s
       (VWrap k, setv (setv (emit s1 (EIter k)) (brk_key itn) (VBool false)) itn (VWrap k)).
  Proof. intros [f H]. exists (S f). cbn [run call]. cbn [String.eqb Ascii.eqb Bool.eqb]. rewrite H. reflexivity. Qed.

  Lemma Ev_setattr_true s itn : Ev (MExpr (call (Name "setattr") [Name itn; cstr "_break"; ctrue])) s (VNone, setv s (brk_key itn) (VBool true)).
  Proof. exists 2. reflexivity. Qed.

  Lemma Ev_not s e v s1 : Ev (MExpr e) s (v, s1) -> Ev (MExpr (UnaryOp Not e)) s (VBool (negb (truthy v)), s1).
  Proof. intros [f H]. exists (S f). cbn [run]. rewrite H. reflexivity. Qed.

  Lemma Ev_if_true s t b o v s1 r : Ev (MExpr t) s (v, s1) -> truthy v = true -> Ev (MExpr b) s1 r -> Ev (MExpr (IfExp t b o)) s r.
  Proof. intros H1 Ht H2. destruct (Ev2 _ _ _ _ _ _ H1 H2) as [f [A B]]. exists (S f). cbn [run]. rewrite A, Ht. exact B. Qed.
  Lemma Ev_if_false s t b o v s1 r : Ev (MExpr t) s (v, s1) -> truthy v = false -> Ev (MExpr o) s1 r -> Ev (MExpr (IfExp t b o)) s r.
  Proof. intros H1 Ht H2. destruct (Ev2 _ _ _ _ _ _ H1 H2) as [f [A B]]. exists (S f). cbn [run]. rewrite A, Ht. exact B. Qed.

  (* one-step unfoldings *)
  Lemma run_and_cons f e r last s :
    run orc (S f) (MAnd (e :: r) last) s =
    match run orc f (MExpr e) s with
    | Some (v, s1) => if truthy v then run orc f (MAnd r v) s1 else Some (v, s1)
    | None => None end.
  Proof. reflexivity. Qed.
  Lemma run_and_nil f last s : run orc (S f) (MAnd [] last) s = Some (last, s).
  Proof. reflexivity. Qed.
  Lemma run_boolop_and f es s : run orc (S f) (MExpr (BoolOp And es)) s = run orc f (MAnd es VNone) s.
  Proof. reflexivity. Qed.
  Lemma run_seq_cons f e r n last al s :
    run orc (S f) (MSeq (e :: r) n last al) s =
    match run orc f (MExpr e) s with Some (v, s1) => run orc f (MSeq r (S n) v al) s1 | None => None end.
  Proof. reflexivity. Qed.
  Lemma run_elist f es s : run orc (S f) (MExpr (EList es)) s = run orc f (MSeq es 0 VNone true) s.
  Proof. reflexivity. Qed.
  Lemma run_while f test body s :
    run orc (S f) (MWhile test body) s =
    match run orc f (MExpr test) s with
    | Some (v, s1) =>
        if truthy v then match run orc f (MExpr body) s1 with Some (_, s2) => run orc f (MWhile test body) s2 | None => None end
        else Some (VList 0, s1)
    | None => None end.
  Proof. reflexivity. Qed.
  Lemma run_forplain f k tgt body s :
    run orc (S f) (MForPlain k tgt body) s =
    let b := orc (s_pos s) in
    let s1 := emit (tick s) (ENext k b) in
    if b then match run orc f (MExpr body) (setv s1 tgt (VInt k)) with Some (_, s2) => run orc f (MForPlain k tgt body) s2 | None => None end
    else Some (VList 0, s1).
  Proof. reflexivity. Qed.
  Lemma run_forwrap f itn k tgt body s :
    run orc (S f) (MForWrap itn k tgt body) s =
    match lookup (s_env s) (brk_key itn) with
    | Some v =>
        if truthy v then Some (VList 0, s)
        else
          let b := orc (s_pos s) in
          let s1 := emit (tick s) (ENext k b) in
          if b then match run orc f (MExpr body) (setv s1 tgt (VInt k)) with Some (_, s2) => run orc f (MForWrap itn k tgt body) s2 | None => None end
          else Some (VList 0, s1)
    | None => None end.
  Proof. reflexivity. Qed.

  (* a and b *)
  Lemma Ev_and_false s a b v s1 : Ev (MExpr a) s (v, s1) -> truthy v = false -> Ev (MExpr (BoolOp And [a; b])) s (v, s1).
  Proof. intros [f H] Ht. exists (S (S f)). rewrite run_boolop_and, run_and_cons, H, Ht. reflexivity. Qed.
  Lemma Ev_and_true s a b v s1 w s2 : Ev (MExpr a) s (v, s1) -> truthy v = true -> Ev (MExpr b) s1 (w, s2) ->
    Ev (MExpr (BoolOp And [a; b])) s (w, s2).
  Proof.
    intros H1 Ht H2. destruct (Ev2 _ _ _ _ _ _ H1 H2) as [f [A B]]. exists (S (S (S (S f)))).
    rewrite run_boolop_and, run_and_cons.
    rewrite (run_mono orc _ _ _ _ A (S (S f))) by lia. rewrite Ht.
    rewrite run_and_cons. rewrite (run_mono orc _ _ _ _ B (S f)) by lia.
    rewrite run_and_nil. destruct (truthy w); reflexivity.
  Qed.

  (* ---- sequencing: a list display evaluates its elements left to right ---- *)
  Inductive EvSeq : list expr -> st -> st -> Prop :=
  | ES_nil s : EvSeq [] s s
  | ES_cons e r s v s1 s' : Ev (MExpr e) s (v, s1) -> EvSeq r s1 s' -> EvSeq (e :: r) s s'.

  Lemma EvSeq_app a b s s1 s' : EvSeq a s s1 -> EvSeq b s1 s' -> EvSeq (a ++ b) s s'.
  Proof. induction 1; intros Hb; [exact Hb|]. cbn [app]. econstructor; eauto. Qed.

  Lemma EvSeq_one e s v s1 : Ev (MExpr e) s (v, s1) -> EvSeq [e] s s1.
  Proof. intros H. econstructor; [exact H|constructor]. Qed.

  Lemma EvSeq_run es s s' : EvSeq es s s' -> forall n last, Ev (MSeq es n last true) s (VList (n + length es), s').
  Proof.
    induction 1 as [s|e r s v s1 s' He Hr IH]; intros n last.
    - exists 1. cbn [run length]. rewrite Nat.add_0_r. reflexivity.
    - destruct (Ev2 _ _ _ _ _ _ He (IH (S n) v)) as [f [A B]]. exists (S f).
      rewrite run_seq_cons, A, B. cbn [length]. replace (S n + length r) with (n + S (length r)) by lia. reflexivity.
  Qed.

  Lemma Ev_elist es s s' : EvSeq es s s' -> Ev (MExpr (EList es)) s (VList (length es), s').
  Proof. intros H. destruct (EvSeq_run _ _ _ H 0 VNone) as [f Hf]. exists (S f). rewrite run_elist. exact Hf. Qed.

  (* [es ++ [e]][-1] : value of the last element *)
  Lemma Ev_last es e s s1 v s' : EvSeq es s s1 -> Ev (MExpr e) s1 (v, s') ->
    Ev (MExpr (Subscript (EList (es ++ [e])) minus1)) s (v, s').
  Proof.
    intros Hes He.
    assert (G : forall n last, Ev (MSeq (es ++ [e]) n last false) s (v, s')).
    { induction Hes as [s|e0 r s v0 s1 s2 He0 Hr IH]; intros n last.
      - destruct He as [f Hf]. exists (S (S f)). cbn [app]. rewrite run_seq_cons.
        rewrite (run_mono orc _ _ _ _ Hf (S f)) by lia. reflexivity.
      - destruct (Ev2 _ _ _ _ _ _ He0 (IH He (S n) v0)) as [f [A B]]. exists (S f). cbn [app].
        rewrite run_seq_cons, A. exact B. }
    destruct (G 0 VNone) as [f Hf]. exists (S f). unfold minus1. cbn [run cint]. exact Hf.
  Qed.

  (* the expression wrapper with the list option *)
  Lemma Ev_wrap cfg es s s' : cfg_chain cfg = false -> EvSeq es s s' -> exists v, Ev (MExpr (wrap cfg es)) s (v, s').
  Proof.
    intros Hc H. destruct es as [|e [|e2 r]].
    - inversion H; subst. exists VEll. apply Ev_ellipsis.
    - inversion H as [|? ? ? v s1 ? He Hr]; subst. inversion Hr; subst. exists v. exact He.
    - unfold wrap. rewrite Hc. eexists. apply Ev_elist. exact H.
  Qed.
End Ev.
