(* Model of the converter: oneliner/convert.py, pending_nodes.py, expr_transform.py, utils.py.
   A pure structural function.  The real code threads mutable counters (interrupt_cnt, break_cnt,
   return_cnt, flow_ctrl_*_used) and back-patches flag stores; here the same decisions are taken by
   the structural predicates [mi_loop], [has_ret], [uses_flag] (DESIGN.md, Appendix A) and the flag
   stores are emitted directly.  Fresh names are derived from the position of the statement
   ([path]) instead of a random suffix; both sides are renamed by first occurrence before being
   compared.  Equality with the real converter's output AST is checked on every run. *)
From Coq Require Import String Ascii List ZArith NArith Bool Arith.
From OL Require Import Sexp PyAst Namespace.
From OLGen Require Import Tables.
Import ListNotations.
Open Scope string_scope.
Open Scope list_scope.

Record config := mkCfg { cfg_chain : bool;          (* expr_wrapper = chain_call *)
                         cfg_short : bool;          (* if_style = short_circuit *)
                         cfg_host_lt_312 : bool }.  (* host interpreter older than 3.12 *)

(* ---------- expression wrappers (utils.py) ---------- *)
Definition ellipsis : expr := Constant CEllipsis.
Definition ctrue : expr := Constant CTrue.
Definition cfalse : expr := Constant CFalse.
Definition cnone : expr := Constant CNone.
Definition cint (z : Z) : expr := Constant (CInt z).
(* utils.int_literal: a negative integer is a minus sign applied to a literal (what the parser reads) *)
Definition nint (z : Z) : expr := if (z <? 0)%Z then UnaryOp USub (cint (- z)) else cint z.
Definition minus1 : expr := UnaryOp USub (cint 1).
(* the integer an index expression of the generated code denotes *)
Definition int_of (e : expr) : option Z :=
  match e with
  | Constant (CInt z) => Some z
  | UnaryOp USub (Constant (CInt z)) => Some (- z)%Z
  | _ => None
  end.
Lemma int_of_cint z : int_of (cint z) = Some z.
Proof. reflexivity. Qed.
Lemma int_of_nint z : int_of (nint z) = Some z.
Proof. unfold nint. destruct (z <? 0)%Z; cbn [int_of cint]; [rewrite Z.opp_involutive|]; reflexivity. Qed.
Definition lambda0 (body : expr) : expr := Lambda [] [] None [] [] None [] body.

Definition chain_runner : expr :=
  call (lambda0 (NamedExpr "_" (Lambda [] ["__"] None [] [] None [] (Name "_")))) [].

Definition chain_call (nodes : list expr) : expr :=
  match nodes with
  | [] => ellipsis
  | n0 :: rest => fold_left (fun c n => call c [n]) rest (call chain_runner [n0])
  end.

Definition wrap (cfg : config) (nodes : list expr) : expr :=
  match nodes with
  | [] => ellipsis
  | [x] => x
  | _ => if cfg_chain cfg then chain_call nodes else EList nodes
  end.

Definition convert_slice (a b c : option expr) : expr :=
  let v := fun o => match o with Some x => x | None => cnone end in
  call (Name "slice") [v a; v b; v c].

(* utils.convert_index: slices, also inside an index tuple, become slice() calls *)
Fixpoint convert_index (e : expr) : expr :=
  match e with
  | Slice a b c => convert_slice a b c
  | ETuple elts => ETuple (map convert_index elts)
  | _ => e
  end.

(* ---------- expr_transform.py ---------- *)
Fixpoint target_names (t : expr) : res (list ident) :=
  match t with
  | Name i => ret [i]
  | ETuple l | EList l =>
      (fix go (l : list expr) : res (list ident) :=
         match l with
         | [] => ret []
         | x :: r => let! a := target_names x in let! b := go r in ret (a ++ b)
         end) l
  | _ => fail ERuntime
  end.

(* PendingLambda.__init__: the targets of the assignment expressions that belong to a lambda body: everything below
   the body except the bodies of nested lambdas (their default values do belong to it) *)
Fixpoint walrus_names (e : expr) {struct e} : list ident :=
  let wl := fun l => flat_map walrus_names l in
  let wo := fun (o : option expr) => match o with Some x => walrus_names x | None => [] end in
  let wg := fun (gs : list comprehension) =>
    flat_map (fun g => match g with (t, i, ifs, _) => walrus_names t ++ walrus_names i ++ flat_map walrus_names ifs end) gs in
  match e with
  | Name _ | Constant _ | Other _ => []
  | NamedExpr t v => t :: walrus_names v
  | ListComp x gs | SetComp x gs | GeneratorExp x gs => walrus_names x ++ wg gs
  | DictComp k v gs => walrus_names k ++ walrus_names v ++ wg gs
  | JoinedStr vs | BoolOp _ vs | EList vs | ETuple vs | ESet vs => wl vs
  | FormattedValue v _ f => walrus_names v ++ wo f
  | Starred v | UnaryOp _ v | Attribute v _ | YieldFrom v | Await v => walrus_names v
  | BinOp l _ r => walrus_names l ++ walrus_names r
  | EDict ks vs => flat_map wo ks ++ wl vs
  | Compare l _ cs => walrus_names l ++ wl cs
  | Subscript v sl => walrus_names v ++ walrus_names sl
  | Slice a b c => wo a ++ wo b ++ wo c
  | Call f args kws => walrus_names f ++ wl args ++ flat_map (fun kw => walrus_names (snd kw)) kws
  | Lambda _ _ _ _ kd _ de _ => flat_map wo kd ++ wl de
  | IfExp t b o => walrus_names t ++ walrus_names b ++ walrus_names o
  | Yield v => wo v
  end.

Definition opt_list (o : option ident) : list ident := match o with Some x => [x] | None => [] end.

(* NamespaceFunction.get_explicit_super: in a method, outside every lambda / comprehension of the source, a call `super()`
   of the builtin is written out as super(__class__, <first positional parameter>): the loops of the method become
   comprehensions, which have a frame of their own before Python 3.12.  Some fp: rewrite with that parameter. *)
Definition explicit_super (n : nsp) (inn : bool) (f : expr) (args : list expr) (kws : list (option ident * expr))
  : res (option ident) :=
  match f, args, kws with
  | Name fname, [], [] =>
      if negb (String.eqb fname "super") then ret None
      else match n_kind n with
      | NFunction =>
          if negb (n_is_method n) then ret None
          else match n_params n with
          | [] => ret None
          | fp :: _ =>
              if inn then ret None
              else match lookup_sym (n_syms n) "super" with
              | None => fail EKey
              | Some s =>
                  if negb (sy_global s) || sy_declglobal s then ret None
                  else if existsb (fun y => String.eqb (sy_name y) "super") (lk_syms (last (n_chain n) (self_link n))) then ret None
                  else ret (Some fp)
              end
          end
      | _ => ret None
      end
  | _, _, _ => ret None
  end.

(* the names the clauses of a comprehension bind (asynchronous comprehensions are refused) *)
Fixpoint gen_names (gs : list comprehension) : res (list ident) :=
  match gs with
  | [] => ret []
  | (t, _, _, is_async) :: r =>
      if is_async : bool then fail ERuntime
      else let! a := target_names t in let! b := gen_names r in ret (a ++ b)
  end.

(* the clauses in order: iterable (the first one in the enclosing scope), target, conditions; [tf] is transf itself *)
Section TGens.
  Variable tf : list ident -> bool -> expr -> res expr.
  Variables (bd : list ident) (inn : bool) (c : list ident).
  Fixpoint tgens_go (gs : list comprehension) (first : bool) {struct gs} : res (list comprehension) :=
    match gs with
    | [] => ret []
    | (t, i, ifs, a) :: r =>
        let! i' := (if first then tf bd inn i else tf c true i) in
        let! t' := tf c true t in
        let! ifs' := rmap (tf c true) ifs in
        let! r' := tgens_go r false in
        ret ((t', i', ifs', a) :: r')
    end.
End TGens.

Section Transf.
  Variable n : nsp.

  (* [bd]: names bound by the lambdas / comprehensions whose body contains the expression; [inn]: whether there is one *)
  Fixpoint transf (bd : list ident) (inn : bool) (e : expr) {struct e} : res expr :=
    let tl := fun c i l => rmap (transf c i) l in
    let topt := fun c i (o : option expr) =>
      match o with Some x => let! y := transf c i x in ret (Some y) | None => ret None end in
    let tgens := fun (c : list ident) (gs : list comprehension) =>
      tgens_go (fun c0 i0 e0 => transf c0 i0 e0) bd inn c gs true in
    match e with
    | Name i => get_load_name n bd inn i
    | NamedExpr t v =>
        let! v' := transf bd inn v in
        if mem t bd then ret (NamedExpr t v')            (* a local variable of the enclosing lambda *)
        else
        let! r := get_assign n t v' in
        match r with
        | NamedExpr _ _ => ret r
        | _ => let! ld := get_load_assigned n t in ret (Subscript (EList [r; ld]) minus1)
        end
    | ListComp x gs =>
        let! ns := gen_names gs in let c := ns ++ bd in
        let! gs' := tgens c gs in let! x' := transf c true x in ret (ListComp x' gs')
    | SetComp x gs =>
        let! ns := gen_names gs in let c := ns ++ bd in
        let! gs' := tgens c gs in let! x' := transf c true x in ret (SetComp x' gs')
    | GeneratorExp x gs =>
        let! ns := gen_names gs in let c := ns ++ bd in
        let! gs' := tgens c gs in let! x' := transf c true x in ret (GeneratorExp x' gs')
    | DictComp k v gs =>
        let! ns := gen_names gs in let c := ns ++ bd in
        let! gs' := tgens c gs in let! k' := transf c true k in let! v' := transf c true v in ret (DictComp k' v' gs')
    | Constant c => ret (Constant c)
    | JoinedStr vs => let! vs' := tl bd inn vs in ret (JoinedStr vs')
    | FormattedValue v c f => let! v' := transf bd inn v in let! f' := topt bd inn f in ret (FormattedValue v' c f')
    | Starred v => let! v' := transf bd inn v in ret (Starred v')
    | BinOp l o r => let! l' := transf bd inn l in let! r' := transf bd inn r in ret (BinOp l' o r')
    | BoolOp o vs => let! vs' := tl bd inn vs in ret (BoolOp o vs')
    | UnaryOp o v => let! v' := transf bd inn v in ret (UnaryOp o v')
    | EList l => let! l' := tl bd inn l in ret (EList l')
    | ETuple l => let! l' := tl bd inn l in ret (ETuple l')
    | ESet l => let! l' := tl bd inn l in ret (ESet l')
    | EDict ks vs => let! ks' := rmap (topt bd inn) ks in let! vs' := tl bd inn vs in ret (EDict ks' vs')
    | Compare l ops cs => let! l' := transf bd inn l in let! cs' := tl bd inn cs in ret (Compare l' ops cs')
    | Attribute v a => let! v' := transf bd inn v in ret (Attribute v' a)
    | Subscript v s => let! v' := transf bd inn v in let! s' := transf bd inn s in ret (Subscript v' s')
    | Slice a b c => let! a' := topt bd inn a in let! b' := topt bd inn b in let! c' := topt bd inn c in ret (Slice a' b' c')
    | Call f args kws =>
        let! sup := explicit_super n inn f args kws in
        match sup with
        | Some fp =>
            let! f' := transf bd inn f in
            let! c := get_load_name n bd inn "__class__" in
            let! s := get_load_name n bd inn fp in
            ret (Call f' [c; s] [])
        | None =>
            let! f' := transf bd inn f in let! args' := tl bd inn args in
            let! kws' := rmap (fun kw => let! v := transf bd inn (snd kw) in ret (fst kw, v)) kws in
            ret (Call f' args' kws')
        end
    | Lambda po ar va ko kd kw de body =>
        (* fields in AST order: args (kw_defaults, then defaults) in the enclosing scope, then the body in its own *)
        let! kd' := rmap (topt bd inn) kd in
        let! de' := tl bd inn de in
        let c := po ++ ar ++ ko ++ opt_list va ++ opt_list kw ++ walrus_names body ++ bd in
        let! body' := transf c true body in ret (Lambda po ar va ko kd' kw de' body')
    | IfExp t b o => let! t' := transf bd inn t in let! b' := transf bd inn b in let! o' := transf bd inn o in ret (IfExp t' b' o')
    | Yield _ | YieldFrom _ | Await _ => fail ERuntime     (* generators / coroutines are refused *)
    | Other k => ret (Other k)
    end.
End Transf.

Definition tr (n : nsp) (e : expr) : res expr := transf n [] false e.

(* ---------- structural predicates replacing the counters ---------- *)
Definition is_interrupt (s : stmt) : bool :=
  match s with SBreak | SContinue | SReturn _ => true | _ => false end.

(* "some statement of the block that the traversal reaches satisfies f": statements after a literal
   break/continue/return are never converted *)
Section ExLive.
  Variable f : stmt -> bool.
  Fixpoint ex_live (b : list stmt) : bool :=
    match b with [] => false | x :: r => f x || (if is_interrupt x then false else ex_live r) end.
End ExLive.

(* a `return` is converted somewhere inside s (not crossing def/class; dead code is never converted) *)
Fixpoint has_ret (s : stmt) : bool :=
  match s with
  | SReturn _ => true
  | SIf _ b o | SWhile _ b o | SFor _ _ b o => ex_live has_ret b || ex_live has_ret o
  | _ => false
  end.
Definition has_ret_block (b : list stmt) : bool := ex_live has_ret b.

(* converting s bumps interrupt_cnt of the loop whose body level s sits on *)
Fixpoint mi_loop (s : stmt) : bool :=
  match s with
  | SBreak | SContinue | SReturn _ => true
  | SIf _ b o => ex_live mi_loop b || ex_live mi_loop o
  | SWhile _ b o | SFor _ _ b o => has_ret_block b || ex_live mi_loop o
  | _ => false
  end.
Definition mi_block (b : list stmt) : bool := ex_live mi_loop b.

(* converting s bumps break_cnt of that loop *)
Fixpoint brk_loop (s : stmt) : bool :=
  match s with
  | SBreak | SReturn _ => true
  | SIf _ b o => ex_live brk_loop b || ex_live brk_loop o
  | SWhile _ b o | SFor _ _ b o => has_ret_block b || ex_live brk_loop o
  | _ => false
  end.
Definition brk_block (b : list stmt) : bool := ex_live brk_loop b.

(* _iter_branch opens a new guarded segment somewhere in b *)
Fixpoint has_boundary (bumps : stmt -> bool) (b : list stmt) : bool :=
  match b with
  | s :: ((_ :: _) as r) => if is_interrupt s then false else bumps s || has_boundary bumps r
  | _ => false
  end.

(* get_flow_ctrl_expr of the current loop (bumps = mi_loop) / function (bumps = has_ret) is called
   from one of the blocks that sit on its level *)
Fixpoint uses_flag_stmt (bumps : stmt -> bool) (s : stmt) : bool :=
  match s with
  | SIf _ b o =>
      (has_boundary bumps b || ex_live (uses_flag_stmt bumps) b) || (has_boundary bumps o || ex_live (uses_flag_stmt bumps) o)
  | SWhile _ _ o | SFor _ _ _ o => has_boundary bumps o || ex_live (uses_flag_stmt bumps) o
  | _ => false
  end.
Definition uses_flag (bumps : stmt -> bool) (b : list stmt) : bool :=
  has_boundary bumps b || ex_live (uses_flag_stmt bumps) b.

(* ---------- contexts ---------- *)
Definition path := list nat.   (* position of a statement, innermost index first *)
Fixpoint path_str (p : path) : string :=
  match p with
  | [] => ""
  | i :: r => ncode i ++ "_" ++ path_str r
  end%string.

Inductive loopkind := LWhile | LFor.
Record loopctx := mkLoop { lp_kind : loopkind; lp_path : path; lp_intr_used : bool; lp_has_break : bool }.

Definition break_name (p : path) : ident := ol "break" (path_str p).
Definition intr_name (p : path) : ident := ol "interrupt" (path_str p).
Definition it_name (p : path) : ident := ol "it" (path_str p).

Record ctx := mkCtx { c_nsp : nsp; c_loops : list loopctx (* innermost first *); c_ret_used : bool }.

Definition set_break (l : loopctx) : expr :=
  match lp_kind l with
  | LWhile => NamedExpr (break_name (lp_path l)) ctrue
  | LFor => call (Name "setattr") [Name (it_name (lp_path l)); cstr "_break"; ctrue]
  end.

(* the guard used by _iter_branch in this context: (which statements open a new segment, flag) *)
Definition guard_of (c : ctx) : (stmt -> bool) * option ident :=
  match c_loops c with
  | l :: _ => (mi_loop, Some (intr_name (lp_path l)))
  | [] => match n_kind (c_nsp c) with
          | NFunction => (has_ret, Some (ret_flag (n_id (c_nsp c))))
          | _ => ((fun _ => false), None)
          end
  end.

Definition guarded (cfg : config) (flag : ident) (rest : list expr) : expr :=
  IfExp (UnaryOp Not (Name flag)) (wrap cfg rest) ellipsis.

Definition find_inner (n : nsp) (name : ident) (ln : Z) : option nsp :=
  find (fun m => Z.eqb (n_lineno m) ln && String.eqb (n_name m) name) (n_inner n).

(* sorted(set(...)) on ASCII identifiers *)
Fixpoint insert_sorted (x : ident) (l : list ident) : list ident :=
  match l with
  | [] => [x]
  | y :: r => if String.eqb x y then l else if String.ltb x y then x :: l else y :: insert_sorted x r
  end.
Definition sort_dedup (l : list ident) : list ident := fold_right insert_sorted [] l.

(* ---------- assignment (PendingAssign) ---------- *)
Section Assign.
  Variable n : nsp.

  Definition assign_subscript (v s value : expr) : res expr :=
    let! v' := tr n v in
    let! s1 := tr n s in
    ret (call (Attribute v' "__setitem__") [convert_index s1; value]).

  Definition assign_attribute (v : expr) (a : ident) (value : expr) : res expr :=
    let! v' := tr n v in ret (call (Name "setattr") [v'; cstr a; value]).

  (* the loop of assign_tuple_list; [f] is assign_auto itself *)
  Section PatternGo.
    Variable f : path -> expr -> expr -> res (list expr).
    Variable tmp : expr.
    Variable len : Z.
    Variable p : path.
    Fixpoint pattern_go (elts : list expr) (index : nat) (starred : bool) {struct elts} : res (list expr) :=
      match elts with
      | [] => ret []
      | t :: r =>
          let idx := Z.of_nat index in
          match t with
          | Starred t' =>
              if starred then fail ESyntax
              else
                let upper := (idx - len + 1)%Z in
                let sub := call (Name "list")
                             [Subscript tmp (Slice (Some (cint idx)) (if Z.eqb upper 0 then None else Some (nint upper)) None)] in
                let! a := f (index :: p) t' sub in
                let! b := pattern_go r (S index) true in ret (a ++ b)
          | _ =>
              let sub := Subscript tmp (if starred then nint (idx - len)%Z else cint idx) in
              let! a := f (index :: p) t sub in
              let! b := pattern_go r (S index) starred in ret (a ++ b)
          end
      end.
  End PatternGo.

  Fixpoint assign_auto (p : path) (target value : expr) {struct target} : res (list expr) :=
    let pattern := fun (elts : list expr) =>
      let tmp := ol "assign" (path_str p) in
      let! rest := pattern_go (fun p0 t0 v0 => assign_auto p0 t0 v0) (Name tmp) (Z.of_nat (length elts)) p elts 0 false in
      ret (NamedExpr tmp (call (Name "tuple") [value]) :: rest) in
    match target with
    | Name i => let! e := get_assign n i value in ret [e]
    | Attribute v a => let! e := assign_attribute v a value in ret [e]
    | Subscript v s => let! e := assign_subscript v s value in ret [e]
    | ETuple elts => pattern elts
    | EList elts => pattern elts
    | _ => fail ENotImpl
    end.
End Assign.

(* the value goes to a temporary first: several targets, or one attribute/subscript target (value before the
   target's object and index) *)
Definition shared_value (targets : list expr) : bool :=
  match targets with
  | [] => false
  | t :: r =>
      match r with
      | [] => match t with Attribute _ _ | Subscript _ _ => true | _ => false end
      | _ :: _ => true
      end
  end.

(* ---------- augmented assignment ---------- *)
Definition aug_expr (target : expr) (op : binop) (value fallback : expr) : expr :=
  IfExp (call (Name "hasattr") [target; cstr (aug_op_name op)])
        (call (Attribute target (aug_op_name op)) [value])
        fallback.

Definition lower_augassign (n : nsp) (p : path) (target : expr) (op : binop) (value : expr) : res (list expr) :=
  let! v := tr n value in
  let tmp := ol "augass" (path_str p) in
  match target with
  | Name i =>
      let! t := get_load_name n [] false i in
      let! fb := get_assign n i (BinOp t op v) in
      let! st := get_assign n i (call (Attribute t (aug_op_name op)) [v]) in
      ret [IfExp (call (Name "hasattr") [t; cstr (aug_op_name op)]) st fb]
  | Subscript par s =>
      let tmps := ol "sllice" (path_str p) in
      let tmpo := ol "augobj" (path_str p) in
      let! par' := tr n par in
      let! s' := tr n (convert_index s) in
      ret [NamedExpr tmpo par';
           NamedExpr tmps s';
           NamedExpr tmp (Subscript (Name tmpo) (Name tmps));
           call (Attribute (Name tmpo) "__setitem__")
                [Name tmps; aug_expr (Name tmp) op v (NamedExpr tmp (BinOp (Name tmp) op v))]]
  | Attribute par a =>
      let tmpo := ol "augobj" (path_str p) in
      let! par' := tr n par in
      ret [NamedExpr tmpo par';
           NamedExpr tmp (Attribute (Name tmpo) a);
           call (Name "setattr") [Name tmpo; cstr a; aug_expr (Name tmp) op v (NamedExpr tmp (BinOp (Name tmp) op v))]]
  | _ => fail ENotImpl
  end.

(* ---------- imports ---------- *)
(* str.split(".")[0] and "." in name *)
Fixpoint before_dot (s : string) : string :=
  match s with
  | EmptyString => EmptyString
  | String c r => if Ascii.eqb c "."%char then EmptyString else String c (before_dot r)
  end.
Fixpoint has_dot (s : string) : bool :=
  match s with
  | EmptyString => false
  | String c r => Ascii.eqb c "."%char || has_dot r
  end.

Definition lower_import (n : nsp) (names : list (ident * option ident)) : res (list expr) :=
  rmap (fun al =>
          match snd al with
          | None =>
              if has_dot (fst al)
              then get_assign n (before_dot (fst al)) (call (Name "__import__") [cstr (fst al)])   (* binds the top-level package *)
              else get_assign n (fst al) (call (Attribute (Name "__ol_importlib") "import_module") [cstr (fst al)])
          | Some a => get_assign n a (call (Attribute (Name "__ol_importlib") "import_module") [cstr (fst al)])
          end) names.

Definition lower_importfrom (n : nsp) (p : path) (module : option ident) (names : list (ident * option ident)) (level : Z)
  : res (list expr) :=
  let tmp := ol "mod" (path_str p) in
  let modname := match module with Some m => m | None => "" end in
  let imp := NamedExpr tmp (call (Name "__import__")
                 [cstr modname; call (Name "globals") []; call (Name "locals") [];
                  EList (map (fun al => cstr (fst al)) names); cint level]) in
  let! binds := rmap (fun al =>
          let asname := match snd al with Some a => a | None => fst al end in
          if String.eqb (fst al) "*" then fail ERuntime
          else get_assign n asname (Attribute (Name tmp) (fst al))) names in
  ret (imp :: binds).

(* the two hooks type.__new__ turns into class methods when (and only when) the member is a plain function: the class is
   created empty and filled with setattr, so the converter does it - unconditionally without decorators, behind a run-time test
   of what the decorators returned otherwise (fix: `@classmethod` written out was wrapped twice) *)
Definition is_class_hook (name : ident) : bool := String.eqb name "__init_subclass__" || String.eqb name "__class_getitem__".
Definition hook_wrap (p : path) (is_method : bool) (name : ident) (decs : list expr) (decorated : expr) : expr :=
  if is_method && is_class_hook name then
    match decs with
    | [] => call (Name "classmethod") [decorated]
    | _ =>
        let hook := ol "hook" (path_str p) in
        call (Lambda [] [hook] None [] [] None []
                (IfExp (Compare (call (Name "type") [Name hook]) [Is] [call (Name "type") [lambda0 (cint 0)]])
                       (call (Name "classmethod") [Name hook]) (Name hook)))
             [decorated]
    end
  else decorated.

(* the call that creates the (still empty) class.  Python evaluates the bases, then the keywords in the order written,
   `metaclass=` among them: with a metaclass keyword bases and keywords go - in that order - to a helper that takes the
   metaclass out of the keywords (fix: the metaclass expression used to be the callee, evaluated before the bases) *)
Definition is_meta_kw (kw : option ident * expr) : bool :=
  match fst kw with Some k => String.eqb k "metaclass" | None => false end.
Definition class_create (p : path) (name : ident) (bases' : list expr) (kws' : list (option ident * expr)) : expr :=
  if existsb is_meta_kw kws' then
    let b := ol "bases" (path_str p) in
    let k := ol "kwds" (path_str p) in
    Call (Lambda [] [b] None [] [] (Some k) []
            (Call (call (Attribute (Name k) "pop") [cstr "metaclass"]) [cstr name; Name b; EDict [] []] [(None, Name k)]))
         [ETuple bases'] kws'
  else Call (Name "type") [cstr name; ETuple bases'; EDict [] []] kws'.

(* ---------- statements ---------- *)
Section Stmts.
  Variable cfg : config.

  Definition while_comp (var : ident) (body test : expr) : expr :=
    ListComp body
      [(Name var,
        call (Attribute (Name "__ol_itertools") "takewhile")
             [Lambda [] [var] None [] [] None [] test; call (Attribute (Name "__ol_itertools") "count") []],
        [], false)].

  (* [isb]: the source condition is an and/or expression *)
  Definition if_result (isb : bool) (test : expr) (body orelse : list expr) : expr :=
    if cfg_short cfg then
      match orelse with
      | [] => BoolOp And [(if isb then IfExp test ctrue cfalse else test); wrap cfg body]
      | _ =>
          let once := if isb then IfExp test ctrue cfalse else UnaryOp Not (UnaryOp Not test) in
          let semi := BoolOp And [once; EList [wrap cfg body]] in
          match wrap cfg orelse with
          | BoolOp Or vs => BoolOp Or (semi :: vs)           (* a long elif chain stays flat *)
          | oe => BoolOp Or [semi; oe]
          end
      end
    else IfExp test (wrap cfg body) (wrap cfg orelse).

  (* _iter_branch: [i] = index of the first statement of b inside its block; [br] = branch number;
     [L] is lower_stmt itself *)
  Section Block.
    Variable L : ctx -> path -> stmt -> res (list expr).
    Fixpoint lower_block (c : ctx) (p : path) (br : nat) (i : nat) (b : list stmt) {struct b} : res (list expr) :=
      match b with
      | [] => ret []
      | s :: rest =>
          let! es := L c (i :: br :: p) s in
          if is_interrupt s then ret es
          else match rest with
               | [] => ret es
               | _ =>
                   let! rs := lower_block c p br (S i) rest in
                   match guard_of c with
                   | (bumps, Some flag) => if bumps s then ret (es ++ [guarded cfg flag rs]) else ret (es ++ rs)
                   | (_, None) => ret (es ++ rs)
                   end
               end
      end.
  End Block.

  Fixpoint lower_stmt (c : ctx) (p : path) (s : stmt) {struct s} : res (list expr) :=
    let block := lower_block (fun c0 p0 s0 => lower_stmt c0 p0 s0) in
    let n := c_nsp c in
    match s with
    | SExpr e => let! e' := tr n e in ret [e']
    | SPass => ret [ellipsis]
    | SGlobal _ | SNonlocal _ => ret []
    | SUnsupported _ => fail ERuntime
    | SIf test b o =>
        let! b' := block c p 0 0 b in
        let! o' := block c p 1 0 o in
        let! t := tr n test in
        ret [if_result (match test with BoolOp _ _ => true | _ => false end) t b' o']
    | SWhile test b o =>
        let has_break := brk_block b in
        let me := mkLoop LWhile p (uses_flag mi_loop b) has_break in
        let! b' := block (mkCtx n (me :: c_loops c) (c_ret_used c)) p 0 0 b in
        let! o' := block c p 1 0 o in
        let! t0 := tr n test in
        (* an and/or condition answers True/False: takewhile() must not test the deciding operand again *)
        let t := match test with BoolOp _ _ => IfExp t0 ctrue cfalse | _ => t0 end in
        let brk := break_name p in
        let body := (if lp_intr_used me then [NamedExpr (intr_name p) cfalse] else []) ++ b' in
        let test' := if has_break then BoolOp And [UnaryOp Not (Name brk); t] else t in
        let orelse := if has_break then IfExp (UnaryOp Not (Name brk)) (wrap cfg o') ellipsis else wrap cfg o' in
        ret ((if has_break then [NamedExpr brk cfalse] else [])
             ++ [while_comp (ol "while" (path_str p)) (wrap cfg body) test']
             ++ (match o' with [] => [] | _ => [orelse] end))
    | SFor target iter b o =>
        let has_break := brk_block b in
        let me := mkLoop LFor p (uses_flag mi_loop b) has_break in
        let! b' := block (mkCtx n (me :: c_loops c) (c_ret_used c)) p 0 0 b in
        let! o' := block c p 1 0 o in
        let ftmp := ol "for" (path_str p) in
        let! bind := assign_auto n (2 :: p) target (Name ftmp) in
        let! it := tr n iter in
        if negb (mi_block b) && (match o with [] => true | _ => false end) then
          ret [ListComp (wrap cfg (bind ++ b')) [(Name ftmp, it, [], false)]]
        else
          let body := (if lp_intr_used me then [NamedExpr (intr_name p) cfalse] else []) ++ bind ++ b' in
          let itn := it_name p in
          let orelse :=
            if has_break then IfExp (UnaryOp Not (Attribute (Name itn) "_break")) (wrap cfg o') ellipsis
            else wrap cfg o' in
          ret ((if has_break then [NamedExpr itn (call (Name "__ol_iter_wrapper") [it])] else [])
               ++ [ListComp (wrap cfg body) [(Name ftmp, (if has_break then Name itn else it), [], false)]]
               ++ (match o' with [] => [] | _ => [orelse] end))
    | SBreak =>
        match c_loops c with
        | [] => fail ESyntax
        | l :: _ => ret [EList (set_break l :: (if lp_intr_used l then [NamedExpr (intr_name (lp_path l)) ctrue] else []))]
        end
    | SContinue =>
        match c_loops c with
        | [] => fail ESyntax
        | l :: _ => ret [EList (if lp_intr_used l then [NamedExpr (intr_name (lp_path l)) ctrue] else [])]
        end
    | SReturn v =>
        match n_kind n with
        | NFunction =>
            let! ve := match v with
                       | Some x => let! x' := tr n x in ret [NamedExpr (retv_name (n_id n)) x']
                       | None => ret []
                       end in
            ret [EList (ve
                        ++ map set_break (rev (c_loops c))                                   (* outermost first *)
                        ++ flat_map (fun l => if lp_intr_used l then [NamedExpr (intr_name (lp_path l)) ctrue] else [])
                                    (c_loops c)                                              (* innermost first *)
                        ++ (if c_ret_used c then [NamedExpr (ret_flag (n_id n)) ctrue] else []))]
        | _ => fail ESyntax
        end
    | SAssign targets value =>
        let! v0 := tr n value in
        let shared := shared_value targets in
        let tmp := ol "assign" (path_str p) in
        let v := if shared then Name tmp else v0 in
        let! stores :=
          (fix go (ts : list expr) (k : nat) : res (list expr) :=
             match ts with
             | [] => ret []
             | t :: r => let! a := assign_auto n (k :: p) t v in let! b := go r (S k) in ret (a ++ b)
             end) targets 0 in
        ret ((if shared then [NamedExpr tmp v0] else []) ++ stores)
    | SAnnAssign target None => ret []
    | SAnnAssign target (Some value) =>
        let! v0 := tr n value in
        let shared := shared_value [target] in
        let tmp := ol "assign" (path_str p) in
        let! stores := assign_auto n (0 :: p) target (if shared then Name tmp else v0) in
        ret ((if shared then [NamedExpr tmp v0] else []) ++ stores)
    | SAugAssign target op value => lower_augassign n p target op value
    | SImport names => lower_import n names
    | SImportFrom m names lv => lower_importfrom n p m names lv
    | SFunctionDef name ln args b decs =>
        match find_inner n name ln with
        | None => fail ERuntime
        | Some fn =>
            match n_kind fn with
            | NFunction =>
                let! defaults := rmap (tr n) (a_defaults args) in
                let! kwdefaults := rmap (fun d => match d with Some x => let! y := tr n x in ret (Some y) | None => ret None end)
                                        (a_kw_defaults args) in
                let ret_used := uses_flag has_ret b in
                let! b' := block (mkCtx (set_params fn (a_posonly args ++ a_args args)) [] ret_used) p 0 0 b in
                let retv := retv_name (n_id fn) in
                let body :=
                  [NamedExpr retv cnone]
                  ++ (if n_zero_super fn then [Name "__class__"] else [])
                  ++ (if ret_used then [NamedExpr (ret_flag (n_id fn)) cfalse] else [])
                  ++ (match n_inner_nonlocal fn with
                      | [] => []
                      | _ => let ps := sort_dedup (n_nonlocal_params fn) in
                             [NamedExpr (ol "nonlocal" (ncode (n_id fn)))
                                        (EDict (map (fun x => Some (cstr x)) ps) (map Name ps))]
                      end)
                  ++ (if cfg_chain cfg then [wrap cfg b'] else b')
                  ++ [Name retv] in
                let lam := Lambda (a_posonly args) (a_args args) (a_vararg args) (a_kwonly args) kwdefaults
                                  (a_kwarg args) defaults (Subscript (EList body) minus1) in
                let! decorated :=
                  (fix go (ds : list expr) (acc : expr) : res expr :=
                     match ds with
                     | [] => ret acc
                     | d :: r => let! d' := tr n d in go r (call d' [acc])
                     end) (rev decs) lam in
                let final := hook_wrap p (n_is_method fn) name decs decorated in
                let! e := get_assign n name final in ret [e]
            | _ => fail EAssert
            end
        end
    | SClassDef name ln bases kws b decs =>
        match find_inner n name ln with
        | None => fail ERuntime
        | Some cn =>
            match n_kind cn with
            | NClass =>
                let! b' := block (mkCtx cn [] false) p 0 0 b in
                let! bases' := rmap (tr n) bases in
                let! kws' := rmap (fun kw => let! v := tr n (snd kw) in ret (fst kw, v)) kws in
                let! create := get_assign n name (class_create p name bases' kws') in
                let! load1 := get_load_name n [] false name in
                let cd := ol "classnsp" (ncode (n_id cn)) in
                let loader := ol "loader" (path_str p) in
                let class_body := [NamedExpr "__class__" load1; NamedExpr cd (EDict [] [])] ++ b' ++ [Name cd] in
                let! decorated :=
                  rmap (fun d => let! d' := tr n d in get_assign n name (call d' [load1])) (rev decs) in
                ret ([create;
                     NamedExpr loader (lambda0 (Subscript (EList class_body) minus1));
                     ListComp (call (Name "setattr") [load1; Name (ol "key" (path_str p)); Name (ol "value" (path_str p))])
                              [(ETuple [Name (ol "key" (path_str p)); Name (ol "value" (path_str p))],
                                call (Attribute (call (Name loader) []) "items") [], [], false)]] ++ decorated)
            | _ => fail EAssert
            end
        end
    end.
End Stmts.

(* ---------- module ---------- *)
(* the three flags of NamespaceGlobal: set when a statement of that kind is *visited* *)
Fixpoint visits (f : stmt -> bool) (s : stmt) : bool :=
  f s ||
  match s with
  | SIf _ b o | SWhile _ b o | SFor _ _ b o => ex_live (visits f) b || ex_live (visits f) o
  | SFunctionDef _ _ _ b _ | SClassDef _ _ _ _ b _ => ex_live (visits f) b
  | _ => false
  end.

Definition import_lib (lib : string) : expr := NamedExpr ("__ol_" ++ lib)%string (call (Name "__import__") [cstr lib]).

Definition lower_module (cfg : config) (root : symtab) (body : list stmt) : res expr :=
  let! g := generate_nsp (cfg_host_lt_312 cfg) root in
  let c := mkCtx g [] false in
  (* PendingModule converts its statements one after the other; at module level no statement can be a
     (legal) break/continue/return, so this is _iter_branch without guards *)
  let! stmts := lower_block cfg (fun c0 p0 s0 => lower_stmt cfg c0 p0 s0) c [] 0 0 body in
  let any := fun f => existsb (visits f) body in
  let use_itertools := any (fun s => match s with SWhile _ _ _ => true | _ => false end) in
  let use_importlib := any (fun s => match s with SImport _ => true | _ => false end) in
  let use_preset := any (fun s => match s with SFor _ _ b _ => brk_block b | _ => false end) in
  ret (wrap cfg ((if use_preset then [preset_iter_wrapper] else [])
                 ++ (if use_importlib then [import_lib "importlib"] else [])
                 ++ (if use_itertools then [import_lib "itertools"] else [])
                 ++ stmts)).
