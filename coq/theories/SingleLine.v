(* C02 / C04: the text produced by the unparser model never contains a line break,
   for every expression tree whose identifiers and opaque number/bytes reprs contain none. *)
From Coq Require Import String Ascii List ZArith NArith Bool Arith Lia.
From OL Require Import Sexp PyAst Unparse StrLit.
From OLGen Require Import Tables.
Import ListNotations.
Open Scope list_scope.

Definition id_ok (s : ident) : bool := no_newline (s2t s).
Definition oid_ok (o : option ident) : bool := match o with Some s => id_ok s | None => true end.

Definition const_ok (c : const) : bool :=
  match c with
  | CFloat r | CComplex r | CBytes r => no_newline r
  | _ => true
  end.

(* identifiers and opaque literal texts of the whole tree are free of line breaks; conversions are characters *)
Fixpoint lex_ok (e : expr) : bool :=
  let all := fun l => forallb lex_ok l in
  let opt := fun (o : option expr) => match o with Some x => lex_ok x | None => true end in
  let gens := fun (gs : list comprehension) =>
    forallb (fun g => match g with (t, i, ifs, _) => lex_ok t && lex_ok i && forallb lex_ok ifs end) gs in
  match e with
  | Name i => id_ok i
  | Constant c => const_ok c
  | JoinedStr vs => all vs
  | FormattedValue v conv f => lex_ok v && opt f && negb (Z.eqb conv 10) && negb (Z.eqb conv 13)
  | Starred v | UnaryOp _ v | YieldFrom v | Await v => lex_ok v
  | BinOp l _ r => lex_ok l && lex_ok r
  | BoolOp _ vs | EList vs | ETuple vs | ESet vs => all vs
  | EDict ks vs => forallb opt ks && all vs
  | Compare l _ cs => lex_ok l && all cs
  | Attribute v a => lex_ok v && id_ok a
  | Subscript v s => lex_ok v && lex_ok s
  | Slice a b c => opt a && opt b && opt c
  | Call f args kws => lex_ok f && all args && forallb (fun kw => oid_ok (fst kw) && lex_ok (snd kw)) kws
  | NamedExpr t v => id_ok t && lex_ok v
  | Lambda po ar va ko kd kw de body =>
      forallb id_ok po && forallb id_ok ar && oid_ok va && forallb id_ok ko && forallb opt kd && oid_ok kw && all de && lex_ok body
  | ListComp x gs | SetComp x gs | GeneratorExp x gs => lex_ok x && gens gs
  | DictComp k v gs => lex_ok k && lex_ok v && gens gs
  | IfExp t b o => lex_ok t && lex_ok b && lex_ok o
  | Yield v => opt v
  | Other _ => true
  end.

Definition tok_ok (t : tok) : bool := no_newline (tok_text t).
Definition nn (ts : list tok) : bool := forallb tok_ok ts.

Lemma nn_render : forall ts, nn ts = true -> no_newline (render ts) = true.
Proof.
  induction ts as [|t ts IH]; intros H; [reflexivity|]. cbn in H. apply andb_true_iff in H. destruct H as [H1 H2].
  unfold render. cbn [flat_map]. rewrite no_newline_app. unfold tok_ok in H1. rewrite H1. apply IH. exact H2.
Qed.

Lemma nn_app : forall a b, nn (a ++ b) = nn a && nn b.
Proof. intros. unfold nn. apply forallb_app. Qed.

Lemma nn_cons : forall t ts, nn (t :: ts) = tok_ok t && nn ts.
Proof. reflexivity. Qed.

Lemma nn_join : forall sep ls, nn sep = true -> forallb nn ls = true -> nn (join sep ls) = true.
Proof.
  intros sep ls Hs. induction ls as [|x r IH]; intros H; [reflexivity|].
  cbn in H. apply andb_true_iff in H. destruct H as [Hx Hr]. cbn [join].
  destruct r as [|y r']; [exact Hx|]. rewrite !nn_app, Hx, Hs. cbn. apply IH. exact Hr.
Qed.

Lemma nn_paren : forall b ts, nn ts = true -> nn (paren b ts) = true.
Proof. intros [|] ts H; cbn [paren]; [|exact H]. rewrite nn_cons, nn_app, H. reflexivity. Qed.

Lemma nn_flat_map {X} (f : X -> list tok) l : forallb (fun x => nn (f x)) l = true -> nn (flat_map f l) = true.
Proof.
  induction l as [|x r IH]; intros H; [reflexivity|]. cbn in H. apply andb_true_iff in H. destruct H as [H1 H2].
  cbn [flat_map]. rewrite nn_app, H1. apply IH. exact H2.
Qed.

Lemma forallb_map {X Y} (f : X -> Y) (p : Y -> bool) l : forallb p (map f l) = forallb (fun x => p (f x)) l.
Proof. induction l as [|x r IH]; cbn; [reflexivity|]. rewrite IH. reflexivity. Qed.

Lemma binop_text_ok o : tok_ok (TP (binop_text o)) = true. Proof. destruct o; reflexivity. Qed.
Lemma unop_text_ok o : tok_ok (TP (unop_text o)) = true. Proof. destruct o; reflexivity. Qed.
Lemma boolop_text_ok o : tok_ok (TP (" " ++ boolop_text o ++ " ")%string) = true. Proof. destruct o; reflexivity. Qed.
Lemma cmpop_text_ok o : tok_ok (TP (cmpop_text o)) = true. Proof. destruct o; reflexivity. Qed.

Lemma flipq_quote q : is_quote q -> is_quote (flipq q).
Proof. intros [-> | ->]; [right|left]; reflexivity. Qed.

Lemma quote_ok q : is_quote q -> no_newline [q] = true.
Proof. intros [-> | ->]; reflexivity. Qed.

Lemma replace_go_ok pat rep : no_newline rep = true -> forall t skip, no_newline t = true -> no_newline (replace_go pat rep skip t) = true.
Proof.
  intros Hr. induction t as [|c r IH]; intros skip Ht; [reflexivity|].
  cbn in Ht. apply andb_true_iff in Ht. destruct Ht as [Hc Ht]. cbn [replace_go].
  destruct skip as [|k]; [|apply IH; exact Ht].
  destruct (is_prefix pat (c :: r)).
  - rewrite no_newline_app, Hr. apply IH. exact Ht.
  - cbn. rewrite Hc. apply IH. exact Ht.
Qed.

Lemma uint_ok d : no_newline (s2t (DecimalString.NilEmpty.string_of_uint d)) = true.
Proof. induction d; cbn [DecimalString.NilEmpty.string_of_uint]; [reflexivity|..]; exact IHd. Qed.

Lemma nzuint_ok d : no_newline (s2t (DecimalString.NilZero.string_of_uint d)) = true.
Proof. destruct d; [reflexivity|..]; apply (uint_ok (_ d)). Qed.

Lemma z2s_ok z : no_newline (s2t (z2s z)) = true.
Proof.
  unfold z2s, DecimalString.NilZero.string_of_int. destruct (Z.to_int z) as [d|d].
  - apply nzuint_ok.
  - change (no_newline (45%N :: s2t (DecimalString.NilZero.string_of_uint d)) = true).
    cbn [no_newline forallb]. apply nzuint_ok.
Qed.

Lemma const_text_ok q c : is_quote q -> const_ok c = true -> no_newline (const_text q c) = true.
Proof.
  intros Hq Hc. destruct c; cbn [const_text]; try reflexivity.
  - apply z2s_ok.
  - unfold nonfinite_text, replace_text. apply replace_go_ok; [reflexivity|]. apply replace_go_ok; [reflexivity|exact Hc].
  - unfold nonfinite_text, replace_text. apply replace_go_ok; [reflexivity|]. apply replace_go_ok; [reflexivity|exact Hc].
  - change (q :: escape q s ++ [q]) with ([q] ++ escape q s ++ [q]).
    rewrite !no_newline_app, (quote_ok q Hq), (escape_single_line q s Hq). reflexivity.
  - exact Hc.
Qed.

Lemma attach_defaults_ok : forall names ds, forallb nn names = true -> forallb nn ds = true ->
  forallb nn (attach_defaults names ds) = true.
Proof.
  induction names as [|n r IH]; intros ds Hn Hd; [reflexivity|].
  cbn in Hn. apply andb_true_iff in Hn. destruct Hn as [H1 H2]. cbn [attach_defaults].
  destruct (Nat.leb (length ds) (length r)).
  - cbn. rewrite H1. apply IH; assumption.
  - destruct ds as [|d ds'].
    + cbn. rewrite H1. apply IH; [assumption|reflexivity].
    + cbn in Hd. apply andb_true_iff in Hd. destruct Hd as [Hd1 Hd2].
      cbn [forallb]. rewrite nn_app, H1, nn_cons, Hd1. cbn. apply IH; assumption.
Qed.

Lemma attach_kwdefaults_ok : forall names ds, forallb nn names = true ->
  forallb (fun d => match d with Some x => nn x | None => true end) ds = true ->
  forallb nn (attach_kwdefaults names ds) = true.
Proof.
  induction names as [|n r IH]; intros ds Hn Hd.
  - destruct ds as [|[d|] ds]; reflexivity.
  - cbn in Hn. apply andb_true_iff in Hn. destruct Hn as [H1 H2].
    destruct ds as [|[d|] ds']; cbn [attach_kwdefaults].
    + cbn. rewrite H1, H2. reflexivity.
    + cbn in Hd. apply andb_true_iff in Hd. destruct Hd as [Hd1 Hd2].
      cbn [forallb]. rewrite nn_app, H1, nn_cons, Hd1. cbn. apply IH; assumption.
    + cbn in Hd. cbn [forallb]. rewrite H1. cbn. apply IH; assumption.
Qed.

Lemma forallb_firstn {X} (p : X -> bool) n l : forallb p l = true -> forallb p (firstn n l) = true.
Proof.
  revert n; induction l as [|x r IH]; intros [|n] H; cbn [firstn forallb] in *; try reflexivity.
  apply andb_true_iff in H. destruct H as [H1 H2]. rewrite H1. apply IH. exact H2.
Qed.
Lemma forallb_skipn {X} (p : X -> bool) n l : forallb p l = true -> forallb p (skipn n l) = true.
Proof.
  revert n; induction l as [|x r IH]; intros [|n] H; cbn [skipn] in *; try exact H; try reflexivity.
  cbn [forallb] in H. apply andb_true_iff in H. destruct H as [H1 H2]. apply IH. exact H2.
Qed.

Section Main.
  (* the induction hypothesis, as a property of a recursive function U *)
  Variable U : nat -> N -> expr -> list tok.
  Definition Uok (e : expr) : Prop := lex_ok e = true -> forall slot q, is_quote q -> nn (U slot q e) = true.

  Lemma fbody_ok : forall vs, Forall Uok vs -> forallb lex_ok vs = true ->
    forall split sl qq prev, is_quote qq -> nn split = true -> nn (fbody U split sl qq vs prev) = true.
  Proof.
    induction vs as [|v r IH]; intros HF HL split sl qq prev Hq Hs; [reflexivity|].
    inversion HF as [|? ? Hv Hr]; subst. cbn in HL. apply andb_true_iff in HL. destruct HL as [HLv HLr].
    cbn [fbody]. rewrite nn_app. apply andb_true_iff. split.
    - destruct v; try reflexivity.
      + destruct c; try reflexivity.
        rewrite nn_app. apply andb_true_iff. split.
        * destruct split; [reflexivity|]. destruct (_ && _); [exact Hs|reflexivity].
        * cbn. rewrite double_braces_single_line; [reflexivity|]. apply escape_single_line. exact Hq.
      + apply Hv; assumption.
    - apply IH; assumption.
  Qed.

  Lemma comps_ok : forall gs q, is_quote q ->
    Forall (fun g => match g with (t, i, ifs, _) => Uok t /\ Uok i /\ Forall Uok ifs end) gs ->
    forallb (fun g => match g with (t, i, ifs, _) => lex_ok t && lex_ok i && forallb lex_ok ifs end) gs = true ->
    nn (comps_toks U q gs) = true.
  Proof.
    intros gs q Hq HF HL. unfold comps_toks. apply nn_join; [reflexivity|].
    rewrite forallb_map. induction gs as [|[[[t i] ifs] a] r IH]; [reflexivity|].
    inversion HF as [|? ? Hhd Hr]; subst. cbn beta iota in Hhd. destruct Hhd as [Ht [Hi Hifs]].
    cbn [forallb] in HL.
    apply andb_true_iff in HL. destruct HL as [HL HLr].
    apply andb_true_iff in HL. destruct HL as [HL H0]. apply andb_true_iff in HL. destruct HL as [HL H1].
    cbn [forallb]. apply andb_true_iff. split; [|apply IH; assumption].
    unfold comp_toks. rewrite nn_app. apply andb_true_iff. split; [destruct a; reflexivity|].
    rewrite nn_cons, nn_app, nn_cons, nn_app. rewrite (Ht HL), (Hi H1) by exact Hq. cbn.
    apply nn_flat_map. clear -Hifs H0 Hq.
    induction ifs as [|f r IH]; [reflexivity|]. inversion Hifs; subst. cbn in H0. apply andb_true_iff in H0. destruct H0.
    cbn. rewrite H2 by assumption. apply IH; assumption.
  Qed.
End Main.

Ltac split_lex H :=
  cbn [lex_ok] in H;
  repeat match type of H with
         | (_ && _) = true => let H2 := fresh "HL" in apply andb_true_iff in H; destruct H as [H H2]
         end.

Ltac nn_step :=
  match goal with
  | |- nn (paren _ _) = true => apply nn_paren
  | |- nn (_ :: _) = true => rewrite nn_cons; apply andb_true_iff; split
  | |- nn (_ ++ _) = true => rewrite nn_app; apply andb_true_iff; split
  | |- nn [] = true => reflexivity
  | |- tok_ok (TP (binop_text _)) = true => apply binop_text_ok
  | |- tok_ok (TP (unop_text _)) = true => apply unop_text_ok
  | |- tok_ok (TP (cmpop_text _)) = true => apply cmpop_text_ok
  | |- tok_ok (TP _) = true => reflexivity
  | |- tok_ok (TName _) = true => assumption
  end.

Lemma all_sub_ok (l : list expr) slot q :
  Forall (Uok utoks) l -> forallb lex_ok l = true -> is_quote q ->
  forallb nn (map (utoks slot q) l) = true.
Proof.
  intros HF HL Hq. rewrite forallb_map. induction l as [|x r IH]; [reflexivity|].
  inversion HF; subst. cbn in HL. apply andb_true_iff in HL. destruct HL. cbn. rewrite H1 by assumption. apply IH; assumption.
Qed.

Lemma names_ok (l : list ident) : forallb id_ok l = true -> forallb nn (map (fun n => [TName n]) l) = true.
Proof.
  intros H. rewrite forallb_map. induction l as [|x r IH]; [reflexivity|].
  cbn [forallb] in *. apply andb_true_iff in H. destruct H as [H1 H2].
  apply andb_true_iff. split; [|apply IH; exact H2].
  unfold nn. cbn [forallb]. unfold tok_ok. cbn [tok_text]. unfold id_ok in H1. rewrite H1. reflexivity.
Qed.

Definition P' (e : expr) : Prop :=
  Uok utoks e /\ match e with JoinedStr vs | ETuple vs => Forall (Uok utoks) vs | _ => True end.

Lemma Forall_P'_Uok l : Forall P' l -> Forall (Uok utoks) l.
Proof. intros H. eapply Forall_impl; [|exact H]. intros a [Ha _]. exact Ha. Qed.

Lemma tname_ok i : id_ok i = true -> tok_ok (TName i) = true.
Proof. intros H. unfold tok_ok. cbn [tok_text]. exact H. Qed.

Lemma quote_tok_ok q : is_quote q -> tok_ok (TFText [q]) = true.
Proof. intros H. unfold tok_ok. cbn [tok_text]. apply quote_ok. exact H. Qed.

Lemma opt_sub_ok (o : option expr) slot q :
  match o with Some x => P' x | None => True end ->
  match o with Some x => lex_ok x | None => true end = true -> is_quote q ->
  nn (match o with Some x => utoks slot q x | None => [] end) = true.
Proof. destruct o; intros H HL Hq; [apply H; assumption|reflexivity]. Qed.

Lemma gens_P' gs : Pg P' gs ->
  Forall (fun g => match g with (t, i, ifs, _) => Uok utoks t /\ Uok utoks i /\ Forall (Uok utoks) ifs end) gs.
Proof.
  intros H. eapply Forall_impl; [|exact H]. intros [[[t i] ifs] a] [Ht [Hi Hifs]].
  split; [apply Ht|split; [apply Hi|apply Forall_P'_Uok; exact Hifs]].
Qed.

Lemma dict_ok : forall ks l1 l2 q, Forall (Po P') ks ->
  forallb (fun o : option expr => match o with Some x => lex_ok x | None => true end) ks = true -> is_quote q ->
  forallb nn l1 = true -> forallb nn l2 = true ->
  forallb nn (dict_toks (fun s q0 x => utoks s q0 x) q ks l1 l2) = true.
Proof.
  induction ks as [|k ks IH]; intros l1 l2 q HF HL Hq H1 H2; [reflexivity|].
  inversion HF as [|? ? Hk Hks]; subst. cbn [forallb] in HL. apply andb_true_iff in HL. destruct HL as [HLk HLks].
  destruct l1 as [|v1 l1]; [destruct k; reflexivity|]. destruct l2 as [|v2 l2]; [destruct k; reflexivity|].
  cbn [forallb] in H1, H2. apply andb_true_iff in H1. apply andb_true_iff in H2.
  destruct H1 as [A1 A2]. destruct H2 as [B1 B2].
  destruct k as [k|]; cbn [dict_toks forallb]; apply andb_true_iff; (split; [|apply IH; assumption]).
  - repeat nn_step; [apply Hk; assumption|exact A1].
  - repeat nn_step. exact B1.
Qed.

Theorem utoks_ok' : forall e, P' e.
Proof.
  induction e as [i | c | vs IHvs | v conv spec IHv IHspec | v IHv | l o r IHl IHr | o vs IHvs | o v IHv | l IHl | l IHl | l IHl
                 | ks vs IHks IHvs | l ops cs IHl IHcs | v a IHv | v s IHv IHs | a b c IHa IHb IHc | f args kws IHf IHargs IHkws
                 | t v IHv | po ar va ko kd kw de body IHkd IHde IHbody | x gs IHx IHgs | x gs IHx IHgs | x gs IHx IHgs
                 | k v gs IHk IHv IHgs | t b o IHt IHb IHo | v IHv | v IHv | v IHv | k] using expr_ind';
    (split; [intros HL slot q Hq; cbn [utoks]; apply nn_paren | try exact I]).
  - (* Name *) cbn [lex_ok] in HL. repeat nn_step.
  - (* Constant *) cbn [lex_ok] in HL. repeat nn_step. unfold tok_ok. cbn [tok_text].
    apply (const_text_ok _ _ (flipq_quote q Hq) HL).
  - (* JoinedStr *) cbn [lex_ok] in HL.
    assert (Hqq := flipq_quote q Hq).
    repeat nn_step; try (apply quote_tok_ok; exact Hqq).
    apply (fbody_ok (fun s q0 x => utoks s q0 x)); try assumption.
    + apply Forall_P'_Uok. assumption.
    + unfold nn. cbn [forallb]. rewrite (quote_tok_ok _ Hqq). reflexivity.
  - apply Forall_P'_Uok. assumption.
  - (* FormattedValue *) split_lex HL.
    repeat nn_step.
    + destruct (starts_with _ _); reflexivity.
    + apply IHv; assumption.
    + destruct (Z.eqb conv (-1)); [reflexivity|]. unfold nn. cbn [forallb]. unfold tok_ok. cbn [tok_text no_newline forallb].
      assert (A0 : Z.eqb conv 10 = false) by (apply negb_true_iff; assumption).
      assert (B0 : Z.eqb conv 13 = false) by (apply negb_true_iff; assumption).
      assert (A : (Z.to_N conv =? 10)%N = false).
      { apply N.eqb_neq. intros E. apply Z.eqb_neq in A0. apply A0. lia. }
      assert (B : (Z.to_N conv =? 13)%N = false).
      { apply N.eqb_neq. intros E. apply Z.eqb_neq in B0. apply B0. lia. }
      rewrite A, B. reflexivity.
    + destruct spec as [sp|]; [|reflexivity]. cbn [Po] in IHspec.
      destruct sp; try reflexivity.
      repeat nn_step.
      apply (fbody_ok (fun s q0 x => utoks s q0 x)); try assumption; [|reflexivity].
      destruct IHspec as [_ H]. exact H.
  - (* Starred *) cbn [lex_ok] in HL. repeat nn_step. apply IHv; assumption.
  - (* BinOp *) split_lex HL. repeat nn_step; [apply IHl|apply IHr]; assumption.
  - (* BoolOp *) cbn [lex_ok] in HL. apply nn_join.
    + unfold nn. cbn [forallb]. rewrite boolop_text_ok. reflexivity.
    + apply all_sub_ok; try assumption. apply Forall_P'_Uok. assumption.
  - (* UnaryOp *) cbn [lex_ok] in HL. repeat nn_step. apply IHv; assumption.
  - (* List *) cbn [lex_ok] in HL. repeat nn_step.
    apply nn_join; [reflexivity|]. apply all_sub_ok; try assumption. apply Forall_P'_Uok. assumption.
  - (* Tuple *) cbn [lex_ok] in HL. destruct l as [|x [|y r]].
    + reflexivity.
    + inversion IHl as [|? ? Hx _]; subst. cbn [forallb] in HL. rewrite andb_true_r in HL. repeat nn_step. apply Hx; assumption.
    + repeat nn_step. apply nn_join; [reflexivity|]. apply all_sub_ok; try assumption. apply Forall_P'_Uok. assumption.
  - apply Forall_P'_Uok. assumption.
  - (* Set *) cbn [lex_ok] in HL. repeat nn_step.
    apply nn_join; [reflexivity|]. apply all_sub_ok; try assumption. apply Forall_P'_Uok. assumption.
  - (* Dict *) split_lex HL. repeat nn_step. apply nn_join; [reflexivity|].
    apply dict_ok; try assumption; apply all_sub_ok; try assumption; apply Forall_P'_Uok; assumption.
  - (* Compare *) split_lex HL. repeat nn_step; [apply IHl; assumption|].
    revert ops. induction cs as [|c0 cs IH]; intros ops; [reflexivity|].
    inversion IHcs as [|? ? Hc Hcs]; subst. cbn [forallb] in HL0. apply andb_true_iff in HL0. destruct HL0 as [A B].
    destruct ops as [|o ops]; [reflexivity|]. cbn [compare_toks]. repeat nn_step; [apply Hc; assumption|apply IH; assumption].
  - (* Attribute *) split_lex HL. repeat nn_step. apply IHv; assumption.
  - (* Subscript *) split_lex HL. repeat nn_step; [apply IHv; assumption|].
    assert (Hs : nn (utoks slot_Subscript_slice q s) = true) by (apply IHs; assumption).
    destruct s; try exact Hs.
    destruct (existsb _ elts); [|exact Hs].
    destruct IHs as [_ IHitems]. cbn [lex_ok] in HL0.
    repeat nn_step; [|destruct elts as [|? [|? ?]]; reflexivity].
    apply nn_join; [reflexivity|]. apply all_sub_ok; assumption.
  - (* Slice *) split_lex HL. repeat nn_step; apply opt_sub_ok; assumption.
  - (* Call *) split_lex HL. repeat nn_step; [apply IHf; assumption|].
    assert (Hargs : forallb nn (map (fun x => utoks slot_Call_arg q x) args) = true).
    { apply all_sub_ok; try assumption. apply Forall_P'_Uok. assumption. }
    assert (Hkws : forallb nn (map (kw_toks (fun s q0 x => utoks s q0 x) q) kws) = true).
    { rewrite forallb_map. clear -IHkws HL0 Hq. induction kws as [|[k v] r IH]; [reflexivity|].
      inversion IHkws as [|? ? Hv Hr]; subst. cbn [forallb fst snd] in HL0.
      apply andb_true_iff in HL0. destruct HL0 as [A B]. apply andb_true_iff in A. destruct A as [A1 A2].
      cbn [forallb]. apply andb_true_iff. split; [|apply IH; assumption].
      unfold kw_toks. cbn [fst snd]. destruct k as [k|]; repeat nn_step; apply Hv; assumption. }
    destruct args as [|x [|y r]]; destruct kws as [|kw kws'];
      try (apply nn_join; [reflexivity|]; rewrite forallb_app; rewrite Hargs, Hkws; reflexivity).
    inversion IHargs as [|? ? Hx _]; subst. cbn [forallb] in HL1. rewrite andb_true_r in HL1. apply Hx; assumption.
  - (* NamedExpr *) split_lex HL. repeat nn_step. apply IHv; assumption.
  - (* Lambda *) split_lex HL. repeat nn_step; [|apply IHbody; assumption].
    set (pos0 := attach_defaults _ _).
    assert (Hpos0 : forallb nn pos0 = true).
    { apply attach_defaults_ok.
      - apply names_ok. rewrite forallb_app. rewrite HL, HL6. reflexivity.
      - apply all_sub_ok; try assumption. apply Forall_P'_Uok. assumption. }
    set (pos := match po with [] => pos0 | _ => _ end).
    assert (Hpos : forallb nn pos = true).
    { subst pos. destruct po; [exact Hpos0|]. rewrite forallb_app. rewrite forallb_firstn by exact Hpos0.
      cbn [forallb]. rewrite forallb_skipn by exact Hpos0. reflexivity. }
    set (star := match va with Some n => _ | None => _ end).
    assert (Hstar : forallb nn star = true).
    { subst star. destruct va as [n|]; [|destruct ko; reflexivity].
      cbn [forallb nn]. unfold oid_ok in *. rewrite tname_ok by assumption. reflexivity. }
    set (kws := attach_kwdefaults _ _).
    assert (Hkws : forallb nn kws = true).
    { apply attach_kwdefaults_ok; [apply names_ok; assumption|].
      rewrite forallb_map. clear -IHkd HL3 Hq. induction kd as [|d r IH]; [reflexivity|].
      inversion IHkd as [|? ? Hd Hr]; subst. cbn [forallb] in HL3. apply andb_true_iff in HL3. destruct HL3 as [A B].
      cbn [forallb]. apply andb_true_iff. split; [|apply IH; assumption].
      destruct d as [d|]; [apply Hd; assumption|reflexivity]. }
    set (kwa := match kw with Some n => _ | None => _ end).
    assert (Hkwa : forallb nn kwa = true).
    { subst kwa. destruct kw as [n|]; [|reflexivity]. cbn [forallb nn]. unfold oid_ok in *. rewrite tname_ok by assumption. reflexivity. }
    assert (Hall : forallb nn (pos ++ star ++ kws ++ kwa) = true).
    { rewrite !forallb_app, Hpos, Hstar, Hkws, Hkwa. reflexivity. }
    destruct (pos ++ star ++ kws ++ kwa) eqn:E; [reflexivity|]. rewrite <- E in *.
    repeat nn_step. apply nn_join; [reflexivity|exact Hall].
  - (* ListComp *) split_lex HL. repeat nn_step; [apply IHx; assumption|].
    apply (comps_ok (fun s q0 x => utoks s q0 x)); try assumption. apply gens_P'. assumption.
  - (* SetComp *) split_lex HL. repeat nn_step; [apply IHx; assumption|].
    apply (comps_ok (fun s q0 x => utoks s q0 x)); try assumption. apply gens_P'. assumption.
  - (* GeneratorExp *) split_lex HL. repeat nn_step; [apply IHx; assumption|].
    apply (comps_ok (fun s q0 x => utoks s q0 x)); try assumption. apply gens_P'. assumption.
  - (* DictComp *) split_lex HL. repeat nn_step; [apply IHk; assumption|apply IHv; assumption|].
    apply (comps_ok (fun s q0 x => utoks s q0 x)); try assumption. apply gens_P'. assumption.
  - (* IfExp *) split_lex HL. repeat nn_step; [apply IHb|apply IHt|apply IHo]; assumption.
  - (* Yield *) cbn [lex_ok] in HL. destruct v as [v|]; repeat nn_step. apply IHv; assumption.
  - (* YieldFrom *) cbn [lex_ok] in HL. repeat nn_step. apply IHv; assumption.
  - (* Await *) cbn [lex_ok] in HL. repeat nn_step. apply IHv; assumption.
  - (* Other *) reflexivity.
Qed.

(* C02/C04: the unparser never emits a line break *)
Theorem unparse_single_line : forall e, lex_ok e = true -> no_newline (unparse e) = true.
Proof.
  intros e H. unfold unparse, unparse_toks. apply nn_render. apply (proj1 (utoks_ok' e)); [exact H|right; reflexivity].
Qed.

(* nothing is hidden in the hypothesis: a tree made of names, numbers and strings satisfies it whatever the strings contain *)
Example lex_ok_example :
  lex_ok (Call (Name "print") [Constant (CStr [10; 13; 39; 34; 92]%N); JoinedStr [Constant (CStr [10]%N); FormattedValue (Name "x") 114%Z None]] []) = true.
Proof. reflexivity. Qed.
