(* C03: the printer of the round-trip theorem (Parse.pp) IS the unparser model (Unparse.utoks) on the core: the unparser's
   fragments, split into words (Parse.norm), are exactly the tokens pp prints.  With ParseProof.roundtrip_core this makes
   the round trip a theorem about the tokens of the model that is tied to expr_unparse.py by string equality. *)
From Coq Require Import String Ascii List ZArith NArith Bool Arith Lia.
From OL Require Import PyAst Unparse.
From OL Require Import Parse ParseProof.
From OLGen Require Import Tables.
Import ListNotations.
Local Open Scope string_scope.
Local Open Scope list_scope.

(* ---------- norm distributes ---------- *)
Lemma norm_app a b : norm (a ++ b) = norm a ++ norm b.
Proof. unfold norm. apply flat_map_app. Qed.
Lemma norm_cons t r : norm (t :: r) = norm_tok t ++ norm r.
Proof. reflexivity. Qed.
Lemma norm_nil : norm [] = [].
Proof. reflexivity. Qed.
Lemma norm_paren b ts : norm (paren b ts) = pparen b (norm ts).
Proof. destruct b; [|reflexivity]. unfold paren, pparen. rewrite norm_cons, norm_app. reflexivity. Qed.
Lemma norm_join sep : forall ls, norm (join sep ls) = join (norm sep) (map norm ls).
Proof.
  induction ls as [|x r IH]; [reflexivity|]. destruct r as [|y r']; [reflexivity|].
  change (join sep (x :: y :: r')) with (x ++ sep ++ join sep (y :: r')).
  change (map norm (x :: y :: r')) with (norm x :: map norm (y :: r')).
  change (join (norm sep) (norm x :: map norm (y :: r'))) with (norm x ++ norm sep ++ join (norm sep) (map norm (y :: r'))).
  rewrite !norm_app, IH. reflexivity.
Qed.
Lemma join_nil {X} : forall ls : list (list X), join [] ls = concat ls.
Proof.
  induction ls as [|x r IH]; [reflexivity|]. destruct r as [|y r']; [cbn; rewrite app_nil_r; reflexivity|].
  change (join [] (x :: y :: r')) with (x ++ [] ++ join [] (y :: r')). rewrite IH. reflexivity.
Qed.

(* ---------- the fixed fragments ---------- *)
Lemma ntp_lpar : norm_tok (TP "(") = [PK "("]. Proof. reflexivity. Qed.
Lemma ntp_rpar : norm_tok (TP ")") = [PK ")"]. Proof. reflexivity. Qed.
Lemma ntp_lbr : norm_tok (TP "[") = [PK "["]. Proof. reflexivity. Qed.
Lemma ntp_rbr : norm_tok (TP "]") = [PK "]"]. Proof. reflexivity. Qed.
Lemma ntp_lbc : norm_tok (TP "{") = [PK "{"]. Proof. reflexivity. Qed.
Lemma ntp_rbc : norm_tok (TP "}") = [PK "}"]. Proof. reflexivity. Qed.
Lemma ntp_comma : norm_tok (TP ",") = [PK ","]. Proof. reflexivity. Qed.
Lemma ntp_colon : norm_tok (TP ":") = [PK ":"]. Proof. reflexivity. Qed.
Lemma ntp_dot : norm_tok (TP ".") = [PK "."]. Proof. reflexivity. Qed.
Lemma ntp_star : norm_tok (TP "*") = [PK "*"]. Proof. reflexivity. Qed.
Lemma ntp_dstar : norm_tok (TP "**") = [PK "**"]. Proof. reflexivity. Qed.
Lemma ntp_eq : norm_tok (TP "=") = [PK "="]. Proof. reflexivity. Qed.
Lemma ntp_wal : norm_tok (TP ":=") = [PK ":="]. Proof. reflexivity. Qed.
Lemma ntp_slash : norm_tok (TP "/") = [PK "/"]. Proof. reflexivity. Qed.
Lemma ntp_lambda : norm_tok (TP "lambda") = [PK "lambda"]. Proof. reflexivity. Qed.
Lemma ntp_space : norm_tok (TP " ") = []. Proof. reflexivity. Qed.
Lemma ntp_if : norm_tok (TP " if ") = [PK "if"]. Proof. reflexivity. Qed.
Lemma ntp_else : norm_tok (TP " else ") = [PK "else"]. Proof. reflexivity. Qed.
Lemma ntp_for : norm_tok (TP "for ") = [PK "for"]. Proof. reflexivity. Qed.
Lemma ntp_in : norm_tok (TP " in ") = [PK "in"]. Proof. reflexivity. Qed.
Lemma ntp_tuple1 : norm_tok (TP ",)") = [PK ","; PK ")"]. Proof. reflexivity. Qed.
Lemma ntp_name i : norm_tok (TName i) = [PN i]. Proof. reflexivity. Qed.
Lemma ntp_lit c t : norm_tok (TLit c t) = [PL c]. Proof. reflexivity. Qed.
(* the operator texts of the REGENERATED table *)
Lemma ntp_binop o : norm_tok (TP (binop_text o)) = [PK (binop_text o)].
Proof. destruct o; vm_compute; reflexivity. Qed.
Lemma ntp_boolop o : norm_tok (TP (" " ++ boolop_text o ++ " ")) = [PK (bool_key o)].
Proof. destruct o; vm_compute; reflexivity. Qed.
Lemma ntp_unop o : norm_tok (TP (unop_text o)) = [PK (unop_key o)].
Proof. destruct o; vm_compute; reflexivity. Qed.
Lemma ntp_cmpop o : norm_tok (TP (cmpop_text o)) = map PK (cmp_keys o).
Proof. destruct o; vm_compute; reflexivity. Qed.

Ltac nrm :=
  repeat (rewrite norm_app || rewrite norm_cons || rewrite norm_nil);
  rewrite ?ntp_lpar, ?ntp_rpar, ?ntp_lbr, ?ntp_rbr, ?ntp_lbc, ?ntp_rbc, ?ntp_comma, ?ntp_colon, ?ntp_dot, ?ntp_star, ?ntp_dstar,
          ?ntp_eq, ?ntp_wal, ?ntp_slash, ?ntp_lambda, ?ntp_space, ?ntp_if, ?ntp_else, ?ntp_for, ?ntp_in, ?ntp_tuple1,
          ?ntp_name, ?ntp_lit, ?ntp_binop, ?ntp_boolop, ?ntp_unop, ?ntp_cmpop;
  cbn [app].

(* ---------- what the statement covers: the core, and a slice as the index of a subscript ---------- *)
Definition ecb (x : expr) : bool := core x && negb (is_starred x).
Definition ocb (o : option expr) : bool := match o with Some x => ecb x | None => true end.
Definition cok (e : expr) : bool :=
  match e with
  | Slice a b c => ocb a && ocb b && ocb c
  | GeneratorExp _ _ => gen_core e
  | _ => core e
  end.
Definition T (e : expr) : Prop := forall slot, cok e = true -> norm (utoks slot DQ e) = pp slot e.

Lemma core_cok e : core e = true -> cok e = true.
Proof. destruct e; intro H; try exact H; discriminate H. Qed.
Lemma ecb_cok e : ecb e = true -> cok e = true.
Proof. intro H. apply andb_prop in H as [H _]. apply core_cok. exact H. Qed.

Lemma T_map (f : expr -> bool) (Hf : forall x, f x = true -> cok x = true) s :
  forall l, Forall T l -> forallb f l = true -> map norm (map (utoks s DQ) l) = map (pp s) l.
Proof.
  induction l as [|x r IH]; intros HF Hc; [reflexivity|]. inversion HF as [|? ? Hx Hr]; subst.
  cbn [forallb] in Hc. apply andb_prop in Hc as [Hcx Hcr]. cbn [map]. rewrite (Hx s (Hf x Hcx)), (IH Hr Hcr). reflexivity.
Qed.

Local Notation U := (fun (s : nat) (q0 : N) (x : expr) => utoks s q0 x).

Lemma tie_cmp : forall cs ops, Forall T cs -> forallb ecb cs = true ->
  norm (compare_toks U DQ cs ops) = ctoks cs ops.
Proof.
  induction cs as [|c r IH]; intros ops HF Hc; [reflexivity|]. destruct ops as [|o ops']; [reflexivity|].
  inversion HF as [|? ? Hx Hr]; subst. cbn [forallb] in Hc. apply andb_prop in Hc as [Hcx Hcr].
  cbn [compare_toks ctoks]. nrm. rewrite (Hx _ (ecb_cok _ Hcx)), (IH ops' Hr Hcr). reflexivity.
Qed.

Lemma tie_dict : forall ks vs, Forall (fun o => match o with Some x => T x | None => True end) ks -> Forall T vs ->
  forallb ocb ks = true -> forallb ecb vs = true ->
  map norm (dict_toks U DQ ks (map (fun x => utoks slot_Dict_value DQ x) vs) (map (fun x => utoks slot_Dict_starvalue DQ x) vs))
  = ditems ks vs.
Proof.
  unfold ditems. induction ks as [|k ks' IH]; intros vs Hk Hv Hck Hcv; [reflexivity|].
  destruct vs as [|v vs']; [destruct k; reflexivity|].
  inversion Hk as [|? ? Hk1 Hk2]; subst. inversion Hv as [|? ? Hv1 Hv2]; subst.
  cbn [forallb] in Hck, Hcv. apply andb_prop in Hck as [Hck1 Hck2]. apply andb_prop in Hcv as [Hcv1 Hcv2].
  destruct k as [k|]; cbn [map dict_toks ditems_t].
  - nrm. rewrite (Hk1 _ (ecb_cok _ Hck1)), (Hv1 _ (ecb_cok _ Hcv1)), (IH vs' Hk2 Hv2 Hck2 Hcv2). reflexivity.
  - nrm. rewrite (Hv1 _ (ecb_cok _ Hcv1)), (IH vs' Hk2 Hv2 Hck2 Hcv2). reflexivity.
Qed.

Definition gcb (g : comprehension) : bool :=
  match g with (t, i, ifs, a) => core t && is_target t && core i && negb (is_starred i) && forallb ecb ifs && negb a end.
Lemma tie_ifs : forall ifs, Forall T ifs -> forallb ecb ifs = true ->
  norm (flat_map (fun f => TP " if " :: utoks slot_comp_if DQ f) ifs) = flat_map (fun c => PK "if" :: pp slot_comp_if c) ifs.
Proof.
  induction ifs as [|c r IH]; intros HF Hc; [reflexivity|]. inversion HF as [|? ? Hx Hr]; subst.
  cbn [forallb] in Hc. apply andb_prop in Hc as [Hcx Hcr]. cbn [flat_map]. nrm.
  rewrite (Hx _ (ecb_cok _ Hcx)), (IH Hr Hcr). reflexivity.
Qed.
Lemma tie_comps : forall gs, Forall (fun g => match g with (t, i, ifs, _) => T t /\ T i /\ Forall T ifs end) gs ->
  forallb gcb gs = true -> norm (comps_toks U DQ gs) = gtoks gs.
Proof.
  intros gs HF Hc. unfold comps_toks. rewrite norm_join. change (norm [TP " "]) with (@nil pt). rewrite join_nil.
  unfold gtoks. rewrite map_map, <- flat_map_concat_map.
  induction gs as [|g r IH]; [reflexivity|]. inversion HF as [|? ? Hg Hr]; subst.
  cbn [forallb] in Hc. apply andb_prop in Hc as [Hcg Hcr]. cbn [flat_map]. rewrite (IH Hr Hcr). f_equal.
  destruct g as [[[t i] ifs] a]. destruct Hg as [Ht [Hi Hifs]]. unfold gcb in Hcg.
  apply andb_prop in Hcg as [Hcg Ha]. apply andb_prop in Hcg as [Hcg Hcifs]. apply andb_prop in Hcg as [Hcg Hsi].
  apply andb_prop in Hcg as [Hcg Hci]. apply andb_prop in Hcg as [Hct Htt].
  destruct a; [discriminate Ha|]. unfold comp_toks, gtok. nrm.
  rewrite (Ht _ (core_cok _ Hct)), (Hi _ (core_cok _ Hci)), (tie_ifs ifs Hifs Hcifs). reflexivity.
Qed.

(* ---------- lambda parameter lists: the unparser's attach_defaults / attach_kwdefaults are the items of Parse.litems ---------- *)
Definition itoks_u (i : pitem (list tok)) : list tok :=
  match i with
  | IName x None => [TName x]
  | IName x (Some d) => [TName x] ++ TP "=" :: d
  | ISlash => [TP "/"]
  | IStar None => [TP "*"]
  | IStar (Some v) => [TP "*"; TName v]
  | IDStar k => [TP "**"; TName k]
  end.
Lemma attach_zipd : forall names ds, length ds <= length names ->
  attach_defaults (map (fun n => [TName n]) names) ds = map itoks_u (zipd names (length names - length ds) ds).
Proof.
  induction names as [|x r IH]; intros ds Hl; [reflexivity|]. cbn [map attach_defaults length]. rewrite map_length.
  destruct (Nat.leb (length ds) (length r)) eqn:E.
  - apply Nat.leb_le in E. replace (S (length r) - length ds) with (S (length r - length ds)) by lia.
    cbn [zipd map itoks_u]. rewrite (IH ds E). reflexivity.
  - apply Nat.leb_gt in E. cbn [length] in Hl. destruct ds as [|d ds']; [cbn [length] in E; lia|]. cbn [length] in *.
    replace (S (length r) - S (length ds')) with 0 by lia. cbn [zipd map itoks_u].
    assert (Hl' : length ds' <= length r) by lia. rewrite (IH ds' Hl'). replace (length r - length ds') with 0 by lia. reflexivity.
Qed.
Lemma attach_zipk : forall ko kd,
  attach_kwdefaults (map (fun n => [TName n]) ko) kd = map itoks_u (zipk ko kd).
Proof.
  induction ko as [|k r IH]; intros kd; [destruct kd as [|[d|] kd']; reflexivity|].
  destruct kd as [|[d|] kd']; cbn [map attach_kwdefaults zipk itoks_u].
  - rewrite <- (IH []). destruct r; reflexivity.
  - rewrite IH. reflexivity.
  - rewrite IH. reflexivity.
Qed.
Lemma lambda_items po ar va ko kw (de : list (list tok)) (kd : list (option (list tok))) :
  length de <= length (po ++ ar) ->
  (match po with
   | [] => attach_defaults (map (fun n => [TName n]) (po ++ ar)) de
   | _ :: _ => firstn (length po) (attach_defaults (map (fun n => [TName n]) (po ++ ar)) de) ++
               [TP "/"] :: skipn (length po) (attach_defaults (map (fun n => [TName n]) (po ++ ar)) de)
   end ++
   match va with Some n => [[TP "*"; TName n]] | None => match ko with [] => [] | _ :: _ => [[TP "*"]] end end ++
   attach_kwdefaults (map (fun n => [TName n]) ko) kd ++
   match kw with Some n => [[TP "**"; TName n]] | None => [] end)
  = map itoks_u (litems po ar va ko kw de kd).
Proof.
  intros Hl. rewrite (attach_zipd _ _ Hl), attach_zipk. unfold litems. rewrite !map_app. f_equal.
  - destruct po; [reflexivity|]. rewrite map_app, firstn_map. cbn [map itoks_u]. rewrite skipn_map. reflexivity.
  - f_equal; [destruct va; [reflexivity|destruct ko; reflexivity]|]. f_equal. destruct kw; reflexivity.
Qed.
Lemma norm_itoks_u i : norm (itoks_u i) = itoks_l (imap norm i).
Proof. destruct i as [x [d|]| |[v|]|k]; cbn [itoks_u imap option_map itoks_l]; nrm; reflexivity. Qed.

Lemma no_slice : forall items, forallb core items = true ->
  existsb (fun x => match x with Slice _ _ _ => true | _ => false end) items = false.
Proof.
  induction items as [|x r IH]; intro H; [reflexivity|]. cbn [forallb] in H. apply andb_prop in H as [Hx Hr].
  cbn [existsb]. rewrite (IH Hr). destruct x; try reflexivity. discriminate Hx.
Qed.
Definition icok (x : expr) : bool := match x with Slice a b c => ocb a && ocb b && ocb c | _ => ecb x end.
Lemma icok_cok x : icok x = true -> cok x = true.
Proof. destruct x; intro H; try (apply ecb_cok; exact H). exact H. Qed.

(* the index of a subscript: a tuple with a slice among its items (printed bare), or one expression / slice *)
Lemma sub_cok v s : core (Subscript v s) = true ->
  ecb v = true /\
  ((exists items, s = ETuple items /\ existsb is_slice items = true /\ forallb icok items = true) \/
   (index_toks s = pp slot_Subscript_slice s /\ cok s = true /\
    match s with ETuple items => existsb is_slice items = false | _ => True end)).
Proof.
  cbn [core]. intro H. apply andb_prop in H as [Hv Hs]. split; [exact Hv|].
  destruct s; try (right; split; [reflexivity|split; [apply ecb_cok; exact Hs|exact I]]).
  - (* tuple *) destruct (existsb is_slice elts) eqn:E.
    + left. exists elts. split; [reflexivity|]. split; [exact E|exact Hs].
    + right. unfold index_toks. rewrite E. split; [reflexivity|]. split; [apply ecb_cok; exact Hs|reflexivity].
  - (* slice *) right. split; [reflexivity|]. split; [exact Hs|exact I].
Qed.

Lemma tie_kws : forall kws : list (option ident * expr), Forall (fun kw => T (snd kw)) kws ->
  forallb (fun kw => ecb (snd kw)) kws = true -> map norm (map (kw_toks U DQ) kws) = map kwp kws.
Proof.
  induction kws as [|[k v] r IH]; intros HF Hc; [reflexivity|]. inversion HF as [|? ? Hx Hr]; subst.
  cbn [forallb snd] in Hc, Hx. apply andb_prop in Hc as [Hcx Hcr]. cbn [map]. rewrite (IH Hr Hcr). f_equal.
  unfold kw_toks, kwp. cbn [fst snd]. destruct k as [k|]; nrm; rewrite (Hx _ (ecb_cok _ Hcx)); reflexivity.
Qed.

Lemma norm_params (X : list (list tok)) :
  norm (match X with [] => [] | _ :: _ => TP " " :: join [TP ","] X end) = join [PK ","] (map norm X).
Proof. destruct X as [|x r]; [reflexivity|]. rewrite norm_cons, ntp_space, norm_join. reflexivity. Qed.
Lemma tie_kd : forall kd, Forall (fun o => match o with Some x => T x | None => True end) kd -> forallb ocb kd = true ->
  map (option_map norm) (map (fun d => match d with Some x => Some (utoks slot_Lambda_kwdefault DQ x) | None => None end) kd)
  = map (fun o => match o with Some x => Some (pp slot_Lambda_kwdefault x) | None => None end) kd.
Proof.
  induction kd as [|d r IH]; intros HF Hc; [reflexivity|]. inversion HF as [|? ? Hx Hr]; subst.
  cbn [forallb] in Hc. apply andb_prop in Hc as [Hcx Hcr]. cbn [map]. rewrite (IH Hr Hcr). f_equal.
  destruct d as [x|]; [|reflexivity]. cbn [option_map]. rewrite (Hx _ (ecb_cok _ Hcx)). reflexivity.
Qed.

(* for a tuple also the statements of its items (an index tuple with slices is not itself in the core) *)
Definition T2 (e : expr) : Prop := T e /\ match e with ETuple items => Forall T items | _ => True end.
Lemma T2_T l : Forall T2 l -> Forall T l.
Proof. intros H. eapply Forall_impl; [|exact H]. intros x [Hx _]. exact Hx. Qed.
Lemma T2_kws (kws : list (option ident * expr)) : Forall (fun kw => T2 (snd kw)) kws -> Forall (fun kw => T (snd kw)) kws.
Proof. intros H. eapply Forall_impl; [|exact H]. intros x [Hx _]. exact Hx. Qed.
Lemma T2_opts (l : list (option expr)) : Forall (fun o => match o with Some x => T2 x | None => True end) l ->
  Forall (fun o => match o with Some x => T x | None => True end) l.
Proof. intros H. eapply Forall_impl; [|exact H]. intros [x|] Hx; [exact (proj1 Hx)|exact I]. Qed.
Lemma T2_gens (gs : list comprehension) :
  Forall (fun g => match g with (t, i, ifs, _) => T2 t /\ T2 i /\ Forall T2 ifs end) gs ->
  Forall (fun g => match g with (t, i, ifs, _) => T t /\ T i /\ Forall T ifs end) gs.
Proof. intros H. eapply Forall_impl; [|exact H]. intros [[[t i] ifs] a] [[Ht _] [[Hi _] Hifs]]. split; [exact Ht|]. split; [exact Hi|apply T2_T; exact Hifs]. Qed.

Theorem tie_all2 : forall e, T2 e.
Proof.
  induction e using expr_ind';
    (split; [|first [exact I|apply T2_T; assumption]]);
    repeat match goal with
           | H : Pl _ _ |- _ => unfold Pl in H; apply T2_T in H
           | H : Forall (fun kw => T2 (snd kw)) _ |- _ => apply T2_kws in H
           | H : Forall (Po _) _ |- _ => unfold Po in H; apply T2_opts in H
           | H : Pg _ _ |- _ => unfold Pg, Pl in H; apply T2_gens in H
           | H : Po _ _ |- _ => unfold Po in H
           end;
    repeat match goal with IH : T2 _ |- _ => destruct IH as [IH ?] end;
    intros slot Hc; try discriminate Hc;
    rewrite pp_unfold; cbn [utoks]; rewrite norm_paren; f_equal; cbn [pbody].
  - (* Starred *) cbn [cok core] in Hc. nrm. rewrite (IHe _ (ecb_cok _ Hc)). reflexivity.
  - (* BinOp *) cbn [cok core] in Hc. apply andb_prop in Hc as [H1 H2]. nrm.
    rewrite (IHe1 _ (ecb_cok _ H1)), (IHe2 _ (ecb_cok _ H2)). reflexivity.
  - (* BoolOp *) cbn [cok core] in Hc. apply andb_prop in Hc as [_ Hvs].
    rewrite norm_join. rewrite (T_map ecb ecb_cok _ vs H Hvs). rewrite norm_cons, ntp_boolop. reflexivity.
  - (* UnaryOp *) cbn [cok core] in Hc. nrm. rewrite (IHe _ (ecb_cok _ Hc)). reflexivity.
  - (* EList *) cbn [cok core] in Hc. nrm. rewrite norm_join, (T_map core core_cok _ l H Hc). reflexivity.
  - (* ETuple *) cbn [cok core] in Hc.
    assert (G : norm (TP "(" :: join [TP ","] (map (fun x => utoks slot_Tuple_elt DQ x) l) ++ [TP ")"]) =
                PK "(" :: join [PK ","] (map (pp slot_Tuple_elt) l) ++ [PK ")"]).
    { nrm. rewrite norm_join, (T_map core core_cok _ l H Hc). reflexivity. }
    destruct l as [|x [|y r]]; [exact G| |exact G].
    inversion H as [|? ? Hx _]; subst. cbn [forallb] in Hc. apply andb_prop in Hc as [Hcx _].
    nrm. rewrite (Hx _ (core_cok _ Hcx)). reflexivity.
  - (* ESet *) cbn [cok core] in Hc. apply andb_prop in Hc as [_ Hc]. nrm. rewrite norm_join, (T_map core core_cok _ l H Hc). reflexivity.
  - (* EDict *) cbn [cok core] in Hc. apply andb_prop in Hc as [Hc Hvs]. apply andb_prop in Hc as [_ Hks].
    nrm. rewrite norm_join, (tie_dict ks vs H H0 Hks Hvs). reflexivity.
  - (* Compare *) cbn [cok core] in Hc. apply andb_prop in Hc as [Hc Hcs]. apply andb_prop in Hc as [Hc _]. apply andb_prop in Hc as [Hl _].
    nrm. rewrite (IHe _ (ecb_cok _ Hl)), (tie_cmp cs ops H Hcs). reflexivity.
  - (* Attribute *) cbn [cok core] in Hc. nrm. rewrite norm_paren, (IHe _ (ecb_cok _ Hc)). reflexivity.
  - (* Subscript *) assert (Hc' : core (Subscript e1 e2) = true) by exact Hc. clear Hc.
    apply sub_cok in Hc' as [Hv [[items [-> [Es Hi]]]|[Eidx [Hs Hns]]]].
    + (* an index tuple with a slice: printed bare *)
      unfold index_toks. rewrite Es.
      change (existsb (fun x : expr => match x with Slice _ _ _ => true | _ => false end) items) with (existsb is_slice items).
      rewrite Es. nrm. rewrite (IHe1 _ (ecb_cok _ Hv)). f_equal. f_equal. rewrite norm_join.
      match goal with HT : Forall T items |- _ => rewrite (T_map icok icok_cok _ items HT Hi) end.
      f_equal. destruct items as [|x [|y t]]; reflexivity.
    + rewrite Eidx.
      assert (G : norm (utoks slot_Subscript_value DQ e1 ++ TP "[" :: utoks slot_Subscript_slice DQ e2 ++ [TP "]"]) =
                  pp slot_Subscript_value e1 ++ PK "[" :: pp slot_Subscript_slice e2 ++ [PK "]"]).
      { nrm. rewrite (IHe1 _ (ecb_cok _ Hv)), (IHe2 _ Hs). reflexivity. }
      destruct e2; try exact G.
      change (existsb (fun x : expr => match x with Slice _ _ _ => true | _ => false end) elts) with (existsb is_slice elts).
      rewrite Hns. exact G.
  - (* Slice *) cbn [cok] in Hc. apply andb_prop in Hc as [Hc Hcc]. apply andb_prop in Hc as [Ha Hb].
    nrm. f_equal; [destruct a as [x|]; [apply (proj1 H _ (ecb_cok _ Ha))|reflexivity]|]. f_equal.
    f_equal; [destruct b as [x|]; [apply (proj1 H0 _ (ecb_cok _ Hb))|reflexivity]|]. f_equal.
    destruct c as [x|]; [apply (proj1 H1 _ (ecb_cok _ Hcc))|reflexivity].
  - (* Call *) assert (Hc' : core (Call e args kws) = true) by exact Hc. clear Hc.
    apply core_call in Hc' as [Hf [[x [gs [-> [-> Hg]]]]|[Ha Hk]]].
    + (* f(x for x in y): the generator expression stands bare *)
      inversion H as [|? ? Hx _]; subst. nrm. rewrite (IHe _ (ecb_cok _ Hf)), (Hx slot_Call_onlyarg Hg). reflexivity.
    + assert (G : norm (join [TP ","] (map (fun x => utoks slot_Call_arg DQ x) args ++ map (kw_toks U DQ) kws)) =
                  join [PK ","] (map (pp slot_Call_arg) args ++ map kwp kws)).
      { rewrite norm_join, map_app, (T_map core core_cok _ args H Ha), (tie_kws kws H0 Hk). reflexivity. }
      nrm. rewrite (IHe _ (ecb_cok _ Hf)). f_equal. f_equal. f_equal.
      destruct args as [|x [|y r]]; [exact G| |exact G]. destruct kws; [|exact G].
      inversion H as [|? ? Hx _]; subst. cbn [forallb] in Ha. apply andb_prop in Ha as [Hax _]. apply (Hx _ (core_cok _ Hax)).
  - (* NamedExpr *) cbn [cok core] in Hc. nrm. rewrite (IHe _ (ecb_cok _ Hc)). reflexivity.
  - (* Lambda *) cbn [cok core] in Hc. apply andb_prop in Hc as [Hc Hckd]. apply andb_prop in Hc as [Hc Hcde].
    apply andb_prop in Hc as [Hc _]. apply andb_prop in Hc as [Hcb Hld]. apply Nat.leb_le in Hld.
    assert (Hl : length (map (fun x => utoks slot_Lambda_default DQ x) de) <= length (po ++ ar)) by (rewrite map_length; exact Hld).
    rewrite (lambda_items po ar va ko kw _ (map (fun d => match d with Some x => Some (utoks slot_Lambda_kwdefault DQ x) | None => None end) kd) Hl).
    rewrite norm_cons, ntp_lambda, norm_app, norm_params, norm_cons, ntp_colon, (IHe _ (ecb_cok _ Hcb)). cbn [app].
    rewrite map_map, (map_ext _ _ norm_itoks_u), <- map_map, <- litems_map.
    rewrite (T_map ecb ecb_cok _ de H0 Hcde), (tie_kd kd H Hckd). reflexivity.
  - (* ListComp *) cbn [cok core] in Hc. apply andb_prop in Hc as [Hc Hgs]. apply andb_prop in Hc as [Hx _].
    nrm. rewrite (IHe _ (ecb_cok _ Hx)), (tie_comps gs H Hgs). reflexivity.
  - (* SetComp *) cbn [cok core] in Hc. apply andb_prop in Hc as [Hc Hgs]. apply andb_prop in Hc as [Hx _].
    nrm. rewrite (IHe _ (ecb_cok _ Hx)), (tie_comps gs H Hgs). reflexivity.
  - (* GeneratorExp *) cbn [cok] in Hc. unfold gen_core in Hc. apply andb_prop in Hc as [Hc Hgs]. apply andb_prop in Hc as [Hx _].
    nrm. rewrite (IHe _ (ecb_cok _ Hx)), (tie_comps gs H Hgs). reflexivity.
  - (* DictComp *) cbn [cok core] in Hc. apply andb_prop in Hc as [Hc Hgs]. apply andb_prop in Hc as [Hc _]. apply andb_prop in Hc as [Hk Hv].
    nrm. rewrite (IHe1 _ (ecb_cok _ Hk)), (IHe2 _ (ecb_cok _ Hv)), (tie_comps gs H Hgs). reflexivity.
  - (* IfExp *) cbn [cok core] in Hc. apply andb_prop in Hc as [Hc Hc3]. apply andb_prop in Hc as [Hc1 Hc2].
    nrm. rewrite (IHe1 _ (ecb_cok _ Hc1)), (IHe2 _ (ecb_cok _ Hc2)), (IHe3 _ (ecb_cok _ Hc3)). reflexivity.
Qed.

Theorem tie_all : forall e, T e.
Proof. intros e. exact (proj1 (tie_all2 e)). Qed.

(* the unparser model's tokens, split into words, are the printer's tokens on every tree of the core *)
Theorem norm_unparse_core : forall e, core e = true -> norm (unparse_toks e) = pp slot_top e.
Proof. intros e H. apply (tie_all e slot_top (core_cok e H)). Qed.

(* the round trip, stated on the tokens of the unparser model itself *)
Theorem roundtrip_unparser_core : forall e, core e = true -> is_starred e = false ->
  exists f0, forall f, f0 <= f -> pc f (MExpr slot_top) (norm (unparse_toks e)) = Some (e, []).
Proof. intros e Hc Hs. rewrite (norm_unparse_core e Hc). apply roundtrip_core; assumption. Qed.

(* ... and with a generator expression as the whole expression *)
Lemma core_top_cok e : core_top e = true -> cok e = true.
Proof.
  intros H. apply orb_prop in H as [H|H].
  - apply ecb_cok. exact H.
  - destruct e; try discriminate H. exact H.
Qed.
Theorem norm_unparse_core_top : forall e, core_top e = true -> norm (unparse_toks e) = pp slot_top e.
Proof. intros e H. apply (tie_all e slot_top (core_top_cok e H)). Qed.
Theorem roundtrip_unparser_core_top : forall e, core_top e = true ->
  exists f0, forall f, f0 <= f -> pc f (MExpr slot_top) (norm (unparse_toks e)) = Some (e, []).
Proof. intros e H. rewrite (norm_unparse_core_top e H). apply roundtrip_core_top; exact H. Qed.
