(* The scope-rewriting layer (Lower.transf: expr_transform.py) maps the core of the C03 round-trip theorem into itself: the
   expressions the converter emits for the user's expressions stay inside the fragment for which "the text reads back as
   exactly this tree" is proved. *)
From Coq Require Import String List ZArith Bool Arith Lia.
From OL Require Import Sexp PyAst Unparse Namespace Lower Parse ParseProof.
From OLGen Require Import Tables.
Import ListNotations.
Open Scope string_scope.
Open Scope list_scope.

Definition okE (e : expr) : Prop := core e = true /\ is_starred e = false.

Lemma okE_name x : okE (Name x). Proof. split; reflexivity. Qed.
Lemma okE_cstr s : okE (cstr s). Proof. split; reflexivity. Qed.
Lemma ecore_of e : okE e -> core e && negb (is_starred e) = true.
Proof. intros [C N]. rewrite C, N. reflexivity. Qed.
Lemma okE_of e : core e && negb (is_starred e) = true -> okE e.
Proof. intros H. apply andb_prop in H as [C N]. apply negb_true_iff in N. split; assumption. Qed.

Lemma okE_sub v s : okE v -> okE s -> (forall l, s <> ETuple l) -> (forall a b c, s <> Slice a b c) -> okE (Subscript v s).
Proof.
  intros Hv Hs Ht Hsl. split; [|reflexivity]. cbn [core]. rewrite (ecore_of v Hv). cbn [andb].
  destruct s; try exact (ecore_of _ Hs).
  - exfalso. eapply Ht. reflexivity.
  - exfalso. eapply Hsl. reflexivity.
Qed.

Lemma okE_globals_call : okE globals_call.
Proof. split; reflexivity. Qed.
Lemma okE_globals_item x : okE (globals_item x).
Proof. unfold globals_item. apply okE_sub; [apply okE_globals_call|apply okE_cstr| |]; intros; discriminate. Qed.
Lemma okE_dictitem d x : okE d -> okE (Subscript d (cstr x)).
Proof. intros Hd. apply okE_sub; [exact Hd|apply okE_cstr| |]; intros; discriminate. Qed.
Lemma okE_nonlocal_dict i : okE (nonlocal_dict i). Proof. apply okE_name. Qed.
Lemma okE_class_dict i : okE (class_dict i). Proof. apply okE_name. Qed.

Lemma okE_get_load_global n x : okE (get_load_global n x).
Proof. unfold get_load_global. destruct (hidden_by_local _ _); [apply okE_globals_item|apply okE_name]. Qed.

Lemma okE_load_from_enclosing n x : forall links, okE (load_from_enclosing n links x).
Proof.
  induction links as [|l r IH]; cbn [load_from_enclosing]; [apply okE_get_load_global|].
  destruct (lk_kind l); [apply okE_get_load_global| |exact IH].
  destruct (lookup_sym (lk_syms l) x) as [s|]; [|exact IH].
  destruct (sy_local s).
  - destruct (mem x (lk_inner_nonlocal l)); [apply okE_dictitem; apply okE_nonlocal_dict|apply okE_name].
  - destruct (assoc_nat x (lk_outer_map l)); [apply okE_dictitem; apply okE_nonlocal_dict|apply okE_get_load_global].
Qed.

Lemma okE_ifexp t b o : okE t -> okE b -> okE o -> okE (IfExp t b o).
Proof. intros Ht Hb Ho. split; [|reflexivity]. cbn [core]. rewrite (ecore_of _ Ht), (ecore_of _ Hb), (ecore_of _ Ho). reflexivity. Qed.

Lemma okE_get_load_name n bd inn x e : get_load_name n bd inn x = inl e -> okE e.
Proof.
  unfold get_load_name. destruct (n_kind n).
  - (* global *) intros H.
    repeat match type of H with
           | (if ?c then _ else _) = _ => destruct c
           | match ?c with _ => _ end = _ => destruct c
           end; try discriminate H; injection H as <-;
      first [apply okE_name|apply okE_get_load_global|apply okE_globals_item|apply okE_load_from_enclosing].
  - (* function *) intros H.
    repeat match type of H with
           | (if ?c then _ else _) = _ => destruct c
           | match ?c with _ => _ end = _ => destruct c
           end; try discriminate H; injection H as <-;
      first [apply okE_name|apply okE_get_load_global|apply okE_dictitem; apply okE_nonlocal_dict].
  - (* class *) intros H.
    repeat match type of H with
           | (if ?c then _ else _) = _ => destruct c
           | match ?c with _ => _ end = _ => destruct c
           end; try discriminate H; injection H as <-;
      first [apply okE_name|apply okE_get_load_global|apply okE_load_from_enclosing|apply okE_dictitem; apply okE_nonlocal_dict|idtac].
    apply okE_ifexp; [|apply okE_dictitem; apply okE_class_dict|apply okE_get_load_global].
    split; [|reflexivity]. reflexivity.
Qed.

Lemma okE_get_load_assigned n x e : get_load_assigned n x = inl e -> okE e.
Proof.
  unfold get_load_assigned. intros H.
  repeat match type of H with
         | (if ?c then _ else _) = _ => destruct c
         | match ?c with _ => _ end = _ => destruct c
         end; try discriminate H; injection H as <-;
    first [apply okE_name|apply okE_globals_item|apply okE_dictitem; first [apply okE_nonlocal_dict|apply okE_class_dict]].
Qed.

Lemma okE_setitem d x v : okE d -> okE v -> okE (setitem d x v).
Proof.
  intros Hd [Cv Nv]. unfold setitem, call. split; [|reflexivity]. cbn [core is_starred negb andb forallb].
  destruct Hd as [Cd Nd]. rewrite Cd, Nd, Cv. reflexivity.
Qed.

Lemma okE_get_assign n x v e : okE v -> get_assign n x v = inl e -> okE e.
Proof.
  intros Hv. unfold get_assign. intros H.
  assert (Hnamed : okE (NamedExpr x v)) by (split; [cbn [core]; exact (ecore_of _ Hv)|reflexivity]).
  repeat match type of H with
         | (if ?c then _ else _) = _ => destruct c
         | match ?c with _ => _ end = _ => destruct c
         end; try discriminate H; injection H as <-;
    first [exact Hnamed|apply okE_setitem; [first [apply okE_globals_call|apply okE_nonlocal_dict|apply okE_class_dict]|exact Hv]].
Qed.

(* rmap *)
Lemma rmap_spec {X Y} (f : X -> res Y) (P : X -> Prop) (Q : Y -> Prop) :
  (forall x y, P x -> f x = inl y -> Q y) ->
  forall l l', Forall P l -> rmap f l = inl l' -> Forall Q l' /\ length l' = length l.
Proof.
  intros Hf. induction l as [|x r IH]; intros l' HP H; cbn [rmap] in H.
  - injection H as <-. split; [constructor|reflexivity].
  - inversion HP as [|? ? Hx Hr]; subst. destruct (f x) as [y|] eqn:Ey; cbn [rbind] in H; [|discriminate].
    destruct (rmap f r) as [ys|] eqn:Er; cbn [rbind ret] in H; [|discriminate]. injection H as <-.
    destruct (IH ys Hr eq_refl) as [HQ Hl]. split; [constructor; [exact (Hf x y Hx Ey)|exact HQ]|cbn [length]; rewrite Hl; reflexivity].
Qed.

(* ---------- targets of comprehension clauses are left as they are ---------- *)
Lemma mem_In i l : List.In i l -> mem i l = true.
Proof. unfold mem. intros H. apply existsb_exists. exists i. split; [exact H|apply String.eqb_refl]. Qed.
Lemma mem_app i a b : mem i (a ++ b) = mem i a || mem i b.
Proof. unfold mem. apply existsb_app. Qed.

Lemma load_bound n c inn i : mem i c = true -> get_load_name n c inn i = inl (Name i).
Proof. intros H. unfold get_load_name. destruct (n_kind n); [reflexivity|rewrite H; reflexivity|rewrite H; reflexivity]. Qed.

Definition tnames (t : expr) : list ident :=
  match t with
  | Name i => [i]
  | ETuple l | EList l => flat_map (fun x => match x with Name i => [i] | _ => [] end) l
  | _ => []
  end.

Lemma names_fixed n c : forall l, forallb is_name l = true ->
  (forall i, List.In i (flat_map (fun x => match x with Name i => [i] | _ => [] end) l) -> mem i c = true) ->
  rmap (transf n c true) l = inl l.
Proof.
  induction l as [|x r IH]; intros Hn Hc; [reflexivity|]. cbn [forallb] in Hn. apply andb_prop in Hn as [Hx Hr].
  destruct x; try discriminate Hx. cbn [rmap transf]. rewrite load_bound by (apply Hc; cbn [flat_map app]; left; reflexivity).
  cbn [rbind]. rewrite IH; [reflexivity|exact Hr|]. intros i Hi. apply Hc. cbn [flat_map app]. right. exact Hi.
Qed.

Lemma target_fixed n c t : is_target t = true -> (forall i, List.In i (tnames t) -> mem i c = true) -> transf n c true t = inl t.
Proof.
  intros Ht Hc. destruct t; try discriminate Ht.
  - cbn [transf]. apply load_bound. apply Hc. left. reflexivity.
  - cbn [is_target] in Ht. cbn [transf]. rewrite (names_fixed n c elts Ht Hc). reflexivity.
  - cbn [is_target] in Ht. cbn [transf]. rewrite (names_fixed n c elts Ht Hc). reflexivity.
Qed.

Lemma tn_tuple : forall l a, forallb is_name l = true -> target_names (ETuple l) = inl a ->
  a = flat_map (fun x => match x with Name i => [i] | _ => [] end) l.
Proof.
  induction l as [|x r IH]; intros a Hn H.
  - injection H as <-. reflexivity.
  - cbn [forallb] in Hn. apply andb_prop in Hn as [Hx Hr]. destruct x; try discriminate Hx.
    assert (E : target_names (ETuple (Name id :: r)) = (let! b := target_names (ETuple r) in ret (id :: b))) by reflexivity.
    rewrite E in H. destruct (target_names (ETuple r)) as [b|] eqn:Eb; [|discriminate H]. cbn [rbind ret] in H. injection H as <-.
    cbn [flat_map app]. f_equal. apply IH; [exact Hr|reflexivity].
Qed.
Lemma tn_list l : target_names (EList l) = target_names (ETuple l).
Proof. reflexivity. Qed.

Lemma target_names_tnames t a : is_target t = true -> target_names t = inl a -> a = tnames t.
Proof.
  intros Ht H. destruct t; try discriminate Ht.
  - cbn in H. injection H as <-. reflexivity.
  - cbn [is_target] in Ht. rewrite tn_list in H. exact (tn_tuple elts a Ht H).
  - cbn [is_target] in Ht. exact (tn_tuple elts a Ht H).
Qed.

Section Core.
  Variable n : nsp.
  Definition ecb (x : expr) : bool := core x && negb (is_starred x).
  Definition Q (e : expr) : Prop :=
    forall bd inn e', core e = true -> transf n bd inn e = inl e' -> core e' = true /\ is_starred e' = is_starred e.
  Definition oQ (o : option expr) : Prop := match o with Some x => Q x | None => True end.
  Definition GQ (e : expr) : Prop :=
    forall bd inn e', gen_core e = true -> transf n bd inn e = inl e' -> gen_core e' = true.
  Definition QS (e : expr) : Prop :=
    match e with Slice a b c => oQ a /\ oQ b /\ oQ c | GeneratorExp _ _ => GQ e | _ => Q e end.
  Definition P (e : expr) : Prop := QS e /\ match e with ETuple items => Forall QS items | _ => True end.

  Lemma Q_ec e : Q e -> forall bd inn e', ecb e = true -> transf n bd inn e = inl e' -> ecb e' = true.
  Proof.
    intros HQ bd inn e' Hc H. unfold ecb in *. apply andb_prop in Hc as [C N]. destruct (HQ bd inn e' C H) as [C' N'].
    rewrite C', N'. exact N.
  Qed.

  Lemma Q_list_core bd inn : forall l l', Forall Q l -> forallb core l = true -> rmap (transf n bd inn) l = inl l' ->
    forallb core l' = true /\ length l' = length l.
  Proof.
    induction l as [|x r IH]; intros l' HQ Hc H; cbn [rmap] in H.
    - injection H as <-. split; reflexivity.
    - inversion HQ as [|? ? Hx Hr]; subst. cbn [forallb] in Hc. apply andb_prop in Hc as [Cx Cr].
      destruct (transf n bd inn x) as [y|] eqn:Ey; cbn [rbind] in H; [|discriminate].
      destruct (rmap (transf n bd inn) r) as [ys|] eqn:Er; cbn [rbind ret] in H; [|discriminate]. injection H as <-.
      destruct (IH ys Hr Cr eq_refl) as [HC HL]. destruct (Hx bd inn y Cx Ey) as [Cy _].
      split; [cbn [forallb]; rewrite Cy, HC; reflexivity|cbn [length]; rewrite HL; reflexivity].
  Qed.

  Lemma Q_list_ec bd inn : forall l l', Forall Q l -> forallb ecb l = true -> rmap (transf n bd inn) l = inl l' ->
    forallb ecb l' = true /\ length l' = length l.
  Proof.
    induction l as [|x r IH]; intros l' HQ Hc H; cbn [rmap] in H.
    - injection H as <-. split; reflexivity.
    - inversion HQ as [|? ? Hx Hr]; subst. cbn [forallb] in Hc. apply andb_prop in Hc as [Cx Cr].
      destruct (transf n bd inn x) as [y|] eqn:Ey; cbn [rbind] in H; [|discriminate].
      destruct (rmap (transf n bd inn) r) as [ys|] eqn:Er; cbn [rbind ret] in H; [|discriminate]. injection H as <-.
      destruct (IH ys Hr Cr eq_refl) as [HC HL]. pose proof (Q_ec x Hx bd inn y Cx Ey) as Cy.
      split; [cbn [forallb]; rewrite Cy, HC; reflexivity|cbn [length]; rewrite HL; reflexivity].
  Qed.

  Lemma QS_Q e : QS e -> Q e.
  Proof. intros H. destruct e; try exact H; intros bd inn e' Hc; discriminate Hc. Qed.
  Lemma Forall_QS_Q l : Forall QS l -> forallb core l = true -> Forall Q l.
  Proof.
    intros H _. eapply Forall_impl; [|exact H]. intros x Hx. exact (QS_Q x Hx).
  Qed.
  Lemma Forall_QS_Q_ec l : Forall QS l -> forallb ecb l = true -> Forall Q l.
  Proof.
    intros H _. eapply Forall_impl; [|exact H]. intros x Hx. exact (QS_Q x Hx).
  Qed.

  Ltac bind H :=
    match type of H with
    | rbind ?r _ = inl _ => let E := fresh "E" in destruct r eqn:E; cbn [rbind ret] in H; [|discriminate H]
    end.
  Lemma P_Q e : P e -> Q e.
  Proof. intros [H _]. exact (QS_Q e H). Qed.
  Lemma P_ec e bd inn e' : P e -> ecb e = true -> transf n bd inn e = inl e' -> ecb e' = true.
  Proof.
    intros HP Hc H. exact (Q_ec e (P_Q e HP) bd inn e' Hc H).
  Qed.
  Lemma Pl_Q l : Forall P l -> Forall QS l.
  Proof. intros H. eapply Forall_impl; [|exact H]. intros x [HQ _]. exact HQ. Qed.

  Definition topt' (bd : list ident) (inn : bool) (o : option expr) : res (option expr) :=
    match o with Some x => let! y := transf n bd inn x in ret (Some y) | None => ret None end.
  Definition oecb (o : option expr) : bool := match o with Some x => ecb x | None => true end.
  Lemma Q_olist bd inn : forall l l', Forall (fun o => match o with Some x => P x | None => True end) l ->
    forallb oecb l = true -> rmap (topt' bd inn) l = inl l' -> forallb oecb l' = true /\ length l' = length l.
  Proof.
    induction l as [|x r IH]; intros l' HQ Hc H; cbn [rmap] in H.
    - injection H as <-. split; reflexivity.
    - inversion HQ as [|? ? Hx Hr]; subst. cbn [forallb] in Hc. apply andb_prop in Hc as [Cx Cr].
      destruct (topt' bd inn x) as [y|] eqn:Ey; cbn [rbind] in H; [|discriminate].
      destruct (rmap (topt' bd inn) r) as [ys|] eqn:Er; cbn [rbind ret] in H; [|discriminate]. injection H as <-.
      destruct (IH ys Hr Cr eq_refl) as [HC HL].
      assert (Cy : oecb y = true).
      { destruct x as [x|]; cbn [topt'] in Ey.
        - destruct (transf n bd inn x) as [z|] eqn:Ez; cbn [rbind ret] in Ey; [|discriminate]. injection Ey as <-.
          cbn [oecb] in *. exact (P_ec _ _ _ _ Hx Cx Ez).
        - injection Ey as <-. reflexivity. }
      split; [cbn [forallb]; rewrite Cy, HC; reflexivity|cbn [length]; rewrite HL; reflexivity].
  Qed.

  Lemma no_slice_core : forall l, forallb core l = true -> existsb is_slice l = false.
  Proof.
    induction l as [|x r IH]; intro H; [reflexivity|]. cbn [forallb] in H. apply andb_prop in H as [Hx Hr].
    cbn [existsb]. rewrite (IH Hr). destruct x; try reflexivity. discriminate Hx.
  Qed.
  Lemma sub_core v s : ecb v = true -> ecb s = true -> core (Subscript v s) = true.
  Proof.
    intros Hv Hs. cbn [core]. fold (ecb v). rewrite Hv. cbn [andb]. destruct s; try exact Hs.
    - unfold ecb in Hs. apply andb_prop in Hs as [Hc _]. cbn [core] in Hc. rewrite (no_slice_core _ Hc).
      unfold ecb. cbn [core is_starred negb]. rewrite Hc. reflexivity.
    - discriminate Hs.
  Qed.
  Definition slice_ok (a b c : option expr) : bool := oecb a && oecb b && oecb c.
  Lemma oQ_part bd inn o o' : match o with Some x => Q x | None => True end -> oecb o = true ->
    topt' bd inn o = inl o' -> oecb o' = true.
  Proof.
    intros HQ Hc H. destruct o as [x|]; cbn [topt'] in H.
    - destruct (transf n bd inn x) as [z|] eqn:Ez; cbn [rbind ret] in H; [|discriminate]. injection H as <-.
      cbn [oecb] in *. exact (Q_ec x HQ bd inn z Hc Ez).
    - injection H as <-. reflexivity.
  Qed.
  Lemma slice_core bd inn a b c s' : oQ a -> oQ b -> oQ c -> slice_ok a b c = true ->
    transf n bd inn (Slice a b c) = inl s' -> exists a' b' c', s' = Slice a' b' c' /\ slice_ok a' b' c' = true.
  Proof.
    intros Qa Qb Qc Hc H. cbn [transf] in H.
    fold (topt' bd inn a) in H. fold (topt' bd inn b) in H. fold (topt' bd inn c) in H.
    unfold slice_ok in Hc. apply andb_prop in Hc as [Hc Hcc]. apply andb_prop in Hc as [Ha Hb].
    destruct (topt' bd inn a) as [a'|] eqn:Ea; cbn [rbind] in H; [|discriminate].
    destruct (topt' bd inn b) as [b'|] eqn:Eb; cbn [rbind] in H; [|discriminate].
    destruct (topt' bd inn c) as [c'|] eqn:Ec; cbn [rbind ret] in H; [|discriminate]. injection H as <-.
    exists a', b', c'. split; [reflexivity|]. unfold slice_ok.
    rewrite (oQ_part bd inn a a' Qa Ha Ea), (oQ_part bd inn b b' Qb Hb Eb), (oQ_part bd inn c c' Qc Hcc Ec). reflexivity.
  Qed.
  (* an item of an index tuple: a slice or an expression *)
  Definition item_ok (x : expr) : bool := match x with Slice a b c => slice_ok a b c | _ => ecb x end.
  Lemma items_core bd inn : forall l l', Forall QS l -> forallb item_ok l = true -> rmap (transf n bd inn) l = inl l' ->
    forallb item_ok l' = true /\ existsb is_slice l' = existsb is_slice l.
  Proof.
    induction l as [|x r IH]; intros l' HQ Hc H; cbn [rmap] in H.
    - injection H as <-. split; reflexivity.
    - inversion HQ as [|? ? Hx Hr]; subst. cbn [forallb] in Hc. apply andb_prop in Hc as [Cx Cr].
      destruct (transf n bd inn x) as [y|] eqn:Ey; cbn [rbind] in H; [|discriminate].
      destruct (rmap (transf n bd inn) r) as [ys|] eqn:Er; cbn [rbind ret] in H; [|discriminate]. injection H as <-.
      destruct (IH ys Hr Cr eq_refl) as [HC HE]. cbn [forallb existsb]. rewrite HC, HE.
      assert (G : item_ok y = true /\ is_slice y = is_slice x).
      { destruct x; try (assert (Hy : ecb y = true) by (exact (Q_ec _ Hx bd inn y Cx Ey));
                          split; [|destruct y; try reflexivity; discriminate Hy];
                          destruct y; try exact Hy; discriminate Hy).
        - destruct Hx as [Qa [Qb Qc]]. destruct (slice_core bd inn _ _ _ y Qa Qb Qc Cx Ey) as [a' [b' [c' [-> Hok]]]].
          split; [exact Hok|reflexivity].
        - (* a generator expression is not an item of the core *) discriminate Cx. }
      destruct G as [G1 G2]. rewrite G1, G2. split; reflexivity.
  Qed.

  (* ---------- comprehension clauses ---------- *)
  Definition gP (g : comprehension) : Prop := match g with (t, i, ifs, _) => P t /\ P i /\ Forall P ifs end.
  Definition gnames_ok (c : list ident) (gs : list comprehension) : Prop :=
    Forall (fun g => match g with (t, _, _, _) => forall i, List.In i (tnames t) -> mem i c = true end) gs.

  Lemma gen_names_ok : forall gs ns, gens_core gs = true -> gen_names gs = inl ns -> forall c, gnames_ok (ns ++ c) gs.
  Proof.
    induction gs as [|[[[t i] ifs] a] r IH]; intros ns Hc H c; [constructor|].
    unfold gens_core in Hc. cbn [forallb] in Hc. apply andb_prop in Hc as [Hg Hr].
    apply andb_prop in Hg as [Hg Ha]. apply andb_prop in Hg as [Hg _]. apply andb_prop in Hg as [Hg _]. apply andb_prop in Hg as [Hg _].
    apply andb_prop in Hg as [_ Htt]. apply negb_true_iff in Ha. subst a. cbn [gen_names] in H.
    destruct (target_names t) as [x|] eqn:Et; cbn [rbind] in H; [|discriminate].
    destruct (gen_names r) as [y|] eqn:Er; cbn [rbind ret] in H; [|discriminate]. injection H as <-.
    pose proof (target_names_tnames t x Htt Et) as ->. constructor.
    - intros i0 Hi. rewrite <- app_assoc, mem_app. rewrite (mem_In _ _ Hi). reflexivity.
    - specialize (IH y Hr eq_refl (c)). unfold gnames_ok in *. eapply Forall_impl; [|exact IH].
      intros [[[t0 i0] ifs0] a0] Hin j Hj. rewrite <- app_assoc, mem_app, (Hin j Hj). apply orb_true_r.
  Qed.

  Lemma tgens_core bd inn c : forall gs first gs', Forall gP gs -> gens_core gs = true -> gnames_ok c gs ->
    tgens_go (fun c0 i0 e0 => transf n c0 i0 e0) bd inn c gs first = inl gs' ->
    gens_core gs' = true /\ length gs' = length gs.
  Proof.
    induction gs as [|[[[t i] ifs] a] r IH]; intros first gs' HP Hc Hn H; cbn [tgens_go] in H.
    - injection H as <-. split; reflexivity.
    - pose proof (Forall_inv HP) as Hg0. unfold gP in Hg0. destruct Hg0 as [Pt [Pi Pifs]]. pose proof (Forall_inv_tail HP) as HPr.
      pose proof (Forall_inv Hn) as Hnt. cbn beta iota in Hnt. pose proof (Forall_inv_tail Hn) as Hnr.
      unfold gens_core in Hc. cbn [forallb] in Hc. apply andb_prop in Hc as [Hg Hr].
      apply andb_prop in Hg as [Hg Ha]. apply andb_prop in Hg as [Hg Hifs]. apply andb_prop in Hg as [Hg Hni]. apply andb_prop in Hg as [Hg Hci].
      apply andb_prop in Hg as [Hct Htt].
      assert (Hi' : forall b0 i0 x, transf n b0 i0 i = inl x -> ecb x = true).
      { intros b0 i0 x Hx. apply (P_ec i b0 i0 x Pi); [unfold ecb; rewrite Hci, Hni; reflexivity|exact Hx]. }
      destruct (if first then transf n bd inn i else transf n c true i) as [i'|] eqn:Ei; cbn [rbind] in H; [|discriminate].
      rewrite (target_fixed n c t Htt Hnt) in H. cbn [rbind] in H.
      destruct (rmap (transf n c true) ifs) as [ifs'|] eqn:Eifs; cbn [rbind] in H; [|discriminate].
      destruct (tgens_go (fun c0 i0 e0 => transf n c0 i0 e0) bd inn c r false) as [r'|] eqn:Er; cbn [rbind ret] in H; [|discriminate].
      injection H as <-. destruct (IH false r' HPr Hr Hnr Er) as [HR HL].
      assert (Hix : ecb i' = true) by (destruct first; eapply Hi'; exact Ei).
      destruct (Q_list_ec c true ifs ifs' (Forall_QS_Q_ec _ (Pl_Q _ Pifs) Hifs) Hifs Eifs) as [HI _].
      split; [|cbn [length]; rewrite HL; reflexivity].
      unfold gens_core in *. cbn [forallb]. rewrite HR. unfold ecb in Hix. apply andb_prop in Hix as [Hix1 Hix2].
      rewrite Hct, Htt, Hix1, Hix2, Ha. cbn [andb]. change (forallb ecb ifs' && true && true = true). rewrite HI. reflexivity.
  Qed.

  Lemma core_call_intro f args kws : ecb f = true -> forallb core args = true ->
    forallb (fun kw : option ident * expr => ecb (snd kw)) kws = true -> core (Call f args kws) = true.
  Proof.
    intros Hf Ha Hk. cbn [core]. fold (ecb f). rewrite Hf. cbn [andb].
    destruct args as [|x [|y r]]; try (rewrite Ha; exact Hk).
    - destruct kws as [|k kt]; [|destruct x; rewrite Ha; exact Hk].
      destruct x; try (rewrite Ha; exact Hk). cbn [forallb core andb] in Ha. discriminate Ha.
    - destruct x; rewrite Ha; exact Hk.
  Qed.
  Lemma Q_kws bd inn : forall (kws kws' : list (option ident * expr)), Forall (fun kw => P (snd kw)) kws ->
    forallb (fun kw => ecb (snd kw)) kws = true ->
    rmap (fun kw => let! v := transf n bd inn (snd kw) in ret (fst kw, v)) kws = inl kws' ->
    forallb (fun kw => ecb (snd kw)) kws' = true.
  Proof.
    induction kws as [|[k v] r IH]; intros kws' HP Hc H; cbn [rmap] in H.
    - injection H as <-. reflexivity.
    - pose proof (Forall_inv HP) as Hv. pose proof (Forall_inv_tail HP) as Hr. cbn [snd fst] in *.
      cbn [forallb snd] in Hc. apply andb_prop in Hc as [Cv Cr].
      destruct (transf n bd inn v) as [v'|] eqn:Ev; cbn [rbind ret] in H; [|discriminate].
      destruct (rmap (fun kw : option ident * expr => let! v0 := transf n bd inn (snd kw) in ret (fst kw, v0)) r) as [r'|] eqn:Er;
        cbn [rbind ret] in H; [|discriminate]. injection H as <-.
      cbn [forallb snd]. rewrite (P_ec _ _ _ _ Hv Cv Ev), (IH r' Hr Cr eq_refl). reflexivity.
  Qed.

  Theorem transf_core_all : forall e, P e.
  Proof.
    induction e using expr_ind';
      (split; [|first [exact I|unfold Pl in *; eapply Forall_impl; [|eassumption]; intros ? [HQ _]; exact HQ]]);
      unfold QS; try (intros bd inn e' Hc Ht; cbn [core] in Hc; try discriminate Hc).
    - (* Name *) cbn [transf] in Ht. destruct (okE_get_load_name _ _ _ _ _ Ht) as [C N]. split; [exact C|rewrite N; reflexivity].
    - (* Constant *) cbn [transf] in Ht. injection Ht as <-. split; [exact Hc|reflexivity].
    - (* Starred *) cbn [transf] in Ht. bind Ht. injection Ht as <-. split; [|reflexivity]. cbn [core]. exact (P_ec _ _ _ _ IHe Hc E).
    - (* BinOp *) cbn [transf] in Ht. bind Ht. bind Ht. injection Ht as <-. apply andb_prop in Hc as [H1 H2].
      split; [|reflexivity]. cbn [core]. fold (ecb e). fold (ecb e0). rewrite (P_ec _ _ _ _ IHe1 H1 E), (P_ec _ _ _ _ IHe2 H2 E0). reflexivity.
    - (* BoolOp *) cbn [transf] in Ht. bind Ht. injection Ht as <-. apply andb_prop in Hc as [Hlen Hvs].
      destruct (Q_list_ec bd inn vs l (Forall_QS_Q_ec _ (Pl_Q _ H) Hvs) Hvs E) as [HC HL].
      split; [|reflexivity]. cbn [core]. rewrite HL, Hlen. exact HC.
    - (* UnaryOp *) cbn [transf] in Ht. bind Ht. injection Ht as <-. split; [|reflexivity]. cbn [core]. exact (P_ec _ _ _ _ IHe Hc E).
    - (* EList *) cbn [transf] in Ht. bind Ht. injection Ht as <-.
      destruct (Q_list_core bd inn l l0 (Forall_QS_Q _ (Pl_Q _ H) Hc) Hc E) as [HC _]. split; [exact HC|reflexivity].
    - (* ETuple *) cbn [transf] in Ht. bind Ht. injection Ht as <-.
      destruct (Q_list_core bd inn l l0 (Forall_QS_Q _ (Pl_Q _ H) Hc) Hc E) as [HC _]. split; [exact HC|reflexivity].
    - (* ESet *) cbn [transf] in Ht. bind Ht. injection Ht as <-. apply andb_prop in Hc as [Hlen Hc].
      destruct (Q_list_core bd inn l l0 (Forall_QS_Q _ (Pl_Q _ H) Hc) Hc E) as [HC HL]. split; [|reflexivity].
      cbn [core]. rewrite HL, Hlen. exact HC.
    - (* EDict *) cbn [transf] in Ht. apply andb_prop in Hc as [Hc Hvs]. apply andb_prop in Hc as [Hlen Hks].
      change (rmap (fun o : option expr => match o with Some x => let! y := transf n bd inn x in ret (Some y) | None => ret None end) ks)
        with (rmap (topt' bd inn) ks) in Ht.
      bind Ht. bind Ht. injection Ht as <-.
      destruct (Q_olist bd inn ks l H Hks E) as [HK LK].
      destruct (Q_list_ec bd inn vs l0 (Forall_QS_Q_ec _ (Pl_Q _ H0) Hvs) Hvs E0) as [HV LV].
      split; [|reflexivity]. cbn [core]. rewrite LK, LV, Hlen. cbn [andb]. change (forallb oecb l && forallb ecb l0 = true).
      rewrite HK, HV. reflexivity.
    - (* Compare *) cbn [transf] in Ht. bind Ht. bind Ht. injection Ht as <-.
      apply andb_prop in Hc as [Hc Hcs]. apply andb_prop in Hc as [Hc Hl1]. apply andb_prop in Hc as [Hl Hlen].
      destruct (Q_list_ec bd inn cs l (Forall_QS_Q_ec _ (Pl_Q _ H) Hcs) Hcs E0) as [HC HL].
      split; [|reflexivity]. cbn [core]. fold (ecb e0). rewrite (P_ec _ _ _ _ IHe Hl E), HL, Hlen, Hl1. exact HC.
    - (* Attribute *) cbn [transf] in Ht. bind Ht. injection Ht as <-. split; [|reflexivity]. cbn [core]. exact (P_ec _ _ _ _ IHe Hc E).
    - (* Subscript *) cbn [transf] in Ht. bind Ht. bind Ht. injection Ht as <-. apply andb_prop in Hc as [Hv Hs].
      pose proof (P_ec _ _ _ _ IHe1 Hv E) as Hv'. split; [|reflexivity].
      assert (Hplain : ecb e2 = true -> core (Subscript e e0) = true).
      { intros Hs2. apply sub_core; [exact Hv'|exact (P_ec _ _ _ _ IHe2 Hs2 E0)]. }
      destruct e2; try (apply Hplain; exact Hs).
      + (* index tuple *) destruct (existsb is_slice elts) eqn:Es; [|apply Hplain; exact Hs].
        destruct IHe2 as [_ HQ]. cbn [transf] in E0.
        destruct (rmap (transf n bd inn) elts) as [l'|] eqn:El; cbn [rbind ret] in E0; [|discriminate]. injection E0 as <-.
        destruct (items_core bd inn elts l' HQ Hs El) as [HI HE]. cbn [core]. fold (ecb e). rewrite Hv'. cbn [andb].
        rewrite HE, Es. exact HI.
      + (* slice *) destruct IHe2 as [[Qa [Qb Qc]] _].
        destruct (slice_core bd inn _ _ _ e0 Qa Qb Qc Hs E0) as [a' [b' [c' [-> Hok]]]].
        cbn [core]. fold (ecb e). rewrite Hv'. exact Hok.
    - (* Slice: the statements of the parts are handed on *)
      assert (G : forall o, Po P o -> oQ o).
      { intros [x|] Hx; [|exact I]. cbn [Po oQ] in *. apply P_Q. exact Hx. }
      split; [apply G; exact H|]. split; [apply G; exact H0|apply G; exact H1].
    - (* Call *) assert (Hc' : core (Call e args kws) = true) by exact Hc. clear Hc.
      apply core_call in Hc' as [Hf Hm]. cbn [transf] in Ht. bind Ht.
      destruct o as [fp|].
      + (* zero-argument super() written out *)
        bind Ht. bind Ht. bind Ht. injection Ht as <-.
        destruct (okE_get_load_name _ _ _ _ _ E1) as [C1 _]. destruct (okE_get_load_name _ _ _ _ _ E2) as [C2 _].
        split; [|reflexivity]. apply core_call_intro; [exact (P_ec _ _ _ _ IHe Hf E0)| |reflexivity].
        cbn [forallb]. rewrite C1, C2. reflexivity.
      + bind Ht. bind Ht. bind Ht. injection Ht as <-. pose proof (P_ec _ _ _ _ IHe Hf E0) as Hf'. split; [|reflexivity].
        destruct Hm as [[x [gs [-> [-> Hg]]]]|[Ha Hk]].
        * (* f(x for x in y) *)
          cbn [rmap] in E1, E2. injection E2 as <-.
          destruct (transf n bd inn (GeneratorExp x gs)) as [g'|] eqn:Eg; cbn [rbind ret] in E1; [|discriminate]. injection E1 as <-.
          pose proof (Forall_inv H) as [HG _]. cbn beta iota in HG. pose proof (HG bd inn g' Hg Eg) as Hg'.
          destruct g'; try discriminate Hg'. cbn [core]. fold (ecb e0). rewrite Hf'. exact Hg'.
        * apply core_call_intro; [exact Hf'| |].
          -- exact (proj1 (Q_list_core bd inn args l (Forall_QS_Q _ (Pl_Q _ H) Ha) Ha E1)).
          -- exact (Q_kws bd inn kws l0 H0 Hk E2).
    - (* NamedExpr *) cbn [transf] in Ht. bind Ht. pose proof (P_ec _ _ _ _ IHe Hc E) as Hv. apply okE_of in Hv.
      destruct (mem t bd).
      + injection Ht as <-. split; [|reflexivity]. cbn [core]. exact (ecore_of _ Hv).
      + bind Ht. pose proof (okE_get_assign _ _ _ _ Hv E0) as [Cr Nr].
        destruct e1; cbn beta iota in Ht;
          try (bind Ht; injection Ht as <-; destruct (okE_get_load_assigned _ _ _ E1) as [Cl Nl]; split; [|reflexivity];
               unfold minus1, cint; cbn [core is_starred negb forallb andb lit_ok Z.leb] in *; rewrite ?Cr, ?Cl; reflexivity).
        injection Ht as <-. split; [exact Cr|reflexivity].
    - (* Lambda *) cbn [transf] in Ht.
      change (rmap (fun o : option expr => match o with Some x => let! y := transf n bd inn x in ret (Some y) | None => ret None end) kd)
        with (rmap (topt' bd inn) kd) in Ht.
      bind Ht. bind Ht. bind Ht. injection Ht as <-.
      apply andb_prop in Hc as [Hc Hkd]. apply andb_prop in Hc as [Hc Hde]. apply andb_prop in Hc as [Hc Hlk]. apply andb_prop in Hc as [Hb Hld].
      destruct (Q_olist bd inn kd l H Hkd E) as [HK LK].
      destruct (Q_list_ec bd inn de l0 (Forall_QS_Q_ec _ (Pl_Q _ H0) Hde) Hde E0) as [HD LD].
      split; [|reflexivity]. cbn [core]. fold (ecb e0). rewrite (P_ec _ _ _ _ IHe Hb E1), LK, LD, Hld, Hlk. cbn [andb].
      change (forallb ecb l0 && forallb oecb l = true). rewrite HD, HK. reflexivity.
    - (* ListComp *) cbn [transf] in Ht. bind Ht. cbv zeta in Ht. bind Ht. bind Ht. injection Ht as <-.
      apply andb_prop in Hc as [Hc Hgs]. apply andb_prop in Hc as [Hx Hlen].
      destruct (tgens_core bd inn (l ++ bd) gs true l0 H Hgs (gen_names_ok gs l Hgs E bd) E0) as [HG HL].
      split; [|reflexivity]. cbn [core]. fold (ecb e0). unfold comprehension in *. rewrite (P_ec _ _ _ _ IHe Hx E1), HL, Hlen. exact HG.
    - (* SetComp *) cbn [transf] in Ht. bind Ht. cbv zeta in Ht. bind Ht. bind Ht. injection Ht as <-.
      apply andb_prop in Hc as [Hc Hgs]. apply andb_prop in Hc as [Hx Hlen].
      destruct (tgens_core bd inn (l ++ bd) gs true l0 H Hgs (gen_names_ok gs l Hgs E bd) E0) as [HG HL].
      split; [|reflexivity]. cbn [core]. fold (ecb e0). unfold comprehension in *. rewrite (P_ec _ _ _ _ IHe Hx E1), HL, Hlen. exact HG.
    - (* GeneratorExp *) unfold gen_core in Hc. cbn [transf] in Ht. bind Ht. cbv zeta in Ht. bind Ht. bind Ht. injection Ht as <-.
      apply andb_prop in Hc as [Hc Hgs]. apply andb_prop in Hc as [Hx Hlen].
      destruct (tgens_core bd inn (l ++ bd) gs true l0 H Hgs (gen_names_ok gs l Hgs E bd) E0) as [HG HL].
      unfold gen_core, ecore in *. fold (ecb e0). unfold comprehension in *. rewrite (P_ec _ _ _ _ IHe Hx E1), HL, Hlen. exact HG.
    - (* DictComp *) cbn [transf] in Ht. bind Ht. cbv zeta in Ht. bind Ht. bind Ht. bind Ht. injection Ht as <-.
      apply andb_prop in Hc as [Hc Hgs]. apply andb_prop in Hc as [Hc Hlen]. apply andb_prop in Hc as [Hk Hv].
      destruct (tgens_core bd inn (l ++ bd) gs true l0 H Hgs (gen_names_ok gs l Hgs E bd) E0) as [HG HL].
      split; [|reflexivity]. cbn [core]. fold (ecb e). fold (ecb e0). unfold comprehension in *.
      rewrite (P_ec _ _ _ _ IHe1 Hk E1), (P_ec _ _ _ _ IHe2 Hv E2), HL, Hlen. exact HG.
    - (* IfExp *) cbn [transf] in Ht. bind Ht. bind Ht. bind Ht. injection Ht as <-.
      apply andb_prop in Hc as [Hc H3]. apply andb_prop in Hc as [H1 H2]. split; [|reflexivity]. cbn [core].
      fold (ecb e). fold (ecb e0). fold (ecb e4).
      rewrite (P_ec _ _ _ _ IHe1 H1 E), (P_ec _ _ _ _ IHe2 H2 E0), (P_ec _ _ _ _ IHe3 H3 E1). reflexivity.
  Qed.

  (* the expression the converter emits for a user expression of the core is again in the core *)
  Theorem transf_keeps_core : forall e bd inn e', core e = true -> transf n bd inn e = inl e' ->
    core e' = true /\ is_starred e' = is_starred e.
  Proof. intros e. exact (P_Q e (transf_core_all e)). Qed.

  Theorem transf_keeps_gen_core : forall e bd inn e', gen_core e = true -> transf n bd inn e = inl e' -> gen_core e' = true.
  Proof.
    intros e bd inn e' Hc H. destruct (transf_core_all e) as [HQ _]. destruct e; try discriminate Hc. exact (HQ bd inn e' Hc H).
  Qed.

  Theorem transf_keeps_core_top : forall e bd inn e', core_top e = true -> transf n bd inn e = inl e' -> core_top e' = true.
  Proof.
    intros e bd inn e' Hc H. unfold core_top in *. apply orb_prop in Hc as [Hc|Hc].
    - apply andb_prop in Hc as [C N]. destruct (transf_keeps_core e bd inn e' C H) as [C' N']. rewrite C', N', N. reflexivity.
    - rewrite (transf_keeps_gen_core e bd inn e' Hc H). apply orb_true_r.
  Qed.
End Core.
