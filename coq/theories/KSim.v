(* C05: the lowering of control flow simulates the reference semantics of the skeletons
   (expr_wrapper = list, if_style = if_expr). *)
From Coq Require Import String Ascii List ZArith Bool Arith Lia.
From OL Require Import Sexp PyAst Namespace Lower KSem KSimBase Names.
From OLGen Require Import Tables.
Import ListNotations.
Open Scope string_scope.
Open Scope list_scope.

Definition cfg0 : config := mkCfg false false false.
Definition L (c : ctx) (p : path) (s : stmt) : res (list expr) := lower_stmt cfg0 c p s.

(* the namespace does not redirect names: module level, or a function without captured / global names *)
Definition transparent (n : nsp) : Prop :=
  (forall comp inn i, get_load_name n comp inn i = inl (Name i)) /\
  (forall v, get_assign n "x" v = inl (NamedExpr "x" v)).     (* the only user name the skeletons store to *)

Lemma global_transparent n : n_kind n = NGlobal -> transparent n.
Proof. intros H. split; intros; unfold get_load_name, get_assign; rewrite H; reflexivity. Qed.

Lemma tr_probe n f k : transparent n -> tr n (probe f k) = inl (probe f k).
Proof. intros [H _]. unfold tr, probe. cbn [transf rmap rbind ret]. rewrite H. reflexivity. Qed.

(* ---------- environment lemmas ---------- *)
Lemma lookup_bind_eq e x v : lookup (bind e x v) x = Some v.
Proof. unfold bind. cbn. rewrite String.eqb_refl. reflexivity. Qed.
Lemma lookup_bind_ne e x y v : x <> y -> lookup (bind e x v) y = lookup e y.
Proof. intros H. unfold bind. cbn. apply String.eqb_neq in H. rewrite H. reflexivity. Qed.

(* ---------- tracked flags ---------- *)
Definition Bname (l : loopctx) : ident :=
  match lp_kind l with LWhile => break_name (lp_path l) | LFor => brk_key (it_name (lp_path l)) end.
Definition Iname (l : loopctx) : ident := intr_name (lp_path l).

Definition clear_loop (e : env) (l : loopctx) : Prop :=
  (lp_has_break l = true -> lookup e (Bname l) = Some (VBool false)) /\
  (lp_intr_used l = true -> lookup e (Iname l) = Some (VBool false)).
Definition set_loop (e : env) (l : loopctx) : Prop :=
  lookup e (Bname l) = Some (VBool true) /\
  (lp_intr_used l = true -> lookup e (Iname l) = Some (VBool true)).

Definition Rname (c : ctx) : ident := ret_flag (n_id (c_nsp c)).
Definition RVname (c : ctx) : ident := retv_name (n_id (c_nsp c)).

Definition Rclear (c : ctx) (e : env) : Prop := c_ret_used c = true -> lookup e (Rname c) = Some (VBool false).

Definition Clear (c : ctx) (e : env) : Prop := Forall (clear_loop e) (c_loops c) /\ Rclear c e.

(* what the flags say after a block with outcome o; [e0] is the environment before the block *)
Definition Post (c : ctx) (o : outcome) (e0 e : env) : Prop :=
  match o with
  | ONormal => Clear c e /\ lookup e (RVname c) = lookup e0 (RVname c)
  | OBreak =>
      match c_loops c with
      | l :: tl => set_loop e l /\ Forall (clear_loop e) tl /\ Rclear c e /\ lookup e (RVname c) = lookup e0 (RVname c)
      | [] => False
      end
  | OContinue =>
      match c_loops c with
      | l :: tl =>
          (lp_has_break l = true -> lookup e (Bname l) = Some (VBool false)) /\
          (lp_intr_used l = true -> lookup e (Iname l) = Some (VBool true)) /\
          Forall (clear_loop e) tl /\ Rclear c e /\ lookup e (RVname c) = lookup e0 (RVname c)
      | [] => False
      end
  | OReturn v =>
      Forall (set_loop e) (c_loops c) /\
      (c_ret_used c = true -> lookup e (Rname c) = Some (VBool true)) /\
      match v with
      | Some k => lookup e (RVname c) = Some (VProbe k)
      | None => lookup e (RVname c) = lookup e0 (RVname c)
      end
  end.

Definition tracked (c : ctx) : list ident :=
  flat_map (fun l => [Bname l; Iname l]) (c_loops c) ++ [Rname c; RVname c].

Lemma clear_loop_ext e e' l :
  (forall x, List.In x [Bname l; Iname l] -> lookup e' x = lookup e x) -> clear_loop e l -> clear_loop e' l.
Proof.
  intros H [A B]. split; intros Hx.
  - rewrite H; [auto|left; reflexivity].
  - rewrite H; [auto|right; left; reflexivity].
Qed.
Lemma set_loop_ext e e' l :
  (forall x, List.In x [Bname l; Iname l] -> lookup e' x = lookup e x) -> set_loop e l -> set_loop e' l.
Proof.
  intros H [A B]. split.
  - rewrite H; [auto|left; reflexivity].
  - intros Hx. rewrite H; [auto|right; left; reflexivity].
Qed.

Lemma Forall_loops_ext (P : env -> loopctx -> Prop) e e' ls :
  (forall l, (forall x, List.In x [Bname l; Iname l] -> lookup e' x = lookup e x) -> P e l -> P e' l) ->
  (forall x, List.In x (flat_map (fun l => [Bname l; Iname l]) ls) -> lookup e' x = lookup e x) ->
  Forall (P e) ls -> Forall (P e') ls.
Proof.
  intros HP. induction ls as [|l r IH]; intros H HF; [constructor|].
  inversion HF; subst. constructor.
  - apply HP; [|assumption]. intros x Hx. apply H. cbn [flat_map]. apply in_or_app. left. exact Hx.
  - apply IH; [|assumption]. intros x Hx. apply H. cbn [flat_map]. apply in_or_app. right. exact Hx.
Qed.

Lemma Clear_ext c e e' : (forall x, List.In x (tracked c) -> lookup e' x = lookup e x) -> Clear c e -> Clear c e'.
Proof.
  intros H [A B]. split.
  - eapply Forall_loops_ext; [apply clear_loop_ext| |exact A].
    intros x Hx. apply H. unfold tracked. apply in_or_app. left. exact Hx.
  - intros Hr. rewrite H; [auto|]. unfold tracked. apply in_or_app. right. left. reflexivity.
Qed.

(* ---------- nesting of loop paths ---------- *)
Fixpoint Nest (p : path) (ls : list loopctx) : Prop :=
  match ls with
  | [] => True
  | l :: tl => length (lp_path l) < length p /\ Nest (lp_path l) tl
  end.

Lemma Nest_longer p q ls : length p <= length q -> Nest p ls -> Nest q ls.
Proof. destruct ls as [|l tl]; cbn; [auto|]. intros H [A B]. split; [lia|exact B]. Qed.

Lemma Nest_all_shorter p ls : Nest p ls -> Forall (fun l => length (lp_path l) < length p) ls.
Proof.
  revert p. induction ls as [|l tl IH]; intros p H; [constructor|]. destruct H as [A B]. constructor; [exact A|].
  specialize (IH _ B). eapply Forall_impl; [|exact IH]. cbn. intros a Ha. lia.
Qed.

(* ---------- freshness of the names a statement at path p may bind ---------- *)
Definition stmt_kinds : list string := ["break"; "interrupt"; "it"; "for"; "while"; "assign"].

Lemma ol_path_ne k1 k2 p q : List.In k1 stmt_kinds -> List.In k2 stmt_kinds -> length p <> length q ->
  ol k1 (path_str p) <> ol k2 (path_str q).
Proof.
  intros H1 H2 Hl. cbn in H1, H2.
  repeat (destruct H1 as [<-|H1]); try contradiction;
    repeat (destruct H2 as [<-|H2]); try contradiction;
    try (apply ol_kind_ne; reflexivity);
    intros E; apply ol_inj_same, path_str_inj in E; subst; lia.
Qed.

Lemma ol_stmt_ne_ret k s i : List.In k stmt_kinds -> ol k s <> ret_flag i /\ ol k s <> retv_name i.
Proof.
  intros H. cbn in H. unfold ret_flag, retv_name.
  repeat (destruct H as [<-|H]); try contradiction; split; apply ol_kind_ne; reflexivity.
Qed.

Lemma x_ne_ol k s : "x" <> ol k s. Proof. unfold ol. cbn. discriminate. Qed.
Lemma x_ne_brk a : "x" <> brk_key a. Proof. unfold brk_key. discriminate. Qed.

Lemma in_tracked c x : List.In x (tracked c) ->
  (exists l, List.In l (c_loops c) /\ (x = Bname l \/ x = Iname l)) \/ x = Rname c \/ x = RVname c.
Proof.
  unfold tracked. intros H. apply in_app_or in H. destruct H as [H|H].
  - left. apply in_flat_map in H. destruct H as [l [Hl Hx]]. exists l. split; [exact Hl|].
    cbn in Hx. destruct Hx as [<-|[<-|[]]]; auto.
  - right. cbn in H. destruct H as [<-|[<-|[]]]; auto.
Qed.

Lemma fresh_ol c p k : Nest p (c_loops c) -> List.In k stmt_kinds -> ~ List.In (ol k (path_str p)) (tracked c).
Proof.
  intros HN Hk Hin. apply in_tracked in Hin. destruct Hin as [[l [Hl Hx]]|[Hx|Hx]].
  - assert (Hlen : length (lp_path l) < length p).
    { apply Nest_all_shorter in HN. rewrite Forall_forall in HN. apply HN. exact Hl. }
    destruct Hx as [Hx|Hx].
    + unfold Bname in Hx. destruct (lp_kind l).
      * revert Hx. apply ol_path_ne; [exact Hk|cbn; auto|lia].
      * revert Hx. apply ol_ne_brk_key.
    + revert Hx. unfold Iname, intr_name. apply ol_path_ne; [exact Hk|cbn; auto|lia].
  - revert Hx. apply (ol_stmt_ne_ret k _ _ Hk).
  - revert Hx. apply (ol_stmt_ne_ret k _ _ Hk).
Qed.

Lemma fresh_brk c p : Nest p (c_loops c) -> ~ List.In (brk_key (it_name p)) (tracked c).
Proof.
  intros HN Hin. apply in_tracked in Hin. destruct Hin as [[l [Hl Hx]]|[Hx|Hx]].
  - assert (Hlen : length (lp_path l) < length p).
    { apply Nest_all_shorter in HN. rewrite Forall_forall in HN. apply HN. exact Hl. }
    destruct Hx as [Hx|Hx].
    + unfold Bname in Hx. destruct (lp_kind l).
      * revert Hx. apply brk_key_ne_ol.
      * apply brk_key_inj in Hx. unfold it_name in Hx. apply ol_inj_same, path_str_inj in Hx. subst. lia.
    + revert Hx. apply brk_key_ne_ol.
  - revert Hx. apply brk_key_ne_ol.
  - revert Hx. apply brk_key_ne_ol.
Qed.

Lemma fresh_x c : ~ List.In "x" (tracked c).
Proof.
  intros Hin. apply in_tracked in Hin. destruct Hin as [[l [Hl Hx]]|[Hx|Hx]].
  - destruct Hx as [Hx|Hx].
    + unfold Bname in Hx. destruct (lp_kind l); revert Hx; [apply x_ne_ol|apply x_ne_brk].
    + revert Hx. apply x_ne_ol.
  - revert Hx. apply x_ne_ol.
  - revert Hx. apply x_ne_ol.
Qed.

(* binding an untracked name changes no tracked lookup *)
Lemma bind_fresh c e x v : ~ List.In x (tracked c) -> forall y, List.In y (tracked c) -> lookup (bind e x v) y = lookup e y.
Proof. intros Hf y Hy. apply lookup_bind_ne. intros ->. contradiction. Qed.

(* ---------- well-formed placement of break / continue / return ---------- *)
Fixpoint wf_sk (il ifn : bool) (s : sk) : bool :=
  match s with
  | KBreak | KContinue => il
  | KReturn _ => ifn
  | KIf _ b o => forallb (wf_sk il ifn) b && forallb (wf_sk il ifn) o
  | KWhile _ b o | KFor _ b o => forallb (wf_sk true ifn) b && forallb (wf_sk il ifn) o
  | _ => true
  end.
Definition wf_block (il ifn : bool) (b : list sk) : bool := forallb (wf_sk il ifn) b.

Definition is_kinterrupt (s : sk) : bool := match s with KBreak | KContinue | KReturn _ => true | _ => false end.
Lemma is_interrupt_embed s : is_interrupt (embed s) = is_kinterrupt s.
Proof. destruct s as [| | | |[v|]| | |]; reflexivity. Qed.

Lemma ex_live_cons f s r : ex_live f (s :: r) = f s || (if is_interrupt s then false else ex_live f r).
Proof. reflexivity. Qed.

Lemma ex_live_impl (f g : stmt -> bool) b :
  Forall (fun s => f s = true -> g s = true) b -> ex_live f b = true -> ex_live g b = true.
Proof.
  induction b as [|s r IH]; intros HF H; [discriminate|]. inversion HF; subst.
  rewrite ex_live_cons in *. apply orb_true_iff in H. apply orb_true_iff.
  destruct H as [H|H]; [left; auto|right]. destruct (is_interrupt s); [discriminate|]. auto.
Qed.

Lemma has_ret_mi s : has_ret s = true -> mi_loop s = true.
Proof.
  induction s using stmt_ind'; cbn [has_ret mi_loop]; try discriminate; try reflexivity; intros Hx;
    apply orb_true_iff in Hx; apply orb_true_iff.
  - destruct Hx as [Hx|Hx]; [left|right]; eapply ex_live_impl; eauto.
  - destruct Hx as [Hx|Hx]; [left; exact Hx|right; eapply ex_live_impl; eauto].
  - destruct Hx as [Hx|Hx]; [left; exact Hx|right; eapply ex_live_impl; eauto].
Qed.

Lemma has_ret_mi_block b : ex_live has_ret b = true -> ex_live mi_loop b = true.
Proof. apply ex_live_impl. apply Forall_forall. intros s _. apply has_ret_mi. Qed.

(* what outcomes a block / loop can have, in terms of the structural predicates of the lowering *)
Section Outcomes.
  Variable orc : nat -> bool.

  Definition out_spec (m : smode) (o : outcome) : Prop :=
    match m with
    | XBlock b =>
        ((o = OBreak \/ o = OContinue) -> mi_block (map embed b) = true) /\
        (forall v, o = OReturn v -> has_ret_block (map embed b) = true)
    | XWhile _ b el | XFor _ b el =>
        ((o = OBreak \/ o = OContinue) -> mi_block (map embed el) = true) /\
        (forall v, o = OReturn v -> has_ret_block (map embed b) || has_ret_block (map embed el) = true)
    end.

  Lemma exec_out_spec : forall f m s o s', exec orc f m s = Some (o, s') -> out_spec m o.
  Proof.
    induction f as [|f IH]; intros m s o s' H; [discriminate|].
    destruct m as [b|c b el|k b el]; cbn [exec] in H.
    - (* block *)
      destruct b as [|st rest].
      + injection H as <- <-. split; [intros [E|E]; discriminate|intros v E; discriminate].
      + unfold out_spec, mi_block, has_ret_block. cbn [map]. rewrite !ex_live_cons, !is_interrupt_embed.
        assert (Rest : forall s1, exec orc f (XBlock rest) s1 = Some (o, s') -> is_kinterrupt st = false ->
                  ((o = OBreak \/ o = OContinue) -> mi_loop (embed st) || ex_live mi_loop (map embed rest) = true) /\
                  (forall v, o = OReturn v -> has_ret (embed st) || ex_live has_ret (map embed rest) = true)).
        { intros s1 H1 _. destruct (IH _ _ _ _ H1) as [A B]. unfold mi_block, has_ret_block in A, B. split.
          - intros E. rewrite (A E). apply orb_true_r.
          - intros v E. rewrite (B v E). apply orb_true_r. }
        assert (Sub : forall m1 s1 (Hm : forall o1 s2, exec orc f m1 s1 = Some (o1, s2) ->
                         ((o1 = OBreak \/ o1 = OContinue) -> mi_loop (embed st) = true) /\
                         (forall v, o1 = OReturn v -> has_ret (embed st) = true)),
                  is_kinterrupt st = false ->
                  cont_with (fun s2 => exec orc f (XBlock rest) s2) (exec orc f m1 s1) = Some (o, s') ->
                  ((o = OBreak \/ o = OContinue) -> mi_loop (embed st) || ex_live mi_loop (map embed rest) = true) /\
                  (forall v, o = OReturn v -> has_ret (embed st) || ex_live has_ret (map embed rest) = true)).
        { intros m1 s1 Hm Hk H1. unfold cont_with in H1. destruct (exec orc f m1 s1) as [[o1 s2]|] eqn:E1; [|discriminate].
          destruct (Hm o1 s2 eq_refl) as [A B].
          destruct o1; try (injection H1 as <- <-; split;
                            [intros E; rewrite (A E); reflexivity|intros v0 E; rewrite (B v0 E); reflexivity]).
          apply (Rest s2 H1 Hk). }
        destruct st as [k| | | |[v|]|c b o0|c b o0|k b o0]; cbn [is_kinterrupt].
        * apply (Rest _ H eq_refl).
        * apply (Rest _ H eq_refl).
        * injection H as <- <-. split; [reflexivity|intros v E; discriminate].
        * injection H as <- <-. split; [reflexivity|intros v E; discriminate].
        * injection H as <- <-. split; [intros [E|E]; discriminate|reflexivity].
        * injection H as <- <-. split; [intros [E|E]; discriminate|reflexivity].
        * (* if *) apply (Sub _ _) in H; [exact H| |reflexivity].
          intros o1 s2 E. destruct (IH _ _ _ _ E) as [A B]. cbn [embed mi_loop has_ret].
          destruct (orc (x_pos s)); split.
          -- intros X. unfold mi_block in A. rewrite (A X). reflexivity.
          -- intros v X. unfold has_ret_block in B. rewrite (B v X). reflexivity.
          -- intros X. unfold mi_block in A. rewrite (A X). apply orb_true_r.
          -- intros v X. unfold has_ret_block in B. rewrite (B v X). apply orb_true_r.
        * (* while *) apply (Sub _ _) in H; [exact H| |reflexivity].
          intros o1 s2 E. destruct (IH _ _ _ _ E) as [A B]. cbn [embed mi_loop has_ret]. split.
          -- intros X. unfold mi_block in A. rewrite (A X). apply orb_true_r.
          -- intros v X. exact (B v X).
        * (* for *) apply (Sub _ _) in H; [exact H| |reflexivity].
          intros o1 s2 E. destruct (IH _ _ _ _ E) as [A B]. cbn [embed mi_loop has_ret]. split.
          -- intros X. unfold mi_block in A. rewrite (A X). apply orb_true_r.
          -- intros v X. exact (B v X).
    - (* while loop *)
      cbn [out_spec]. destruct (orc (x_pos s)).
      + destruct (exec orc f (XBlock b) _) as [[o1 s2]|] eqn:E1; [|discriminate].
        destruct (IH _ _ _ _ E1) as [A1 B1].
        destruct o1.
        * exact (IH _ _ _ _ H).
        * injection H as <- <-. split; [intros [E|E]; discriminate|intros v E; discriminate].
        * exact (IH _ _ _ _ H).
        * injection H as <- <-. split; [intros [E|E]; discriminate|].
          intros v0 E. rewrite (B1 v eq_refl). reflexivity.
      + destruct (IH _ _ _ _ H) as [A B]. split; [exact A|]. intros v E. rewrite (B v E). apply orb_true_r.
    - (* for loop *)
      cbn [out_spec]. destruct (orc (x_pos s)).
      + destruct (exec orc f (XBlock b) _) as [[o1 s2]|] eqn:E1; [|discriminate].
        destruct (IH _ _ _ _ E1) as [A1 B1].
        destruct o1.
        * exact (IH _ _ _ _ H).
        * injection H as <- <-. split; [intros [E|E]; discriminate|intros v E; discriminate].
        * exact (IH _ _ _ _ H).
        * injection H as <- <-. split; [intros [E|E]; discriminate|].
          intros v0 E. rewrite (B1 v eq_refl). reflexivity.
      + destruct (IH _ _ _ _ H) as [A B]. split; [exact A|]. intros v E. rewrite (B v E). apply orb_true_r.
  Qed.
End Outcomes.

Section WfOutcomes.
  Variable orc : nat -> bool.

  Definition wf_spec (il ifn : bool) (o : outcome) : Prop :=
    ((o = OBreak \/ o = OContinue) -> il = true) /\ (forall v, o = OReturn v -> ifn = true).

  Lemma wf_spec_normal il ifn : wf_spec il ifn ONormal.
  Proof. split; [intros [E|E]; discriminate|intros v E; discriminate]. Qed.

  Lemma exec_wf : forall f m s o s', exec orc f m s = Some (o, s') -> forall il ifn,
    match m with
    | XBlock b => wf_block il ifn b = true -> wf_spec il ifn o
    | XWhile _ b el | XFor _ b el => wf_block true ifn b = true -> wf_block il ifn el = true -> wf_spec il ifn o
    end.
  Proof.
    induction f as [|f IH]; intros m s o s' H il ifn; [discriminate|].
    destruct m as [b|c b el|k b el]; cbn [exec] in H.
    - destruct b as [|st rest]; intros Hwf.
      + injection H as <- <-. apply wf_spec_normal.
      + unfold wf_block in Hwf. cbn [forallb] in Hwf. apply andb_true_iff in Hwf. destruct Hwf as [Hst Hrest].
        assert (Rest : forall s1, exec orc f (XBlock rest) s1 = Some (o, s') -> wf_spec il ifn o).
        { intros s1 H1. exact (IH _ _ _ _ H1 il ifn Hrest). }
        assert (Sub : forall m1 s1, (forall o1 s2, exec orc f m1 s1 = Some (o1, s2) -> wf_spec il ifn o1) ->
                  cont_with (fun s2 => exec orc f (XBlock rest) s2) (exec orc f m1 s1) = Some (o, s') -> wf_spec il ifn o).
        { intros m1 s1 Hm H1. unfold cont_with in H1. destruct (exec orc f m1 s1) as [[o1 s2]|] eqn:E1; [|discriminate].
          specialize (Hm o1 s2 eq_refl).
          destruct o1; try (injection H1 as <- <-; exact Hm). exact (Rest _ H1). }
        destruct st as [k| | | |[v|]|c b o0|c b o0|k b o0]; cbn [wf_sk] in Hst.
        * exact (Rest _ H).
        * exact (Rest _ H).
        * injection H as <- <-. split; [intros _; exact Hst|intros v E; discriminate].
        * injection H as <- <-. split; [intros _; exact Hst|intros v E; discriminate].
        * injection H as <- <-. split; [intros [E|E]; discriminate|intros _ _; exact Hst].
        * injection H as <- <-. split; [intros [E|E]; discriminate|intros _ _; exact Hst].
        * apply andb_true_iff in Hst. destruct Hst as [Hb Ho]. apply (Sub _ _) in H; [exact H|].
          intros o1 s2 E. destruct (orc (x_pos s)); [exact (IH _ _ _ _ E il ifn Hb)|exact (IH _ _ _ _ E il ifn Ho)].
        * apply andb_true_iff in Hst. destruct Hst as [Hb Ho]. apply (Sub _ _) in H; [exact H|].
          intros o1 s2 E. exact (IH _ _ _ _ E il ifn Hb Ho).
        * apply andb_true_iff in Hst. destruct Hst as [Hb Ho]. apply (Sub _ _) in H; [exact H|].
          intros o1 s2 E. exact (IH _ _ _ _ E il ifn Hb Ho).
    - intros Hb Hel. destruct (orc (x_pos s)).
      + destruct (exec orc f (XBlock b) _) as [[o1 s2]|] eqn:E1; [|discriminate].
        assert (W := IH _ _ _ _ E1 true ifn Hb).
        destruct o1.
        * exact (IH _ _ _ _ H il ifn Hb Hel).
        * injection H as <- <-. apply wf_spec_normal.
        * exact (IH _ _ _ _ H il ifn Hb Hel).
        * injection H as <- <-. split; [intros [E|E]; discriminate|]. intros v0 _. exact (proj2 W v eq_refl).
      + exact (IH _ _ _ _ H il ifn Hel).
    - intros Hb Hel. destruct (orc (x_pos s)).
      + destruct (exec orc f (XBlock b) _) as [[o1 s2]|] eqn:E1; [|discriminate].
        assert (W := IH _ _ _ _ E1 true ifn Hb).
        destruct o1.
        * exact (IH _ _ _ _ H il ifn Hb Hel).
        * injection H as <- <-. apply wf_spec_normal.
        * exact (IH _ _ _ _ H il ifn Hb Hel).
        * injection H as <- <-. split; [intros [E|E]; discriminate|]. intros v0 _. exact (proj2 W v eq_refl).
      + exact (IH _ _ _ _ H il ifn Hel).
  Qed.
End WfOutcomes.

(* ---------- shape of lowered blocks ---------- *)
Lemma lower_block_cons c p br i st rest es :
  lower_block cfg0 L c p br i (st :: rest) = inl es ->
  exists es1, L c (i :: br :: p) st = inl es1 /\
    (if is_interrupt st then es = es1
     else match rest with
          | [] => es = es1
          | _ => exists rs, lower_block cfg0 L c p br (S i) rest = inl rs /\
                   es = match guard_of c with
                        | (bumps, Some flag) => if bumps st then es1 ++ [guarded cfg0 flag rs] else es1 ++ rs
                        | (_, None) => es1 ++ rs
                        end
          end).
Proof.
  cbn [lower_block]. destruct (L c (i :: br :: p) st) as [es1|e]; cbn [rbind]; [|discriminate].
  intros H. exists es1. split; [reflexivity|].
  destruct (is_interrupt st); [injection H as <-; reflexivity|].
  destruct rest as [|s2 r2]; [injection H as <-; reflexivity|].
  destruct (lower_block cfg0 L c p br (S i) (s2 :: r2)) as [rs|e]; cbn [rbind] in H; [|discriminate].
  exists rs. split; [reflexivity|].
  destruct (guard_of c) as [bumps [flag|]].
  - destruct (bumps st); injection H as <-; reflexivity.
  - injection H as <-; reflexivity.
Qed.

Definition il (c : ctx) : bool := match c_loops c with [] => false | _ => true end.
Definition ifn (c : ctx) : bool := match n_kind (c_nsp c) with NFunction => true | _ => false end.
Definition flag_used (c : ctx) : bool :=
  match c_loops c with l :: _ => lp_intr_used l | [] => c_ret_used c end.
Definition Covers (c : ctx) (b : list stmt) : Prop :=
  uses_flag (fst (guard_of c)) b = true -> flag_used c = true.

Lemma has_boundary_cons2 bumps s s2 r :
  has_boundary bumps (s :: s2 :: r) = if is_interrupt s then false else bumps s || has_boundary bumps (s2 :: r).
Proof. reflexivity. Qed.

Lemma Covers_tail c s r : is_interrupt s = false -> Covers c (s :: r) -> Covers c r.
Proof.
  unfold Covers, uses_flag. intros Hi H Hr. apply H. apply orb_true_iff in Hr. apply orb_true_iff.
  destruct Hr as [Hr|Hr].
  - left. destruct r as [|s2 r2]; [discriminate|]. rewrite has_boundary_cons2, Hi, Hr. apply orb_true_r.
  - right. rewrite ex_live_cons, Hi, Hr. apply orb_true_r.
Qed.

Lemma Covers_boundary c s s2 r : is_interrupt s = false -> fst (guard_of c) s = true -> Covers c (s :: s2 :: r) -> flag_used c = true.
Proof.
  unfold Covers, uses_flag. intros Hi Hb H. apply H. apply orb_true_iff. left. rewrite has_boundary_cons2, Hi, Hb. reflexivity.
Qed.

Lemma Covers_if_body c t b o r : Covers c (SIf t b o :: r) -> Covers c b /\ Covers c o.
Proof.
  unfold Covers, uses_flag. intros H. split; intros Hb; apply H; apply orb_true_iff; right;
    rewrite ex_live_cons; apply orb_true_iff; left; cbn [uses_flag_stmt]; rewrite Hb; rewrite ?orb_true_r; reflexivity.
Qed.

Lemma Covers_loop_else_while c t b o r : Covers c (SWhile t b o :: r) -> Covers c o.
Proof.
  unfold Covers, uses_flag. intros H Hb; apply H; apply orb_true_iff; right;
    rewrite ex_live_cons; apply orb_true_iff; left; cbn [uses_flag_stmt]; exact Hb.
Qed.
Lemma Covers_loop_else_for c tg it b o r : Covers c (SFor tg it b o :: r) -> Covers c o.
Proof.
  unfold Covers, uses_flag. intros H Hb; apply H; apply orb_true_iff; right;
    rewrite ex_live_cons; apply orb_true_iff; left; cbn [uses_flag_stmt]; exact Hb.
Qed.

(* ---------- evaluating a guard ---------- *)
Section Guards.
  Variable orc : nat -> bool.

  Lemma Ev_guard_skip s flag rs : lookup (s_env s) flag = Some (VBool true) ->
    exists v, Ev orc (MExpr (guarded cfg0 flag rs)) s (v, s).
  Proof.
    intros H. exists VEll. unfold guarded.
    eapply Ev_if_false; [apply Ev_not; apply Ev_name; exact H|reflexivity|apply Ev_ellipsis].
  Qed.

  Lemma Ev_guard_run s flag rs s' : lookup (s_env s) flag = Some (VBool false) -> EvSeq orc rs s s' ->
    exists v, Ev orc (MExpr (guarded cfg0 flag rs)) s (v, s').
  Proof.
    intros H Hr. destruct (Ev_wrap orc cfg0 rs s s' eq_refl Hr) as [v Hv]. exists v. unfold guarded.
    eapply Ev_if_true; [apply Ev_not; apply Ev_name; exact H|reflexivity|exact Hv].
  Qed.
End Guards.

(* ---------- break / continue / return ---------- *)
Definition ctl (c : ctx) (tl : list loopctx) : ctx := mkCtx (c_nsp c) tl (c_ret_used c).

Lemma Bname_Iname_ne l : Bname l <> Iname l.
Proof.
  unfold Bname, Iname, break_name, intr_name. destruct (lp_kind l).
  - apply ol_kind_ne. reflexivity.
  - apply brk_key_ne_ol.
Qed.

Lemma Bname_fresh c l tl : Nest (lp_path l) tl -> ~ List.In (Bname l) (tracked (ctl c tl)).
Proof.
  intros HN. unfold Bname. destruct (lp_kind l).
  - apply (fresh_ol (ctl c tl) (lp_path l) "break" HN). cbn. auto.
  - apply (fresh_brk (ctl c tl) (lp_path l) HN).
Qed.
Lemma Iname_fresh c l tl : Nest (lp_path l) tl -> ~ List.In (Iname l) (tracked (ctl c tl)).
Proof. intros HN. apply (fresh_ol (ctl c tl) (lp_path l) "interrupt" HN). cbn. auto. Qed.

Section Simple.
  Variable orc : nat -> bool.

  Lemma Ev_set_break s l : exists v, Ev orc (MExpr (set_break l)) s (v, setv s (Bname l) (VBool true)).
  Proof.
    unfold set_break, Bname. destruct (lp_kind l).
    - eexists. apply Ev_named_const. apply Ev_true.
    - eexists. apply Ev_setattr_true.
  Qed.

  (* [set_break l; I(l) := True (if used)] *)
  Lemma Ev_break_body s l :
    exists s', EvSeq orc (set_break l :: (if lp_intr_used l then [NamedExpr (Iname l) ctrue] else [])) s s' /\
      s_tr s' = s_tr s /\ s_pos s' = s_pos s /\
      lookup (s_env s') (Bname l) = Some (VBool true) /\
      (lp_intr_used l = true -> lookup (s_env s') (Iname l) = Some (VBool true)) /\
      (forall y, y <> Bname l -> y <> Iname l -> lookup (s_env s') y = lookup (s_env s) y).
  Proof.
    destruct (Ev_set_break s l) as [v Hv].
    destruct (lp_intr_used l) eqn:U.
    - eexists. split; [econstructor; [exact Hv|]; eapply EvSeq_one; apply Ev_named_const; apply Ev_true|].
      cbn [setv s_tr s_pos s_env]. repeat split.
      + rewrite lookup_bind_ne by (intros E; exact (Bname_Iname_ne l (eq_sym E))). apply lookup_bind_eq.
      + intros _. apply lookup_bind_eq.
      + intros y H1 H2. rewrite !lookup_bind_ne by congruence. reflexivity.
    - eexists. split; [eapply EvSeq_one; exact Hv|]. cbn [setv s_tr s_pos s_env]. repeat split.
      + apply lookup_bind_eq.
      + discriminate.
      + intros y H1 H2. rewrite lookup_bind_ne by congruence. reflexivity.
  Qed.
End Simple.

(* ---------- lists of flag stores (the body of a lowered return) ---------- *)
Section Setters.
  Variable orc : nat -> bool.

  (* an expression that stores True under one name and does nothing else *)
  Inductive Setter : expr -> ident -> Prop :=
  | Setter_break l : Setter (set_break l) (Bname l)
  | Setter_walrus x : Setter (NamedExpr x ctrue) x.

  Lemma Setter_ev e x s : Setter e x -> exists v, Ev orc (MExpr e) s (v, setv s x (VBool true)).
  Proof. intros [l|y]; [apply Ev_set_break|eexists; apply Ev_named_const; apply Ev_true]. Qed.

  Lemma setters_ev : forall es xs, Forall2 Setter es xs -> forall s,
    exists s', EvSeq orc es s s' /\ s_tr s' = s_tr s /\ s_pos s' = s_pos s /\
      (forall x, List.In x xs -> lookup (s_env s') x = Some (VBool true)) /\
      (forall x, ~ List.In x xs -> lookup (s_env s') x = lookup (s_env s) x).
  Proof.
    induction 1 as [|e x es xs He Hes IH]; intros s.
    - exists s. split; [apply ES_nil|]. repeat split. intros x [].
    - destruct (Setter_ev e x s He) as [v Hv]. destruct (IH (setv s x (VBool true))) as [s' [A [B [C [D E]]]]].
      exists s'. split; [econstructor; eauto|]. cbn [setv s_tr s_pos s_env] in *. repeat split; [exact B|exact C| |].
      + intros y [<-|Hy]; [|apply D; exact Hy].
        destruct (in_dec string_dec x xs) as [Hi|Hn]; [apply D; exact Hi|].
        rewrite (E x Hn). apply lookup_bind_eq.
      + intros y Hy. rewrite E by (intros Hi; apply Hy; right; exact Hi).
        apply lookup_bind_ne. intros ->. apply Hy. left. reflexivity.
  Qed.
End Setters.

Lemma RVname_ne_loop c l : RVname c <> Bname l /\ RVname c <> Iname l /\ RVname c <> Rname c.
Proof.
  unfold RVname, Rname, retv_name, ret_flag, Bname, Iname, break_name, intr_name. repeat split.
  - destruct (lp_kind l); [apply ol_kind_ne; reflexivity|apply ol_ne_brk_key].
  - apply ol_kind_ne; reflexivity.
  - apply ol_kind_ne; reflexivity.
Qed.

(* a break or a return inside a block means the enclosing loop can be broken *)
Lemma has_ret_brk s : has_ret s = true -> brk_loop s = true.
Proof.
  induction s using stmt_ind'; cbn [has_ret brk_loop]; try discriminate; try reflexivity; intros Hx;
    apply orb_true_iff in Hx; apply orb_true_iff.
  - destruct Hx as [Hx|Hx]; [left|right]; eapply ex_live_impl; eauto.
  - destruct Hx as [Hx|Hx]; [left; exact Hx|right; eapply ex_live_impl; eauto].
  - destruct Hx as [Hx|Hx]; [left; exact Hx|right; eapply ex_live_impl; eauto].
Qed.
Lemma has_ret_brk_block b : ex_live has_ret b = true -> ex_live brk_loop b = true.
Proof. apply ex_live_impl. apply Forall_forall. intros s _. apply has_ret_brk. Qed.

Section BreakSpec.
  Variable orc : nat -> bool.

  Lemma exec_break_spec : forall f m s s', exec orc f m s = Some (OBreak, s') ->
    match m with
    | XBlock b => brk_block (map embed b) = true
    | XWhile _ _ el | XFor _ _ el => brk_block (map embed el) = true
    end.
  Proof.
    induction f as [|f IH]; intros m s s' H; [discriminate|].
    destruct m as [b|c b el|k b el]; cbn [exec] in H.
    - destruct b as [|st rest]; [discriminate|].
      unfold brk_block. cbn [map]. rewrite ex_live_cons, is_interrupt_embed.
      assert (Rest : forall s1, exec orc f (XBlock rest) s1 = Some (OBreak, s') -> is_kinterrupt st = false ->
                brk_loop (embed st) || (if is_kinterrupt st then false else ex_live brk_loop (map embed rest)) = true).
      { intros s1 H1 Hk. rewrite Hk. specialize (IH _ _ _ H1). unfold brk_block in IH. rewrite IH. apply orb_true_r. }
      assert (Sub : forall m1 s1, (forall s2, exec orc f m1 s1 = Some (OBreak, s2) -> brk_loop (embed st) = true) ->
                is_kinterrupt st = false ->
                cont_with (fun s2 => exec orc f (XBlock rest) s2) (exec orc f m1 s1) = Some (OBreak, s') ->
                brk_loop (embed st) || (if is_kinterrupt st then false else ex_live brk_loop (map embed rest)) = true).
      { intros m1 s1 Hm Hk H1. unfold cont_with in H1. destruct (exec orc f m1 s1) as [[o1 s2]|] eqn:E1; [|discriminate].
        destruct o1; try discriminate.
        - exact (Rest _ H1 Hk).
        - rewrite (Hm s2 eq_refl). reflexivity. }
      destruct st as [k| | | |[v|]|c b o0|c b o0|k b o0]; try discriminate.
      + exact (Rest _ H eq_refl).
      + exact (Rest _ H eq_refl).
      + reflexivity.
      + apply (Sub _ _) in H; [exact H| |reflexivity]. intros s2 E. specialize (IH _ _ _ E).
        cbn [embed brk_loop]. unfold brk_block in IH. destruct (orc (x_pos s)); rewrite IH; [reflexivity|apply orb_true_r].
      + apply (Sub _ _) in H; [exact H| |reflexivity]. intros s2 E. specialize (IH _ _ _ E).
        cbn [embed brk_loop]. unfold brk_block in IH. rewrite IH. apply orb_true_r.
      + apply (Sub _ _) in H; [exact H| |reflexivity]. intros s2 E. specialize (IH _ _ _ E).
        cbn [embed brk_loop]. unfold brk_block in IH. rewrite IH. apply orb_true_r.
    - destruct (orc (x_pos s)).
      + destruct (exec orc f (XBlock b) _) as [[o1 s2]|] eqn:E1; [|discriminate].
        destruct o1; try discriminate; exact (IH _ _ _ H).
      + exact (IH _ _ _ H).
    - destruct (orc (x_pos s)).
      + destruct (exec orc f (XBlock b) _) as [[o1 s2]|] eqn:E1; [|discriminate].
        destruct o1; try discriminate; exact (IH _ _ _ H).
      + exact (IH _ _ _ H).
  Qed.
End BreakSpec.

(* ====================================================================== *)
(* The simulation                                                          *)
Section Sim.
  Variable orc : nat -> bool.

  Definition SimRes (c : ctx) (o : outcome) (s' : sst) (es : list expr) (σ : st) : Prop :=
    exists σ', EvSeq orc es σ σ' /\ s_tr σ' = x_tr s' /\ s_pos σ' = x_pos s' /\ Post c o (s_env σ) (s_env σ').

  Definition Pre (c : ctx) (p : path) (b : list sk) (s : sst) (σ : st) : Prop :=
    transparent (c_nsp c) /\ Nest (0 :: p) (c_loops c) /\ wf_block (il c) (ifn c) b = true /\ Covers c (map embed b) /\
    Clear c (s_env σ) /\ s_tr σ = x_tr s /\ s_pos σ = x_pos s.

  Definition SimBlock (f : nat) : Prop :=
    forall b s o s', exec orc f (XBlock b) s = Some (o, s') ->
    forall c p br i es σ, Pre c p b s σ -> lower_block cfg0 L c p br i (map embed b) = inl es -> SimRes c o s' es σ.

  (* ---- Post is insensitive to changes of untracked names ---- *)
  Lemma Post_ext c o e0 e e' :
    (forall x, List.In x (tracked c) -> lookup e' x = lookup e x) -> Post c o e0 e -> Post c o e0 e'.
  Proof.
    intros H. assert (HRV : lookup e' (RVname c) = lookup e (RVname c)).
    { apply H. unfold tracked. apply in_or_app. right. right. left. reflexivity. }
    assert (HR : lookup e' (Rname c) = lookup e (Rname c)).
    { apply H. unfold tracked. apply in_or_app. right. left. reflexivity. }
    assert (HL : forall ls (P : env -> loopctx -> Prop),
               (forall l, (forall x, List.In x [Bname l; Iname l] -> lookup e' x = lookup e x) -> P e l -> P e' l) ->
               (forall l, List.In l ls -> List.In l (c_loops c)) -> Forall (P e) ls -> Forall (P e') ls).
    { intros ls P HP Hsub HF. rewrite Forall_forall in *. intros l Hl. apply HP; [|apply HF; exact Hl].
      intros x Hx. apply H. unfold tracked. apply in_or_app. left. apply in_flat_map. exists l. split; [apply Hsub; exact Hl|exact Hx]. }
    destruct o; cbn [Post].
    - intros [A B]. split; [|rewrite HRV; exact B]. eapply Clear_ext; [exact H|exact A].
    - destruct (c_loops c) as [|l tl] eqn:E; [auto|]. intros [A [B [C D]]]. repeat split.
      + rewrite H; [apply A|]. unfold tracked. rewrite E. cbn. left. reflexivity.
      + intros U. rewrite H; [apply A; exact U|]. unfold tracked. rewrite E. cbn. right. left. reflexivity.
      + apply (HL tl clear_loop); [apply clear_loop_ext| |exact B]. intros l0 Hl0. right. exact Hl0.
      + intros U. unfold Rclear in *. rewrite HR. apply C. exact U.
      + rewrite HRV. exact D.
    - destruct (c_loops c) as [|l tl] eqn:E; [auto|]. intros [A [B [C [D F]]]]. repeat split.
      + intros U. rewrite H; [apply A; exact U|]. unfold tracked. rewrite E. cbn. left. reflexivity.
      + intros U. rewrite H; [apply B; exact U|]. unfold tracked. rewrite E. cbn. right. left. reflexivity.
      + apply (HL tl clear_loop); [apply clear_loop_ext| |exact C]. intros l0 Hl0. right. exact Hl0.
      + intros U. unfold Rclear in *. rewrite HR. apply D. exact U.
      + rewrite HRV. exact F.
    - intros [A [B C]]. repeat split.
      + apply (HL (c_loops c) set_loop); [apply set_loop_ext|auto|exact A].
      + intros U. rewrite HR. apply B. exact U.
      + destruct v; rewrite HRV; exact C.
  Qed.
End Sim.

Section Sim2.
  Variable orc : nat -> bool.
  Notation SimRes := (SimRes orc).

  (* ---- statements without sub-blocks ---- *)
  Lemma sim_mark c q k es σ s :
    transparent (c_nsp c) -> Clear c (s_env σ) -> s_tr σ = x_tr s -> s_pos σ = x_pos s ->
    L c q (embed (KMark k)) = inl es -> SimRes c ONormal (xemit s (EMark k)) es σ.
  Proof.
    intros HT HC Ht Hp HL. unfold L in HL. cbn [embed lower_stmt] in HL. rewrite (tr_probe _ _ _ HT) in HL.
    cbn [rbind ret] in HL. injection HL as <-.
    exists (emit σ (EMark k)). split; [eapply EvSeq_one; apply Ev_mark|].
    cbn [emit s_tr s_pos s_env xemit x_tr x_pos]. split; [rewrite Ht; reflexivity|]. split; [exact Hp|]. split; [exact HC|reflexivity].
  Qed.

  Lemma sim_pass c q es σ s :
    Clear c (s_env σ) -> s_tr σ = x_tr s -> s_pos σ = x_pos s ->
    L c q (embed KPass) = inl es -> SimRes c ONormal s es σ.
  Proof.
    intros HC Ht Hp HL. unfold L in HL. cbn [embed lower_stmt ret] in HL. injection HL as <-.
    exists σ. split; [eapply EvSeq_one; apply Ev_ellipsis|]. split; [exact Ht|]. split; [exact Hp|]. split; [exact HC|reflexivity].
  Qed.

  Lemma Clear_tail c l tl e : c_loops c = l :: tl -> Clear c e -> Clear (ctl c tl) e.
  Proof. intros E [A B]. rewrite E in A. inversion A; subst. split; [assumption|exact B]. Qed.

  Lemma sim_break c q es σ s l tl :
    c_loops c = l :: tl -> Nest q (c_loops c) -> Clear c (s_env σ) -> s_tr σ = x_tr s -> s_pos σ = x_pos s ->
    L c q (embed KBreak) = inl es -> SimRes c OBreak s es σ.
  Proof.
    intros E HN HC Ht Hp HL. unfold L in HL. cbn [embed lower_stmt] in HL. rewrite E in HL. cbn [ret] in HL. injection HL as <-.
    rewrite E in HN. destruct HN as [_ HN].
    destruct (Ev_break_body orc σ l) as [σ' [A [B [C [D [F G]]]]]].
    exists σ'. split.
    - eapply EvSeq_one. apply Ev_elist. exact A.
    - split; [congruence|]. split; [congruence|]. cbn [Post]. rewrite E.
      assert (Keep : forall x, List.In x (tracked (ctl c tl)) -> lookup (s_env σ') x = lookup (s_env σ) x).
      { intros x Hx. apply G; intros ->; [exact (Bname_fresh c l tl HN Hx)|exact (Iname_fresh c l tl HN Hx)]. }
      destruct (Clear_ext _ _ _ Keep (Clear_tail _ _ _ _ E HC)) as [K1 K2].
      refine (conj (conj D F) (conj K1 (conj K2 _))).
      apply Keep. unfold tracked. apply in_or_app. right. right. left. reflexivity.
  Qed.

  Lemma sim_continue c q es σ s l tl :
    c_loops c = l :: tl -> Nest q (c_loops c) -> Clear c (s_env σ) -> s_tr σ = x_tr s -> s_pos σ = x_pos s ->
    L c q (embed KContinue) = inl es -> SimRes c OContinue s es σ.
  Proof.
    intros E HN HC Ht Hp HL. unfold L in HL. cbn [embed lower_stmt] in HL. rewrite E in HL. cbn [ret] in HL. injection HL as <-.
    rewrite E in HN. destruct HN as [_ HN].
    assert (HCl : clear_loop (s_env σ) l) by (destruct HC as [A _]; rewrite E in A; inversion A; assumption).
    destruct (lp_intr_used l) eqn:U.
    - exists (setv σ (Iname l) (VBool true)). split.
      + eapply EvSeq_one. apply Ev_elist. eapply EvSeq_one. apply Ev_named_const. apply Ev_true.
      + cbn [setv s_tr s_pos s_env]. split; [exact Ht|]. split; [exact Hp|]. cbn [Post]. rewrite E.
        assert (Keep : forall x, List.In x (tracked (ctl c tl)) -> lookup (bind (s_env σ) (Iname l) (VBool true)) x = lookup (s_env σ) x).
        { intros x Hx. apply lookup_bind_ne. intros <-. exact (Iname_fresh c l tl HN Hx). }
        destruct (Clear_ext _ _ _ Keep (Clear_tail _ _ _ _ E HC)) as [K1 K2].
        refine (conj _ (conj (fun _ => lookup_bind_eq _ _ _) (conj K1 (conj K2 _)))).
        * intros Hb. rewrite lookup_bind_ne by (intros X; exact (Bname_Iname_ne l (eq_sym X))). apply HCl. exact Hb.
        * apply Keep. unfold tracked. apply in_or_app. right. right. left. reflexivity.
    - exists σ. split.
      + eapply EvSeq_one. apply Ev_elist. apply ES_nil.
      + split; [exact Ht|]. split; [exact Hp|]. cbn [Post]. rewrite E.
        destruct (Clear_tail _ _ _ _ E HC) as [K1 K2].
        refine (conj (proj1 HCl) (conj _ (conj K1 (conj K2 eq_refl)))). intros X. rewrite U in X. discriminate X.
  Qed.
End Sim2.

Section Sim3.
  Variable orc : nat -> bool.
  Notation SimRes := (SimRes orc).

  Lemma setters_breaks ls : Forall2 Setter (map set_break ls) (map Bname ls).
  Proof. induction ls; cbn; constructor; [constructor|assumption]. Qed.

  Lemma setters_intrs ls :
    Forall2 Setter (flat_map (fun l => if lp_intr_used l then [NamedExpr (intr_name (lp_path l)) ctrue] else []) ls)
                   (map Iname (filter lp_intr_used ls)).
  Proof.
    induction ls as [|l r IH]; cbn [flat_map filter map]; [constructor|].
    destruct (lp_intr_used l); cbn [app map]; [constructor; [constructor|exact IH]|exact IH].
  Qed.

  Lemma sim_return c q v es σ s :
    transparent (c_nsp c) -> ifn c = true -> s_tr σ = x_tr s -> s_pos σ = x_pos s ->
    L c q (embed (KReturn v)) = inl es ->
    SimRes c (OReturn v) (match v with Some k => xemit s (EVal k) | None => s end) es σ.
  Proof.
    intros HT Hf Ht Hp HL. unfold L, ifn in *. destruct v as [k|]; cbn [embed lower_stmt] in HL;
      destruct (n_kind (c_nsp c)) eqn:Ek; try discriminate; try rewrite (tr_probe _ _ _ HT) in HL;
      cbn [rbind ret] in HL; injection HL as <-.
    - (* return v(k) *)
      set (σ1 := setv (emit σ (EVal k)) (retv_name (n_id (c_nsp c))) (VProbe k)).
      set (setters := map set_break (rev (c_loops c)) ++
                      flat_map (fun l => if lp_intr_used l then [NamedExpr (intr_name (lp_path l)) ctrue] else []) (c_loops c) ++
                      (if c_ret_used c then [NamedExpr (ret_flag (n_id (c_nsp c))) ctrue] else [])).
      set (names := map Bname (rev (c_loops c)) ++ map Iname (filter lp_intr_used (c_loops c)) ++
                    (if c_ret_used c then [Rname c] else [])).
      assert (HS : Forall2 Setter setters names).
      { apply Forall2_app; [apply setters_breaks|]. apply Forall2_app; [apply setters_intrs|].
        destruct (c_ret_used c); constructor; [constructor|constructor]. }
      destruct (setters_ev orc _ _ HS σ1) as [σ' [A [B [C [D E]]]]].
      exists σ'. split.
      + eapply EvSeq_one. apply Ev_elist. cbn [app]. econstructor; [apply Ev_named_probe_v|exact A].
      + subst σ1. cbn [setv emit s_tr s_pos s_env xemit x_tr x_pos] in *. split; [congruence|]. split; [congruence|].
        cbn [Post]. refine (conj _ (conj _ _)).
        * apply Forall_forall. intros l Hl. split.
          -- apply D. subst names. apply in_or_app. left. apply in_map. apply -> in_rev. exact Hl.
          -- intros U. apply D. subst names. apply in_or_app. right. apply in_or_app. left. apply in_map.
             apply filter_In. split; assumption.
        * intros U. apply D. subst names. rewrite U. apply in_or_app. right. apply in_or_app. right. left. reflexivity.
        * rewrite E.
          -- apply lookup_bind_eq.
          -- subst names. intros Hin. apply in_app_or in Hin. destruct Hin as [Hin|Hin].
             ++ apply in_map_iff in Hin. destruct Hin as [l [Hl _]]. exact (proj1 (RVname_ne_loop c l) (eq_sym Hl)).
             ++ apply in_app_or in Hin. destruct Hin as [Hin|Hin].
                ** apply in_map_iff in Hin. destruct Hin as [l [Hl _]]. exact (proj1 (proj2 (RVname_ne_loop c l)) (eq_sym Hl)).
                ** destruct (c_ret_used c); [|destruct Hin]. destruct Hin as [Hin|[]].
                   exact (proj2 (proj2 (RVname_ne_loop c {| lp_kind := LWhile; lp_path := []; lp_intr_used := false; lp_has_break := false |})) (eq_sym Hin)).
    - (* bare return *)
      set (setters := map set_break (rev (c_loops c)) ++
                      flat_map (fun l => if lp_intr_used l then [NamedExpr (intr_name (lp_path l)) ctrue] else []) (c_loops c) ++
                      (if c_ret_used c then [NamedExpr (ret_flag (n_id (c_nsp c))) ctrue] else [])).
      set (names := map Bname (rev (c_loops c)) ++ map Iname (filter lp_intr_used (c_loops c)) ++
                    (if c_ret_used c then [Rname c] else [])).
      assert (HS : Forall2 Setter setters names).
      { apply Forall2_app; [apply setters_breaks|]. apply Forall2_app; [apply setters_intrs|].
        destruct (c_ret_used c); constructor; [constructor|constructor]. }
      destruct (setters_ev orc _ _ HS σ) as [σ' [A [B [C [D E]]]]].
      exists σ'. split.
      + eapply EvSeq_one. apply Ev_elist. cbn [app]. exact A.
      + split; [congruence|]. split; [congruence|].
        cbn [Post]. refine (conj _ (conj _ _)).
        * apply Forall_forall. intros l Hl. split.
          -- apply D. subst names. apply in_or_app. left. apply in_map. apply -> in_rev. exact Hl.
          -- intros U. apply D. subst names. apply in_or_app. right. apply in_or_app. left. apply in_map.
             apply filter_In. split; assumption.
        * intros U. apply D. subst names. rewrite U. apply in_or_app. right. apply in_or_app. right. left. reflexivity.
        * apply E. subst names. intros Hin. apply in_app_or in Hin. destruct Hin as [Hin|Hin].
          -- apply in_map_iff in Hin. destruct Hin as [l [Hl _]]. exact (proj1 (RVname_ne_loop c l) (eq_sym Hl)).
          -- apply in_app_or in Hin. destruct Hin as [Hin|Hin].
             ++ apply in_map_iff in Hin. destruct Hin as [l [Hl _]]. exact (proj1 (proj2 (RVname_ne_loop c l)) (eq_sym Hl)).
             ++ destruct (c_ret_used c); [|destruct Hin]. destruct Hin as [Hin|[]].
                exact (proj2 (proj2 (RVname_ne_loop c {| lp_kind := LWhile; lp_path := []; lp_intr_used := false; lp_has_break := false |})) (eq_sym Hin)).
  Qed.
End Sim3.

Lemma outcome_eq_dec (a b : outcome) : {a = b} + {a <> b}.
Proof. decide equality. decide equality. apply Z.eq_dec. Qed.

Section Compose.
  Variable orc : nat -> bool.
  Notation SimRes := (SimRes orc).
  Notation SimBlock := (SimBlock orc).

  Lemma Post_rebase c o e0 e1 e : lookup e1 (RVname c) = lookup e0 (RVname c) -> Post c o e1 e -> Post c o e0 e.
  Proof.
    intros H. destruct o; cbn [Post].
    - intros [A B]. split; [exact A|congruence].
    - destruct (c_loops c); [auto|]. intros [A [B [C D]]]. refine (conj A (conj B (conj C _))). congruence.
    - destruct (c_loops c); [auto|]. intros [A [B [C [D F]]]]. refine (conj A (conj B (conj C (conj D _)))). congruence.
    - intros [A [B C]]. refine (conj A (conj B _)). destruct v; [exact C|congruence].
  Qed.

  Lemma guard_of_loops c l tl : c_loops c = l :: tl -> guard_of c = (mi_loop, Some (Iname l)).
  Proof. intros E. unfold guard_of. rewrite E. reflexivity. Qed.

  (* the flag read by a guard of this context, after a statement with outcome o1 *)
  Lemma flag_after c o1 e0 e1 bumps flag :
    guard_of c = (bumps, Some flag) -> flag_used c = true -> wf_spec (il c) (ifn c) o1 -> Post c o1 e0 e1 ->
    lookup e1 flag = Some (VBool (match o1 with ONormal => false | _ => true end)).
  Proof.
    intros HG HU HW HP. unfold guard_of, flag_used, il in *.
    destruct (c_loops c) as [|l tl] eqn:E.
    - destruct (n_kind (c_nsp c)) eqn:Ek; try discriminate. injection HG as _ <-.
      destruct o1; cbn [Post] in HP; rewrite ?E in HP.
      + destruct HP as [[_ R] _]. apply R. exact HU.
      + exfalso. destruct HW as [W _]. specialize (W (or_introl eq_refl)). discriminate.
      + exfalso. destruct HW as [W _]. specialize (W (or_intror eq_refl)). discriminate.
      + destruct HP as [_ [R _]]. apply R. exact HU.
    - injection HG as _ <-. destruct o1; cbn [Post] in HP; rewrite ?E in HP.
      + destruct HP as [[A _] _]. rewrite ?E in A. inversion A as [|? ? [_ I] _]; subst. apply I. exact HU.
      + destruct HP as [[_ I] _]. apply I. exact HU.
      + destruct HP as [_ [I _]]. apply I. exact HU.
      + destruct HP as [A _]. rewrite ?E in A. inversion A as [|? ? [_ I] _]; subst. apply I. exact HU.
  Qed.

  Lemma guard_none c bumps : guard_of c = (bumps, None) -> forall s, bumps s = false.
  Proof.
    unfold guard_of. destruct (c_loops c); [|discriminate]. destruct (n_kind (c_nsp c)); try discriminate;
      intros H; injection H as <-; reflexivity.
  Qed.

  Lemma compose f (HB : SimBlock f) c p br i st rest es es1 σ s1 o1 o s' :
    transparent (c_nsp c) -> Nest (0 :: p) (c_loops c) -> wf_block (il c) (ifn c) rest = true -> Covers c (map embed (st :: rest)) ->
    lower_block cfg0 L c p br i (map embed (st :: rest)) = inl es ->
    L c (i :: br :: p) (embed st) = inl es1 ->
    SimRes c o1 s1 es1 σ -> wf_spec (il c) (ifn c) o1 ->
    (o1 = ONormal -> is_kinterrupt st = false) ->
    (o1 <> ONormal -> is_kinterrupt st = true \/ fst (guard_of c) (embed st) = true) ->
    cont_with (fun s2 => exec orc f (XBlock rest) s2) (Some (o1, s1)) = Some (o, s') ->
    SimRes c o s' es σ.
  Proof.
    intros HT HN Hwf HC HLB HL1 [σ1 [Ev1 [Tr1 [Po1 P1]]]] HW HNorm HAb Hcont.
    cbn [map] in HLB. destruct (lower_block_cons _ _ _ _ _ _ _ HLB) as [es1' [HL1' Hshape]].
    rewrite HL1 in HL1'. injection HL1' as <-. rewrite is_interrupt_embed in Hshape.
    destruct (outcome_eq_dec o1 ONormal) as [->|Hne].
    - (* the statement completed normally: the rest of the block runs *)
      cbn [cont_with] in Hcont. rewrite (HNorm eq_refl) in Hshape.
      destruct rest as [|s2 r2].
      + cbn [map] in Hshape. subst es. destruct f; [discriminate|]. cbn [exec] in Hcont. injection Hcont as <- <-.
        exists σ1. auto.
      + cbn [map] in Hshape. destruct Hshape as [rs [HLr ->]].
        assert (Hk : is_interrupt (embed st) = false) by (rewrite is_interrupt_embed; apply HNorm; reflexivity).
        assert (PreR : Pre c p (s2 :: r2) s1 σ1).
        { cbn [Post] in P1. destruct P1 as [P1 _].
          refine (conj HT (conj HN (conj Hwf (conj _ (conj P1 (conj Tr1 Po1)))))).
          apply (Covers_tail c (embed st)); [exact Hk|exact HC]. }
        destruct (HB _ _ _ _ Hcont c p br (S i) rs σ1 PreR HLr) as [σ' [Ev2 [Tr2 [Po2 P2]]]].
        assert (P2' : Post c o (s_env σ) (s_env σ')).
        { eapply Post_rebase; [|exact P2]. cbn [Post] in P1. exact (proj2 P1). }
        destruct (guard_of c) as [bumps [flag|]] eqn:EG.
        * destruct (bumps (embed st)) eqn:Eb.
          -- (* guarded: the flag is false, the rest is evaluated inside the conditional *)
             assert (HU : flag_used c = true).
             { apply (Covers_boundary c (embed st) (embed s2) (map embed r2)); [exact Hk|rewrite EG; exact Eb|exact HC]. }
             assert (Hflag := flag_after c ONormal _ _ _ _ EG HU HW P1). cbn in Hflag.
             destruct (Ev_guard_run orc σ1 flag rs σ' Hflag Ev2) as [v Hv].
             exists σ'. split; [eapply EvSeq_app; [exact Ev1|eapply EvSeq_one; exact Hv]|auto].
          -- exists σ'. split; [eapply EvSeq_app; eassumption|auto].
        * exists σ'. split; [eapply EvSeq_app; eassumption|auto].
    - (* break / continue / return: the rest of the block is skipped *)
      assert (o = o1 /\ s' = s1) as [-> ->] by (destruct o1; try contradiction; cbn [cont_with] in Hcont; injection Hcont as <- <-; auto).
      assert (Done : SimRes c o1 s1 es1 σ) by (exists σ1; auto).
      destruct (is_kinterrupt st) eqn:Ei; [subst es; exact Done|].
      destruct rest as [|s2 r2]; [cbn [map] in Hshape; subst es; exact Done|].
      cbn [map] in Hshape. destruct Hshape as [rs [HLr ->]].
      destruct (HAb Hne) as [X|Hb]; [discriminate|].
      assert (Hk : is_interrupt (embed st) = false) by (rewrite is_interrupt_embed; exact Ei).
      destruct (guard_of c) as [bumps [flag|]] eqn:EG; cbn [fst] in Hb.
      + rewrite Hb.
        assert (HU : flag_used c = true).
        { apply (Covers_boundary c (embed st) (embed s2) (map embed r2)); [exact Hk|rewrite EG; exact Hb|exact HC]. }
        assert (Hflag := flag_after c o1 _ _ _ _ EG HU HW P1).
        replace (match o1 with ONormal => false | _ => true end) with true in Hflag by (destruct o1; try reflexivity; contradiction).
        destruct (Ev_guard_skip orc σ1 flag rs Hflag) as [v Hv].
        exists σ1. split; [eapply EvSeq_app; [exact Ev1|eapply EvSeq_one; exact Hv]|auto].
      + rewrite (guard_none c bumps EG) in Hb. discriminate.
  Qed.
End Compose.

Section BlockSim.
  Variable orc : nat -> bool.
  Notation SimRes := (SimRes orc).
  Notation SimBlock := (SimBlock orc).

  (* statement-level simulation of a loop statement whose execution takes fuel f *)
  Definition StmtPre (c : ctx) (q : path) (stm : sk) (σ : st) (tr : list event) (pos : nat) : Prop :=
    transparent (c_nsp c) /\ Nest q (c_loops c) /\ wf_sk (il c) (ifn c) stm = true /\
    Clear c (s_env σ) /\ s_tr σ = tr /\ s_pos σ = pos.

  Definition SimWhileStmt (f : nat) : Prop :=
    forall k b el s o s', exec orc f (XWhile k b el) s = Some (o, s') ->
    forall c q es σ, StmtPre c q (KWhile k b el) σ (x_tr s) (x_pos s) -> Covers c (map embed el) ->
      L c q (embed (KWhile k b el)) = inl es -> SimRes c o s' es σ.

  Definition SimForStmt (f : nat) : Prop :=
    forall k b el s o s', exec orc f (XFor k b el) (xemit (xemit s (EIterable k)) (EIter k)) = Some (o, s') ->
    forall c q es σ, StmtPre c q (KFor k b el) σ (x_tr s) (x_pos s) -> Covers c (map embed el) ->
      L c q (embed (KFor k b el)) = inl es -> SimRes c o s' es σ.

  Lemma wf_spec_of_block f b s o s' il0 ifn0 :
    exec orc f (XBlock b) s = Some (o, s') -> wf_block il0 ifn0 b = true -> wf_spec il0 ifn0 o.
  Proof. intros H Hw. exact (exec_wf orc _ _ _ _ _ H il0 ifn0 Hw). Qed.

  Lemma bumps_of_outcome c o st :
    wf_spec (il c) (ifn c) o -> o <> ONormal ->
    ((o = OBreak \/ o = OContinue) -> mi_loop (embed st) = true) ->
    (forall v, o = OReturn v -> has_ret (embed st) = true) ->
    is_kinterrupt st = true \/ fst (guard_of c) (embed st) = true.
  Proof.
    intros [W1 W2] Hne HB HR. right. unfold guard_of, il, ifn in *.
    destruct (c_loops c) as [|l tl]; cbn [fst].
    - destruct o; try contradiction.
      + specialize (W1 (or_introl eq_refl)). discriminate.
      + specialize (W1 (or_intror eq_refl)). discriminate.
      + specialize (W2 v eq_refl). destruct (n_kind (c_nsp c)); try discriminate. cbn [fst]. apply (HR v eq_refl).
    - destruct o; try contradiction.
      + apply HB. auto.
      + apply HB. auto.
      + apply has_ret_mi. apply (HR v eq_refl).
  Qed.

  Lemma block_sim f : SimBlock f -> SimWhileStmt f -> SimForStmt f -> SimBlock (S f).
  Proof.
    intros HB HW HF b s o s' Hex c p br i es σ HPre HLB.
    destruct HPre as [HT [HN [Hwf [HC [HCl [Htr Hpos]]]]]].
    destruct b as [|st rest].
    - cbn [exec] in Hex. injection Hex as <- <-. cbn [map lower_block ret] in HLB. injection HLB as <-.
      exists σ. split; [apply ES_nil|]. split; [exact Htr|]. split; [exact Hpos|]. split; [exact HCl|reflexivity].
    - assert (HLB' := HLB). cbn [map] in HLB'. destruct (lower_block_cons _ _ _ _ _ _ _ HLB') as [es1 [HL1 _]].
      unfold wf_block in Hwf. cbn [forallb] in Hwf. apply andb_true_iff in Hwf. destruct Hwf as [Hst Hrest].
      assert (HNq : Nest (i :: br :: p) (c_loops c)) by (eapply Nest_longer; [|exact HN]; cbn; lia).
      assert (HNq0 : Nest (0 :: i :: br :: p) (c_loops c)) by (eapply Nest_longer; [|exact HN]; cbn; lia).
      cbn [exec] in Hex.
      destruct st as [k| | | |v|k b o0|k b o0|k b o0].
      + (* marker *)
        eapply (compose orc f HB c p br i (KMark k) rest es es1 σ (xemit s (EMark k)) ONormal); try eassumption.
        * apply (sim_mark orc c (i :: br :: p)); assumption.
        * apply wf_spec_normal.
        * reflexivity.
        * intros X. contradiction.
      + (* pass *)
        eapply (compose orc f HB c p br i KPass rest es es1 σ s ONormal); try eassumption.
        * apply (sim_pass orc c (i :: br :: p)); assumption.
        * apply wf_spec_normal.
        * reflexivity.
        * intros X. contradiction.
      + (* break *)
        cbn [wf_sk] in Hst. assert (Hex_l : exists l tl, c_loops c = l :: tl) by (unfold il in Hst; destruct (c_loops c); [discriminate|eauto]).
        destruct Hex_l as [l [tl E]].
        eapply (compose orc f HB c p br i KBreak rest es es1 σ s OBreak); try eassumption.
        * eapply sim_break; try eassumption.
        * split; [intros _; unfold il; rewrite E; reflexivity|intros v X; discriminate].
        * discriminate.
        * intros _. left. reflexivity.
      + (* continue *)
        cbn [wf_sk] in Hst. assert (Hex_l : exists l tl, c_loops c = l :: tl) by (unfold il in Hst; destruct (c_loops c); [discriminate|eauto]).
        destruct Hex_l as [l [tl E]].
        eapply (compose orc f HB c p br i KContinue rest es es1 σ s OContinue); try eassumption.
        * eapply sim_continue; try eassumption.
        * split; [intros _; unfold il; rewrite E; reflexivity|intros v X; discriminate].
        * discriminate.
        * intros _. left. reflexivity.
      + (* return *)
        cbn [wf_sk] in Hst.
        eapply (compose orc f HB c p br i (KReturn v) rest es es1 σ (match v with Some k => xemit s (EVal k) | None => s end) (OReturn v));
          try eassumption.
        * apply (sim_return orc c (i :: br :: p)); assumption.
        * split; [intros [X|X]; discriminate|intros v0 _; exact Hst].
        * discriminate.
        * intros _. left. reflexivity.
        * destruct v; exact Hex.
      + (* if *)
        cbn [wf_sk] in Hst. apply andb_true_iff in Hst. destruct Hst as [Hwb Hwo].
        set (bit := orc (x_pos s)) in *.
        set (sc := xemit (xtick s) (ECond k bit)) in *.
        destruct (exec orc f (XBlock (if bit then b else o0)) sc) as [[o1 s1]|] eqn:Esub; [|discriminate].
        (* the lowered statement *)
        unfold L in HL1. cbn [embed lower_stmt] in HL1. fold L in HL1.
        destruct (lower_block cfg0 L c (i :: br :: p) 0 0 (map embed b)) as [b'|] eqn:Eb; [|discriminate]. cbn [rbind] in HL1.
        destruct (lower_block cfg0 L c (i :: br :: p) 1 0 (map embed o0)) as [o'|] eqn:Eo; [|discriminate]. cbn [rbind] in HL1.
        rewrite (tr_probe _ _ _ HT) in HL1. cbn [rbind ret if_result cfg0 cfg_short] in HL1.
        destruct (Covers_if_body c _ _ _ _ HC) as [HCb HCo].
        set (σc := emit (tick σ) (ECond k bit)).
        assert (Hcond : Ev orc (MExpr (probe "c" k)) σ (VBool bit, σc)).
        { subst σc bit. rewrite <- Hpos. apply Ev_cond. }
        assert (Sub : SimRes c o1 s1 (if bit then b' else o') σc).
        { destruct bit.
          - eapply (HB _ _ _ _ Esub c (i :: br :: p) 0 0 b' σc); [|exact Eb].
            refine (conj HT (conj HNq0 (conj Hwb (conj HCb (conj HCl _))))). subst σc sc. cbn. split; congruence.
          - eapply (HB _ _ _ _ Esub c (i :: br :: p) 1 0 o' σc); [|exact Eo].
            refine (conj HT (conj HNq0 (conj Hwo (conj HCo (conj HCl _))))). subst σc sc. cbn. split; congruence. }
        destruct Sub as [σ1 [EvS [Tr1 [Po1 P1]]]].
        destruct (Ev_wrap orc cfg0 _ _ _ eq_refl EvS) as [vw Hw].
        assert (Wsub : wf_spec (il c) (ifn c) o1).
        { eapply wf_spec_of_block; [exact Esub|]. destruct bit; assumption. }
        eapply (compose orc f HB c p br i (KIf k b o0) rest es es1 σ s1 o1); try eassumption.
        * cbn [embed]. unfold L. cbn [lower_stmt]. fold L. rewrite Eb, Eo. cbn [rbind]. rewrite (tr_probe _ _ _ HT). cbn [rbind]. exact HL1.
        * injection HL1 as <-. exists σ1. split; [|auto].
          eapply EvSeq_one. destruct bit.
          -- eapply Ev_if_true; [exact Hcond|reflexivity|exact Hw].
          -- eapply Ev_if_false; [exact Hcond|reflexivity|exact Hw].
        * reflexivity.
        * intros Hne. eapply bumps_of_outcome; [exact Wsub|exact Hne| |].
          -- intros X. destruct (exec_out_spec orc _ _ _ _ _ Esub) as [A _]. specialize (A X).
             cbn [embed mi_loop]. unfold mi_block in A. destruct bit; rewrite A; [reflexivity|apply orb_true_r].
          -- intros v X. destruct (exec_out_spec orc _ _ _ _ _ Esub) as [_ A]. specialize (A v X).
             cbn [embed has_ret]. unfold has_ret_block in A. destruct bit; rewrite A; [reflexivity|apply orb_true_r].
      + (* while *)
        destruct (exec orc f (XWhile k b o0) s) as [[o1 s1]|] eqn:Esub; [|discriminate].
        assert (Sub : SimRes c o1 s1 es1 σ).
        { eapply (HW _ _ _ _ _ _ Esub c (i :: br :: p) es1 σ); [|eapply Covers_loop_else_while; exact HC|exact HL1].
          refine (conj HT (conj HNq (conj Hst (conj HCl (conj Htr Hpos))))). }
        cbn [wf_sk] in Hst. apply andb_true_iff in Hst. destruct Hst as [Hwb Hwo].
        assert (Wsub : wf_spec (il c) (ifn c) o1) by exact (exec_wf orc _ _ _ _ _ Esub (il c) (ifn c) Hwb Hwo).
        eapply (compose orc f HB c p br i (KWhile k b o0) rest es es1 σ s1 o1); try eassumption.
        * reflexivity.
        * intros Hne. eapply bumps_of_outcome; [exact Wsub|exact Hne| |].
          -- intros X. destruct (exec_out_spec orc _ _ _ _ _ Esub) as [A _]. specialize (A X).
             cbn [embed mi_loop]. unfold mi_block in A. rewrite A. apply orb_true_r.
          -- intros v X. destruct (exec_out_spec orc _ _ _ _ _ Esub) as [_ A]. exact (A v X).
      + (* for *)
        destruct (exec orc f (XFor k b o0) _) as [[o1 s1]|] eqn:Esub; [|discriminate].
        assert (Sub : SimRes c o1 s1 es1 σ).
        { eapply (HF _ _ _ _ _ _ Esub c (i :: br :: p) es1 σ); [|eapply Covers_loop_else_for; exact HC|exact HL1].
          refine (conj HT (conj HNq (conj Hst (conj HCl (conj Htr Hpos))))). }
        cbn [wf_sk] in Hst. apply andb_true_iff in Hst. destruct Hst as [Hwb Hwo].
        assert (Wsub : wf_spec (il c) (ifn c) o1) by exact (exec_wf orc _ _ _ _ _ Esub (il c) (ifn c) Hwb Hwo).
        eapply (compose orc f HB c p br i (KFor k b o0) rest es es1 σ s1 o1); try eassumption.
        * reflexivity.
        * intros Hne. eapply bumps_of_outcome; [exact Wsub|exact Hne| |].
          -- intros X. destruct (exec_out_spec orc _ _ _ _ _ Esub) as [A _]. specialize (A X).
             cbn [embed mi_loop]. unfold mi_block in A. rewrite A. apply orb_true_r.
          -- intros v X. destruct (exec_out_spec orc _ _ _ _ _ Esub) as [_ A]. exact (A v X).
  Qed.
End BlockSim.

(* ====================================================================== *)
(* while loops                                                             *)
Section WhileSim.
  Variable orc : nat -> bool.
  Notation SimRes := (SimRes orc).
  Notation SimBlock := (SimBlock orc).
  Notation Ev := (Ev orc).
  Notation EvSeq := (EvSeq orc).

  Lemma Ev_while_stop s test body v s1 : Ev (MExpr test) s (v, s1) -> truthy v = false -> Ev (MWhile test body) s (VList 0, s1).
  Proof. intros [f H] Ht. exists (S f). rewrite run_while, H, Ht. reflexivity. Qed.

  Lemma Ev_while_step s test body v s1 w s2 r :
    Ev (MExpr test) s (v, s1) -> truthy v = true -> Ev (MExpr body) s1 (w, s2) -> Ev (MWhile test body) s2 r ->
    Ev (MWhile test body) s r.
  Proof.
    intros H1 Ht H2 H3. destruct (Ev3 orc _ _ _ _ _ _ _ _ _ H1 H2 H3) as [f [A [B C]]].
    exists (S f). rewrite run_while, A, Ht, B. exact C.
  Qed.

  Lemma Ev_while_comp s var test body r : Ev (MWhile test body) s r -> Ev (MExpr (while_comp var body test)) s r.
  Proof. intros [f H]. exists (S f). unfold while_comp, call. cbn [run is_takewhile String.eqb Ascii.eqb Bool.eqb andb]. exact H. Qed.

  (* pieces of a lowered while statement *)
  Definition w_me (q : path) (b : list sk) : loopctx :=
    mkLoop LWhile q (uses_flag mi_loop (map embed b)) (brk_block (map embed b)).
  Definition w_cin (c : ctx) (q : path) (b : list sk) : ctx := mkCtx (c_nsp c) (w_me q b :: c_loops c) (c_ret_used c).
  Definition w_body (q : path) (b : list sk) (b' : list expr) : list expr :=
    (if uses_flag mi_loop (map embed b) then [NamedExpr (intr_name q) cfalse] else []) ++ b'.
  Definition w_test (q : path) (b : list sk) (k : Z) : expr :=
    if brk_block (map embed b) then BoolOp And [UnaryOp Not (Name (break_name q)); probe "c" k] else probe "c" k.
  Definition w_else (q : path) (b : list sk) (el' : list expr) : list expr :=
    match el' with
    | [] => []
    | _ => [if brk_block (map embed b) then IfExp (UnaryOp Not (Name (break_name q))) (wrap cfg0 el') ellipsis else wrap cfg0 el']
    end.

  Definition SimWhileLoop (f : nat) : Prop :=
    forall k b el s o s', exec orc f (XWhile k b el) s = Some (o, s') ->
    forall c q σ b' el',
      transparent (c_nsp c) -> Nest q (c_loops c) ->
      wf_block true (ifn c) b = true -> wf_block (il c) (ifn c) el = true -> Covers c (map embed el) ->
      Clear c (s_env σ) -> (brk_block (map embed b) = true -> lookup (s_env σ) (break_name q) = Some (VBool false)) ->
      s_tr σ = x_tr s -> s_pos σ = x_pos s ->
      lower_block cfg0 L (w_cin c q b) q 0 0 (map embed b) = inl b' ->
      lower_block cfg0 L c q 1 0 (map embed el) = inl el' ->
      exists σ1 σ', Ev (MWhile (w_test q b k) (wrap cfg0 (w_body q b b'))) σ (VList 0, σ1) /\
                    EvSeq (w_else q b el') σ1 σ' /\
                    s_tr σ' = x_tr s' /\ s_pos σ' = x_pos s' /\ Post c o (s_env σ) (s_env σ').

  Lemma w_test_ev q b k σ :
    (brk_block (map embed b) = true -> lookup (s_env σ) (break_name q) = Some (VBool false)) ->
    Ev (MExpr (w_test q b k)) σ (VBool (orc (s_pos σ)), emit (tick σ) (ECond k (orc (s_pos σ)))).
  Proof.
    intros HB. unfold w_test. destruct (brk_block (map embed b)).
    - eapply Ev_and_true; [apply Ev_not; apply Ev_name; apply HB; reflexivity|reflexivity|apply Ev_cond].
    - apply Ev_cond.
  Qed.

  Lemma w_test_broken q b k σ : brk_block (map embed b) = true -> lookup (s_env σ) (break_name q) = Some (VBool true) ->
    exists v, Ev (MExpr (w_test q b k)) σ (v, σ) /\ truthy v = false.
  Proof.
    intros HB Hl. unfold w_test. rewrite HB. eexists. split.
    - eapply Ev_and_false; [apply Ev_not; apply Ev_name; exact Hl|reflexivity].
    - reflexivity.
  Qed.

  Lemma w_else_skip q b el' σ : brk_block (map embed b) = true -> lookup (s_env σ) (break_name q) = Some (VBool true) ->
    EvSeq (w_else q b el') σ σ.
  Proof.
    intros HB Hl. unfold w_else. destruct el' as [|e r]; [apply ES_nil|]. rewrite HB.
    eapply EvSeq_one. eapply Ev_if_false; [apply Ev_not; apply Ev_name; exact Hl|reflexivity|apply Ev_ellipsis].
  Qed.

  Lemma w_else_run q b el' σ σ' :
    (brk_block (map embed b) = true -> lookup (s_env σ) (break_name q) = Some (VBool false)) ->
    EvSeq el' σ σ' -> EvSeq (w_else q b el') σ σ'.
  Proof.
    intros HB Hr. unfold w_else. destruct el' as [|e r]; [inversion Hr; subst; apply ES_nil|].
    destruct (Ev_wrap orc cfg0 _ _ _ eq_refl Hr) as [v Hv].
    destruct (brk_block (map embed b)).
    - eapply EvSeq_one. eapply Ev_if_true; [apply Ev_not; apply Ev_name; apply HB; reflexivity|reflexivity|exact Hv].
    - eapply EvSeq_one. exact Hv.
  Qed.
End WhileSim.

Section WhileStep.
  Variable orc : nat -> bool.
  Notation SimRes := (SimRes orc).
  Notation SimBlock := (SimBlock orc).
  Notation Ev := (Ev orc).
  Notation EvSeq := (EvSeq orc).
  Notation SimWhileLoop := (SimWhileLoop orc).

  Lemma intr_fresh c q : Nest q (c_loops c) -> ~ List.In (intr_name q) (tracked c).
  Proof. intros HN. apply (fresh_ol c q "interrupt" HN). cbn. auto. Qed.
  Lemma break_fresh c q : Nest q (c_loops c) -> ~ List.In (break_name q) (tracked c).
  Proof. intros HN. apply (fresh_ol c q "break" HN). cbn. auto. Qed.

  Lemma tracked_RV c : List.In (RVname c) (tracked c).
  Proof. unfold tracked. apply in_or_app. right. right. left. reflexivity. Qed.

  Lemma while_loop_step f : SimBlock f -> SimWhileLoop f -> SimWhileLoop (S f).
  Proof.
    intros HB HW k b el s o s' Hex c q σ b' el' HT HN Hwb Hwe HCe HCl HBf Htr Hpos HLb HLe.
    cbn [exec] in Hex.
    set (bit := orc (x_pos s)) in *. set (s1 := xemit (xtick s) (ECond k bit)) in *.
    set (σc := emit (tick σ) (ECond k bit)).
    assert (Htest : Ev (MExpr (w_test q b k)) σ (VBool bit, σc)).
    { subst bit σc. rewrite <- Hpos. apply w_test_ev. exact HBf. }
    assert (Sync1 : s_tr σc = x_tr s1 /\ s_pos σc = x_pos s1) by (subst σc s1; cbn; split; congruence).
    destruct bit eqn:Ebit.
    - (* one iteration *)
      destruct (exec orc f (XBlock b) s1) as [[ob s2]|] eqn:Eb; [|discriminate].
      set (used := uses_flag mi_loop (map embed b)) in *.
      (* the interrupt flag is reset first *)
      set (σi := if used then setv σc (intr_name q) (VBool false) else σc).
      assert (Hreset : EvSeq (if used then [NamedExpr (intr_name q) cfalse] else []) σc σi).
      { subst σi. destruct used; [eapply EvSeq_one; apply Ev_named_const; apply Ev_false|apply ES_nil]. }
      assert (Henv_i : forall x, x <> intr_name q -> lookup (s_env σi) x = lookup (s_env σ) x).
      { intros x Hx. subst σi σc. destruct used; cbn [setv emit tick s_env]; [apply lookup_bind_ne; congruence|reflexivity]. }
      assert (PreB : Pre (w_cin c q b) q b s1 σi).
      { refine (conj HT (conj _ (conj Hwb (conj _ (conj _ _))))).
        - cbn [w_cin c_loops Nest w_me lp_path length]. split; [lia|exact HN].
        - unfold Covers. cbn [w_cin guard_of c_loops fst flag_used w_me lp_intr_used]. auto.
        - split.
          + cbn [w_cin c_loops]. constructor.
            * split; cbn [w_me lp_has_break lp_intr_used Bname Iname lp_kind lp_path].
              -- intros Hb. rewrite Henv_i; [apply HBf; exact Hb|]. unfold break_name, intr_name. apply ol_kind_ne. reflexivity.
              -- fold used. intros Hu. subst σi. rewrite Hu. cbn [setv s_env]. apply lookup_bind_eq.
            * destruct HCl as [A _]. eapply Forall_loops_ext; [apply clear_loop_ext| |exact A].
              intros x Hx. apply Henv_i. intros ->. apply (intr_fresh c q HN). unfold tracked. apply in_or_app. left. exact Hx.
          + intros Hr. cbn [w_cin c_ret_used Rname c_nsp] in *. rewrite Henv_i; [apply HCl; exact Hr|].
            unfold ret_flag, intr_name. apply ol_kind_ne. reflexivity.
        - subst σi. destruct used; cbn [setv s_tr s_pos]; exact Sync1. }
      destruct (HB _ _ _ _ Eb (w_cin c q b) q 0 0 b' σi PreB HLb) as [σ2 [EvB [Tr2 [Po2 P2]]]].
      assert (Hbody : exists w, Ev (MExpr (wrap cfg0 (w_body q b b'))) σc (w, σ2)).
      { apply (Ev_wrap orc cfg0). reflexivity. unfold w_body. fold used. eapply EvSeq_app; eassumption. }
      destruct Hbody as [w Hbody].
      assert (RVi : lookup (s_env σi) (RVname c) = lookup (s_env σ) (RVname c)).
      { apply Henv_i. unfold RVname, retv_name, intr_name. apply ol_kind_ne. reflexivity. }
      destruct ob.
      + (* normal completion: next iteration *)
        cbn [Post] in P2. destruct P2 as [[Cl2 Rc2] RV2]. cbn [w_cin c_loops] in Cl2. inversion Cl2 as [|? ? Cme Ctl]; subst.
        destruct (HW _ _ _ _ _ _ Hex c q σ2 b' el' HT HN Hwb Hwe HCe (conj Ctl Rc2)) as [σ1' [σ' [A [B [C [D E]]]]]]; try assumption.
        * intros Hb. apply (proj1 Cme). exact Hb.
        * exists σ1', σ'. split; [eapply Ev_while_step; [exact Htest|reflexivity|exact Hbody|exact A]|].
          refine (conj B (conj C (conj D _))). eapply Post_rebase; [|exact E].
          change (RVname (w_cin c q b)) with (RVname c) in RV2. congruence.
      + (* break: the loop ends, else is skipped *)
        injection Hex as <- <-.
        assert (Hhb : brk_block (map embed b) = true) by exact (exec_break_spec orc _ _ _ _ Eb).
        cbn [Post w_cin c_loops] in P2. destruct P2 as [[Bme Ime] [Ctl [Rc2 RV2]]].
        cbn [w_me Bname lp_kind lp_path] in Bme.
        destruct (w_test_broken orc q b k σ2 Hhb Bme) as [v [Hv Hfalse]].
        exists σ2, σ2. split; [eapply Ev_while_step; [exact Htest|reflexivity|exact Hbody|eapply Ev_while_stop; eassumption]|].
        split; [apply w_else_skip; assumption|]. refine (conj Tr2 (conj Po2 _)). cbn [Post].
        split; [split; [exact Ctl|exact Rc2]|]. change (RVname (w_cin c q b)) with (RVname c) in RV2. congruence.
      + (* continue: next iteration *)
        cbn [Post w_cin c_loops] in P2. destruct P2 as [Bme [Ime [Ctl [Rc2 RV2]]]].
        destruct (HW _ _ _ _ _ _ Hex c q σ2 b' el' HT HN Hwb Hwe HCe (conj Ctl Rc2)) as [σ1' [σ' [A [B [C [D E]]]]]]; try assumption.
        exists σ1', σ'. split; [eapply Ev_while_step; [exact Htest|reflexivity|exact Hbody|exact A]|].
        refine (conj B (conj C (conj D _))). eapply Post_rebase; [|exact E].
        change (RVname (w_cin c q b)) with (RVname c) in RV2. congruence.
      + (* return *)
        injection Hex as <- <-.
        assert (Hhb : brk_block (map embed b) = true).
        { apply has_ret_brk_block. destruct (exec_out_spec orc _ _ _ _ _ Eb) as [_ A]. exact (A v eq_refl). }
        cbn [Post w_cin c_loops c_ret_used] in P2. destruct P2 as [Sall [Rc2 RV2]].
        inversion Sall as [|? ? [Bme Ime] Stl]; subst.
        cbn [w_me Bname lp_kind lp_path] in Bme.
        destruct (w_test_broken orc q b k σ2 Hhb Bme) as [v0 [Hv Hfalse]].
        exists σ2, σ2. split; [eapply Ev_while_step; [exact Htest|reflexivity|exact Hbody|eapply Ev_while_stop; eassumption]|].
        split; [apply w_else_skip; assumption|]. refine (conj Tr2 (conj Po2 _)). cbn [Post].
        refine (conj Stl (conj Rc2 _)). change (RVname (w_cin c q b)) with (RVname c) in RV2. destruct v; [exact RV2|congruence].
    - (* the test is false: else clause *)
      assert (Hstop : Ev (MWhile (w_test q b k) (wrap cfg0 (w_body q b b'))) σ (VList 0, σc)).
      { eapply Ev_while_stop; [exact Htest|reflexivity]. }
      assert (PreE : Pre c q el s1 σc).
      { refine (conj HT (conj _ (conj Hwe (conj HCe (conj HCl Sync1))))). eapply Nest_longer; [|exact HN]. cbn. lia. }
      destruct (HB _ _ _ _ Hex c q 1 0 el' σc PreE HLe) as [σ' [EvE [Tr' [Po' P']]]].
      exists σc, σ'. split; [exact Hstop|]. split; [|auto].
      apply w_else_run; [|exact EvE]. exact HBf.
  Qed.
End WhileStep.

Section WhileStmt.
  Variable orc : nat -> bool.
  Notation SimRes := (SimRes orc).
  Notation Ev := (Ev orc).
  Notation EvSeq := (EvSeq orc).

  Lemma while_stmt f : SimWhileLoop orc f -> SimWhileStmt orc f.
  Proof.
    intros HW k b el s o s' Hex c q es σ [HT [HN [Hwf [HCl [Htr Hpos]]]]] HCe HL.
    cbn [wf_sk] in Hwf. apply andb_true_iff in Hwf. destruct Hwf as [Hwb Hwe].
    unfold L in HL. cbn [embed lower_stmt] in HL. fold L in HL.
    change (mkCtx (c_nsp c) (mkLoop LWhile q (uses_flag mi_loop (map embed b)) (brk_block (map embed b)) :: c_loops c) (c_ret_used c))
      with (w_cin c q b) in HL.
    destruct (lower_block cfg0 L (w_cin c q b) q 0 0 (map embed b)) as [b'|] eqn:Eb; [|discriminate]. cbn [rbind] in HL.
    destruct (lower_block cfg0 L c q 1 0 (map embed el)) as [el'|] eqn:Ee; [|discriminate]. cbn [rbind] in HL.
    rewrite (tr_probe _ _ _ HT) in HL. cbn [rbind ret] in HL. injection HL as <-.
    set (hb := brk_block (map embed b)) in *.
    set (σ0 := if hb then setv σ (break_name q) (VBool false) else σ).
    assert (Hpre : EvSeq (if hb then [NamedExpr (break_name q) cfalse] else []) σ σ0).
    { subst σ0. destruct hb; [eapply EvSeq_one; apply Ev_named_const; apply Ev_false|apply ES_nil]. }
    assert (Henv0 : forall x, x <> break_name q -> lookup (s_env σ0) x = lookup (s_env σ) x).
    { intros x Hx. subst σ0. destruct hb; cbn [setv s_env]; [apply lookup_bind_ne; congruence|reflexivity]. }
    assert (HCl0 : Clear c (s_env σ0)).
    { eapply Clear_ext; [|exact HCl]. intros x Hx. apply Henv0. intros ->. exact (break_fresh c q HN Hx). }
    assert (HB0 : hb = true -> lookup (s_env σ0) (break_name q) = Some (VBool false)).
    { intros E. subst σ0. rewrite E. cbn [setv s_env]. apply lookup_bind_eq. }
    assert (Sync0 : s_tr σ0 = x_tr s /\ s_pos σ0 = x_pos s) by (subst σ0; destruct hb; cbn [setv s_tr s_pos]; auto).
    destruct (HW _ _ _ _ _ _ Hex c q σ0 b' el' HT HN Hwb Hwe HCe HCl0 HB0 (proj1 Sync0) (proj2 Sync0) Eb Ee)
      as [σ1 [σ' [A [B [C [D E]]]]]].
    exists σ'. split.
    - eapply EvSeq_app; [exact Hpre|]. econstructor.
      + apply Ev_while_comp. exact A.
      + exact B.
    - refine (conj C (conj D _)). eapply Post_rebase; [|exact E].
      apply Henv0. unfold RVname, retv_name, break_name. apply ol_kind_ne. reflexivity.
  Qed.
End WhileStmt.

(* ====================================================================== *)
(* for loops                                                               *)
Lemma brk_mi s : brk_loop s = true -> mi_loop s = true.
Proof.
  induction s using stmt_ind'; cbn [brk_loop mi_loop]; try discriminate; try reflexivity; intros Hx;
    apply orb_true_iff in Hx; apply orb_true_iff.
  - destruct Hx as [Hx|Hx]; [left|right]; eapply ex_live_impl; eauto.
  - destruct Hx as [Hx|Hx]; [left; exact Hx|right; eapply ex_live_impl; eauto].
  - destruct Hx as [Hx|Hx]; [left; exact Hx|right; eapply ex_live_impl; eauto].
Qed.
Lemma brk_mi_block b : brk_block b = true -> mi_block b = true.
Proof. apply ex_live_impl. apply Forall_forall. intros s _. apply brk_mi. Qed.

Lemma has_boundary_mi b : has_boundary mi_loop b = true -> mi_block b = true.
Proof.
  induction b as [|s r IH]; [discriminate|]. destruct r as [|s2 r2]; [discriminate|].
  rewrite has_boundary_cons2. unfold mi_block. rewrite ex_live_cons. destruct (is_interrupt s); [discriminate|].
  intros H. apply orb_true_iff in H. apply orb_true_iff. destruct H as [H|H]; [left; exact H|right; apply IH; exact H].
Qed.

Lemma uses_flag_stmt_mi s : uses_flag_stmt mi_loop s = true -> mi_loop s = true.
Proof.
  induction s using stmt_ind'; cbn [uses_flag_stmt mi_loop]; try discriminate; intros Hx.
  - apply orb_true_iff in Hx. apply orb_true_iff. destruct Hx as [Hx|Hx]; [left|right];
      apply orb_true_iff in Hx; (destruct Hx as [Hx|Hx]; [apply has_boundary_mi; exact Hx|eapply ex_live_impl; eauto]).
  - apply orb_true_iff. right. apply orb_true_iff in Hx. destruct Hx as [Hx|Hx]; [apply has_boundary_mi; exact Hx|eapply ex_live_impl; eauto].
  - apply orb_true_iff. right. apply orb_true_iff in Hx. destruct Hx as [Hx|Hx]; [apply has_boundary_mi; exact Hx|eapply ex_live_impl; eauto].
Qed.

Lemma uses_flag_mi b : uses_flag mi_loop b = true -> mi_block b = true.
Proof.
  unfold uses_flag. intros H. apply orb_true_iff in H. destruct H as [H|H]; [apply has_boundary_mi; exact H|].
  eapply ex_live_impl; [|exact H]. apply Forall_forall. intros s _. apply uses_flag_stmt_mi.
Qed.

Section ForSim.
  Variable orc : nat -> bool.
  Notation SimRes := (SimRes orc).
  Notation SimBlock := (SimBlock orc).
  Notation Ev := (Ev orc).
  Notation EvSeq := (EvSeq orc).

  Lemma Ev_forplain_stop s k tgt body : orc (s_pos s) = false ->
    Ev (MForPlain k tgt body) s (VList 0, emit (tick s) (ENext k false)).
  Proof. intros H. exists 1. rewrite run_forplain. cbn zeta. rewrite H. reflexivity. Qed.

  Lemma Ev_forplain_step s k tgt body w s2 r : orc (s_pos s) = true ->
    Ev (MExpr body) (setv (emit (tick s) (ENext k true)) tgt (VInt k)) (w, s2) -> Ev (MForPlain k tgt body) s2 r ->
    Ev (MForPlain k tgt body) s r.
  Proof.
    intros H H1 H2. destruct (Ev2 orc _ _ _ _ _ _ H1 H2) as [f [A B]]. exists (S f).
    rewrite run_forplain. cbn zeta. rewrite H, A. exact B.
  Qed.

  Lemma Ev_forwrap_broken s itn k tgt body : lookup (s_env s) (brk_key itn) = Some (VBool true) ->
    Ev (MForWrap itn k tgt body) s (VList 0, s).
  Proof. intros H. exists 1. rewrite run_forwrap, H. reflexivity. Qed.

  Lemma Ev_forwrap_stop s itn k tgt body : lookup (s_env s) (brk_key itn) = Some (VBool false) -> orc (s_pos s) = false ->
    Ev (MForWrap itn k tgt body) s (VList 0, emit (tick s) (ENext k false)).
  Proof. intros H Hb. exists 1. rewrite run_forwrap, H. cbn [truthy]. cbn zeta. rewrite Hb. reflexivity. Qed.

  Lemma Ev_forwrap_step s itn k tgt body w s2 r : lookup (s_env s) (brk_key itn) = Some (VBool false) -> orc (s_pos s) = true ->
    Ev (MExpr body) (setv (emit (tick s) (ENext k true)) tgt (VInt k)) (w, s2) -> Ev (MForWrap itn k tgt body) s2 r ->
    Ev (MForWrap itn k tgt body) s r.
  Proof.
    intros H Hb H1 H2. destruct (Ev2 orc _ _ _ _ _ _ H1 H2) as [f [A B]]. exists (S f).
    rewrite run_forwrap, H. cbn [truthy]. cbn zeta. rewrite Hb, A. exact B.
  Qed.

  (* the comprehension over the plain iterable / over the wrapper variable *)
  Lemma run_listcomp_plain f s k tgt body :
    run orc (S (S f)) (MExpr (ListComp body [(Name tgt, probe "it" k, [], false)])) s
    = run orc (S f) (MForPlain k tgt body) (emit (emit s (EIterable k)) (EIter k)).
  Proof. reflexivity. Qed.

  Lemma Ev_listcomp_plain s k tgt body r :
    Ev (MForPlain k tgt body) (emit (emit s (EIterable k)) (EIter k)) r ->
    Ev (MExpr (ListComp body [(Name tgt, probe "it" k, [], false)])) s r.
  Proof. intros [f H]. exists (S (S f)). rewrite run_listcomp_plain. eapply run_mono; [exact H|lia]. Qed.

  Lemma run_listcomp_wrap f s itn tgt body :
    run orc (S f) (MExpr (ListComp body [(Name tgt, Name itn, [], false)])) s
    = match lookup (s_env s) itn with
      | Some (VWrap k) => run orc f (MForWrap itn k tgt body) s
      | _ => None
      end.
  Proof. reflexivity. Qed.

  Lemma Ev_listcomp_wrap s itn k tgt body r : lookup (s_env s) itn = Some (VWrap k) ->
    Ev (MForWrap itn k tgt body) s r -> Ev (MExpr (ListComp body [(Name tgt, Name itn, [], false)])) s r.
  Proof. intros Hl [f H]. exists (S f). rewrite run_listcomp_wrap, Hl. exact H. Qed.
End ForSim.

Section ForLoop.
  Variable orc : nat -> bool.
  Notation SimRes := (SimRes orc).
  Notation SimBlock := (SimBlock orc).
  Notation Ev := (Ev orc).
  Notation EvSeq := (EvSeq orc).

  Definition f_me (q : path) (b : list sk) : loopctx :=
    mkLoop LFor q (uses_flag mi_loop (map embed b)) (brk_block (map embed b)).
  Definition f_cin (c : ctx) (q : path) (b : list sk) : ctx := mkCtx (c_nsp c) (f_me q b :: c_loops c) (c_ret_used c).
  Definition ftmp (q : path) : ident := ol "for" (path_str q).
  Definition f_body (q : path) (b : list sk) (b' : list expr) : list expr :=
    (if uses_flag mi_loop (map embed b) then [NamedExpr (intr_name q) cfalse] else []) ++ [NamedExpr "x" (Name (ftmp q))] ++ b'.
  Definition f_mode (q : path) (b : list sk) (k : Z) (body : expr) : mode :=
    if brk_block (map embed b) then MForWrap (it_name q) k (ftmp q) body else MForPlain k (ftmp q) body.
  Definition f_else (q : path) (b : list sk) (el' : list expr) : list expr :=
    match el' with
    | [] => []
    | _ => [if brk_block (map embed b)
            then IfExp (UnaryOp Not (Attribute (Name (it_name q)) "_break")) (wrap cfg0 el') ellipsis
            else wrap cfg0 el']
    end.

  Definition SimForLoop (f : nat) : Prop :=
    forall k b el s o s', exec orc f (XFor k b el) s = Some (o, s') ->
    forall c q σ b' el',
      transparent (c_nsp c) -> Nest q (c_loops c) ->
      wf_block true (ifn c) b = true -> wf_block (il c) (ifn c) el = true -> Covers c (map embed el) ->
      Clear c (s_env σ) -> (brk_block (map embed b) = true -> lookup (s_env σ) (brk_key (it_name q)) = Some (VBool false)) ->
      s_tr σ = x_tr s -> s_pos σ = x_pos s ->
      lower_block cfg0 L (f_cin c q b) q 0 0 (map embed b) = inl b' ->
      lower_block cfg0 L c q 1 0 (map embed el) = inl el' ->
      exists σ1 σ', Ev (f_mode q b k (wrap cfg0 (f_body q b b'))) σ (VList 0, σ1) /\
                    EvSeq (f_else q b el') σ1 σ' /\
                    s_tr σ' = x_tr s' /\ s_pos σ' = x_pos s' /\ Post c o (s_env σ) (s_env σ').

  Lemma f_else_skip q b el' σ : brk_block (map embed b) = true -> lookup (s_env σ) (brk_key (it_name q)) = Some (VBool true) ->
    EvSeq (f_else q b el') σ σ.
  Proof.
    intros HB Hl. unfold f_else. destruct el' as [|e r]; [apply ES_nil|]. rewrite HB.
    eapply EvSeq_one. eapply Ev_if_false; [apply Ev_not; apply Ev_break_attr; exact Hl|reflexivity|apply Ev_ellipsis].
  Qed.

  Lemma f_else_run q b el' σ σ' :
    (brk_block (map embed b) = true -> lookup (s_env σ) (brk_key (it_name q)) = Some (VBool false)) ->
    EvSeq el' σ σ' -> EvSeq (f_else q b el') σ σ'.
  Proof.
    intros HB Hr. unfold f_else. destruct el' as [|e r]; [inversion Hr; subst; apply ES_nil|].
    destruct (Ev_wrap orc cfg0 _ _ _ eq_refl Hr) as [v Hv].
    destruct (brk_block (map embed b)).
    - eapply EvSeq_one. eapply Ev_if_true; [apply Ev_not; apply Ev_break_attr; apply HB; reflexivity|reflexivity|exact Hv].
    - eapply EvSeq_one. exact Hv.
  Qed.

  (* one more iteration of either mode *)
  Lemma f_mode_step q b k body σ w σ2 r :
    (brk_block (map embed b) = true -> lookup (s_env σ) (brk_key (it_name q)) = Some (VBool false)) ->
    orc (s_pos σ) = true ->
    Ev (MExpr body) (setv (emit (tick σ) (ENext k true)) (ftmp q) (VInt k)) (w, σ2) ->
    Ev (f_mode q b k body) σ2 r -> Ev (f_mode q b k body) σ r.
  Proof.
    unfold f_mode. intros HB Hb H1 H2. destruct (brk_block (map embed b)).
    - eapply Ev_forwrap_step; [apply HB; reflexivity|exact Hb|exact H1|exact H2].
    - eapply Ev_forplain_step; [exact Hb|exact H1|exact H2].
  Qed.
  Lemma f_mode_stop q b k body σ :
    (brk_block (map embed b) = true -> lookup (s_env σ) (brk_key (it_name q)) = Some (VBool false)) ->
    orc (s_pos σ) = false -> Ev (f_mode q b k body) σ (VList 0, emit (tick σ) (ENext k false)).
  Proof.
    unfold f_mode. intros HB Hb. destruct (brk_block (map embed b)).
    - apply Ev_forwrap_stop; [apply HB; reflexivity|exact Hb].
    - apply Ev_forplain_stop. exact Hb.
  Qed.
  Lemma f_mode_broken q b k body σ : brk_block (map embed b) = true ->
    lookup (s_env σ) (brk_key (it_name q)) = Some (VBool true) -> Ev (f_mode q b k body) σ (VList 0, σ).
  Proof. unfold f_mode. intros HB Hl. rewrite HB. apply Ev_forwrap_broken. exact Hl. Qed.

  Lemma ftmp_fresh c q : Nest q (c_loops c) -> ~ List.In (ftmp q) (tracked c).
  Proof. intros HN. apply (fresh_ol c q "for" HN). cbn. auto. Qed.

  Lemma for_loop_step f : SimBlock f -> SimForLoop f -> SimForLoop (S f).
  Proof.
    intros HB HW k b el s o s' Hex c q σ b' el' HT HN Hwb Hwe HCe HCl HBf Htr Hpos HLb HLe.
    cbn [exec] in Hex.
    set (bit := orc (x_pos s)) in *. set (s1 := xemit (xtick s) (ENext k bit)) in *.
    set (σn := emit (tick σ) (ENext k bit)).
    assert (Hbit : orc (s_pos σ) = bit) by (subst bit; rewrite Hpos; reflexivity).
    assert (Sync1 : s_tr σn = x_tr s1 /\ s_pos σn = x_pos s1) by (subst σn s1; cbn; split; congruence).
    destruct bit eqn:Ebit.
    - (* one iteration *)
      destruct (exec orc f (XBlock b) s1) as [[ob s2]|] eqn:Eb; [|discriminate].
      set (used := uses_flag mi_loop (map embed b)) in *.
      set (σb := setv σn (ftmp q) (VInt k)).
      set (σi := if used then setv σb (intr_name q) (VBool false) else σb).
      set (σx := setv σi "x" (VInt k)).
      assert (Hreset : EvSeq (if used then [NamedExpr (intr_name q) cfalse] else []) σb σi).
      { subst σi. destruct used; [eapply EvSeq_one; apply Ev_named_const; apply Ev_false|apply ES_nil]. }
      assert (Hftmp : lookup (s_env σi) (ftmp q) = Some (VInt k)).
      { subst σi σb. destruct used; cbn [setv s_env].
        - rewrite lookup_bind_ne; [apply lookup_bind_eq|]. unfold intr_name, ftmp. apply ol_kind_ne. reflexivity.
        - apply lookup_bind_eq. }
      assert (Hx : EvSeq [NamedExpr "x" (Name (ftmp q))] σi σx).
      { eapply EvSeq_one. apply Ev_named_name. exact Hftmp. }
      assert (Henv : forall y, y <> ftmp q -> y <> intr_name q -> y <> "x" -> lookup (s_env σx) y = lookup (s_env σ) y).
      { intros y H1 H2 H3. subst σx σi σb σn. cbn [setv emit tick s_env]. rewrite lookup_bind_ne by congruence.
        destruct used; cbn [setv s_env]; rewrite ?lookup_bind_ne by congruence; reflexivity. }
      assert (Hfresh : forall y, List.In y (tracked c) -> lookup (s_env σx) y = lookup (s_env σ) y).
      { intros y Hy. apply Henv; intros ->; [exact (ftmp_fresh c q HN Hy)|exact (intr_fresh c q HN Hy)|exact (fresh_x c Hy)]. }
      assert (PreB : Pre (f_cin c q b) q b s1 σx).
      { refine (conj HT (conj _ (conj Hwb (conj _ (conj _ _))))).
        - cbn [f_cin c_loops Nest f_me lp_path length]. split; [lia|exact HN].
        - unfold Covers. cbn [f_cin guard_of c_loops fst flag_used f_me lp_intr_used]. auto.
        - split.
          + cbn [f_cin c_loops]. constructor.
            * split; cbn [f_me lp_has_break lp_intr_used Bname Iname lp_kind lp_path].
              -- intros Hb. rewrite Henv; [apply HBf; exact Hb| | |].
                 ++ apply brk_key_ne_ol.
                 ++ apply brk_key_ne_ol.
                 ++ intros X. exact (x_ne_brk _ (eq_sym X)).
              -- fold used. intros Hu. subst σx σi. rewrite Hu. cbn [setv s_env].
                 rewrite lookup_bind_ne by (intros X; exact (x_ne_ol _ _ X)). apply lookup_bind_eq.
            * destruct HCl as [A _]. eapply Forall_loops_ext; [apply clear_loop_ext| |exact A].
              intros y Hy. apply Hfresh. unfold tracked. apply in_or_app. left. exact Hy.
          + intros Hr. cbn [f_cin c_ret_used Rname c_nsp] in *. rewrite Hfresh; [apply HCl; exact Hr|].
            unfold tracked. apply in_or_app. right. left. reflexivity.
        - subst σx σi σb. destruct used; cbn [setv s_tr s_pos]; exact Sync1. }
      destruct (HB _ _ _ _ Eb (f_cin c q b) q 0 0 b' σx PreB HLb) as [σ2 [EvB [Tr2 [Po2 P2]]]].
      assert (Hbody : exists w, Ev (MExpr (wrap cfg0 (f_body q b b'))) σb (w, σ2)).
      { apply (Ev_wrap orc cfg0). reflexivity. unfold f_body. fold used.
        eapply EvSeq_app; [exact Hreset|]. eapply EvSeq_app; [exact Hx|exact EvB]. }
      destruct Hbody as [w Hbody].
      assert (RVx : lookup (s_env σx) (RVname c) = lookup (s_env σ) (RVname c)) by (apply Hfresh; apply tracked_RV).
      destruct ob.
      + (* normal completion: next iteration *)
        cbn [Post] in P2. destruct P2 as [[Cl2 Rc2] RV2]. cbn [f_cin c_loops] in Cl2. inversion Cl2 as [|? ? Cme Ctl]; subst.
        destruct (HW _ _ _ _ _ _ Hex c q σ2 b' el' HT HN Hwb Hwe HCe (conj Ctl Rc2)) as [σ1' [σ' [A [B [C [D E]]]]]]; try assumption.
        * intros Hb. apply (proj1 Cme). exact Hb.
        * exists σ1', σ'. split; [eapply f_mode_step; [exact HBf|exact Hbit|exact Hbody|exact A]|].
          refine (conj B (conj C (conj D _))). eapply Post_rebase; [|exact E].
          change (RVname (f_cin c q b)) with (RVname c) in RV2. congruence.
      + (* break *)
        injection Hex as <- <-.
        assert (Hhb : brk_block (map embed b) = true) by exact (exec_break_spec orc _ _ _ _ Eb).
        cbn [Post f_cin c_loops] in P2. destruct P2 as [[Bme Ime] [Ctl [Rc2 RV2]]].
        cbn [f_me Bname lp_kind lp_path] in Bme.
        exists σ2, σ2. split; [eapply f_mode_step; [exact HBf|exact Hbit|exact Hbody|apply f_mode_broken; assumption]|].
        split; [apply f_else_skip; assumption|]. refine (conj Tr2 (conj Po2 _)). cbn [Post].
        split; [split; [exact Ctl|exact Rc2]|]. change (RVname (f_cin c q b)) with (RVname c) in RV2. congruence.
      + (* continue *)
        cbn [Post f_cin c_loops] in P2. destruct P2 as [Bme [Ime [Ctl [Rc2 RV2]]]].
        destruct (HW _ _ _ _ _ _ Hex c q σ2 b' el' HT HN Hwb Hwe HCe (conj Ctl Rc2)) as [σ1' [σ' [A [B [C [D E]]]]]]; try assumption.
        exists σ1', σ'. split; [eapply f_mode_step; [exact HBf|exact Hbit|exact Hbody|exact A]|].
        refine (conj B (conj C (conj D _))). eapply Post_rebase; [|exact E].
        change (RVname (f_cin c q b)) with (RVname c) in RV2. congruence.
      + (* return *)
        injection Hex as <- <-.
        assert (Hhb : brk_block (map embed b) = true).
        { apply has_ret_brk_block. destruct (exec_out_spec orc _ _ _ _ _ Eb) as [_ A]. exact (A v eq_refl). }
        cbn [Post f_cin c_loops c_ret_used] in P2. destruct P2 as [Sall [Rc2 RV2]].
        inversion Sall as [|? ? [Bme Ime] Stl]; subst.
        cbn [f_me Bname lp_kind lp_path] in Bme.
        exists σ2, σ2. split; [eapply f_mode_step; [exact HBf|exact Hbit|exact Hbody|apply f_mode_broken; assumption]|].
        split; [apply f_else_skip; assumption|]. refine (conj Tr2 (conj Po2 _)). cbn [Post].
        refine (conj Stl (conj Rc2 _)). change (RVname (f_cin c q b)) with (RVname c) in RV2. destruct v; [exact RV2|congruence].
    - (* exhausted: else clause *)
      assert (Hstop : Ev (f_mode q b k (wrap cfg0 (f_body q b b'))) σ (VList 0, σn)).
      { subst σn. apply f_mode_stop; [exact HBf|exact Hbit]. }
      assert (PreE : Pre c q el s1 σn).
      { refine (conj HT (conj _ (conj Hwe (conj HCe (conj HCl Sync1))))). eapply Nest_longer; [|exact HN]. cbn. lia. }
      destruct (HB _ _ _ _ Hex c q 1 0 el' σn PreE HLe) as [σ' [EvE [Tr' [Po' P']]]].
      exists σn, σ'. split; [exact Hstop|]. split; [|auto].
      apply f_else_run; [|exact EvE]. exact HBf.
  Qed.
End ForLoop.

Section ForStmt.
  Variable orc : nat -> bool.
  Notation SimRes := (SimRes orc).
  Notation Ev := (Ev orc).
  Notation EvSeq := (EvSeq orc).

  Lemma it_fresh c q : Nest q (c_loops c) -> ~ List.In (it_name q) (tracked c).
  Proof. intros HN. apply (fresh_ol c q "it" HN). cbn. auto. Qed.

  Lemma for_stmt f : SimForLoop orc f -> SimForStmt orc f.
  Proof.
    intros HW k b el s o s' Hex c q es σ [HT [HN [Hwf [HCl [Htr Hpos]]]]] HCe HL.
    cbn [wf_sk] in Hwf. apply andb_true_iff in Hwf. destruct Hwf as [Hwb Hwe].
    unfold L in HL. cbn [embed lower_stmt] in HL. fold L in HL.
    change (mkCtx (c_nsp c) (mkLoop LFor q (uses_flag mi_loop (map embed b)) (brk_block (map embed b)) :: c_loops c) (c_ret_used c))
      with (f_cin c q b) in HL.
    destruct (lower_block cfg0 L (f_cin c q b) q 0 0 (map embed b)) as [b'|] eqn:Eb; [|discriminate]. cbn [rbind] in HL.
    destruct (lower_block cfg0 L c q 1 0 (map embed el)) as [el'|] eqn:Ee; [|discriminate]. cbn [rbind] in HL.
    cbn [assign_auto] in HL. rewrite (proj2 HT) in HL. cbn [rbind ret] in HL.
    rewrite (tr_probe _ _ _ HT) in HL. cbn [rbind] in HL.
    fold (ftmp q) in HL.
    set (s_it := xemit (xemit s (EIterable k)) (EIter k)) in *.
    set (σp := emit (emit σ (EIterable k)) (EIter k)).
    assert (SyncP : s_tr σp = x_tr s_it /\ s_pos σp = x_pos s_it) by (subst σp s_it; cbn; split; congruence).
    destruct (negb (mi_block (map embed b)) && match map embed el with [] => true | _ => false end) eqn:Esimple.
    - (* the simplest comprehension *)
      apply andb_true_iff in Esimple. destruct Esimple as [Hmi Hel]. apply negb_true_iff in Hmi.
      assert (el = []) by (destruct el; [reflexivity|discriminate]). subst el.
      cbn [map lower_block ret] in Ee. injection Ee as <-.
      assert (Hused : uses_flag mi_loop (map embed b) = false).
      { destruct (uses_flag mi_loop (map embed b)) eqn:U; [|reflexivity]. rewrite (uses_flag_mi _ U) in Hmi. discriminate. }
      assert (Hhb : brk_block (map embed b) = false).
      { destruct (brk_block (map embed b)) eqn:U; [|reflexivity]. rewrite (brk_mi_block _ U) in Hmi. discriminate. }
      injection HL as <-.
      assert (HBp : brk_block (map embed b) = true -> lookup (s_env σp) (brk_key (it_name q)) = Some (VBool false))
        by (rewrite Hhb; discriminate).
      destruct (HW _ _ _ _ _ _ Hex c q σp b' [] HT HN Hwb Hwe HCe HCl HBp (proj1 SyncP) (proj2 SyncP) Eb eq_refl)
        as [σ1 [σ' [A [B [C [D E]]]]]].
      unfold f_mode, f_body in A. rewrite Hhb, Hused in A. cbn [app] in A.
      cbn [f_else] in B. inversion B; subst.
      exists σ'. split; [eapply EvSeq_one; apply Ev_listcomp_plain; exact A|]. auto.
    - (* the general form *)
      set (hb := brk_block (map embed b)) in *.
      fold (f_body q b b') in HL. 
      injection HL as <-.
      destruct hb eqn:Ehb.
      + (* the iterable is wrapped *)
        set (σw := setv (setv σp (brk_key (it_name q)) (VBool false)) (it_name q) (VWrap k)).
        assert (Hwrap : Ev (MExpr (NamedExpr (it_name q) (call (Name "__ol_iter_wrapper") [probe "it" k]))) σ (VWrap k, σw)).
        { subst σw σp. apply Ev_named_wrapper. apply Ev_iterable. }
        assert (Henvw : forall y, y <> brk_key (it_name q) -> y <> it_name q -> lookup (s_env σw) y = lookup (s_env σ) y).
        { intros y H1 H2. subst σw σp. cbn [setv emit s_env]. rewrite !lookup_bind_ne by congruence. reflexivity. }
        assert (HClw : Clear c (s_env σw)).
        { eapply Clear_ext; [|exact HCl]. intros y Hy. apply Henvw; intros ->; [exact (fresh_brk c q HN Hy)|exact (it_fresh c q HN Hy)]. }
        assert (HBw : brk_block (map embed b) = true -> lookup (s_env σw) (brk_key (it_name q)) = Some (VBool false)).
        { intros _. subst σw. cbn [setv s_env]. rewrite lookup_bind_ne by apply ol_ne_brk_key. apply lookup_bind_eq. }
        assert (Hitn : lookup (s_env σw) (it_name q) = Some (VWrap k)) by (subst σw; cbn [setv s_env]; apply lookup_bind_eq).
        assert (SyncW : s_tr σw = x_tr s_it /\ s_pos σw = x_pos s_it) by (subst σw; cbn [setv s_tr s_pos]; exact SyncP).
        destruct (HW _ _ _ _ _ _ Hex c q σw b' el' HT HN Hwb Hwe HCe HClw HBw (proj1 SyncW) (proj2 SyncW) Eb Ee)
          as [σ1 [σ' [A [B [C [D E]]]]]].
        unfold f_mode in A. fold hb in A. rewrite Ehb in A.
        exists σ'. split.
        * econstructor; [exact Hwrap|]. econstructor; [apply (Ev_listcomp_wrap orc σw (it_name q) k); [exact Hitn|exact A]|].
          unfold f_else in B. fold hb in B. rewrite Ehb in B. exact B.
        * refine (conj C (conj D _)). eapply Post_rebase; [|exact E].
          apply Henvw; [apply ol_ne_brk_key|]. unfold RVname, retv_name, it_name. apply ol_kind_ne. reflexivity.
      + (* plain iteration *)
        assert (HBp : brk_block (map embed b) = true -> lookup (s_env σp) (brk_key (it_name q)) = Some (VBool false)).
        { fold hb. rewrite Ehb. discriminate. }
        destruct (HW _ _ _ _ _ _ Hex c q σp b' el' HT HN Hwb Hwe HCe HCl HBp (proj1 SyncP) (proj2 SyncP) Eb Ee)
          as [σ1 [σ' [A [B [C [D E]]]]]].
        unfold f_mode in A. fold hb in A. rewrite Ehb in A.
        exists σ'. split.
        * econstructor; [apply Ev_listcomp_plain; exact A|].
          unfold f_else in B. fold hb in B. rewrite Ehb in B. exact B.
        * auto.
  Qed.
End ForStmt.

(* ====================================================================== *)
(* putting the induction together                                          *)
Section All.
  Variable orc : nat -> bool.

  Theorem sim_all : forall f, SimBlock orc f /\ SimWhileLoop orc f /\ SimForLoop orc f.
  Proof.
    induction f as [|f [IHb [IHw IHf]]].
    - repeat split; intros until 0; intros H; discriminate.
    - split; [|split].
      + apply block_sim; [exact IHb|apply while_stmt; exact IHw|apply for_stmt; exact IHf].
      + apply while_loop_step; assumption.
      + apply for_loop_step; assumption.
  Qed.

  (* ---- module level ---- *)
  Definition top_symtab : symtab := ST KModule "top" 0 [] [] [] [] [] [].

  Lemma module_nsp lt : exists g, generate_nsp lt top_symtab = inl g /\ n_kind g = NGlobal /\ n_id g = 0.
  Proof. eexists. split; [reflexivity|]. split; reflexivity. Qed.

  Lemma Ev_prelude1 (c : bool) x body σ :
    ((exists lib, body = call (Name "__import__") [cstr lib]) \/ NamedExpr x body = preset_iter_wrapper) ->
    exists σ', EvSeq orc (if c then [NamedExpr x body] else []) σ σ' /\ s_tr σ' = s_tr σ /\ s_pos σ' = s_pos σ.
  Proof.
    intros Hb. destruct c; [|exists σ; split; [apply ES_nil|auto]].
    destruct Hb as [[lib ->]|Hb].
    - exists (setv σ x VNone). split; [eapply EvSeq_one; exists 3; reflexivity|auto].
    - rewrite Hb. eexists. split; [eapply EvSeq_one; exists 3; vm_compute; reflexivity|auto].
  Qed.

  Lemma has_boundary_false b : has_boundary (fun _ => false) b = false.
  Proof.
    induction b as [|s r IH]; [reflexivity|]. destruct r as [|s2 r2]; [reflexivity|].
    rewrite has_boundary_cons2. destruct (is_interrupt s); [reflexivity|exact IH].
  Qed.
  Lemma ex_live_false f b : Forall (fun s => f s = false) b -> ex_live f b = false.
  Proof.
    induction 1 as [|s r Hs Hr IH]; [reflexivity|]. rewrite ex_live_cons, Hs. destruct (is_interrupt s); [reflexivity|exact IH].
  Qed.
  Lemma uses_flag_stmt_false s : uses_flag_stmt (fun _ => false) s = false.
  Proof.
    induction s using stmt_ind'; try reflexivity; cbn [uses_flag_stmt]; rewrite ?has_boundary_false, ?ex_live_false by assumption; reflexivity.
  Qed.
  Lemma uses_flag_false b : uses_flag (fun _ => false) b = false.
  Proof.
    unfold uses_flag. rewrite has_boundary_false. apply ex_live_false. apply Forall_forall. intros s _. apply uses_flag_stmt_false.
  Qed.

  (* The theorem for module-level code: any nesting of markers, if/else, while, for, loop-else, break and
     continue; any oracle (schedule of condition outcomes and iterator exhaustion points).  If the reference
     semantics runs the skeleton to completion with trace tr, the lowered expression evaluates, under the
     scaffolding semantics, with exactly the same trace and the same number of oracle consultations. *)
  Theorem module_simulation : forall fuel b o tr pos e,
    wf_block false false b = true ->
    exec orc fuel (XBlock b) (mkSst [] 0) = Some (o, mkSst tr pos) ->
    lower_module cfg0 top_symtab (map embed b) = inl e ->
    exists f v σ', run orc f (MExpr e) (mkSt [] [] 0) = Some (v, σ') /\ s_tr σ' = tr /\ s_pos σ' = pos.
  Proof.
    intros fuel b o tr pos e Hwf Hex HL.
    unfold lower_module in HL. destruct (module_nsp false) as [g [Hg [Hk Hid]]].
    cbn [cfg0 cfg_host_lt_312] in HL. rewrite Hg in HL. cbn [rbind] in HL.
    fold cfg0 in HL. change (fun c0 p0 s0 => lower_stmt cfg0 c0 p0 s0) with L in HL.
    destruct (lower_block cfg0 L (mkCtx g [] false) [] 0 0 (map embed b)) as [es|] eqn:Eb; [|discriminate].
    cbn [rbind ret] in HL. injection HL as <-.
    set (c0 := mkCtx g [] false) in *.
    match goal with |- context [wrap cfg0 ((if ?c1 then _ else _) ++ (if ?c2 then _ else _) ++ (if ?c3 then _ else _) ++ es)] =>
      destruct (Ev_prelude1 c1 "__ol_iter_wrapper" _ (mkSt [] [] 0) (or_intror eq_refl)) as [σ1 [E1 [T1 P1]]];
      destruct (Ev_prelude1 c2 "__ol_importlib" _ σ1 (or_introl (ex_intro _ "importlib" eq_refl))) as [σ2 [E2 [T2 P2]]];
      destruct (Ev_prelude1 c3 "__ol_itertools" _ σ2 (or_introl (ex_intro _ "itertools" eq_refl))) as [σp [E3 [T3 P3]]]
    end.
    assert (Hwf' : wf_block (il c0) (ifn c0) b = true) by (unfold il, ifn; subst c0; cbn [c_loops c_nsp]; rewrite Hk; exact Hwf).
    assert (PreB : Pre c0 [] b (mkSst [] 0) σp).
    { refine (conj (global_transparent g Hk) (conj _ (conj Hwf' (conj _ (conj _ (conj _ _)))))).
      - subst c0. cbn. exact I.
      - unfold Covers. subst c0. unfold guard_of. cbn [c_loops c_nsp]. rewrite Hk. cbn [fst]. rewrite uses_flag_false. discriminate.
      - subst c0. split; [constructor|]. intros X. discriminate X.
      - rewrite T3, T2, T1. reflexivity.
      - rewrite P3, P2, P1. reflexivity. }
    destruct (proj1 (sim_all fuel) _ _ _ _ Hex c0 [] 0 0 es σp PreB Eb) as [σ' [EvB [Tr' [Po' _]]]].
    assert (Hall := EvSeq_app orc _ _ _ _ _ E1 (EvSeq_app orc _ _ _ _ _ E2 (EvSeq_app orc _ _ _ _ _ E3 EvB))).
    destruct (Ev_wrap orc cfg0 _ _ _ eq_refl Hall) as [v [f Hf]].
    exists f, v, σ'. split; [exact Hf|]. cbn in Tr', Po'. auto.
  Qed.
End All.

(* ====================================================================== *)
(* function placement:  def f(): <skeleton>   followed by   r(f())        *)
Section FunctionSim.
  Variable orc : nat -> bool.
  Notation Ev := (Ev orc).
  Notation EvSeq := (EvSeq orc).

  Definition fun_symbols : list symbol := [mkSym "x" true false false false false false true].
  Definition fun_symtab : symtab :=
    ST KModule "top" 0 [mkSym "f" true false false false false false true] [] [] [] []
       [ST KFunction "f" 1 fun_symbols [] [] [] [] []].
  Definition no_args : arguments := mkArgs [] [] None [] [] None [].
  Definition fun_program (b : list sk) : list stmt :=
    [SFunctionDef "f" 1 no_args (map embed b) []; SExpr (call (Name "r") [call (Name "f") []])].

  Lemma fun_nsp : exists g fn, generate_nsp false fun_symtab = inl g /\ n_kind g = NGlobal /\
    find_inner g "f" 1 = Some fn /\ n_kind fn = NFunction /\ n_id fn = 1 /\ transparent fn /\
    n_zero_super fn = false /\ n_inner_nonlocal fn = [] /\ n_is_method fn = false /\ set_params fn [] = fn.
  Proof.
    eexists _, _. split; [reflexivity|]. split; [reflexivity|]. split; [reflexivity|].
    split; [reflexivity|]. split; [reflexivity|]. split; [|repeat split; reflexivity].
    split.
    - intros comp inn i.
      match goal with |- get_load_name ?n _ _ _ = _ => let n' := eval vm_compute in n in change n with n' end.
      unfold get_load_name. cbn [n_kind n_inner_nonlocal n_outer_map n_id n_syms mem existsb assoc_nat rev find].
      destruct (mem i comp); [reflexivity|].
      unfold lookup_sym. cbn [find sy_name sy_local].
      destruct (String.eqb "x" i) eqn:E; [reflexivity|].
      unfold get_load_global, self_link. cbn [hidden_by_local lk_kind lk_syms n_kind n_syms n_chain n_id n_inner_nonlocal n_outer_map app].
      unfold lookup_sym. cbn [find sy_name sy_local]. rewrite E. reflexivity.
    - intros v. reflexivity.
  Qed.

  Lemma Ev_call_fun σ g body r : lookup (s_env σ) g = Some (VFun body) -> Ev (MExpr body) σ r -> Ev (MExpr (call (Name g) [])) σ r.
  Proof. intros Hl [f H]. exists (S f). cbn [run call]. rewrite Hl. exact H. Qed.

  Lemma Ev_r_call σ g v σ1 res : Ev (MExpr (call (Name g) [])) σ (v, σ1) -> result_of v = Some res ->
    Ev (MExpr (call (Name "r") [call (Name g) []])) σ (VNone, emit σ1 (EResult res)).
  Proof.
    intros [f H] Hr. exists (S f). unfold call in *. cbn [run]. cbn [String.eqb Ascii.eqb Bool.eqb]. rewrite H, Hr. reflexivity.
  Qed.

  Lemma guard_global g : n_kind g = NGlobal -> guard_of (mkCtx g [] false) = ((fun _ => false), None).
  Proof. intros H. unfold guard_of. cbn [c_loops c_nsp]. rewrite H. reflexivity. Qed.

  Theorem function_simulation : forall fuel b sx e,
    wf_block false true b = true ->
    exec_function orc fuel b = Some sx ->
    lower_module cfg0 fun_symtab (fun_program b) = inl e ->
    exists f v σ', run orc f (MExpr e) (mkSt [] [] 0) = Some (v, σ') /\ s_tr σ' = x_tr sx /\ s_pos σ' = x_pos sx.
  Proof.
    intros fuel b sx e Hwf Hex HL.
    unfold lower_module in HL. destruct fun_nsp as [g [fn [Hg [Hk [Hfind [Hfk [Hfid [Hft [Hzs [Hin [Him Hsp]]]]]]]]]]].
    cbn [cfg0 cfg_host_lt_312] in HL. rewrite Hg in HL. cbn [rbind] in HL. fold cfg0 in HL.
    change (fun c0 p0 s0 => lower_stmt cfg0 c0 p0 s0) with L in HL.
    set (c0 := mkCtx g [] false) in *.
    destruct (lower_block cfg0 L c0 [] 0 0 (fun_program b)) as [es|] eqn:Eblk; [|discriminate].
    cbn [rbind ret] in HL. injection HL as <-.
    (* shape of the two statements *)
    unfold fun_program in Eblk.
    destruct (lower_block_cons _ _ _ _ _ _ _ Eblk) as [es1 [H1 Hshape]]. cbn [is_interrupt] in Hshape.
    destruct Hshape as [rs [Hrs Hes]]. unfold c0 in Hes. rewrite (guard_global g Hk) in Hes. subst es.
    destruct (lower_block_cons _ _ _ _ _ _ _ Hrs) as [es2 [H2 Hshape2]]. cbn [is_interrupt] in Hshape2. subst rs.
    (* the call statement r(f()) *)
    unfold L in H2. cbn [lower_stmt c_nsp c0] in H2. unfold tr, call in H2. cbn [transf rmap rbind ret] in H2.
    unfold get_load_name in H2. rewrite Hk in H2. cbn [rbind ret] in H2. injection H2 as <-.
    (* the def statement *)
    unfold L in H1. cbn [lower_stmt c_nsp c0] in H1. rewrite Hfind, Hfk in H1. cbn [a_defaults a_kw_defaults no_args rmap rbind ret] in H1.
    cbn [a_posonly a_args no_args app] in H1. rewrite Hsp in H1.
    fold L in H1.
    set (ru := uses_flag has_ret (map embed b)) in *.
    set (cf := mkCtx fn [] ru) in *.
    destruct (lower_block cfg0 L cf [0; 0] 0 0 (map embed b)) as [b'|] eqn:Eb; [|discriminate]. cbn [rbind] in H1.
    rewrite Hzs, Hin, Him in H1. cbn [rev rbind ret andb app a_posonly a_args a_vararg a_kwonly a_kwarg no_args cfg_chain cfg0] in H1.
    unfold get_assign in H1. rewrite Hk in H1. cbn [rbind ret] in H1. injection H1 as <-.
    (* run the body *)
    unfold exec_function in Hex.
    destruct (exec orc fuel (XBlock b) (mkSst [] 0)) as [[ob sb]|] eqn:Eex; [|discriminate].
    set (retv := retv_name (n_id fn)) in *. set (rflag := ret_flag (n_id fn)) in *.
    (* the prelude *)
    match goal with |- context [wrap cfg0 ((if ?c1 then _ else _) ++ (if ?c2 then _ else _) ++ (if ?c3 then _ else _) ++ _)] =>
      destruct (Ev_prelude1 orc c1 "__ol_iter_wrapper" _ (mkSt [] [] 0) (or_intror eq_refl)) as [σa [E1 [T1 P1]]];
      destruct (Ev_prelude1 orc c2 "__ol_importlib" _ σa (or_introl (ex_intro _ "importlib" eq_refl))) as [σb [E2 [T2 P2]]];
      destruct (Ev_prelude1 orc c3 "__ol_itertools" _ σb (or_introl (ex_intro _ "itertools" eq_refl))) as [σp [E3 [T3 P3]]]
    end.
    assert (Tp : s_tr σp = []) by (rewrite T3, T2, T1; reflexivity).
    assert (Pp : s_pos σp = 0) by (rewrite P3, P2, P1; reflexivity).
    (* f := lambda: [...][-1] *)
    set (fbody := Subscript (EList (NamedExpr retv cnone :: (if ru then [NamedExpr rflag cfalse] else []) ++ b' ++ [Name retv])) minus1).
    set (σf := setv σp "f" (VFun fbody)).
    assert (Hdef : Ev (MExpr (NamedExpr "f" (Lambda [] [] None [] [] None [] fbody))) σp (VFun fbody, σf)).
    { exists 2. reflexivity. }
    (* inside the call: retv := None, the return flag reset, then the body *)
    set (σ1 := setv σf retv VNone).
    set (σ2 := if ru then setv σ1 rflag (VBool false) else σ1).
    assert (Hinit : EvSeq (NamedExpr retv cnone :: (if ru then [NamedExpr rflag cfalse] else [])) σf σ2).
    { econstructor; [apply Ev_named_const; apply Ev_none|]. subst σ2. fold σ1.
      destruct ru; [eapply EvSeq_one; apply Ev_named_const; apply Ev_false|apply ES_nil]. }
    assert (Hne : retv <> rflag) by (subst retv rflag; unfold retv_name, ret_flag; apply ol_kind_ne; reflexivity).
    assert (Hrv2 : lookup (s_env σ2) retv = Some VNone).
    { subst σ2 σ1. destruct ru; cbn [setv s_env]; [rewrite lookup_bind_ne by congruence|]; apply lookup_bind_eq. }
    assert (PreB : Pre cf [0; 0] b (mkSst [] 0) σ2).
    { refine (conj Hft (conj I (conj _ (conj _ (conj _ (conj _ _)))))).
      - unfold il, ifn. subst cf. cbn [c_loops c_nsp]. rewrite Hfk. exact Hwf.
      - unfold Covers, guard_of, flag_used. subst cf. cbn [c_loops c_nsp c_ret_used]. rewrite Hfk. cbn [fst]. auto.
      - split; [constructor|]. unfold Rclear. subst cf. cbn [c_ret_used Rname c_nsp]. fold rflag. intros Hr.
        subst σ2. rewrite Hr. cbn [setv s_env]. apply lookup_bind_eq.
      - subst σ2 σ1 σf. destruct ru; cbn [setv s_tr]; exact Tp.
      - subst σ2 σ1 σf. destruct ru; cbn [setv s_pos]; exact Pp. }
    destruct (proj1 (sim_all orc fuel) _ _ _ _ Eex cf [0; 0] 0 0 b' σ2 PreB Eb) as [σ' [EvB [Tr' [Po' Pst]]]].
    assert (Hwfo : wf_spec false true ob) by exact (exec_wf orc _ _ _ _ _ Eex false true Hwf).
    (* the value of retv after the body *)
    assert (Hres : exists res, lookup (s_env σ') retv = Some (match res with Some k => VProbe k | None => VNone end) /\
                               sx = xemit sb (EResult res)).
    { destruct ob; cbn [Post] in Pst.
      - exists None. split; [|injection Hex as <-; reflexivity]. destruct Pst as [_ RV]. unfold RVname in RV. subst cf. cbn [c_nsp] in RV. fold retv in RV. congruence.
      - exfalso. destruct Hwfo as [W _]. specialize (W (or_introl eq_refl)). discriminate.
      - exfalso. destruct Hwfo as [W _]. specialize (W (or_intror eq_refl)). discriminate.
      - exists v. split; [|injection Hex as <-; reflexivity]. destruct Pst as [_ [_ RV]]. unfold RVname in RV. subst cf. cbn [c_nsp] in RV. fold retv in RV.
        destruct v; [exact RV|congruence]. }
    destruct Hres as [res [Hlook ->]].
    assert (Hbody : Ev (MExpr fbody) σf (match res with Some k => VProbe k | None => VNone end, σ')).
    { subst fbody.
      replace (NamedExpr retv cnone :: (if ru then [NamedExpr rflag cfalse] else []) ++ b' ++ [Name retv])
        with ((NamedExpr retv cnone :: (if ru then [NamedExpr rflag cfalse] else []) ++ b') ++ [Name retv])
        by (cbn [app]; rewrite <- app_assoc; reflexivity).
      eapply Ev_last; [|apply Ev_name; exact Hlook].
      change (NamedExpr retv cnone :: (if ru then [NamedExpr rflag cfalse] else []) ++ b')
        with ((NamedExpr retv cnone :: (if ru then [NamedExpr rflag cfalse] else [])) ++ b').
      eapply EvSeq_app; [exact Hinit|exact EvB]. }
    assert (Hcall : Ev (MExpr (call (Name "r") [call (Name "f") []])) σf (VNone, emit σ' (EResult res))).
    { eapply Ev_r_call; [eapply Ev_call_fun; [subst σf; cbn [setv s_env]; apply lookup_bind_eq|exact Hbody]|].
      destruct res; reflexivity. }
    assert (Hprog : EvSeq [NamedExpr "f" (Lambda [] [] None [] [] None [] fbody); call (Name "r") [call (Name "f") []]] σp (emit σ' (EResult res))).
    { econstructor; [exact Hdef|]. eapply EvSeq_one. exact Hcall. }
    assert (Hall := EvSeq_app orc _ _ _ _ _ E1 (EvSeq_app orc _ _ _ _ _ E2 (EvSeq_app orc _ _ _ _ _ E3 Hprog))).
    destruct (Ev_wrap orc cfg0 _ _ _ eq_refl Hall) as [v [f Hf]].
    exists f, v, (emit σ' (EResult res)). split; [exact Hf|]. cbn [emit s_tr s_pos xemit x_tr x_pos]. split; congruence.
  Qed.
End FunctionSim.
