(* C06: generate_nsp never lets an inner namespace reach into a dictionary the owning function does not fill.

   Every entry (x -> o) of a namespace's outer map - "x lives in the dictionary of function o" - names a FUNCTION namespace
   on the chain of enclosing namespaces whose inner_nonlocal_names contain x (so that function itself stores x in its
   dictionary).  Proved for the namespace tree of EVERY symbol table on which generate_nsp succeeds. *)
From Coq Require Import String List ZArith Bool Arith Lia.
From OL Require Import PyAst Namespace Lower Scope.
Import ListNotations.
Local Open Scope string_scope.
Local Open Scope list_scope.

(* induction over symbol tables with the children as a Forall *)
Section SymtabInd.
  Variable P : symtab -> Prop.
  Hypothesis H : forall k name ln syms fr nl ps ms ch, Forall P ch -> P (ST k name ln syms fr nl ps ms ch).
  Fixpoint symtab_ind' (t : symtab) : P t :=
    match t with
    | ST k name ln syms fr nl ps ms ch =>
        H k name ln syms fr nl ps ms ch
          ((fix fl (l : list symtab) : Forall P l :=
              match l with [] => Forall_nil _ | x :: r => Forall_cons _ (symtab_ind' x) (fl r) end) ch)
    end.
End SymtabInd.

Definition inl_of (marks : list mark) (i : nat) : list ident :=
  map (fun m => snd (fst m)) (filter (fun m => Nat.eqb (fst (fst m)) i) marks).

Lemma inl_of_in marks o x p : List.In (o, x, p) marks -> mem x (inl_of marks o) = true.
Proof.
  intros H. unfold mem. apply existsb_exists. exists x. split; [|apply String.eqb_refl].
  unfold inl_of. apply in_map_iff. exists (o, x, p). split; [reflexivity|]. apply filter_In. split; [exact H|]. cbn. apply Nat.eqb_refl.
Qed.

(* the stack generate_nsp searches and the chain fill records describe the same ancestors *)
Definition matches (marksAll : list mark) (a : anc) (l : link) : Prop :=
  lk_id l = an_id a /\ lk_kind l = an_kind a /\ lk_inner_nonlocal l = inl_of marksAll (an_id a).

(* an origin found by find_origin is a function on the stack *)
Lemma find_origin_in : forall stack x o p, find_origin stack x = inl (o, p) ->
  exists a, List.In a stack /\ an_id a = o /\ an_kind a = NFunction.
Proof.
  induction stack as [|a r IH]; intros x o p H; cbn [find_origin] in H; [discriminate|].
  destruct (an_kind a) eqn:Ek.
  - discriminate.
  - destruct (lookup_sym (an_syms a) x) as [s|]; [|discriminate]. destruct (sy_local s).
    + injection H as <- _. exists a. split; [left; reflexivity|]. split; [reflexivity|exact Ek].
    + destruct (IH x o p H) as [b [Hb Hq]]. exists b. split; [right; exact Hb|exact Hq].
  - destruct (IH x o p H) as [b [Hb Hq]]. exists b. split; [right; exact Hb|exact Hq].
Qed.

Definition entry_ok (stack : list anc) (marks : list mark) (kv : ident * nat) : Prop :=
  (exists p, List.In (snd kv, fst kv, p) marks) /\ exists a, List.In a stack /\ an_id a = snd kv /\ an_kind a = NFunction.

Lemma scan_function_spec : forall im stack names omap marks z,
  scan_function im stack names = inl (omap, marks, z) -> Forall (entry_ok stack marks) omap.
Proof.
  induction names as [|n r IH]; intros omap marks z H; cbn [scan_function] in H.
  - injection H as <- <- _. constructor.
  - destruct (im && String.eqb n "__class__").
    { destruct (scan_function im stack r) as [[[m ms] z']|] eqn:Er; cbn [rbind] in H; [|discriminate].
      injection H as <- <- _. exact (IH m ms z' eq_refl). }
    destruct (find_origin stack n) as [[o p]|] eqn:Eo; cbn [rbind] in H; [|discriminate].
    destruct (scan_function im stack r) as [[[m ms] z']|] eqn:Er; cbn [rbind] in H; [|discriminate].
    injection H as <- <- _. cbn [fst snd]. constructor.
    + split; [exists p; left; reflexivity|]. cbn [fst snd]. apply (find_origin_in _ _ _ _ Eo).
    + specialize (IH m ms z' eq_refl). eapply Forall_impl; [|exact IH].
      intros kv [[q Hq] Ha]. split; [exists q; right; exact Hq|exact Ha].
Qed.

Lemma scan_class_spec : forall stack syms omap marks,
  scan_class stack syms = inl (omap, marks) -> Forall (entry_ok stack marks) omap.
Proof.
  induction syms as [|s r IH]; intros omap marks H; cbn [scan_class] in H.
  - injection H as <- <-. constructor.
  - destruct (sy_nonlocal s || sy_free s).
    + destruct (find_origin stack (sy_name s)) as [[o p]|] eqn:Eo; cbn [rbind] in H; [|discriminate].
      destruct (scan_class stack r) as [[m ms]|] eqn:Er; cbn [rbind ret] in H; [|discriminate].
      injection H as <- <-. cbn [fst snd]. constructor.
      * split; [exists p; left; reflexivity|]. cbn [fst snd]. apply (find_origin_in _ _ _ _ Eo).
      * specialize (IH m ms eq_refl). eapply Forall_impl; [|exact IH].
        intros kv [[q Hq] Ha]. split; [exists q; right; exact Hq|exact Ha].
    + apply IH. exact H.
Qed.

(* an entry that is fine on the stack is fine on the matching chain *)
Lemma entry_dict_ok marksAll marks stack ch kv :
  Forall2 (matches marksAll) stack ch -> incl marks marksAll -> entry_ok stack marks kv ->
  existsb (fun l => Nat.eqb (lk_id l) (snd kv) && mem (fst kv) (lk_inner_nonlocal l)
                    && match lk_kind l with NFunction => true | _ => false end) ch = true.
Proof.
  intros HM Hinc [[p Hp] [a [Ha [Hid Hk]]]].
  apply existsb_exists.
  induction HM as [|a0 l0 st' ch' Hm HM' IH]; [contradiction|].
  destruct Ha as [->|Ha].
  - exists l0. split; [left; reflexivity|]. destruct Hm as [M1 [M2 M3]].
    rewrite M1, Hid, Nat.eqb_refl, M2, Hk, M3, Hid. rewrite (inl_of_in marksAll (snd kv) (fst kv) p (Hinc _ Hp)). reflexivity.
  - destruct (IH Ha) as [l [Hl Hq]]. exists l. split; [right; exact Hl|exact Hq].
Qed.

Definition all_dict_ok (n : nsp) : Prop := Forall (fun m => dict_ok m = true) (all_nsp n).

Lemma all_nsp_unfold n : all_nsp n = n :: flat_map all_nsp (n_inner n).
Proof. destruct n; reflexivity. Qed.

Lemma fill_unfold marks ch i k name ln syms params omap a b im zs gl inner c :
  fill marks ch (Nsp i k name ln syms params omap a b im zs gl inner c) =
  Nsp i k name ln syms params omap (inl_of marks i)
      (map (fun m => snd (fst m)) (filter (fun m => snd m) (filter (fun m => Nat.eqb (fst (fst m)) i) marks)))
      im zs gl (map (fill marks ((i, k, syms, inl_of marks i, omap) :: ch)) inner) ch.
Proof. reflexivity. Qed.

(* the statement about one table, for every way it can be embedded *)
Definition build_ok (t : symtab) : Prop :=
  forall lt stack pk pm next n marks gl next',
    build lt stack pk pm next t = inl (Some n, marks, gl, next') ->
    forall marksAll ch, incl marks marksAll -> Forall2 (matches marksAll) stack ch ->
      all_dict_ok (fill marksAll ch n).

(* the children loop of build *)
Lemma children_ok lt stack' kind' methods : forall ch, Forall build_ok ch ->
  forall next inner marks gl next',
    (fix go (ch : list symtab) (next : nat) : res (list nsp * list mark * list ident * nat) :=
       match ch with
       | [] => ret ([], [], [], next)
       | c :: r =>
           let! x := build lt stack' kind' methods next c in
           match x with (on, marks, gl, next1) =>
             let! y := go r next1 in
             match y with (ns, marks2, gl2, next2) =>
               ret ((match on with Some n => [n] | None => [] end) ++ ns, marks ++ marks2, gl ++ gl2, next2)
             end
           end
       end) ch next = inl (inner, marks, gl, next') ->
    forall marksAll ch', incl marks marksAll -> Forall2 (matches marksAll) stack' ch' ->
      Forall (fun m => dict_ok m = true) (flat_map all_nsp (map (fill marksAll ch') inner)).
Proof.
  induction ch as [|c r IH]; intros HF next inner marks gl next' H marksAll ch' Hinc HM.
  - cbn [ret] in H. injection H as <- _ _ _. constructor.
  - inversion HF as [|? ? Hc Hr]; subst.
    destruct (build lt stack' kind' methods next c) as [[[[on m1] g1] n1]|] eqn:Eb; cbn [rbind] in H; [|discriminate].
    match type of H with (let! y := ?g in _) = _ => destruct g as [[[[ns m2] g2] n2]|] eqn:Eg end; cbn [rbind ret] in H; [|discriminate].
    injection H as <- <- _ _.
    assert (Hi1 : incl m1 marksAll) by (intros x Hx; apply Hinc; apply in_or_app; left; exact Hx).
    assert (Hi2 : incl m2 marksAll) by (intros x Hx; apply Hinc; apply in_or_app; right; exact Hx).
    rewrite map_app, flat_map_app. apply Forall_app. split.
    + destruct on as [n|]; [|constructor]. cbn [map flat_map]. rewrite app_nil_r.
      apply (Hc lt stack' kind' methods next n m1 g1 n1 Eb marksAll ch' Hi1 HM).
    + apply (IH Hr n1 ns m2 g2 n2 Eg marksAll ch' Hi2 HM).
Qed.

Theorem build_all_ok : forall t, build_ok t.
Proof.
  induction t using symtab_ind'. unfold build_ok. intros lt stack pk pm next n marks gl next' Hb marksAll ch0 Hinc HM.
  cbn [build] in Hb. destruct k; try (cbn [ret] in Hb; discriminate).
  - (* function *)
    destruct (String.eqb name "lambda" || (lt && is_comp_table (ST KFunction name ln syms fr nl ps ms ch))); [cbn [ret] in Hb; discriminate|].
    destruct (scan_function _ stack (fr ++ nl)) as [[[omap m0] zs]|] eqn:Es; cbn [rbind] in Hb; [|discriminate].
    match type of Hb with (let! cs := ?g in _) = _ => destruct g as [[[[inner m2] g2] n2]|] eqn:Ec end; cbn [rbind ret] in Hb; [|discriminate].
    injection Hb as <- <- _ _.
    assert (Hi0 : incl m0 marksAll) by (intros x Hx; apply Hinc; apply in_or_app; left; exact Hx).
    assert (Hi2 : incl m2 marksAll) by (intros x Hx; apply Hinc; apply in_or_app; right; exact Hx).
    rewrite fill_unfold. unfold all_dict_ok. rewrite all_nsp_unfold. cbn [n_inner]. constructor.
    + unfold dict_ok. cbn [n_outer_map n_chain]. apply forallb_forall. intros kv Hkv.
      pose proof (scan_function_spec _ _ _ _ _ _ Es) as Hs. rewrite Forall_forall in Hs.
      apply (entry_dict_ok marksAll m0 stack ch0 kv HM Hi0 (Hs kv Hkv)).
    + apply (children_ok lt _ NFunction ms ch H (S next) inner m2 g2 n2 Ec marksAll _ Hi2).
      constructor; [|exact HM]. split; [reflexivity|]. split; reflexivity.
  - (* class *)
    destruct (scan_class stack syms) as [[omap m0]|] eqn:Es; cbn [rbind] in Hb; [|discriminate].
    match type of Hb with (let! cs := ?g in _) = _ => destruct g as [[[[inner m2] g2] n2]|] eqn:Ec end; cbn [rbind ret] in Hb; [|discriminate].
    injection Hb as <- <- _ _. cbn [fst snd] in *.
    assert (Hi0 : incl m0 marksAll) by (intros x Hx; apply Hinc; apply in_or_app; left; exact Hx).
    assert (Hi2 : incl m2 marksAll) by (intros x Hx; apply Hinc; apply in_or_app; right; exact Hx).
    rewrite fill_unfold. unfold all_dict_ok. rewrite all_nsp_unfold. cbn [n_inner]. constructor.
    + unfold dict_ok. cbn [n_outer_map n_chain]. apply forallb_forall. intros kv Hkv.
      pose proof (scan_class_spec _ _ _ _ Es) as Hs. rewrite Forall_forall in Hs.
      apply (entry_dict_ok marksAll m0 stack ch0 kv HM Hi0 (Hs kv Hkv)).
    + apply (children_ok lt _ NClass ms ch H (S next) inner m2 g2 n2 Ec marksAll _ Hi2).
      constructor; [|exact HM]. split; [reflexivity|]. split; reflexivity.
Qed.

Lemma root_loop_ok lt me : forall ch next inner marks n2,
  (fix go (ch : list symtab) (next : nat) : res (list nsp * list mark * nat) :=
     match ch with
     | [] => ret ([], [], next)
     | c :: r =>
         let! x := build lt [me] NGlobal [] next c in
         match x with (on, marks, _, next1) =>
           let! y := go r next1 in
           match y with (ns, marks2, next2) =>
             ret ((match on with Some n => [n] | None => [] end) ++ ns, marks ++ marks2, next2)
           end
         end
     end) ch next = inl (inner, marks, n2) ->
  forall marksAll ch', incl marks marksAll -> Forall2 (matches marksAll) [me] ch' ->
    Forall (fun m => dict_ok m = true) (flat_map all_nsp (map (fill marksAll ch') inner)).
Proof.
  induction ch as [|c r IH]; intros next inner marks n2 H marksAll ch' Hinc HM.
  - cbn [ret] in H. injection H as <- _ _. constructor.
  - destruct (build lt [me] NGlobal [] next c) as [[[[on m1] g1] n1]|] eqn:Eb; cbn [rbind] in H; [|discriminate].
    match type of H with (let! y := ?g in _) = _ => destruct g as [[[ns m2] n3]|] eqn:Eg end; cbn [rbind ret] in H; [|discriminate].
    injection H as <- <- _.
    assert (Hi1 : incl m1 marksAll) by (intros x Hx; apply Hinc; apply in_or_app; left; exact Hx).
    assert (Hi2 : incl m2 marksAll) by (intros x Hx; apply Hinc; apply in_or_app; right; exact Hx).
    rewrite map_app, flat_map_app. apply Forall_app. split.
    + destruct on as [n|]; [|constructor]. cbn [map flat_map]. rewrite app_nil_r.
      apply (build_all_ok c lt [me] NGlobal [] next n m1 g1 n1 Eb marksAll ch' Hi1 HM).
    + apply (IH n1 ns m2 n3 Eg marksAll ch' Hi2 HM).
Qed.

(* THEOREM: in the namespace tree of every symbol table, every outer-map entry points at a function on the chain that
   keeps the name in its dictionary *)
Theorem generate_nsp_dict_ok : forall lt root tree,
  generate_nsp lt root = inl tree -> forallb dict_ok (all_nsp tree) = true.
Proof.
  intros lt root tree H. destruct root as [k name ln syms fr nl ps ms ch]. cbn [generate_nsp] in H.
  match type of H with (let! cs := ?g in _) = _ => destruct g as [[[inner marks] n2]|] eqn:Ec end; cbn [rbind ret] in H; [|discriminate].
  unfold ret in H. injection H as H. subst tree. apply forallb_forall. rewrite <- Forall_forall.
  rewrite all_nsp_unfold. cbn [fill n_inner]. constructor; [reflexivity|]. fold (inl_of marks 0).
  apply (root_loop_ok lt (mkAnc 0 NGlobal syms) ch 1 inner marks n2 Ec marks); [apply incl_refl|].
  constructor; [|constructor]. split; [reflexivity|]. split; reflexivity.
Qed.
