(* Command interpreter shared by the extracted binary and by in-Coq evaluation:
   one s-expression command per line in, one s-expression answer out. *)
From Coq Require Import String Ascii List ZArith NArith Bool.
From OL Require Import Sexp PyAst Unparse Config Namespace Lower Cli StrLit KSem Scope.
From OL Require UnpackNested.
From OL Require Parse.
From OL Require StmtOk.
Import ListNotations.
Open Scope string_scope.

Definition ok (x : sexp) : sexp := L [A "ok"; x].
Definition bad (why : string) : sexp := L [A "bad"; A why].

(* nested values for the unpacking reference semantics: (a <int>) | (s <value> ...) *)
Fixpoint nval_of (x : sexp) : option (UnpackNested.val Z) :=
  match x with
  | L (A k :: items) =>
      if String.eqb k "a" then
        match items with [z] => option_map (UnpackNested.VAtom Z) (z_of z) | _ => None end
      else if String.eqb k "s" then
        option_map (UnpackNested.VSeq Z)
          ((fix go (l : list sexp) : option (list (UnpackNested.val Z)) :=
              match l with
              | [] => Some []
              | y :: r => match nval_of y, go r with Some a, Some b => Some (a :: b) | _, _ => None end
              end) items)
      else None
  | _ => None
  end.
Fixpoint sx_nval (v : UnpackNested.val Z) : sexp :=
  match v with
  | UnpackNested.VAtom _ z => L [A "a"; sx_z z]
  | UnpackNested.VSeq _ l => L (A "s" :: map sx_nval l)
  end.
Definition sx_binds (bs : UnpackNested.binds Z) : sexp := L (map (fun kv => L [sx_ident (fst kv); sx_nval (snd kv)]) bs).
Definition top_nsp : nsp := Nsp 0 NGlobal "top" 0 [] [] [] [] [] false false [] [] [].

Definition run_cmd (x : sexp) : sexp :=
  match x with
  | L [A "unparse"; e] =>
      match expr_of e with
      | Some e' => ok (sx_cps (unparse e'))
      | None => bad "decode-expr"
      end
  | L [A "echo-expr"; e] =>
      match expr_of e with Some e' => ok (sx_expr e') | None => bad "decode-expr" end
  | L [A "echo-block"; b] =>
      match block_of b with Some _ => ok (A "block") | None => bad "decode-block" end
  | L [A "lower"; L [ch; sh; lt]; st; b] =>
      match bool_of ch, bool_of sh, bool_of lt, symtab_of st, block_of b with
      | Some ch', Some sh', Some lt', Some st', Some b' =>
          match lower_module (mkCfg ch' sh' lt') st' b' with
          | inl e => ok (sx_expr e)
          | inr er => L [A "err"; A (err_name er)]
          end
      | _, _, _, None, _ => bad "decode-symtab"
      | _, _, _, _, None => bad "decode-block"
      | _, _, _, _, _ => bad "decode-config"
      end
  | L [A "stmt-ok"; b] =>
      (* is the program inside the hypothesis of the statement-layer theorem (StmtCore.module_output_is_one_expression)? *)
      match block_of b with
      | Some b' => ok (sx_bool (forallb StmtOk.stmt_ok b'))
      | None => bad "decode-block"
      end
  | L [A "core-check"; e] =>
      match expr_of e with
      | Some e' => match Parse.core_check e' with (a, b, c) => ok (L [sx_bool a; sx_bool b; sx_bool c]) end
      | None => bad "decode-expr"
      end
  | L [A "unparse-toks"; e] =>
      match expr_of e with
      | Some e' => ok (L (map Parse.sx_pt (Parse.norm (unparse_toks e'))))
      | None => bad "decode-expr"
      end
  | L [A "unpack-nested"; t; v] =>
      (* (what Python's unpacking binds, what the stores emitted by the converter model bind when run in order) *)
      match expr_of t, nval_of v with
      | Some t', Some (UnpackNested.VSeq _ l) =>
          let b := UnpackNested.bind Z t' (UnpackNested.VSeq Z l) in
          let r := match assign_auto top_nsp [0%nat] t' (Name "V") with
                   | inl (_ :: stores) => option_map snd (UnpackNested.run Z [(ol "assign" (path_str [0%nat]), l)] stores)
                   | _ => None
                   end in
          ok (L [sx_opt sx_binds b; sx_opt sx_binds r])
      | _, _ => bad "decode-unpack"
      end
  | L [A "parse-core"; L ts] =>
      match mapM Parse.pt_of ts with
      | Some ts' => match Parse.parse_core ts' with Some e => ok (sx_expr e) | None => L [A "none"] end
      | None => bad "decode-tokens"
      end
  | L [A "scope-ok"; lt; st] =>
      match bool_of lt, symtab_of st with
      | Some lt', Some st' =>
          match generate_nsp lt' st' with
          | inl root =>
              let ns := all_nsp root in
              ok (L [sx_bool (tree_ok root); sx_nat (List.length ns);
                     sx_nat (fold_left (fun a n => a + List.length (names_of n))%nat ns 0%nat);
                     L (map (fun n => sx_nat (n_id n)) (filter (fun n => negb (nsp_ok n)) ns))])
          | inr er => L [A "err"; A (err_name er)]
          end
      | _, _ => bad "decode-symtab"
      end
  | L [A "cli"; L cs; unp; out] =>
      match mapM bytes_of cs, opt_of ident_of unp, bool_of out with
      | Some cs', Some unp', Some out' =>
          let r := cli cs' unp' out' in ok (L [sx_verdict (fst r); L (map sx_effect (snd r))])
      | _, _, _ => bad "decode-cli"
      end
  | L [A "decode"; q; t] =>
      match n_of q, cps_of t with
      | Some q', Some t' => match decode q' t' with Some r => ok (sx_cps r) | None => L [A "none"] end
      | _, _ => bad "decode-args"
      end
  | L [A "fdecode"; q; t] =>
      match n_of q, cps_of t with
      | Some q', Some t' => match fdecode q' t' with Some r => ok (sx_cps r) | None => L [A "none"] end
      | _, _ => bad "decode-args"
      end
  | L [A "ksem-src"; L bits; A fn; L b] =>
      match mapM bool_of bits, mapM sk_of b with
      | Some bits', Some b' =>
          let fuel := 100 * 100 in
          if String.eqb fn "function" then
            match exec_function (orc_of bits') fuel b' with
            | Some s => ok (L (map sx_event (rev (x_tr s))))
            | None => L [A "stuck"]
            end
          else
            match exec (orc_of bits') fuel (XBlock b') (mkSst [] 0) with
            | Some (ONormal, s) => ok (L (map sx_event (rev (x_tr s))))
            | _ => L [A "stuck"]
            end
      | _, _ => bad "decode-ksem"
      end
  | L [A "ksem-tgt"; L bits; e] =>
      match mapM bool_of bits, expr_of e with
      | Some bits', Some e' =>
          match KSem.run (orc_of bits') (200 * 100) (MExpr e') (mkSt [] [] 0) with
          | Some (_, s) => ok (L (map sx_event (rev (s_tr s))))
          | None => L [A "stuck"]
          end
      | _, _ => bad "decode-ksem"
      end
  | L [A "cfg-hist"; L acts] =>
      match mapM action_of acts with
      | Some h => ok (L [L (map sx_output (Config.run [] h)); L (map sx_output (run_shared (0, []) h))])
      | None => bad "decode-history"
      end
  | _ => bad "unknown-command"
  end.

Definition run_line (s : string) : string :=
  match parse_sexp s with
  | Some x => sexp_to_string (run_cmd x)
  | None => sexp_to_string (bad "parse")
  end.
