(* C16: the command line front end (oneliner/__main__.py) as an argument machine with an explicit
   file-system effect trace.  Option names/choices/defaults come from the generated table. *)
From Coq Require Import String Ascii List Bool Arith.
From OL Require Import Sexp PyAst Config.
From OLGen Require Import Tables.
Import ListNotations.
Open Scope string_scope.
Open Scope list_scope.

(* str.split("=") *)
Fixpoint split_eq (s : string) (cur : string) : list string :=
  match s with
  | EmptyString => [cur]
  | String c r =>
      if Ascii.eqb c "="%char then cur :: split_eq r EmptyString
      else split_eq r (cur ++ String c EmptyString)%string
  end.

Inductive effect :=
| FRead                       (* open + read the input file *)
| FOpenOut                    (* open(output, "w"): creates or truncates the file *)
| FWrite (opts : settings)    (* write the text converted with these effective options *)
| FPrint (opts : settings).   (* print the text converted with these effective options *)

Inductive verdict := VOk | VTypeError | VValueError.

(* one -C argument applied to the option object *)
Definition apply_C (s : settings) (arg : string) : settings + verdict :=
  match split_eq arg EmptyString with
  | [name; value] =>
      if negb (existsb (String.eqb name) opt_names) then inr VValueError      (* unknown option *)
      else if valid name value then inl ((name, value) :: s)
      else inr VValueError                                                   (* illegal value *)
  | _ => inr VTypeError                                                      (* not name=value *)
  end.

Fixpoint apply_all (s : settings) (args : list string) : settings + verdict :=
  match args with
  | [] => inl s
  | a :: r => match apply_C s a with inl s' => apply_all s' r | inr v => inr v end
  end.

(* [cs]: the -C arguments in order; [unp]: the deprecated --unparser (already restricted to its choices by
   argparse); [out]: whether -o was given *)
Definition cli (cs : list string) (unp : option string) (out : bool) : verdict * list effect :=
  match apply_all [] cs with
  | inr v => (v, [])
  | inl s =>
      let s' := match unp with Some u => ("unparser", u) :: s | None => s end in
      (VOk, FRead :: (if out then [FOpenOut; FWrite s'] else [FPrint s']))
  end.

Definition touches_output (e : effect) : bool :=
  match e with FOpenOut | FWrite _ => true | _ => false end.

(* a -C argument is acceptable: exactly one "=", a known option name, one of its values *)
Definition good_C (arg : string) : bool :=
  match split_eq arg EmptyString with
  | [name; value] => existsb (String.eqb name) opt_names && valid name value
  | _ => false
  end.

(* codecs *)
Definition sx_verdict (v : verdict) : sexp :=
  A (match v with VOk => "ok" | VTypeError => "TypeError" | VValueError => "ValueError" end).
Definition sx_effect (e : effect) : sexp :=
  let opts := fun s => L (map (fun kv => L [sx_ident (fst kv); sx_ident (snd kv)]) (eff_of s)) in
  match e with
  | FRead => L [A "read"] | FOpenOut => L [A "open-out"]
  | FWrite s => L [A "write"; opts s] | FPrint s => L [A "print"; opts s]
  end.
