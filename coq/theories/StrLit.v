(* C04: string literal codec.  [decode] is a reference decoder for the body of a (non-raw) Python string
   literal delimited by the quote q, written from the language reference (2.4.1); the theorems show that
   the text produced by the unparser's escaping decodes back to the original code points, stays on one
   line and never contains a bare delimiter.  The finite part (the generated escape table, code points
   0..0x2FF and the surrogate block) is decided by vm_compute and lifted to all strings. *)
From Coq Require Import String Ascii List ZArith NArith Bool Arith Lia.
From OL Require Import Sexp PyAst Unparse.
From OLGen Require Import Tables.
Import ListNotations.
Open Scope list_scope.
Local Open Scope N_scope.

Definition BSL : N := 92.

Definition hexval (c : N) : option N :=
  if (48 <=? c) && (c <=? 57) then Some (c - 48)
  else if (97 <=? c) && (c <=? 102) then Some (c - 87)
  else if (65 <=? c) && (c <=? 70) then Some (c - 55)
  else None.

Definition simple_escape (c : N) : option N :=
  if c =? 92 then Some 92 else if c =? 39 then Some 39 else if c =? 34 then Some 34
  else if c =? 110 then Some 10 else if c =? 114 then Some 13 else if c =? 116 then Some 9
  else if c =? 97 then Some 7 else if c =? 98 then Some 8 else if c =? 102 then Some 12 else if c =? 118 then Some 11
  else None.

Inductive dstate := DNorm | DEsc | DHex (need : nat) (acc : N).

(* one character of the literal body; None = the text is not the body of a one-line literal delimited by q *)
Definition dstep (q : N) (st : dstate) (c : N) : option (dstate * list N) :=
  match st with
  | DNorm =>
      if c =? BSL then Some (DEsc, [])
      else if (c =? q) || (c =? 10) || (c =? 13) then None
      else Some (DNorm, [c])
  | DEsc =>
      if c =? 120 then Some (DHex 2 0, [])            (* \xhh *)
      else if c =? 117 then Some (DHex 4 0, [])       (* \uhhhh *)
      else if c =? 85 then Some (DHex 8 0, [])        (* \Uhhhhhhhh *)
      else match simple_escape c with
           | Some v => Some (DNorm, [v])
           | None => None                             (* octal / \N{..} / unknown escapes: not produced, not modelled *)
           end
  | DHex need acc =>
      match hexval c, need with
      | Some h, S O => Some (DNorm, [acc * 16 + h])
      | Some h, S k => Some (DHex k (acc * 16 + h), [])
      | _, _ => None
      end
  end.

Fixpoint dec (q : N) (st : dstate) (t : list N) (out : list N) : option (list N) :=
  match t with
  | [] => match st with DNorm => Some (rev out) | _ => None end
  | c :: r =>
      match dstep q st c with
      | Some (st', o) => dec q st' r (rev o ++ out)
      | None => None
      end
  end.

Definition decode (q : N) (t : list N) : option (list N) := dec q DNorm t [].

(* f-string literal text: doubled braces denote one brace; a single brace would start/end a field *)
Fixpoint undouble (t : list N) : option (list N) :=
  match t with
  | [] => Some []
  | c :: r =>
      if (c =? LBRACE) || (c =? RBRACE) then
        match r with
        | c' :: r' => if c' =? c then option_map (cons c) (undouble r') else None
        | [] => None
        end
      else option_map (cons c) (undouble r)
  end.
Definition fdecode (q : N) (t : list N) : option (list N) :=
  match undouble t with Some u => decode q u | None => None end.

Definition no_newline (t : list N) : bool := forallb (fun c => negb ((c =? 10) || (c =? 13))) t.

(* ---- a checkable description of "t is a correct escape of c for quote q" ---- *)
Definition good_esc (q c : N) (t : list N) : bool :=
  match t with
  | [x] => (x =? c) && negb ((c =? BSL) || (c =? q) || (c =? 10) || (c =? 13))
  | [b; x] => (b =? BSL) && match simple_escape x with Some v => (v =? c) && negb (x =? 120) && negb (x =? 117) && negb (x =? 85) | None => false end
  | [b; x; h1; h2] =>
      (b =? BSL) && (x =? 120) &&
      match hexval h1, hexval h2 with Some a, Some d => (a * 16 + d =? c) | _, _ => false end
  | [b; u; h1; h2; h3; h4] =>
      (b =? BSL) && (u =? 117) &&
      match hexval h1, hexval h2, hexval h3, hexval h4 with
      | Some a, Some b', Some c', Some d => (((a * 16 + b') * 16 + c') * 16 + d =? c)
      | _, _, _, _ => false
      end
  | _ => false
  end.

Lemma good_esc_dec : forall q c t, good_esc q c t = true ->
  forall rest out, dec q DNorm (t ++ rest) out = dec q DNorm rest (c :: out).
Proof.
  intros q c t H rest out.
  destruct t as [|x1 [|x2 [|x3 [|x4 [|x5 [|x6 [|x7 t]]]]]]]; cbn [good_esc] in H; try discriminate.
  - (* plain *)
    apply andb_true_iff in H. destruct H as [H1 H2]. apply N.eqb_eq in H1. subst x1.
    apply negb_true_iff in H2. repeat (apply orb_false_iff in H2; destruct H2 as [H2 ?]).
    cbn [app dec dstep]. rewrite H2. replace ((c =? q) || (c =? 10) || (c =? 13)) with false
      by (symmetry; repeat (apply orb_false_iff; split); assumption).
    reflexivity.
  - (* simple escape *)
    apply andb_true_iff in H. destruct H as [H1 H2]. apply N.eqb_eq in H1. subst x1.
    destruct (simple_escape x2) as [v|] eqn:E; [|discriminate].
    repeat (apply andb_true_iff in H2; destruct H2 as [H2 ?]).
    apply N.eqb_eq in H2. subst v.
    cbn [app dec dstep]. change (BSL =? BSL) with true. cbn iota. unfold dstep.
    repeat match goal with Hn : negb (_ =? _) = true |- _ => apply negb_true_iff in Hn; rewrite Hn end.
    rewrite E. reflexivity.
  - (* \xhh *)
    repeat (apply andb_true_iff in H; destruct H as [H ?]).
    apply N.eqb_eq in H. subst x1. match goal with Hx : (x2 =? 120) = true |- _ => apply N.eqb_eq in Hx; subst x2 end.
    destruct (hexval x3) as [a|] eqn:E3; [|discriminate]. destruct (hexval x4) as [d|] eqn:E4; [|discriminate].
    match goal with Hx : (_ =? c) = true |- _ => apply N.eqb_eq in Hx; subst c end.
    cbn [app dec dstep]. change (BSL =? BSL) with true. cbn iota. unfold dstep at 1.
    change (120 =? 120) with true. cbn iota. cbn [dec]. unfold dstep at 1. rewrite E3. cbn [dec]. unfold dstep. rewrite E4. cbn [rev app]. reflexivity.
  - (* \uhhhh *)
    repeat (apply andb_true_iff in H; destruct H as [H ?]).
    apply N.eqb_eq in H. subst x1. match goal with Hx : (x2 =? 117) = true |- _ => apply N.eqb_eq in Hx; subst x2 end.
    destruct (hexval x3) as [a|] eqn:E3; [|discriminate]. destruct (hexval x4) as [b|] eqn:E4; [|discriminate].
    destruct (hexval x5) as [c'|] eqn:E5; [|discriminate]. destruct (hexval x6) as [d|] eqn:E6; [|discriminate].
    match goal with Hx : (_ =? c) = true |- _ => apply N.eqb_eq in Hx; subst c end.
    cbn [app dec dstep]. change (BSL =? BSL) with true. cbn iota. unfold dstep at 1.
    change (117 =? 120) with false. change (117 =? 117) with true. cbn iota.
    cbn [dec]. unfold dstep at 1. rewrite E3. cbn [dec]. unfold dstep at 1. rewrite E4.
    cbn [dec]. unfold dstep at 1. rewrite E5. cbn [dec]. unfold dstep. rewrite E6. cbn [rev app]. reflexivity.
Qed.

(* ---- the finite part: every table entry and every surrogate escape is good ---- *)
Definition range (lo : N) (n : nat) : list N := map (fun i => lo + N.of_nat i) (seq 0 n).

Lemma table_good_sq : forallb (fun c => good_esc SQ c (escape_cp SQ c)) (range 0 768) = true.
Proof. vm_compute. reflexivity. Qed.
Lemma table_good_dq : forallb (fun c => good_esc DQ c (escape_cp DQ c)) (range 0 768) = true.
Proof. vm_compute. reflexivity. Qed.
Lemma surrogates_good_sq : forallb (fun c => good_esc SQ c (escape_cp SQ c)) (range 55296 2048) = true.
Proof. vm_compute. reflexivity. Qed.
Lemma surrogates_good_dq : forallb (fun c => good_esc DQ c (escape_cp DQ c)) (range 55296 2048) = true.
Proof. vm_compute. reflexivity. Qed.
Lemma table_lengths : length escape_table_sq = 768%nat /\ length escape_table_dq = 768%nat.
Proof. split; vm_compute; reflexivity. Qed.

(* the rule above the table agrees with the code on the sampled code points (generated) *)
Lemma escape_samples_agree :
  forallb (fun s => match s with (c, a, b) =>
             (if list_eq_dec N.eq_dec (escape_cp SQ c) a then true else false) &&
             (if list_eq_dec N.eq_dec (escape_cp DQ c) b then true else false) end) escape_samples = true.
Proof. vm_compute. reflexivity. Qed.

Lemma in_range : forall lo n c, (lo <= c)%N -> (c < lo + N.of_nat n)%N -> List.In c (range lo n).
Proof.
  intros lo n c H1 H2. unfold range. apply in_map_iff. exists (N.to_nat (c - lo)). split.
  - lia.
  - apply in_seq. lia.
Qed.

Definition is_quote (q : N) : Prop := q = SQ \/ q = DQ.

Lemma escape_cp_good : forall q c, is_quote q -> good_esc q c (escape_cp q c) = true.
Proof.
  intros q c Hq.
  destruct (N.ltb_spec c 768) as [Hlt|Hge].
  - assert (Hin : List.In c (range 0 768)) by (apply in_range; lia).
    destruct Hq as [-> | ->].
    + exact (proj1 (forallb_forall _ _) table_good_sq c Hin).
    + exact (proj1 (forallb_forall _ _) table_good_dq c Hin).
  - destruct (is_surrogate c) eqn:Hs.
    + unfold is_surrogate in Hs. apply andb_true_iff in Hs. destruct Hs as [H1 H2].
      apply N.leb_le in H1. apply N.leb_le in H2.
      assert (Hin : List.In c (range 55296 2048)) by (apply in_range; lia).
      destruct Hq as [-> | ->].
      * exact (proj1 (forallb_forall _ _) surrogates_good_sq c Hin).
      * exact (proj1 (forallb_forall _ _) surrogates_good_dq c Hin).
    + (* above the table, not a surrogate: emitted unchanged *)
      assert (Hnone : forall tbl : list (list N), length tbl = 768%nat -> nth_error tbl (N.to_nat c) = None).
      { intros tbl Hl. apply nth_error_None. lia. }
      unfold escape_cp. destruct table_lengths as [L1 L2].
      replace (nth_error (if q =? SQ then escape_table_sq else escape_table_dq) (N.to_nat c)) with (@None (list N))
        by (destruct (q =? SQ); symmetry; apply Hnone; assumption).
      rewrite Hs. cbn [good_esc]. rewrite N.eqb_refl. cbn.
      assert (c <> BSL /\ c <> 10 /\ c <> 13 /\ c <> q) as (A & B & C & D).
      { unfold BSL. destruct Hq as [-> | ->]; unfold SQ, DQ; repeat split; lia. }
      apply N.eqb_neq in A, B, C, D. rewrite A, B, C, D. reflexivity.
Qed.

Lemma dec_escape : forall q s, is_quote q ->
  forall rest out, dec q DNorm (escape q s ++ rest) out = dec q DNorm rest (rev s ++ out).
Proof.
  intros q s Hq. induction s as [|c s IH]; intros rest out; [reflexivity|].
  unfold escape in *. cbn [flat_map]. rewrite <- app_assoc.
  rewrite (good_esc_dec q c _ (escape_cp_good q c Hq)). rewrite IH.
  cbn [rev]. rewrite <- app_assoc. reflexivity.
Qed.

(* The codec theorem: for every code point list (any length, any code points incl. quotes, backslashes,
   control characters, line breaks, surrogates) and both quote characters. *)
Theorem str_codec : forall q s, is_quote q -> decode q (escape q s) = Some s.
Proof.
  intros q s Hq. unfold decode. rewrite <- (app_nil_r (escape q s)). rewrite dec_escape by exact Hq.
  cbn [dec]. rewrite app_nil_r, rev_involutive. reflexivity.
Qed.

(* ---- one physical line ---- *)
Lemma good_esc_no_newline : forall q c t, good_esc q c t = true -> no_newline t = true.
Proof.
  intros q c t H.
  destruct t as [|x1 [|x2 [|x3 [|x4 [|x5 [|x6 [|x7 t]]]]]]]; cbn [good_esc] in H; try discriminate.
  - apply andb_true_iff in H. destruct H as [H1 H2]. apply N.eqb_eq in H1. subst x1.
    apply negb_true_iff in H2. repeat (apply orb_false_iff in H2; destruct H2 as [H2 ?]).
    cbn [no_newline forallb]. rewrite H0, H. reflexivity.
  - apply andb_true_iff in H. destruct H as [H1 H2]. apply N.eqb_eq in H1. subst x1.
    destruct (simple_escape x2) eqn:E; [|discriminate].
    assert (x2 <> 10 /\ x2 <> 13).
    { split; intros ->; vm_compute in E; discriminate. }
    destruct H as [A B]. apply N.eqb_neq in A, B. cbn [no_newline forallb]. rewrite A, B. reflexivity.
  - repeat (apply andb_true_iff in H; destruct H as [H ?]).
    apply N.eqb_eq in H. subst x1. apply N.eqb_eq in H1. subst x2.
    destruct (hexval x3) eqn:E3; [|discriminate]. destruct (hexval x4) eqn:E4; [|discriminate].
    assert (forall x v, hexval x = Some v -> (x =? 10) || (x =? 13) = false).
    { intros x v Hx. destruct (N.eqb_spec x 10) as [->|]; [vm_compute in Hx; discriminate|].
      destruct (N.eqb_spec x 13) as [->|]; [vm_compute in Hx; discriminate|]. reflexivity. }
    cbn [no_newline forallb]. rewrite (H _ _ E3), (H _ _ E4). reflexivity.
  - repeat (apply andb_true_iff in H; destruct H as [H ?]).
    apply N.eqb_eq in H. subst x1. apply N.eqb_eq in H1. subst x2.
    destruct (hexval x3) eqn:E3; [|discriminate]. destruct (hexval x4) eqn:E4; [|discriminate].
    destruct (hexval x5) eqn:E5; [|discriminate]. destruct (hexval x6) eqn:E6; [|discriminate].
    assert (forall x v, hexval x = Some v -> (x =? 10) || (x =? 13) = false).
    { intros x v Hx. destruct (N.eqb_spec x 10) as [->|]; [vm_compute in Hx; discriminate|].
      destruct (N.eqb_spec x 13) as [->|]; [vm_compute in Hx; discriminate|]. reflexivity. }
    cbn [no_newline forallb]. rewrite (H _ _ E3), (H _ _ E4), (H _ _ E5), (H _ _ E6). reflexivity.
Qed.

Lemma no_newline_app : forall a b, no_newline (a ++ b) = no_newline a && no_newline b.
Proof. intros a b. unfold no_newline. apply forallb_app. Qed.

Theorem escape_single_line : forall q s, is_quote q -> no_newline (escape q s) = true.
Proof.
  intros q s Hq. induction s as [|c s IH]; [reflexivity|].
  unfold escape in *. cbn [flat_map]. rewrite no_newline_app, IH, andb_true_r.
  eapply good_esc_no_newline. apply escape_cp_good. exact Hq.
Qed.

(* ---- f-string literal text ---- *)
Lemma undouble_double : forall t, undouble (double_braces t) = Some t.
Proof.
  induction t as [|c t IH]; [reflexivity|].
  unfold double_braces in *. cbn [flat_map].
  destruct (N.eqb_spec c LBRACE) as [->|H1].
  - cbn [app undouble]. change (LBRACE =? LBRACE) with true. cbn. rewrite IH. reflexivity.
  - destruct (N.eqb_spec c RBRACE) as [->|H2].
    + cbn [app undouble]. change (RBRACE =? LBRACE) with false. change (RBRACE =? RBRACE) with true. cbn. rewrite IH. reflexivity.
    + cbn [app undouble]. apply N.eqb_neq in H1, H2. rewrite H1, H2. cbn. rewrite IH. reflexivity.
Qed.

Theorem fstring_text_codec : forall q s, is_quote q -> fdecode q (double_braces (escape q s)) = Some s.
Proof. intros q s Hq. unfold fdecode. rewrite undouble_double. apply str_codec. exact Hq. Qed.

Lemma double_braces_single_line : forall t, no_newline t = true -> no_newline (double_braces t) = true.
Proof.
  induction t as [|c t IH]; intros H; [reflexivity|]. cbn in H. apply andb_true_iff in H. destruct H as [Hc Ht].
  unfold double_braces in *. cbn [flat_map]. rewrite no_newline_app, (IH Ht), andb_true_r.
  destruct (c =? LBRACE); [reflexivity|]. destruct (c =? RBRACE); [reflexivity|]. cbn. rewrite Hc. reflexivity.
Qed.

(* non-vacuity / sanity: a string using every escape class *)
Example codec_example :
  decode SQ (escape SQ [39; 34; 92; 10; 13; 9; 0; 255; 256; 55296; 128512; 123])
  = Some [39; 34; 92; 10; 13; 9; 0; 255; 256; 55296; 128512; 123].
Proof. vm_compute. reflexivity. Qed.
