(* Model of oneliner/expr_unparse.py.  All precedences, slots, operator texts and the
   escape table come from the generated Tables.v; the templates (literal fragments and
   their order) are transcribed by hand and tied by string correspondence. *)
From Coq Require Import String Ascii List ZArith NArith Bool Arith.
From OL Require Import Sexp PyAst.
From OLGen Require Import Tables.
Import ListNotations.
Open Scope string_scope.
Open Scope list_scope.

Inductive tok :=
| TName (s : ident)
| TLit (c : const) (t : text)     (* a literal, with the exact text emitted for it *)
| TP (s : string)                 (* fixed fragment: punctuation / keyword, spaces included *)
| TFText (t : text).              (* literal part of an f-string (escaped, braces doubled) *)

Definition tok_text (t : tok) : text :=
  match t with
  | TName s => s2t s
  | TLit _ t => t
  | TP s => s2t s
  | TFText t => t
  end.

Definition render (ts : list tok) : text := flat_map tok_text ts.

Definition INF : nat := 256 * 256.

(* ---------- strings ---------- *)
Definition SQ : N := 39%N.
Definition DQ : N := 34%N.
Definition flipq (q : N) : N := if N.eqb q SQ then DQ else SQ.

Definition escape_cp (q : N) (c : N) : text :=
  match nth_error (if N.eqb q SQ then escape_table_sq else escape_table_dq) (N.to_nat c) with
  | Some t => t
  | None => [c]        (* code points above the table are emitted unchanged *)
  end.
Definition escape (q : N) (s : text) : text := flat_map (escape_cp q) s.

Definition LBRACE : N := 123%N.
Definition RBRACE : N := 125%N.
Definition double_braces (t : text) : text :=
  flat_map (fun c => if N.eqb c LBRACE then [LBRACE; LBRACE] else if N.eqb c RBRACE then [RBRACE; RBRACE] else [c]) t.

Definition const_text (q : N) (c : const) : text :=
  match c with
  | CNone => s2t "None" | CTrue => s2t "True" | CFalse => s2t "False" | CEllipsis => s2t "..."
  | CInt z => s2t (z2s z)
  | CFloat r => r | CComplex r => r | CBytes r => r
  | CStr s => q :: escape q s ++ [q]
  end.

Definition is_digit (c : N) : bool := (48 <=? c)%N && (c <=? 57)%N.
Definition all_digits (t : text) : bool :=
  match t with [] => false | _ => forallb is_digit t end.

Definition node_prec (e : expr) : nat :=
  match e with
  | Name _ => node_prec_Name | Constant _ => node_prec_Constant | JoinedStr _ => node_prec_JoinedStr
  | FormattedValue _ _ _ => node_prec_FormattedValue | Starred _ => node_prec_Starred
  | BinOp _ o _ => binop_prec o | BoolOp o _ => boolop_prec o | UnaryOp o _ => unop_prec o
  | EList _ => node_prec_List | ETuple _ => node_prec_Tuple | ESet _ => node_prec_Set | EDict _ _ => node_prec_Dict
  | Compare _ _ _ => node_prec_Compare | Attribute _ _ => node_prec_Attribute | Subscript _ _ => node_prec_Subscript
  | Slice _ _ _ => node_prec_Slice | Call _ _ _ => node_prec_Call | NamedExpr _ _ => node_prec_NamedExpr
  | Lambda _ _ _ _ _ _ _ _ => node_prec_Lambda | ListComp _ _ => node_prec_ListComp | SetComp _ _ => node_prec_SetComp
  | GeneratorExp _ _ => node_prec_GeneratorExp | DictComp _ _ _ => node_prec_DictComp | IfExp _ _ _ => node_prec_IfExp
  | Yield _ => node_prec_Yield | YieldFrom _ => node_prec_YieldFrom | Await _ => node_prec_Await
  | Other _ => INF
  end.

Fixpoint join {X} (sep : list X) (ls : list (list X)) : list X :=
  match ls with
  | [] => []
  | [x] => x
  | x :: r => x ++ sep ++ join sep r
  end.

Definition paren (b : bool) (ts : list tok) : list tok := if b then TP "(" :: ts ++ [TP ")"] else ts.

(* the last [length ds] entries of [names] get "=default" *)
Fixpoint attach_defaults (names : list (list tok)) (ds : list (list tok)) : list (list tok) :=
  match names with
  | [] => []
  | n :: r =>
      if Nat.leb (length ds) (length r) then n :: attach_defaults r ds
      else match ds with
           | d :: ds' => (n ++ TP "=" :: d) :: attach_defaults r ds'
           | [] => n :: attach_defaults r []
           end
  end.

Fixpoint attach_kwdefaults (names : list (list tok)) (ds : list (option (list tok))) : list (list tok) :=
  match names, ds with
  | n :: r, Some d :: ds' => (n ++ TP "=" :: d) :: attach_kwdefaults r ds'
  | n :: r, None :: ds' => n :: attach_kwdefaults r ds'
  | ns, [] => ns
  | [], _ => []
  end.

Definition starts_with (c : N) (t : text) : bool := match t with x :: _ => N.eqb x c | [] => false end.
Definition ends_with (c : N) (t : text) : bool := starts_with c (rev t).

(* [q] is the quote of the enclosing string context ("outer_str_qm") *)
Fixpoint utoks (slot : nat) (q : N) (e : expr) {struct e} : list tok :=
  let sub := fun s x => utoks s q x in
  let comps := fun (gs : list comprehension) =>
    join [TP " "] (map (fun g => match g with (t, i, ifs, a) =>
        (if a : bool then [TP "async "] else []) ++ TP "for " :: sub slot_comp_target t ++ TP " in " :: sub slot_comp_iter i
        ++ flat_map (fun f => TP " if " :: sub slot_comp_if f) ifs end) gs) in
  (* _unparse_JoinedStr with quote [qq] *)
  let fbody := fun (sl : nat) (qq : N) (vs : list expr) =>
    flat_map (fun v => match v with
                       | Constant (CStr s) => [TFText (double_braces (escape qq s))]
                       | FormattedValue _ _ _ => utoks sl qq v
                       | _ => []
                       end) vs in
  let body :=
    match e with
    | Name i => [TName i]
    | Constant c => [TLit c (const_text (flipq q) c)]
    | JoinedStr vs => let qq := flipq q in TP "f" :: TFText [qq] :: fbody slot_JoinedStr_field qq vs ++ [TFText [qq]]
    | FormattedValue v _ spec =>
        let vt := sub slot_FormattedValue_value v in
        let st := match spec with
                  | Some (JoinedStr svs) => TP ":" :: fbody slot_FormattedValue_spec_field q svs
                  | Some _ => [TP ":"]
                  | None => []
                  end in
        TP "{" :: (if starts_with LBRACE (render vt) then [TP " "] else []) ++ vt ++ st
        ++ (if ends_with RBRACE (render st) then [TP " "] else []) ++ [TP "}"]
    | Starred v => TP "*" :: sub slot_Starred_value v
    | BinOp l o r => sub (slot_BinOp_left o) l ++ TP (binop_text o) :: sub (slot_BinOp_right o) r
    | BoolOp o vs => join [TP (" " ++ boolop_text o ++ " ")%string] (map (sub (slot_BoolOp o)) vs)
    | UnaryOp o v => TP (unop_text o) :: sub (slot_UnaryOp o) v
    | EList l => TP "[" :: join [TP ","] (map (sub slot_List_elt) l) ++ [TP "]"]
    | ESet l => TP "{" :: join [TP ","] (map (sub slot_Set_elt) l) ++ [TP "}"]
    | ETuple l =>
        match l with
        | [x] => TP "(" :: sub slot_Tuple_elt x ++ [TP ",)"]
        | _ => TP "(" :: join [TP ","] (map (sub slot_Tuple_elt) l) ++ [TP ")"]
        end
    | EDict ks vs =>
        TP "{" :: join [TP ","]
          ((fix go (ks : list (option expr)) (vs : list (list tok) * list (list tok)) {struct ks} : list (list tok) :=
              match ks, vs with
              | Some k :: ks', (v :: vs', _ :: ws') => (sub slot_Dict_key k ++ TP ":" :: v) :: go ks' (vs', ws')
              | None :: ks', (_ :: vs', w :: ws') => (TP "**" :: w) :: go ks' (vs', ws')
              | _, _ => []
              end) ks (map (sub slot_Dict_value) vs, map (sub slot_Dict_starvalue) vs)) ++ [TP "}"]
    | Compare l ops cs =>
        sub slot_Compare_left l ++
          (fix go (cs : list expr) (ops : list cmpop) {struct cs} : list tok :=
             match cs, ops with
             | c :: cs', o :: ops' => TP (cmpop_text o) :: sub slot_Compare_comparator c ++ go cs' ops'
             | _, _ => []
             end) cs ops
    | Attribute v a =>
        let vt := sub slot_Attribute_value v in
        paren (all_digits (render vt)) vt ++ [TP "."; TName a]
    | Subscript v s => sub slot_Subscript_value v ++ TP "[" :: sub slot_Subscript_slice s ++ [TP "]"]
    | Slice a b c =>
        (match a with Some x => sub slot_Slice_lower x | None => [] end) ++ TP ":" ::
        (match b with Some x => sub slot_Slice_upper x | None => [] end) ++ TP ":" ::
        (match c with Some x => sub slot_Slice_step x | None => [] end)
    | Call f args kws =>
        sub slot_Call_func f ++ TP "(" ::
          (match args, kws with
           | [x], [] => sub slot_Call_onlyarg x
           | _, _ => join [TP ","] (map (sub slot_Call_arg) args ++
                        map (fun kw => match fst kw with
                                       | None => TP "**" :: sub slot_Call_kwarg (snd kw)
                                       | Some k => TName k :: TP "=" :: sub slot_Call_kwarg (snd kw)
                                       end) kws)
           end) ++ [TP ")"]
    | NamedExpr t v => TName t :: TP ":=" :: sub slot_NamedExpr_value v
    | Lambda po ar va ko kd kw de body =>
        let pos := attach_defaults (map (fun n => [TName n]) (po ++ ar)) (map (sub slot_Lambda_default) de) in
        let pos := match po with [] => pos | _ => firstn (length po) pos ++ [TP "/"] :: skipn (length po) pos end in
        let star := match va with Some n => [[TP "*"; TName n]] | None => match ko with [] => [] | _ => [[TP "*"]] end end in
        let kws := attach_kwdefaults (map (fun n => [TName n]) ko)
                     (map (fun d => match d with Some x => Some (sub slot_Lambda_kwdefault x) | None => None end) kd) in
        let kwa := match kw with Some n => [[TP "**"; TName n]] | None => [] end in
        let all := pos ++ star ++ kws ++ kwa in
        TP "lambda" :: (match all with [] => [] | _ => TP " " :: join [TP ","] all end) ++ TP ":" :: sub slot_Lambda_body body
    | ListComp x gs => TP "[" :: sub slot_ListComp_elt x ++ TP " " :: comps gs ++ [TP "]"]
    | SetComp x gs => TP "{" :: sub slot_SetComp_elt x ++ TP " " :: comps gs ++ [TP "}"]
    | GeneratorExp x gs => sub slot_GeneratorExp_elt x ++ TP " " :: comps gs
    | DictComp k v gs => TP "{" :: sub slot_DictComp_key k ++ TP ":" :: sub slot_DictComp_value v ++ TP " " :: comps gs ++ [TP "}"]
    | IfExp t b o => sub slot_IfExp_body b ++ TP " if " :: sub slot_IfExp_test t ++ TP " else " :: sub slot_IfExp_orelse o
    | Yield None => [TP "yield"]
    | Yield (Some v) => TP "yield " :: sub slot_Yield_value v
    | YieldFrom v => TP "yield from " :: sub slot_YieldFrom_value v
    | Await v => TP "await " :: sub slot_Await_value v
    | Other _ => []
    end in
  paren (Nat.ltb slot (node_prec e)) body.

Definition unparse_toks (e : expr) : list tok := utoks slot_top DQ e.
Definition unparse (e : expr) : text := render (unparse_toks e).
