(* Model of oneliner/expr_unparse.py.  All precedences, slots, operator texts and the
   escape table come from the generated Tables.v; the templates (literal fragments and
   their order) are transcribed by hand and tied by string correspondence. *)
From Coq Require Import String Ascii List ZArith NArith Bool Arith.
From OL Require Import Sexp PyAst.
From OLGen Require Import Tables.
Import ListNotations.
Open Scope string_scope.
Open Scope list_scope.

Inductive tok :=
| TName (s : ident)
| TLit (c : const) (t : text)     (* a literal, with the exact text emitted for it *)
| TP (s : string)                 (* fixed fragment: punctuation / keyword, spaces included *)
| TFText (t : text).              (* literal part of an f-string (escaped, braces doubled) *)

Definition tok_text (t : tok) : text :=
  match t with
  | TName s => s2t s
  | TLit _ t => t
  | TP s => s2t s
  | TFText t => t
  end.

Definition render (ts : list tok) : text := flat_map tok_text ts.

Definition INF : nat := 256 * 256.

(* ---------- strings ---------- *)
Definition SQ : N := 39%N.
Definition DQ : N := 34%N.
Definition flipq (q : N) : N := if N.eqb q SQ then DQ else SQ.

Definition hexdigit (n : N) : N := if (n <? 10)%N then (48 + n)%N else (87 + n)%N.   (* lower case *)
Definition hex4 (c : N) : text :=
  [hexdigit (c / 4096 mod 16); hexdigit (c / 256 mod 16); hexdigit (c / 16 mod 16); hexdigit (c mod 16)]%N.
Definition is_surrogate (c : N) : bool := (55296 <=? c)%N && (c <=? 57343)%N.

Definition escape_cp (q : N) (c : N) : text :=
  match nth_error (if N.eqb q SQ then escape_table_sq else escape_table_dq) (N.to_nat c) with
  | Some t => t
  | None => if is_surrogate c then 92%N :: 117%N :: hex4 c   (* \udXXX *)
            else [c]      (* other code points above the table are emitted unchanged *)
  end.
Definition escape (q : N) (s : text) : text := flat_map (escape_cp q) s.

Definition LBRACE : N := 123%N.
Definition RBRACE : N := 125%N.
Definition double_braces (t : text) : text :=
  flat_map (fun c => if N.eqb c LBRACE then [LBRACE; LBRACE] else if N.eqb c RBRACE then [RBRACE; RBRACE] else [c]) t.

(* str.replace on code point lists (non-overlapping, left to right) *)
Fixpoint is_prefix (p t : text) : bool :=
  match p, t with
  | [], _ => true
  | a :: p', b :: t' => N.eqb a b && is_prefix p' t'
  | _ :: _, [] => false
  end.
Fixpoint replace_go (pat rep : text) (skip : nat) (t : text) : text :=
  match t with
  | [] => []
  | c :: r =>
      match skip with
      | S k => replace_go pat rep k r
      | O => if is_prefix pat t then rep ++ replace_go pat rep (length pat - 1) r else c :: replace_go pat rep 0 r
      end
  end.
Definition replace_text (pat rep t : text) : text := replace_go pat rep 0 t.
Definition nonfinite_text (r : text) : text :=
  replace_text (s2t "nan") (s2t "(1e309-1e309)") (replace_text (s2t "inf") (s2t "1e309") r).

Definition const_text (q : N) (c : const) : text :=
  match c with
  | CNone => s2t "None" | CTrue => s2t "True" | CFalse => s2t "False" | CEllipsis => s2t "..."
  | CInt z => s2t (z2s z)
  | CFloat r => nonfinite_text r | CComplex r => nonfinite_text r | CBytes r => r
  | CStr s => q :: escape q s ++ [q]
  end.

Definition is_digit (c : N) : bool := (48 <=? c)%N && (c <=? 57)%N.
Definition all_digits (t : text) : bool :=
  match t with [] => false | _ => forallb is_digit t end.

Definition node_prec (e : expr) : nat :=
  match e with
  | Name _ => node_prec_Name | Constant _ => node_prec_Constant | JoinedStr _ => node_prec_JoinedStr
  | FormattedValue _ _ _ => node_prec_FormattedValue | Starred _ => node_prec_Starred
  | BinOp _ o _ => binop_prec o | BoolOp o _ => boolop_prec o | UnaryOp o _ => unop_prec o
  | EList _ => node_prec_List | ETuple _ => node_prec_Tuple | ESet _ => node_prec_Set | EDict _ _ => node_prec_Dict
  | Compare _ _ _ => node_prec_Compare | Attribute _ _ => node_prec_Attribute | Subscript _ _ => node_prec_Subscript
  | Slice _ _ _ => node_prec_Slice | Call _ _ _ => node_prec_Call | NamedExpr _ _ => node_prec_NamedExpr
  | Lambda _ _ _ _ _ _ _ _ => node_prec_Lambda | ListComp _ _ => node_prec_ListComp | SetComp _ _ => node_prec_SetComp
  | GeneratorExp _ _ => node_prec_GeneratorExp | DictComp _ _ _ => node_prec_DictComp | IfExp _ _ _ => node_prec_IfExp
  | Yield _ => node_prec_Yield | YieldFrom _ => node_prec_YieldFrom | Await _ => node_prec_Await
  | Other _ => INF
  end.

Fixpoint join {X} (sep : list X) (ls : list (list X)) : list X :=
  match ls with
  | [] => []
  | [x] => x
  | x :: r => x ++ sep ++ join sep r
  end.

Definition paren (b : bool) (ts : list tok) : list tok := if b then TP "(" :: ts ++ [TP ")"] else ts.

(* the last [length ds] entries of [names] get "=default" *)
Fixpoint attach_defaults (names : list (list tok)) (ds : list (list tok)) : list (list tok) :=
  match names with
  | [] => []
  | n :: r =>
      if Nat.leb (length ds) (length r) then n :: attach_defaults r ds
      else match ds with
           | d :: ds' => (n ++ TP "=" :: d) :: attach_defaults r ds'
           | [] => n :: attach_defaults r []
           end
  end.

Fixpoint attach_kwdefaults (names : list (list tok)) (ds : list (option (list tok))) : list (list tok) :=
  match names, ds with
  | n :: r, Some d :: ds' => (n ++ TP "=" :: d) :: attach_kwdefaults r ds'
  | n :: r, None :: ds' => n :: attach_kwdefaults r ds'
  | ns, [] => ns
  | [], _ => []
  end.

Definition starts_with (c : N) (t : text) : bool := match t with x :: _ => N.eqb x c | [] => false end.
Definition ends_with (c : N) (t : text) : bool := starts_with c (rev t).
Definition ends_with2 (c : N) (t : text) : bool :=
  match rev t with a :: b :: _ => N.eqb a c && N.eqb b c | _ => false end.

(* helpers of [utoks], parameterised by the recursive function itself *)
Section Helpers.
  Variable U : nat -> N -> expr -> list tok.

  Definition comp_toks (q : N) (g : comprehension) : list tok :=
    match g with (t, i, ifs, a) =>
      (if a : bool then [TP "async "] else []) ++ TP "for " :: U slot_comp_target q t ++ TP " in " :: U slot_comp_iter q i
      ++ flat_map (fun f => TP " if " :: U slot_comp_if q f) ifs end.
  Definition comps_toks (q : N) (gs : list comprehension) : list tok :=
    join [TP " "] (map (comp_toks q) gs).

  (* _unparse_JoinedStr with quote [qq]; [split] = text inserted before a literal part that starts with "}"
     when the part before it ends in "}}" (empty list: never) *)
  Fixpoint fbody (split : list tok) (sl : nat) (qq : N) (vs : list expr) (prev : list tok) : list tok :=
    match vs with
    | [] => []
    | v :: r =>
        let part :=
          match v with
          | Constant (CStr s) =>
              let t := double_braces (escape qq s) in
              (match split with
               | [] => []
               | _ => if starts_with RBRACE t && ends_with2 RBRACE (render prev) then split else []
               end) ++ [TFText t]
          | FormattedValue _ _ _ => U sl qq v
          | _ => []
          end in
        part ++ fbody split sl qq r (match v with Constant (CStr _) | FormattedValue _ _ _ => part | _ => prev end)
    end.

  Fixpoint dict_toks (q : N) (ks : list (option expr)) (vs ws : list (list tok)) : list (list tok) :=
    match ks, vs, ws with
    | Some k :: ks', v :: vs', _ :: ws' => (U slot_Dict_key q k ++ TP ":" :: v) :: dict_toks q ks' vs' ws'
    | None :: ks', _ :: vs', w :: ws' => (TP "**" :: w) :: dict_toks q ks' vs' ws'
    | _, _, _ => []
    end.

  Fixpoint compare_toks (q : N) (cs : list expr) (ops : list cmpop) : list tok :=
    match cs, ops with
    | c :: cs', o :: ops' => TP (cmpop_text o) :: U slot_Compare_comparator q c ++ compare_toks q cs' ops'
    | _, _ => []
    end.

  Definition kw_toks (q : N) (kw : option ident * expr) : list tok :=
    match fst kw with
    | None => TP "**" :: U slot_Call_kwarg q (snd kw)
    | Some k => TName k :: TP "=" :: U slot_Call_kwarg q (snd kw)
    end.
End Helpers.

(* [q] is the quote of the enclosing string context ("outer_str_qm") *)
Fixpoint utoks (slot : nat) (q : N) (e : expr) {struct e} : list tok :=
  let U := fun s q0 x => utoks s q0 x in
  let sub := fun s x => utoks s q x in
  let body :=
    match e with
    | Name i => [TName i]
    | Constant c => [TLit c (const_text (flipq q) c)]
    | JoinedStr vs =>
        let qq := flipq q in
        TP "f" :: TFText [qq] :: fbody U [TFText [qq]; TP " f"; TFText [qq]] slot_JoinedStr_field qq vs [] ++ [TFText [qq]]
    | FormattedValue v conv spec =>
        let vt := sub slot_FormattedValue_value v in
        let st := match spec with
                  | Some (JoinedStr svs) => TP ":" :: fbody U [] slot_FormattedValue_spec_field q svs []
                  | Some _ => [TP ":"]
                  | None => []
                  end in
        TP "{" :: (if starts_with LBRACE (render vt) then [TP " "] else []) ++ vt
        ++ (if Z.eqb conv (-1) then [] else [TFText [33%N; Z.to_N conv]])       (* !r / !s / !a *)
        ++ st ++ [TP "}"]
    | Starred v => TP "*" :: sub slot_Starred_value v
    | BinOp l o r => sub (slot_BinOp_left o) l ++ TP (binop_text o) :: sub (slot_BinOp_right o) r
    | BoolOp o vs => join [TP (" " ++ boolop_text o ++ " ")%string] (map (sub (slot_BoolOp o)) vs)
    | UnaryOp o v => TP (unop_text o) :: sub (slot_UnaryOp o) v
    | EList l => TP "[" :: join [TP ","] (map (sub slot_List_elt) l) ++ [TP "]"]
    | ESet l => TP "{" :: join [TP ","] (map (sub slot_Set_elt) l) ++ [TP "}"]
    | ETuple l =>
        match l with
        | [x] => TP "(" :: sub slot_Tuple_elt x ++ [TP ",)"]
        | _ => TP "(" :: join [TP ","] (map (sub slot_Tuple_elt) l) ++ [TP ")"]
        end
    | EDict ks vs =>
        TP "{" :: join [TP ","] (dict_toks U q ks (map (sub slot_Dict_value) vs) (map (sub slot_Dict_starvalue) vs)) ++ [TP "}"]
    | Compare l ops cs => sub slot_Compare_left l ++ compare_toks U q cs ops
    | Attribute v a =>
        let vt := sub slot_Attribute_value v in
        paren (all_digits (render vt)) vt ++ [TP "."; TName a]
    | Subscript v s =>
        sub slot_Subscript_value v ++ TP "[" ::
          (match s with
           | ETuple items =>
               if existsb (fun x => match x with Slice _ _ _ => true | _ => false end) items then
                 (* an index tuple containing a slice is printed without parentheses *)
                 join [TP ","] (map (sub slot_Subscript_tuple_item) items) ++ (match items with [_] => [TP ","] | _ => [] end)
               else sub slot_Subscript_slice s
           | _ => sub slot_Subscript_slice s
           end) ++ [TP "]"]
    | Slice a b c =>
        (match a with Some x => sub slot_Slice_lower x | None => [] end) ++ TP ":" ::
        (match b with Some x => sub slot_Slice_upper x | None => [] end) ++ TP ":" ::
        (match c with Some x => sub slot_Slice_step x | None => [] end)
    | Call f args kws =>
        sub slot_Call_func f ++ TP "(" ::
          (match args, kws with
           | [x], [] => sub slot_Call_onlyarg x
           | _, _ => join [TP ","] (map (sub slot_Call_arg) args ++ map (kw_toks U q) kws)
           end) ++ [TP ")"]
    | NamedExpr t v => TName t :: TP ":=" :: sub slot_NamedExpr_value v
    | Lambda po ar va ko kd kw de body =>
        let pos := attach_defaults (map (fun n => [TName n]) (po ++ ar)) (map (sub slot_Lambda_default) de) in
        let pos := match po with [] => pos | _ => firstn (length po) pos ++ [TP "/"] :: skipn (length po) pos end in
        let star := match va with Some n => [[TP "*"; TName n]] | None => match ko with [] => [] | _ => [[TP "*"]] end end in
        let kws := attach_kwdefaults (map (fun n => [TName n]) ko)
                     (map (fun d => match d with Some x => Some (sub slot_Lambda_kwdefault x) | None => None end) kd) in
        let kwa := match kw with Some n => [[TP "**"; TName n]] | None => [] end in
        let all := pos ++ star ++ kws ++ kwa in
        TP "lambda" :: (match all with [] => [] | _ => TP " " :: join [TP ","] all end) ++ TP ":" :: sub slot_Lambda_body body
    | ListComp x gs => TP "[" :: sub slot_ListComp_elt x ++ TP " " :: comps_toks U q gs ++ [TP "]"]
    | SetComp x gs => TP "{" :: sub slot_SetComp_elt x ++ TP " " :: comps_toks U q gs ++ [TP "}"]
    | GeneratorExp x gs => sub slot_GeneratorExp_elt x ++ TP " " :: comps_toks U q gs
    | DictComp k v gs => TP "{" :: sub slot_DictComp_key k ++ TP ":" :: sub slot_DictComp_value v ++ TP " " :: comps_toks U q gs ++ [TP "}"]
    | IfExp t b o => sub slot_IfExp_body b ++ TP " if " :: sub slot_IfExp_test t ++ TP " else " :: sub slot_IfExp_orelse o
    | Yield None => [TP "yield"]
    | Yield (Some v) => TP "yield " :: sub slot_Yield_value v
    | YieldFrom v => TP "yield from " :: sub slot_YieldFrom_value v
    | Await v => TP "await " :: sub slot_Await_value v
    | Other _ => []
    end in
  paren (Nat.ltb slot (node_prec e)) body.

Definition unparse_toks (e : expr) : list tok := utoks slot_top DQ e.
Definition unparse (e : expr) : text := render (unparse_toks e).
