(* S-expression bridge between the Python harness and the Coq models.
   Everything the correspondence check feeds to a model, and everything a model
   answers, goes through this file: the OCaml driver only moves lines of text. *)
From Coq Require Import String Ascii List ZArith NArith DecimalString Bool.
Import ListNotations.
Open Scope string_scope.

Inductive sexp := A (s : string) | L (l : list sexp).

(* ---------- decimal numbers ---------- *)
Definition z2s (z : Z) : string := NilZero.string_of_int (Z.to_int z).
Definition s2z (s : string) : option Z := option_map Z.of_int (NilZero.int_of_string s).
Definition n2s (n : N) : string := z2s (Z.of_N n).
Definition s2n (s : string) : option N :=
  match s2z s with Some z => if (z <? 0)%Z then None else Some (Z.to_N z) | None => None end.
Definition nat2s (n : nat) : string := z2s (Z.of_nat n).

(* ---------- reading ---------- *)
Definition is_space (c : ascii) : bool :=
  match c with " "%char => true | "010"%char => true | "009"%char => true | "013"%char => true | _ => false end.

Definition string_of_rev (cs : list ascii) : string :=
  fold_left (fun acc c => String c acc) cs EmptyString.

Definition flush (cur : list ascii) (top : list sexp) : list sexp :=
  match cur with [] => top | _ => A (string_of_rev cur) :: top end.

(* [top] is the reversed list being built, [stack] the reversed enclosing lists *)
Fixpoint read_sx (cs : list ascii) (cur : list ascii) (top : list sexp) (stack : list (list sexp))
  : option (list sexp) :=
  match cs with
  | [] => match stack with [] => Some (rev (flush cur top)) | _ => None end
  | c :: r =>
    if Ascii.eqb c "("%char then read_sx r [] [] (flush cur top :: stack)
    else if Ascii.eqb c ")"%char then
      match stack with
      | [] => None
      | up :: stack' => read_sx r [] (L (rev (flush cur top)) :: up) stack'
      end
    else if is_space c then read_sx r [] (flush cur top) stack
    else read_sx r (c :: cur) top stack
  end.

Definition parse_sexps (s : string) : option (list sexp) :=
  read_sx (list_ascii_of_string s) [] [] [].
Definition parse_sexp (s : string) : option sexp :=
  match parse_sexps s with Some [x] => Some x | _ => None end.

(* ---------- printing ---------- *)
Section Print.
  Fixpoint print_sx (x : sexp) (k : string) : string :=
    match x with
    | A s => s ++ k
    | L l => "(" ++ (fix go (l : list sexp) (first : bool) (k : string) : string :=
               match l with
               | [] => ")" ++ k
               | y :: r => (if first then "" else " ") ++ print_sx y (go r false k)
               end) l true k
    end.
End Print.
Definition sexp_to_string (x : sexp) : string := print_sx x "".

(* ---------- generic helpers for decoders ---------- *)
Section MapM.
  Context {X Y : Type} (f : X -> option Y).
  Fixpoint mapM (l : list X) : option (list Y) :=
    match l with
    | [] => Some []
    | x :: r => match f x, mapM r with Some y, Some ys => Some (y :: ys) | _, _ => None end
    end.
End MapM.

Definition ident_of (x : sexp) : option string :=
  match x with A (String "'"%char s) => Some s | _ => None end.
Definition sx_ident (s : string) : sexp := A (String "'"%char s).
Definition z_of (x : sexp) : option Z := match x with A s => s2z s | _ => None end.
Definition n_of (x : sexp) : option N := match x with A s => s2n s | _ => None end.
Definition bool_of (x : sexp) : option bool :=
  match x with A "1" => Some true | A "0" => Some false | _ => None end.
Definition sx_bool (b : bool) : sexp := A (if b then "1" else "0").
Definition sx_z (z : Z) : sexp := A (z2s z).
Definition sx_n (n : N) : sexp := A (n2s n).
Definition sx_nat (n : nat) : sexp := A (nat2s n).

Definition opt_of {X} (f : sexp -> option X) (x : sexp) : option (option X) :=
  match x with
  | L [] => Some None
  | L [y] => option_map Some (f y)
  | _ => None
  end.
Definition sx_opt {X} (f : X -> sexp) (o : option X) : sexp :=
  match o with None => L [] | Some x => L [f x] end.

Definition list_of {X} (f : sexp -> option X) (x : sexp) : option (list X) :=
  match x with L l => mapM f l | _ => None end.

(* code point lists: (cp n n n) *)
Definition cps_of (x : sexp) : option (list N) := list_of n_of x.
Definition sx_cps (l : list N) : sexp := L (map sx_n l).

(* byte strings given as number lists: (117 110 ...) *)
Definition bytes_of (x : sexp) : option string :=
  match cps_of x with
  | Some l => Some (string_of_list_ascii (map ascii_of_N l))
  | None => None
  end.

Definition tag_is (t : string) (x : sexp) : bool :=
  match x with A s => String.eqb s t | _ => false end.
