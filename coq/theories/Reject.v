(* C08: unsupported constructs are rejected.  Over the converter model: a statement kind outside the
   dispatch table that the traversal reaches makes the whole conversion fail, at any nesting depth and in
   any position; so do yield / yield from / await at the head of any converted expression. *)
From Coq Require Import String List ZArith Bool Arith.
From OL Require Import Sexp PyAst Namespace Lower.
From OLGen Require Import Tables.
Import ListNotations.
Open Scope string_scope.
Open Scope list_scope.

Definition is_unsupported (s : stmt) : bool := match s with SUnsupported _ => true | _ => false end.

(* the statement kinds the model converts are exactly the keys of the code's dispatch table (generated) *)
Definition supported_kinds : list string :=
  ["AnnAssign"; "Assign"; "AugAssign"; "Break"; "ClassDef"; "Continue"; "Expr"; "For"; "FunctionDef"; "Global"; "If";
   "Import"; "ImportFrom"; "Module"; "Nonlocal"; "Pass"; "Return"; "While"].
Lemma dispatch_table_kinds : map fst dispatch_table = supported_kinds.
Proof. vm_compute. reflexivity. Qed.

Definition failed {X} (r : res X) : Prop := exists e, r = inr e.

Lemma rbind_failed {X Y} (r : res X) (f : X -> res Y) : failed r -> failed (rbind r f).
Proof. intros [e ->]. exists e. reflexivity. Qed.

Section Blocks.
  Variable cfg : config.
  Variable L : ctx -> path -> stmt -> res (list expr).

  Definition reached (Q : stmt -> bool) (b : list stmt) : bool := ex_live Q b.

  Lemma block_failed : forall (Q : stmt -> bool) b c p br i,
    (forall s, List.In s b -> Q s = true -> forall c p, failed (L c p s)) ->
    reached Q b = true -> failed (lower_block cfg L c p br i b).
  Proof.
    induction b as [|s rest IH]; intros c p br i HQ Hr; [discriminate|].
    unfold reached in *. cbn [ex_live] in Hr. cbn [lower_block].
    destruct (Q s) eqn:Es.
    - apply rbind_failed. apply HQ; [left; reflexivity|exact Es].
    - cbn [orb] in Hr. destruct (is_interrupt s) eqn:Ei; [discriminate|].
      destruct (L c (i :: br :: p) s) as [es|e]; [|exists e; reflexivity]. cbn [rbind].
      destruct rest as [|s2 rest']; [discriminate|].
      assert (F : failed (lower_block cfg L c p br (S i) (s2 :: rest'))).
      { apply IH; [|exact Hr]. intros s0 Hin. apply HQ. right. exact Hin. }
      destruct F as [e ->]. exists e. reflexivity.
  Qed.
End Blocks.

(* a statement reached by the traversal (dead code after break/continue/return is not converted at all) *)
Definition reaches_unsupported (s : stmt) : bool := visits is_unsupported s.

Theorem unsupported_stmt_rejected : forall cfg s c p,
  reaches_unsupported s = true -> failed (lower_stmt cfg c p s).
Proof.
  intros cfg. unfold reaches_unsupported.
  induction s using stmt_ind'; intros c p Hv; cbn [visits is_unsupported orb] in Hv; try discriminate.
  - (* If *) cbn [lower_stmt].
    destruct (ex_live (visits is_unsupported) b) eqn:Eb.
    + apply rbind_failed. apply (block_failed cfg _ (visits is_unsupported)); [|exact Eb].
      intros s0 Hin Hs c0 p0. rewrite Forall_forall in H. apply H; assumption.
    + cbn [orb] in Hv.
      destruct (lower_block cfg _ c p 0 0 b) as [b'|e]; [|exists e; reflexivity]. cbn [rbind].
      apply rbind_failed. apply (block_failed cfg _ (visits is_unsupported)); [|exact Hv].
      intros s0 Hin Hs c0 p0. rewrite Forall_forall in H0. apply H0; assumption.
  - (* While *) cbn [lower_stmt].
    destruct (ex_live (visits is_unsupported) b) eqn:Eb.
    + apply rbind_failed. apply (block_failed cfg _ (visits is_unsupported)); [|exact Eb].
      intros s0 Hin Hs c0 p0. rewrite Forall_forall in H. apply H; assumption.
    + cbn [orb] in Hv.
      destruct (lower_block cfg _ _ p 0 0 b) as [b'|e]; [|exists e; reflexivity]. cbn [rbind].
      apply rbind_failed. apply (block_failed cfg _ (visits is_unsupported)); [|exact Hv].
      intros s0 Hin Hs c0 p0. rewrite Forall_forall in H0. apply H0; assumption.
  - (* For *) cbn [lower_stmt].
    destruct (ex_live (visits is_unsupported) b) eqn:Eb.
    + apply rbind_failed. apply (block_failed cfg _ (visits is_unsupported)); [|exact Eb].
      intros s0 Hin Hs c0 p0. rewrite Forall_forall in H. apply H; assumption.
    + cbn [orb] in Hv.
      destruct (lower_block cfg _ _ p 0 0 b) as [b'|e]; [|exists e; reflexivity]. cbn [rbind].
      apply rbind_failed. apply (block_failed cfg _ (visits is_unsupported)); [|exact Hv].
      intros s0 Hin Hs c0 p0. rewrite Forall_forall in H0. apply H0; assumption.
  - (* FunctionDef *) cbn [lower_stmt].
    destruct (find_inner (c_nsp c) n ln) as [fn|]; [|exists ERuntime; reflexivity].
    destruct (n_kind fn); try (exists EAssert; reflexivity).
    destruct (rmap _ (a_defaults a)) as [ds|e]; [|exists e; reflexivity]. cbn [rbind].
    destruct (rmap _ (a_kw_defaults a)) as [kds|e]; [|exists e; reflexivity]. cbn [rbind].
    apply rbind_failed. apply (block_failed cfg _ (visits is_unsupported)); [|exact Hv].
    intros s0 Hin Hs c0 p0. rewrite Forall_forall in H. apply H; assumption.
  - (* ClassDef *) cbn [lower_stmt].
    destruct (find_inner (c_nsp c) n ln) as [cn|]; [|exists ERuntime; reflexivity].
    destruct (n_kind cn); try (exists EAssert; reflexivity).
    apply rbind_failed. apply (block_failed cfg _ (visits is_unsupported)); [|exact Hv].
    intros s0 Hin Hs c0 p0. rewrite Forall_forall in H. apply H; assumption.
  - (* Unsupported itself *) exists ERuntime. reflexivity.
Qed.

(* whole modules: every top-level statement is visited (a break/continue/return at module level is itself refused) *)
Lemma generate_nsp_global lt root g : generate_nsp lt root = inl g -> n_kind g = NGlobal.
Proof.
  unfold generate_nsp. destruct root as [k name ln syms fr nl ps ms ch].
  match goal with |- context [rbind ?x _] => destruct x as [[[inner marks] nx]|e] end; cbn [rbind]; [|discriminate].
  intros H. injection H as <-. reflexivity.
Qed.

Lemma interrupt_fails_at_top cfg g p s : n_kind g = NGlobal -> is_interrupt s = true ->
  failed (lower_stmt cfg (mkCtx g [] false) p s).
Proof.
  intros Hg Hi. destruct s; try discriminate; cbn [lower_stmt c_loops c_nsp]; try (exists ESyntax; reflexivity).
  rewrite Hg. exists ESyntax. reflexivity.
Qed.

Theorem unsupported_module_rejected : forall cfg root body,
  existsb reaches_unsupported body = true -> failed (lower_module cfg root body).
Proof.
  intros cfg root body H. unfold lower_module.
  destruct (generate_nsp (cfg_host_lt_312 cfg) root) as [g|e] eqn:Eg; [|exists e; reflexivity]. cbn [rbind].
  apply rbind_failed. assert (Hg := generate_nsp_global _ _ _ Eg).
  assert (G : forall i, failed (lower_block cfg (fun c0 p0 s0 => lower_stmt cfg c0 p0 s0) (mkCtx g [] false) [] 0 i body)).
  { induction body as [|s r IH]; intros i; [discriminate|].
    cbn [existsb] in H. cbn [lower_block].
    destruct (reaches_unsupported s) eqn:Es.
    - apply rbind_failed. apply unsupported_stmt_rejected. exact Es.
    - cbn [orb] in H.
      destruct (is_interrupt s) eqn:Ei.
      + apply rbind_failed. apply interrupt_fails_at_top; assumption.
      + destruct (lower_stmt cfg _ (i :: 0 :: []) s) as [a|e]; [|exists e; reflexivity]. cbn [rbind].
        destruct r as [|s2 r2]; [discriminate|].
        destruct (IH H (S i)) as [e He]. rewrite He. exists e. reflexivity. }
  apply G.
Qed.

(* expressions: generators and coroutines are refused by the expression rewriter wherever it arrives *)
Lemma yield_rejected : forall n comp inn v, transf n comp inn (Yield v) = inr ERuntime.
Proof. reflexivity. Qed.
Lemma yield_from_rejected : forall n comp inn v, transf n comp inn (YieldFrom v) = inr ERuntime.
Proof. reflexivity. Qed.
Lemma await_rejected : forall n comp inn v, transf n comp inn (Await v) = inr ERuntime.
Proof. reflexivity. Qed.

(* placement checks *)
Lemma break_outside_loop : forall cfg n r p, lower_stmt cfg (mkCtx n [] r) p SBreak = inr ESyntax.
Proof. reflexivity. Qed.
Lemma continue_outside_loop : forall cfg n r p, lower_stmt cfg (mkCtx n [] r) p SContinue = inr ESyntax.
Proof. reflexivity. Qed.
Lemma return_outside_function : forall cfg c p v, n_kind (c_nsp c) <> NFunction -> lower_stmt cfg c p (SReturn v) = inr ESyntax.
Proof. intros cfg c p v H. cbn [lower_stmt]. destruct (n_kind (c_nsp c)); try reflexivity. contradiction. Qed.

(* non-vacuity: an unsupported statement deep inside a supported program *)
Example reject_example :
  reaches_unsupported
    (SFunctionDef "f" 1%Z (mkArgs [] [] None [] [] None [])
       [SWhile (Name "c") [SIf (Name "d") [SPass; SUnsupported "Try"] []] []] []) = true.
Proof. reflexivity. Qed.

(* C08: a starred element in the target pattern of a comprehension clause (so, in particular, TWO of them) is refused. *)
Fixpoint star_in_target (t : expr) : bool :=
  match t with
  | Starred _ => true
  | ETuple l | EList l => existsb star_in_target l
  | _ => false
  end.

Lemma target_names_go_star : forall l,
  Forall (fun t => star_in_target t = true -> failed (target_names t)) l ->
  existsb star_in_target l = true ->
  failed ((fix go (l : list expr) : res (list ident) :=
             match l with
             | [] => ret []
             | x :: r => let! a := target_names x in let! b := go r in ret (a ++ b)
             end) l).
Proof.
  induction l as [|x r IH]; intros HF He; [discriminate|].
  inversion HF as [|? ? Hx Hr]; subst. cbn [existsb] in He.
  destruct (star_in_target x) eqn:Ex.
  - apply rbind_failed. apply Hx. reflexivity.
  - cbn [orb] in He. destruct (target_names x) as [a|e]; [|exists e; reflexivity]. cbn [rbind].
    apply rbind_failed. exact (IH Hr He).
Qed.

Lemma target_names_star : forall t, star_in_target t = true -> failed (target_names t).
Proof.
  induction t using expr_ind'; intros Hs; try discriminate Hs.
  - (* Starred *) exists ERuntime. reflexivity.
  - (* EList *) cbn [target_names star_in_target] in *. exact (target_names_go_star l H Hs).
  - (* ETuple *) cbn [target_names star_in_target] in *. exact (target_names_go_star l H Hs).
Qed.

Definition clause_star (g : comprehension) : bool := match g with (t, _, _, _) => star_in_target t end.

Lemma gen_names_star : forall gs, existsb clause_star gs = true -> failed (gen_names gs).
Proof.
  induction gs as [|[[[t i] ifs] a] r IH]; intros He; [discriminate|]. cbn [gen_names existsb clause_star] in *.
  destruct a; [exists ERuntime; reflexivity|].
  destruct (star_in_target t) eqn:Et.
  - apply rbind_failed. apply target_names_star. exact Et.
  - cbn [orb] in He. destruct (target_names t) as [x|e]; [|exists e; reflexivity]. cbn [rbind].
    apply rbind_failed. exact (IH He).
Qed.

Theorem starred_comprehension_target_rejected : forall n bd inn x k v gs, existsb clause_star gs = true ->
  failed (transf n bd inn (ListComp x gs)) /\ failed (transf n bd inn (SetComp x gs)) /\
  failed (transf n bd inn (GeneratorExp x gs)) /\ failed (transf n bd inn (DictComp k v gs)).
Proof.
  intros n bd inn x k v gs H. pose proof (gen_names_star gs H) as F.
  repeat split; cbn [transf]; apply rbind_failed; exact F.
Qed.
