(* C11: function definitions.  The lambda emitted for `def` carries the source's parameter lists unchanged
   (annotations are not part of the model: they are erased), the defaults are the rewritten source defaults in the
   same order, and decorators are applied bottom-up (nearest to the def first). *)
From Coq Require Import String List ZArith Bool Arith.
From OL Require Import Sexp PyAst Namespace Lower.
Import ListNotations.
Open Scope string_scope.
Open Scope list_scope.

(* d_k( ... d_2( d_1( f ) ) ) for the list [d_1; ...; d_k] *)
Definition decorate (ds : list expr) (f : expr) : expr := fold_left (fun acc d => call d [acc]) ds f.

Lemma deco_go n : forall ds acc r,
  (fix go (ds : list expr) (acc : expr) : res expr :=
     match ds with
     | [] => ret acc
     | d :: r => let! d' := tr n d in go r (call d' [acc])
     end) ds acc = inl r ->
  exists ds', rmap (tr n) ds = inl ds' /\ r = decorate ds' acc.
Proof.
  induction ds as [|d ds IH]; intros acc r H.
  - injection H as <-. exists []. split; reflexivity.
  - destruct (tr n d) as [d'|e] eqn:E; cbn [rbind] in H; [|discriminate].
    destruct (IH _ _ H) as [ds' [A ->]]. exists (d' :: ds'). split; [|reflexivity].
    cbn [rmap]. rewrite E. cbn [rbind]. rewrite A. reflexivity.
Qed.

Theorem funcdef_shape : forall cfg c p name ln args body decs es,
  lower_stmt cfg c p (SFunctionDef name ln args body decs) = inl es ->
  exists fn defaults' kwdefaults' decs' lbody e,
    find_inner (c_nsp c) name ln = Some fn /\
    rmap (tr (c_nsp c)) (a_defaults args) = inl defaults' /\
    rmap (fun d => match d with Some x => let! y := tr (c_nsp c) x in ret (Some y) | None => ret None end) (a_kw_defaults args) = inl kwdefaults' /\
    rmap (tr (c_nsp c)) (rev decs) = inl decs' /\
    let lam := Lambda (a_posonly args) (a_args args) (a_vararg args) (a_kwonly args) kwdefaults' (a_kwarg args) defaults' lbody in
    let decorated := decorate decs' lam in
    let final := hook_wrap p (n_is_method fn) name decs decorated in
    get_assign (c_nsp c) name final = inl e /\ es = [e].
Proof.
  intros cfg c p name ln args body decs es H. cbn [lower_stmt] in H.
  destruct (find_inner (c_nsp c) name ln) as [fn|] eqn:Ef; [|discriminate].
  destruct (n_kind fn); try discriminate.
  destruct (rmap (tr (c_nsp c)) (a_defaults args)) as [ds|] eqn:Ed; cbn [rbind] in H; [|discriminate].
  destruct (rmap _ (a_kw_defaults args)) as [kds|] eqn:Ek; cbn [rbind] in H; [|discriminate].
  destruct (lower_block cfg _ _ p 0 0 body) as [b'|] eqn:Eb; cbn [rbind] in H; [|discriminate].
  match type of H with (let! decorated := ?g in _) = _ => destruct g as [dec|] eqn:Eg end; cbn [rbind] in H; [|discriminate].
  destruct (deco_go _ _ _ _ Eg) as [decs' [Hd ->]].
  match type of H with (let! e := ?g in _) = _ => destruct g as [e|] eqn:Ee end; cbn [rbind ret] in H; [|discriminate].
  injection H as <-.
  eexists fn, ds, kds, decs', _, e. split; [reflexivity|]. split; [reflexivity|]. split; [reflexivity|]. split; [exact Hd|].
  cbn zeta. split; [exact Ee|reflexivity].
Qed.

(* with no defaults and no decorators the parameter lists are literally the source's *)
Corollary funcdef_params_copied : forall cfg c p name ln args body es,
  a_defaults args = [] -> a_kw_defaults args = map (fun _ => None) (a_kwonly args) ->
  lower_stmt cfg c p (SFunctionDef name ln args body []) = inl es ->
  exists fn lbody e,
    find_inner (c_nsp c) name ln = Some fn /\
    get_assign (c_nsp c) name
      (let lam := Lambda (a_posonly args) (a_args args) (a_vararg args) (a_kwonly args) (map (fun _ => None) (a_kwonly args)) (a_kwarg args) [] lbody in
       hook_wrap p (n_is_method fn) name [] lam) = inl e /\ es = [e].
Proof.
  intros cfg c p name ln args body es Hd Hk H.
  destruct (funcdef_shape _ _ _ _ _ _ _ _ _ H) as [fn [ds [kds [decs' [lbody [e [A [B [C [D E]]]]]]]]]].
  rewrite Hd in B. cbn in B. injection B as <-.
  rewrite Hk in C.
  assert (kds = map (fun _ => None) (a_kwonly args)).
  { clear -C. revert kds C. induction (a_kwonly args) as [|x r IH]; intros kds C; cbn in C.
    - injection C as <-. reflexivity.
    - destruct (rmap _ (map (fun _ => None) r)) as [r'|] eqn:Er; cbn in C; [|discriminate].
      injection C as <-. cbn. f_equal. apply IH. reflexivity. }
  subst kds. cbn in D. injection D as <-. cbn zeta in E. cbn [decorate fold_left] in E.
  exists fn, lbody, e. split; [exact A|exact E].
Qed.
