(* C13: destructuring of NESTED patterns.  Reference semantics of Python's unpacking on nested sequences, a sequential evaluator
   for the stores the converter emits (temporaries holding tuple(...) of an accessor, user names receiving accessors), and the
   proof that for every pattern - any nesting depth, at most one starred target per level, starred sub-patterns included -
   the emitted stores bind exactly what Python binds, in the same order. *)
From Coq Require Import String List ZArith Bool Arith Lia.
From OL Require Import Sexp PyAst Namespace Lower Unpack UnpackProof Names Fresh.
Import ListNotations.
Open Scope string_scope.
Open Scope list_scope.

Section Nested.
  Variable A : Type.
  Inductive val := VAtom (a : A) | VSeq (l : list val).
  Definition binds := list (ident * val).

  (* ---------- Python: target_list = value (language reference 7.2) ---------- *)
  Section Items.
    Variable bindf : expr -> val -> option binds.
    Fixpoint bind_items (ts : list expr) (l : list val) (starred : bool) {struct ts} : option binds :=
      match ts with
      | [] => match l with [] => Some [] | _ :: _ => None end
      | t0 :: ts' =>
          match t0 with
          | Starred t' =>
              if starred then None
              else
                let k := length ts' in
                if Nat.leb k (length l) then
                  match bindf t' (VSeq (firstn (length l - k) l)), bind_items ts' (skipn (length l - k) l) true with
                  | Some a, Some b => Some (a ++ b)
                  | _, _ => None
                  end
                else None
          | _ =>
              match l with
              | a :: l' =>
                  match bindf t0 a, bind_items ts' l' starred with
                  | Some x, Some y => Some (x ++ y)
                  | _, _ => None
                  end
              | [] => None
              end
          end
      end.
  End Items.

  Fixpoint bind (t : expr) (v : val) {struct t} : option binds :=
    match t with
    | Name x => Some [(x, v)]
    | ETuple ts => match v with VSeq l => bind_items (fun t0 v0 => bind t0 v0) ts l false | VAtom _ => None end
    | EList ts => match v with VSeq l => bind_items (fun t0 v0 => bind t0 v0) ts l false | VAtom _ => None end
    | _ => None
    end.

  (* ---------- the emitted stores, run in order ---------- *)
  Definition env := list (ident * list val).       (* temporaries: name -> the materialised tuple *)
  Fixpoint lookup (E : env) (n : ident) : option (list val) :=
    match E with [] => None | (k, v) :: r => if String.eqb k n then Some v else lookup r n end.

  Definition as_index (e : expr) : option (ident * Z) :=
    match e with
    | Subscript (Name n) i => match int_of i with Some z => Some (n, z) | None => None end
    | _ => None
    end.
  Definition as_slice (e : expr) : option (ident * Z * option Z) :=
    match e with
    | Call (Name f) [Subscript (Name n) (Slice (Some lo) hi None)] [] =>
        if String.eqb f "list" then
          match int_of lo with
          | Some l =>
              match hi with
              | None => Some (n, l, None)
              | Some h => match int_of h with Some hz => Some (n, l, Some hz) | None => None end
              end
          | None => None
          end
        else None
    | _ => None
    end.
  Definition eval_acc (E : env) (e : expr) : option val :=
    match as_index e with
    | Some (n, i) => match lookup E n with Some l => py_index val l i | None => None end
    | None =>
        match as_slice e with
        | Some (n, lo, hi) => match lookup E n with Some l => Some (VSeq (py_slice val l lo hi)) | None => None end
        | None => None
        end
    end.
  (* tmp := tuple(acc) *)
  Definition as_temp (e : expr) : option (ident * expr) :=
    match e with
    | NamedExpr x (Call (Name f) [acc] []) => if String.eqb f "tuple" then Some (x, acc) else None
    | _ => None
    end.
  Definition as_store (e : expr) : option (ident * expr) :=
    match e with NamedExpr x acc => Some (x, acc) | _ => None end.

  Fixpoint run (E : env) (es : list expr) : option (env * binds) :=
    match es with
    | [] => Some (E, [])
    | e :: r =>
        match as_temp e with
        | Some (x, acc) =>
            match eval_acc E acc with
            | Some (VSeq l) => run ((x, l) :: E) r
            | _ => None                                  (* tuple(non-iterable): TypeError *)
            end
        | None =>
            match as_store e with
            | Some (x, acc) =>
                match eval_acc E acc with
                | Some b => match run E r with Some (E', bs) => Some (E', (x, b) :: bs) | None => None end
                | None => None
                end
            | None => None
            end
        end
    end.

  Lemma run_app : forall a b E,
    run E (a ++ b) = match run E a with
                     | Some (E1, b1) => match run E1 b with Some (E2, b2) => Some (E2, b1 ++ b2) | None => None end
                     | None => None
                     end.
  Proof.
    induction a as [|e r IH]; intros b E.
    - cbn [app run]. destruct (run E b) as [[E2 b2]|]; reflexivity.
    - cbn [app run]. destruct (as_temp e) as [[x acc]|].
      + destruct (eval_acc E acc) as [[a0|l]|]; try reflexivity. apply IH.
      + destruct (as_store e) as [[x acc]|]; [|reflexivity].
        destruct (eval_acc E acc) as [v|]; [|reflexivity]. rewrite IH.
        destruct (run E r) as [[E1 b1]|]; [|reflexivity].
        destruct (run E1 b) as [[E2 b2]|]; reflexivity.
  Qed.

  Lemma lookup_app_skip : forall D E n, Forall (fun kv => fst kv <> n) D -> lookup (D ++ E) n = lookup E n.
  Proof.
    induction D as [|[k v] r IH]; intros E n HF; [reflexivity|]. inversion HF as [|? ? Hk Hr]; subst.
    cbn [app lookup]. cbn [fst] in Hk. destruct (String.eqb_spec k n) as [->|_]; [contradiction|]. apply IH. exact Hr.
  Qed.

  (* an accessor that evaluates is not a tuple(...) call: a user store is never mistaken for a temporary *)
  Lemma acc_not_temp E sub v x : eval_acc E sub = Some v -> as_temp (NamedExpr x sub) = None.
  Proof.
    intros H. unfold as_temp. destruct sub; try reflexivity.
    destruct sub; try reflexivity. destruct args as [|a0 [|a1 r]]; try reflexivity. destruct keywords; try reflexivity.
    destruct (String.eqb_spec id "tuple") as [->|_]; [|reflexivity].
    exfalso. unfold eval_acc in H. cbn [as_index] in H. unfold as_slice in H.
    destruct a0; try discriminate H. destruct a0_1; try discriminate H. destruct a0_2; try discriminate H.
    destruct lower as [lo|]; try discriminate H. destruct step; discriminate H.
  Qed.

  (* ---------- the theorem ---------- *)
  Variable g : nsp.
  Hypothesis Hg : n_kind g = NGlobal.

  Definition tmpname (q : path) : ident := ol "assign" (path_str q).
  Definition at_or_below (q : path) (n : ident) : Prop := exists q', n = tmpname (q' ++ q).

  Lemma tmpname_ne q' q : q' <> [] -> tmpname (q' ++ q) <> tmpname q.
  Proof.
    intros Hne. unfold tmpname. apply helpers_distinct_positions. intros E.
    apply (f_equal (@length nat)) in E. rewrite app_length in E. destruct q'; [contradiction|cbn [length] in E; lia].
  Qed.

  (* what the induction proves of a target: the statement for the target itself; for a starred element, for its target *)
  Definition S_stmt (t : expr) : Prop :=
    forall q sub E v bs, eval_acc E sub = Some v -> bind t v = Some bs ->
      exists stores D, assign_auto g q t sub = inl stores /\ run E stores = Some (D ++ E, bs) /\
                       Forall (fun kv => at_or_below q (fst kv)) D.
  Definition P_stmt (t : expr) : Prop := match t with Starred t' => S_stmt t' | _ => S_stmt t end.

  Lemma bind_items_true_length bf : forall ts l bs, bind_items bf ts l true = Some bs -> length ts = length l.
  Proof.
    induction ts as [|t ts IH]; intros l bs H; cbn [bind_items] in H.
    - destruct l; [reflexivity|discriminate].
    - assert (G : forall a l', l = a :: l' ->
                 match bf t a, bind_items bf ts l' true with Some x, Some y => Some (x ++ y) | _, _ => None end = Some bs ->
                 length (t :: ts) = length l).
      { intros a l' -> H'. destruct (bf t a); [|discriminate]. destruct (bind_items bf ts l' true) as [y|] eqn:E; [|discriminate].
        cbn [length]. f_equal. apply (IH l' y E). }
      destruct t; try (destruct l as [|a l']; [discriminate|apply (G a l' eq_refl H)]). discriminate H.
  Qed.

  Lemma assign_name_g q x sub : assign_auto g q (Name x) sub = inl [NamedExpr x sub].
  Proof. cbn. unfold get_assign. rewrite Hg. reflexivity. Qed.

  Lemma S_name x : S_stmt (Name x).
  Proof.
    intros q sub E v bs Hacc Hb. cbn [bind] in Hb. injection Hb as <-.
    exists [NamedExpr x sub], []. split; [apply assign_name_g|]. split; [|constructor].
    cbn [run app]. rewrite (acc_not_temp E sub v x Hacc). cbn [as_store]. rewrite Hacc. reflexivity.
  Qed.

  (* the loop over the elements of one pattern level; tmp = tmpname q holds the materialised sequence pre ++ cur *)
  Section Level.
    Variable q : path.
    Variable n : nat.                      (* number of targets of this level *)
    Let go := pattern_go (fun p0 t0 v0 => assign_auto g p0 t0 v0) (Name (tmpname q)) (Z.of_nat n) q.
    Let bindi := bind_items (fun t0 v0 => bind t0 v0).
    Definition child_names (D : env) : Prop := Forall (fun kv => exists j q', fst kv = tmpname (q' ++ j :: q)) D.

    Lemma child_names_skip D E : child_names D -> lookup (D ++ E) (tmpname q) = lookup E (tmpname q).
    Proof.
      intros HD. apply lookup_app_skip. unfold child_names in HD. rewrite Forall_forall in HD |- *. intros kv Hin.
      destruct (HD kv Hin) as [j [q' ->]]. replace (q' ++ j :: q) with ((q' ++ [j]) ++ q) by (rewrite <- app_assoc; reflexivity).
      apply tmpname_ne. destruct q'; discriminate.
    Qed.

    Lemma child_of_below j D : Forall (fun kv => at_or_below (j :: q) (fst kv)) D -> child_names D.
    Proof.
      unfold child_names. intros H. rewrite Forall_forall in H |- *. intros kv Hin. destruct (H kv Hin) as [q' ->]. exists j, q'. reflexivity.
    Qed.

    Lemma level_go : forall ts, Forall P_stmt ts ->
      forall index starred (pre cur : list val) E bs,
        lookup E (tmpname q) = Some (pre ++ cur) -> (starred = false -> length pre = index) -> n = index + length ts ->
        bindi ts cur starred = Some bs ->
        exists stores D, go ts index starred = inl stores /\ run E stores = Some (D ++ E, bs) /\ child_names D.
    Proof.
      induction ts as [|t ts IH]; intros HF index starred pre cur E bs Hlk Hpre Hn Hb.
      - unfold bindi in Hb. cbn [bind_items] in Hb. destruct cur; [|discriminate]. injection Hb as <-.
        exists [], []. split; [reflexivity|]. split; [reflexivity|constructor].
      - pose proof (Forall_inv HF) as Ht. pose proof (Forall_inv_tail HF) as HFr.
        assert (Hplain : (forall t', t <> Starred t') -> S_stmt t ->
                  exists stores D, go (t :: ts) index starred = inl stores /\ run E stores = Some (D ++ E, bs) /\ child_names D).
        { intros Hns HS. unfold bindi in Hb. cbn [bind_items] in Hb.
          assert (Hb' : match cur with
                        | a :: l' => match bind t a, bind_items (fun t0 v0 => bind t0 v0) ts l' starred with
                                     | Some x, Some y => Some (x ++ y) | _, _ => None end
                        | [] => None end = Some bs).
          { destruct t; try exact Hb. exfalso. eapply Hns. reflexivity. }
          clear Hb. destruct cur as [|a cur']; [discriminate|].
          destruct (bind t a) as [b0|] eqn:Eb0; [|discriminate].
          destruct (bind_items (fun t0 v0 => bind t0 v0) ts cur' starred) as [bR|] eqn:EbR; [|discriminate]. injection Hb' as <-.
          set (sub := Subscript (Name (tmpname q)) (if starred then nint (Z.of_nat index - Z.of_nat n)%Z else cint (Z.of_nat index))).
          assert (Hacc : eval_acc E sub = Some a).
          { unfold eval_acc, sub. cbn [as_index].
            assert (Hi : int_of (if starred then nint (Z.of_nat index - Z.of_nat n)%Z else cint (Z.of_nat index)) =
                         Some (if starred then Z.of_nat index - Z.of_nat n else Z.of_nat index)%Z)
              by (destruct starred; [apply int_of_nint|apply int_of_cint]).
            rewrite Hi. rewrite Hlk. destruct starred.
            - pose proof (bind_items_true_length _ ts cur' bR EbR) as Hlen.
              apply (py_index_back val pre cur' a index n); cbn [length] in Hn; lia.
            - rewrite <- (Hpre eq_refl). apply py_index_front. }
          destruct (HS (index :: q) sub E a b0 Hacc Eb0) as [st0 [D0 [Ha0 [Hr0 HD0]]]].
          pose proof (child_of_below index D0 HD0) as HC0.
          destruct (IH HFr (S index) starred (pre ++ [a]) cur' (D0 ++ E) bR) as [stR [DR [HgR [HrR HDR]]]].
          + rewrite child_names_skip by exact HC0. rewrite <- app_assoc. exact Hlk.
          + intros Hst. rewrite app_length. cbn [length]. specialize (Hpre Hst). lia.
          + cbn [length] in Hn. lia.
          + exact EbR.
          + exists (st0 ++ stR), (DR ++ D0). split; [|split].
            * unfold go in *. cbn [pattern_go]. fold sub.
              assert (Hgo : forall (X : res (list expr)), (match t with Starred _ => X | _ =>
                        let! a1 := assign_auto g (index :: q) t sub in
                        let! b1 := pattern_go (fun p0 t0 v0 => assign_auto g p0 t0 v0) (Name (tmpname q)) (Z.of_nat n) q ts (S index) starred in
                        ret (a1 ++ b1) end) = inl (st0 ++ stR)).
              { intros X. destruct t; try (rewrite Ha0; cbn [rbind]; rewrite HgR; reflexivity). exfalso. eapply Hns. reflexivity. }
              destruct t; try apply (Hgo (inr ESyntax)). exfalso. eapply Hns. reflexivity.
            * rewrite run_app, Hr0, HrR. rewrite <- app_assoc. reflexivity.
            * apply Forall_app. split; assumption. }
        destruct t; try (apply Hplain; [intros t' Hx; discriminate Hx|exact Ht]).
        (* the starred target takes the middle *)
        cbn beta iota in Ht. unfold bindi in Hb. cbn [bind_items] in Hb. destruct starred; [discriminate|].
        destruct (Nat.leb (length ts) (length cur)) eqn:Hle; [|discriminate]. apply Nat.leb_le in Hle.
        destruct (bind t (VSeq (firstn (length cur - length ts) cur))) as [b0|] eqn:Eb0; [|discriminate].
        destruct (bind_items (fun t0 v0 => bind t0 v0) ts (skipn (length cur - length ts) cur) true) as [bR|] eqn:EbR; [|discriminate].
        injection Hb as <-.
        set (upper := (Z.of_nat index - Z.of_nat n + 1)%Z).
        set (sub := call (Name "list") [Subscript (Name (tmpname q))
                       (Slice (Some (cint (Z.of_nat index))) (if Z.eqb upper 0 then None else Some (nint upper)) None)]).
        assert (Hacc : eval_acc E sub = Some (VSeq (firstn (length cur - length ts) cur))).
        { unfold eval_acc, sub, call. cbn [as_index]. unfold as_slice. cbn [String.eqb Ascii.eqb Bool.eqb]. rewrite int_of_cint.
          assert (Hs := py_slice_star val n pre cur (length ts) index (Hpre eq_refl) Hle ltac:(cbn [length] in Hn; lia)). fold upper in Hs.
          revert Hs. destruct (Z.eqb upper 0); intros Hs; rewrite ?int_of_nint; rewrite Hlk, Hs; reflexivity. }
        destruct (Ht (index :: q) sub E _ b0 Hacc Eb0) as [st0 [D0 [Ha0 [Hr0 HD0]]]].
        pose proof (child_of_below index D0 HD0) as HC0.
        destruct (IH HFr (S index) true (pre ++ firstn (length cur - length ts) cur) (skipn (length cur - length ts) cur) (D0 ++ E) bR)
          as [stR [DR [HgR [HrR HDR]]]].
        + rewrite child_names_skip by exact HC0. rewrite <- app_assoc, firstn_skipn. exact Hlk.
        + discriminate.
        + cbn [length] in Hn. lia.
        + exact EbR.
        + exists (st0 ++ stR), (DR ++ D0). split; [|split].
          * unfold go in *. cbn [pattern_go]. fold upper. fold sub. rewrite Ha0. cbn [rbind]. rewrite HgR. reflexivity.
          * rewrite run_app, Hr0, HrR. rewrite <- app_assoc. reflexivity.
          * apply Forall_app. split; assumption.
    Qed.
  End Level.

  (* one level: tmp := tuple(sub), then the elements *)
  Lemma S_seq (mk : list expr -> expr) ts :
    (forall p v, assign_auto g p (mk ts) v =
       (let tmp := ol "assign" (path_str p) in
        let! rest := pattern_go (fun p0 t0 v0 => assign_auto g p0 t0 v0) (Name tmp) (Z.of_nat (length ts)) p ts 0 false in
        ret (NamedExpr tmp (call (Name "tuple") [v]) :: rest))) ->
    (forall v, bind (mk ts) v = match v with VSeq l => bind_items (fun t0 v0 => bind t0 v0) ts l false | VAtom _ => None end) ->
    Forall P_stmt ts -> S_stmt (mk ts).
  Proof.
    intros Hass Hbind HF q sub E v bs Hacc Hb. rewrite Hbind in Hb. destruct v as [a|l]; [discriminate|].
    destruct (level_go q (length ts) ts HF 0 false [] l ((tmpname q, l) :: E) bs) as [stores [D [Hgo [Hrun HD]]]].
    - cbn [lookup app]. rewrite String.eqb_refl. reflexivity.
    - reflexivity.
    - reflexivity.
    - exact Hb.
    - exists (NamedExpr (tmpname q) (call (Name "tuple") [sub]) :: stores), (D ++ [(tmpname q, l)]).
      split; [|split].
      + rewrite Hass. cbv zeta. fold (tmpname q). rewrite Hgo. reflexivity.
      + cbn [run]. unfold as_temp, call. cbn [String.eqb Ascii.eqb Bool.eqb]. rewrite Hacc. rewrite Hrun.
        rewrite <- app_assoc. reflexivity.
      + apply Forall_app. split.
        * unfold child_names in HD. rewrite Forall_forall in HD |- *. intros kv Hin. destruct (HD kv Hin) as [j [q' ->]].
          exists (q' ++ [j]). rewrite <- app_assoc. reflexivity.
        * constructor; [exists []; reflexivity|constructor].
  Qed.

  Theorem S_all : forall t, P_stmt t.
  Proof.
    induction t using expr_ind'; cbn beta iota;
      try (intros q0 sub0 E0 v0 bs0 Hacc Hb; discriminate Hb).
    - apply S_name.
    - (* Starred t: the statement is about t *)
      destruct t; try exact IHt. intros q sub E v bs Hacc Hb. discriminate Hb.
    - apply (S_seq EList l); [reflexivity|reflexivity|exact H].
    - apply (S_seq ETuple l); [reflexivity|reflexivity|exact H].
  Qed.
End Nested.

(* The theorem: any nesting of tuple / list patterns, at most one starred target per level (a starred target may itself be a
   pattern), at module level.  The first store materialises the value; the remaining stores, run in order from the
   environment in which that temporary holds the value's items, bind exactly what Python binds, in Python's order. *)
Theorem unpack_nested_correct : forall (A : Type) (g : nsp) (p : path) (ts : list expr) (tuple_form : bool) (value : expr)
    (l : list (val A)) bs,
  n_kind g = NGlobal ->
  let t := if tuple_form then ETuple ts else EList ts in
  bind A t (VSeq A l) = Some bs ->
  exists stores E',
    assign_auto g p t value = inl (NamedExpr (ol "assign" (path_str p)) (call (Name "tuple") [value]) :: stores)
    /\ run A [(ol "assign" (path_str p), l)] stores = Some (E', bs).
Proof.
  intros A g p ts tuple_form value l bs Hg t Hb.
  assert (HF : Forall (P_stmt A g) ts) by (apply Forall_forall; intros x _; apply S_all; exact Hg).
  assert (Hb' : bind_items A (fun t0 v0 => bind A t0 v0) ts l false = Some bs) by (subst t; destruct tuple_form; exact Hb).
  destruct (level_go A g p (length ts) ts HF 0 false [] l [(tmpname p, l)] bs) as [stores [D [Hgo [Hrun _]]]].
  - cbn [lookup app]. rewrite String.eqb_refl. reflexivity.
  - reflexivity.
  - reflexivity.
  - exact Hb'.
  - exists stores, (D ++ [(tmpname p, l)]). split; [|exact Hrun].
    subst t. destruct tuple_form; cbn [assign_auto]; fold (tmpname p); rewrite Hgo; reflexivity.
Qed.

(* a pattern with two starred targets on one level binds nothing (SyntaxError in Python; the converter refuses it, C13_two_stars_rejected) *)
Lemma bind_two_stars (A : Type) x y pre mid post (l : list (val A)) :
  Forall (fun t => exists z, t = Name z) pre -> Forall (fun t => exists z, t = Name z) mid ->
  length pre <= length l ->
  bind A (ETuple (pre ++ Starred (Name x) :: mid ++ Starred (Name y) :: post)) (VSeq A l) = None.
Proof.
  intros Hpre Hmid. cbn [bind]. revert l. induction pre as [|t pre IH]; intros l Hl.
  - cbn [app bind_items]. destruct (Nat.leb _ _); [|reflexivity]. cbn [bind].
    set (tail := skipn _ l). clearbody tail. clear Hl.
    assert (G : forall tl, bind_items A (fun t0 v0 => bind A t0 v0) (mid ++ Starred (Name y) :: post) tl true = None).
    { induction mid as [|m mid IHm]; intros tl.
      - reflexivity.
      - inversion Hmid as [|? ? [z ->] Hm']; subst. cbn [app bind_items]. destruct tl as [|a tl']; [reflexivity|].
        cbn [bind]. rewrite (IHm Hm'). reflexivity. }
    rewrite G. reflexivity.
  - inversion Hpre as [|? ? [z ->] Hp']; subst. cbn [app bind_items]. destruct l as [|a l']; [reflexivity|].
    cbn [bind]. cbn [length] in Hl. rewrite (IH Hp' l') by lia. reflexivity.
Qed.

(* non-vacuity:  (a, (b, *c)), *d, [e] = ...  *)
Example unpack_nested_example :
  let t := ETuple [ETuple [Name "a"; ETuple [Name "b"; Starred (Name "c")]]; Starred (Name "d"); EList [Name "e"]] in
  let v := VSeq nat [VSeq nat [VAtom nat 1; VSeq nat [VAtom nat 2; VAtom nat 3; VAtom nat 4]]; VAtom nat 5; VAtom nat 6; VSeq nat [VAtom nat 7]] in
  bind nat t v = Some [("a", VAtom nat 1); ("b", VAtom nat 2); ("c", VSeq nat [VAtom nat 3; VAtom nat 4]);
                       ("d", VSeq nat [VAtom nat 5; VAtom nat 6]); ("e", VAtom nat 7)].
Proof. vm_compute. reflexivity. Qed.
