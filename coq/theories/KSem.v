(* C05: control-flow skeletons.
   - [sk]: skeleton statements over opaque probes, embedded into the statement AST the converter takes;
   - [exec]: their reference semantics (language reference 8.1-8.3, 7.6, 7.9-7.10) as a fuelled interpreter
     producing a trace of markers, condition evaluations and iterator calls;
   - [run]: evaluation rules for the scaffolding expressions the converter emits (list display as
     sequencing, conditional / boolean operators, walrus, the takewhile/count and iterator-wrapper
     comprehension idioms, [..][-1], the zero-argument lambda call).
   Both are models of CPython, validated by running source and converted text with instrumented probes. *)
From Coq Require Import String Ascii List ZArith Bool Arith Lia.
From OL Require Import Sexp PyAst Namespace Lower.
Import ListNotations.
Open Scope string_scope.
Open Scope list_scope.

(* ---------- skeletons ---------- *)
Inductive sk :=
| KMark (k : Z)
| KPass
| KBreak
| KContinue
| KReturn (v : option Z)
| KIf (c : Z) (b o : list sk)
| KWhile (c : Z) (b o : list sk)
| KFor (k : Z) (b o : list sk).

Definition probe (f : string) (k : Z) : expr := Call (Name f) [Constant (CInt k)] [].

Fixpoint embed (s : sk) : stmt :=
  match s with
  | KMark k => SExpr (probe "m" k)
  | KPass => SPass
  | KBreak => SBreak
  | KContinue => SContinue
  | KReturn None => SReturn None
  | KReturn (Some k) => SReturn (Some (probe "v" k))
  | KIf c b o => SIf (probe "c" c) (map embed b) (map embed o)
  | KWhile c b o => SWhile (probe "c" c) (map embed b) (map embed o)
  | KFor k b o => SFor (Name "x") (probe "it" k) (map embed b) (map embed o)
  end.

(* ---------- values, events, machine state ---------- *)
Inductive val :=
| VNone | VBool (b : bool) | VEll | VInt (z : Z)
| VProbe (k : Z)            (* the object returned by v(k) *)
| VList (n : nat)           (* a list with n elements (contents never inspected again) *)
| VIterable (k : Z)         (* it(k) *)
| VWrap (k : Z)             (* __ol_iter_wrapper(it(k)) *)
| VFun (body : expr).       (* a zero-argument lambda *)

Inductive event :=
| EMark (k : Z) | ECond (k : Z) (b : bool) | EVal (k : Z)
| EIterable (k : Z) | EIter (k : Z) | ENext (k : Z) (b : bool)
| EResult (v : option Z).   (* r(f()) : what the function returned (None or the object of v(k)) *)

Definition truthy (v : val) : bool :=
  match v with
  | VNone => false | VBool b => b | VEll => true | VInt z => negb (Z.eqb z 0) | VProbe _ => true
  | VList n => negb (Nat.eqb n 0) | VIterable _ | VWrap _ | VFun _ => true
  end.

Definition env := list (ident * val).
Fixpoint lookup (e : env) (x : ident) : option val :=
  match e with [] => None | (k, v) :: r => if String.eqb k x then Some v else lookup r x end.
Definition bind (e : env) (x : ident) (v : val) : env := (x, v) :: e.

Record st := mkSt { s_env : env; s_tr : list event (* newest first *); s_pos : nat }.

Definition emit (s : st) (ev : event) : st := mkSt (s_env s) (ev :: s_tr s) (s_pos s).
Definition setv (s : st) (x : ident) (v : val) : st := mkSt (bind (s_env s) x v) (s_tr s) (s_pos s).
Definition tick (s : st) : st := mkSt (s_env s) (s_tr s) (S (s_pos s)).

(* where the `_break` attribute of the wrapper object held in variable itn lives in the environment *)
Definition brk_key (itn : ident) : ident := String "."%char itn.

(* ---------- the scaffolding evaluator ---------- *)
Inductive mode :=
| MExpr (e : expr)
| MSeq (es : list expr) (n : nat) (last : val) (as_list : bool)
      (* remaining elements, how many evaluated, last value; result: the list, or its last element ([..][-1]) *)
| MWhile (test body : expr)
| MForPlain (k : Z) (tgt : ident) (body : expr)
| MForWrap (itn : ident) (k : Z) (tgt : ident) (body : expr)
| MAnd (es : list expr) (last : val)
| MOr (es : list expr) (last : val).

Definition is_takewhile (it : expr) : option expr :=
  match it with
  | Call (Attribute (Name a) b) [Lambda [] [_] None [] [] None [] test; Call (Attribute (Name c) d) [] []] [] =>
      if String.eqb a "__ol_itertools" && String.eqb b "takewhile" && String.eqb c "__ol_itertools" && String.eqb d "count"
      then Some test else None
  | _ => None
  end.

Definition result_of (v : val) : option (option Z) :=
  match v with VNone => Some None | VProbe k => Some (Some k) | _ => None end.

Section Eval.
  Variable orc : nat -> bool.   (* outcome of the i-th condition evaluation / next() call *)

  Fixpoint run (fuel : nat) (m : mode) (s : st) {struct fuel} : option (val * st) :=
    match fuel with
    | O => None
    | S f =>
      match m with
      | MSeq [] n last as_list =>
          if as_list then Some (VList n, s) else match n with O => None | S _ => Some (last, s) end
      | MSeq (e :: r) n last as_list =>
          match run f (MExpr e) s with
          | Some (v, s1) => run f (MSeq r (S n) v as_list) s1
          | None => None
          end
      | MAnd [] last => Some (last, s)
      | MAnd (e :: r) last =>
          match run f (MExpr e) s with
          | Some (v, s1) => if truthy v then run f (MAnd r v) s1 else Some (v, s1)
          | None => None
          end
      | MOr [] last => Some (last, s)
      | MOr (e :: r) last =>
          match run f (MExpr e) s with
          | Some (v, s1) => if truthy v then Some (v, s1) else run f (MOr r v) s1
          | None => None
          end
      | MWhile test body =>
          match run f (MExpr test) s with
          | Some (v, s1) =>
              if truthy v then
                match run f (MExpr body) s1 with
                | Some (_, s2) => run f (MWhile test body) s2
                | None => None
                end
              else Some (VList 0, s1)
          | None => None
          end
      | MForPlain k tgt body =>
          let b := orc (s_pos s) in
          let s1 := emit (tick s) (ENext k b) in
          if b then
            match run f (MExpr body) (setv s1 tgt (VInt k)) with
            | Some (_, s2) => run f (MForPlain k tgt body) s2
            | None => None
            end
          else Some (VList 0, s1)
      | MForWrap itn k tgt body =>
          match lookup (s_env s) (brk_key itn) with
          | Some v =>
              if truthy v then Some (VList 0, s)          (* __next__ stops without touching the iterator *)
              else
                let b := orc (s_pos s) in
                let s1 := emit (tick s) (ENext k b) in
                if b then
                  match run f (MExpr body) (setv s1 tgt (VInt k)) with
                  | Some (_, s2) => run f (MForWrap itn k tgt body) s2
                  | None => None
                  end
                else Some (VList 0, s1)
          | None => None
          end
      | MExpr e =>
        match e with
        | Constant CTrue => Some (VBool true, s)
        | Constant CFalse => Some (VBool false, s)
        | Constant CNone => Some (VNone, s)
        | Constant CEllipsis => Some (VEll, s)
        | Constant (CInt z) => Some (VInt z, s)
        | Name x => match lookup (s_env s) x with Some v => Some (v, s) | None => None end
        | Lambda [] [] None [] [] None [] body => Some (VFun body, s)
        | NamedExpr x e1 =>
            match e1 with
            | Call (Name g) [it] [] =>
                if String.eqb g "__ol_iter_wrapper" then
                  (* the wrapper object: evaluates the iterable, takes iter() of it once, starts unbroken *)
                  match run f (MExpr it) s with
                  | Some (VIterable k, s1) =>
                      Some (VWrap k, setv (setv (emit s1 (EIter k)) (brk_key x) (VBool false)) x (VWrap k))
                  | _ => None
                  end
                else match run f (MExpr e1) s with Some (v, s1) => Some (v, setv s1 x v) | None => None end
            | _ => match run f (MExpr e1) s with Some (v, s1) => Some (v, setv s1 x v) | None => None end
            end
        | EList es => run f (MSeq es 0 VNone true) s
        | Subscript (EList es) (UnaryOp USub (Constant (CInt z))) =>
            if Z.eqb z 1 then run f (MSeq es 0 VNone false) s else None      (* [...][-1] *)
        | IfExp t b o =>
            match run f (MExpr t) s with
            | Some (v, s1) => if truthy v then run f (MExpr b) s1 else run f (MExpr o) s1
            | None => None
            end
        | UnaryOp Not e1 =>
            match run f (MExpr e1) s with
            | Some (v, s1) => Some (VBool (negb (truthy v)), s1)
            | None => None
            end
        | BoolOp And es => run f (MAnd es VNone) s
        | BoolOp Or es => run f (MOr es VNone) s
        | Attribute (Name itn) a =>
            if String.eqb a "_break"
            then match lookup (s_env s) (brk_key itn) with Some v => Some (v, s) | None => None end
            else None
        | Call (Name g) [] [] =>
            match lookup (s_env s) g with
            | Some (VFun body) => run f (MExpr body) s
            | _ => None
            end
        | Call (Name g) [Constant (CInt k)] [] =>
            if String.eqb g "m" then Some (VNone, emit s (EMark k))
            else if String.eqb g "c" then let b := orc (s_pos s) in Some (VBool b, emit (tick s) (ECond k b))
            else if String.eqb g "v" then Some (VProbe k, emit s (EVal k))
            else if String.eqb g "it" then Some (VIterable k, emit s (EIterable k))
            else None
        | Call (Name g) [Name itn; Constant (CStr _); e1] [] =>
            if String.eqb g "setattr" then
              match run f (MExpr e1) s with
              | Some (v, s1) => Some (VNone, setv s1 (brk_key itn) v)
              | None => None
              end
            else None
        | Call (Name g) [e1] [] =>
            if String.eqb g "r" then
              match run f (MExpr e1) s with
              | Some (v, s1) => match result_of v with Some r => Some (VNone, emit s1 (EResult r)) | None => None end
              | None => None
              end
            else if String.eqb g "__import__" then Some (VNone, s)
            else None
        | Call (Name g) [_; _; _] [] => if String.eqb g "type" then Some (VNone, s) else None
        | ListComp body [(Name tgt, it, [], false)] =>
            match is_takewhile it with
            | Some test => run f (MWhile test body) s
            | None =>
                match it with
                | Name itn =>
                    match lookup (s_env s) itn with
                    | Some (VWrap k) => run f (MForWrap itn k tgt body) s      (* __iter__ returns self *)
                    | _ => None
                    end
                | _ =>
                    match run f (MExpr it) s with
                    | Some (VIterable k, s1) => run f (MForPlain k tgt body) (emit s1 (EIter k))
                    | _ => None
                    end
                end
            end
        | _ => None
        end
      end
    end.
End Eval.

(* ---------- reference semantics of the skeletons ---------- *)
Inductive outcome := ONormal | OBreak | OContinue | OReturn (v : option Z).

Record sst := mkSst { x_tr : list event; x_pos : nat }.
Definition xemit (s : sst) (ev : event) : sst := mkSst (ev :: x_tr s) (x_pos s).
Definition xtick (s : sst) : sst := mkSst (x_tr s) (S (x_pos s)).

Inductive smode :=
| XBlock (b : list sk)
| XWhile (c : Z) (b o : list sk)
| XFor (k : Z) (b o : list sk).     (* iterating: iterable evaluated and iter() taken already *)

(* run the rest of the block only after a normal completion *)
Definition cont_with (k : sst -> option (outcome * sst)) (r : option (outcome * sst)) : option (outcome * sst) :=
  match r with
  | Some (ONormal, s1) => k s1
  | Some (o, s1) => Some (o, s1)
  | None => None
  end.

Section Exec.
  Variable orc : nat -> bool.

  Fixpoint exec (fuel : nat) (m : smode) (s : sst) {struct fuel} : option (outcome * sst) :=
    match fuel with
    | O => None
    | S f =>
      match m with
      | XBlock [] => Some (ONormal, s)
      | XBlock (st :: rest) =>
          let continue_with := cont_with (fun s1 => exec f (XBlock rest) s1) in
          match st with
          | KMark k => exec f (XBlock rest) (xemit s (EMark k))
          | KPass => exec f (XBlock rest) s
          | KBreak => Some (OBreak, s)
          | KContinue => Some (OContinue, s)
          | KReturn None => Some (OReturn None, s)
          | KReturn (Some k) => Some (OReturn (Some k), xemit s (EVal k))
          | KIf c b o =>
              let bit := orc (x_pos s) in
              continue_with (exec f (XBlock (if bit then b else o)) (xemit (xtick s) (ECond c bit)))
          | KWhile c b o => continue_with (exec f (XWhile c b o) s)
          | KFor k b o => continue_with (exec f (XFor k b o) (xemit (xemit s (EIterable k)) (EIter k)))
          end
      | XWhile c b o =>
          let bit := orc (x_pos s) in
          let s1 := xemit (xtick s) (ECond c bit) in
          if bit then
            match exec f (XBlock b) s1 with
            | Some (ONormal, s2) | Some (OContinue, s2) => exec f (XWhile c b o) s2
            | Some (OBreak, s2) => Some (ONormal, s2)              (* the else clause is skipped *)
            | Some (OReturn v, s2) => Some (OReturn v, s2)
            | None => None
            end
          else exec f (XBlock o) s1                                 (* test false: else clause *)
      | XFor k b o =>
          let bit := orc (x_pos s) in
          let s1 := xemit (xtick s) (ENext k bit) in
          if bit then
            match exec f (XBlock b) s1 with
            | Some (ONormal, s2) | Some (OContinue, s2) => exec f (XFor k b o) s2
            | Some (OBreak, s2) => Some (ONormal, s2)              (* no further next(), no else *)
            | Some (OReturn v, s2) => Some (OReturn v, s2)
            | None => None
            end
          else exec f (XBlock o) s1                                 (* exhausted: else clause *)
      end
    end.

  (* a function body called once, its result passed to r(..) *)
  Definition exec_function (fuel : nat) (b : list sk) : option sst :=
    match exec fuel (XBlock b) (mkSst [] 0) with
    | Some (ONormal, s) => Some (xemit s (EResult None))
    | Some (OReturn v, s) => Some (xemit s (EResult v))
    | _ => None
    end.
End Exec.

(* codecs *)
Fixpoint sk_of (x : sexp) : option sk :=
  let blk := fun (y : sexp) => match y with L l => mapM sk_of l | _ => None end in
  match x with
  | L [A "m"; k] => option_map KMark (z_of k)
  | L [A "pass"] => Some KPass
  | L [A "break"] => Some KBreak
  | L [A "continue"] => Some KContinue
  | L [A "return"; L []] => Some (KReturn None)
  | L [A "return"; L [k]] => option_map (fun z => KReturn (Some z)) (z_of k)
  | L [A "if"; k; b; o] => do k' <- z_of k; do b' <- blk b; do o' <- blk o; Some (KIf k' b' o')
  | L [A "while"; k; b; o] => do k' <- z_of k; do b' <- blk b; do o' <- blk o; Some (KWhile k' b' o')
  | L [A "for"; k; b; o] => do k' <- z_of k; do b' <- blk b; do o' <- blk o; Some (KFor k' b' o')
  | _ => None
  end.

Definition sx_event (e : event) : sexp :=
  match e with
  | EMark k => L [A "m"; sx_z k] | ECond k b => L [A "c"; sx_z k; sx_bool b] | EVal k => L [A "v"; sx_z k]
  | EIterable k => L [A "iterable"; sx_z k] | EIter k => L [A "iter"; sx_z k] | ENext k b => L [A "next"; sx_z k; sx_bool b]
  | EResult None => L [A "r"; L []] | EResult (Some k) => L [A "r"; L [sx_z k]]
  end.

Definition orc_of (bits : list bool) : nat -> bool := fun i => nth i bits false.
