(* C12: class members.  The converter runs the class body against a dictionary (stores become
   __setitem__ calls in body order) and then installs the dictionary's items on the already created class
   with setattr, in the dictionary's order.  Here: an insertion-ordered map with overwrite-in-place (Python's
   dict and class namespace), and the theorem that replaying the final items reproduces the map; plus the shape
   of the class header produced by the converter model. *)
From Coq Require Import String List ZArith Bool Arith Lia.
From OL Require Import Sexp PyAst Namespace Lower.
Import ListNotations.
Open Scope string_scope.
Open Scope list_scope.

Section OrderedMap.
  Variable V : Type.
  Definition omap := list (ident * V).

  (* d[k] = v : overwrite keeps the position, a new key goes last *)
  Fixpoint ostore (d : omap) (k : ident) (v : V) : omap :=
    match d with
    | [] => [(k, v)]
    | (k', v') :: r => if String.eqb k' k then (k', v) :: r else (k', v') :: ostore r k v
    end.

  Definition run_stores (stores : list (ident * V)) (d : omap) : omap :=
    fold_left (fun acc kv => ostore acc (fst kv) (snd kv)) stores d.

  Definition keys (d : omap) : list ident := map fst d.

  Lemma ostore_keys_in d k v x : List.In x (keys (ostore d k v)) <-> x = k \/ List.In x (keys d).
  Proof.
    induction d as [|[k' v'] r IH]; cbn.
    - split; [intros [<-|[]]; auto|intros [->|[]]; auto].
    - destruct (String.eqb_spec k' k) as [->|Hne]; cbn [keys map fst List.In] in *.
      + intuition.
      + rewrite IH. intuition.
  Qed.

  Lemma ostore_nodup d k v : NoDup (keys d) -> NoDup (keys (ostore d k v)).
  Proof.
    induction d as [|[k' v'] r IH]; intros H; cbn.
    - constructor; [intros []|constructor].
    - inversion H as [|? ? Hn Hr]; subst. destruct (String.eqb_spec k' k) as [->|Hne]; cbn.
      + constructor; assumption.
      + constructor; [|apply IH; exact Hr]. intros Hi. apply ostore_keys_in in Hi. destruct Hi as [->|Hi]; [congruence|contradiction].
  Qed.

  Lemma run_stores_nodup stores : forall d, NoDup (keys d) -> NoDup (keys (run_stores stores d)).
  Proof. induction stores as [|[k v] r IH]; intros d H; cbn; [exact H|]. apply IH. apply ostore_nodup. exact H. Qed.

  Lemma ostore_fresh d k v : ~ List.In k (keys d) -> ostore d k v = d ++ [(k, v)].
  Proof.
    induction d as [|[k' v'] r IH]; intros H; cbn; [reflexivity|].
    destruct (String.eqb_spec k' k) as [->|Hne]; [exfalso; apply H; left; reflexivity|].
    f_equal. apply IH. intros Hi. apply H. right. exact Hi.
  Qed.

  (* replaying a duplicate-free item list onto a map that shares no key with it appends it *)
  Lemma replay_append l : forall d, NoDup (keys l) -> (forall x, List.In x (keys l) -> ~ List.In x (keys d)) ->
    run_stores l d = d ++ l.
  Proof.
    induction l as [|[k v] r IH]; intros d Hn Hd; cbn; [rewrite app_nil_r; reflexivity|].
    inversion Hn as [|? ? Hk Hr]; subst.
    rewrite ostore_fresh by (apply Hd; left; reflexivity).
    rewrite IH; [rewrite <- app_assoc; reflexivity|exact Hr|].
    intros x Hx Hi. unfold keys in Hi. rewrite map_app in Hi. apply in_app_or in Hi. destruct Hi as [Hi|[<-|[]]].
    - exact (Hd x (or_intror Hx) Hi).
    - exact (Hk Hx).
  Qed.

  (* The theorem: run the body's stores against a dictionary, then install the dictionary's items in order on an
     object without those attributes: the object's ordered attribute map IS the dictionary (same keys, same final
     values - last write wins -, same first-insertion order), for every sequence of stores. *)
  Theorem members_replay : forall stores, run_stores (run_stores stores []) [] = run_stores stores [].
  Proof.
    intros stores. rewrite replay_append; [reflexivity| |intros x _ []].
    apply run_stores_nodup. constructor.
  Qed.

  (* last write wins *)
  Fixpoint olookup (d : omap) (k : ident) : option V :=
    match d with [] => None | (k', v) :: r => if String.eqb k' k then Some v else olookup r k end.

  Lemma olookup_ostore d k v x : olookup (ostore d k v) x = if String.eqb k x then Some v else olookup d x.
  Proof.
    induction d as [|[k' v'] r IH]; cbn.
    - reflexivity.
    - destruct (String.eqb_spec k' k) as [->|Hne]; cbn.
      + destruct (String.eqb k x); reflexivity.
      + rewrite IH. destruct (String.eqb_spec k' x) as [->|]; [|reflexivity].
        destruct (String.eqb_spec k x) as [->|]; [congruence|reflexivity].
  Qed.

  Theorem last_write_wins : forall stores d k v, olookup (run_stores (stores ++ [(k, v)]) d) k = Some v.
  Proof.
    intros stores d k v. unfold run_stores. rewrite fold_left_app. cbn. rewrite olookup_ostore, String.eqb_refl. reflexivity.
  Qed.
End OrderedMap.

(* ---- the class header emitted by the converter model ---- *)
Theorem classdef_shape : forall cfg c p name ln bases kws body decs es,
  lower_stmt cfg c p (SClassDef name ln bases kws body decs) = inl es ->
  exists cn bases' kws' create load rest,
    find_inner (c_nsp c) name ln = Some cn /\ n_kind cn = NClass /\
    rmap (tr (c_nsp c)) bases = inl bases' /\
    rmap (fun kw => let! v := tr (c_nsp c) (snd kw) in ret (fst kw, v)) kws = inl kws' /\
    get_assign (c_nsp c) name (class_create p name bases' kws') = inl create /\
    get_load_name (c_nsp c) [] false name = inl load /\
    es = create :: rest.
Proof.
  intros cfg c p name ln bases kws body decs es H. cbn [lower_stmt] in H.
  destruct (find_inner (c_nsp c) name ln) as [cn|] eqn:Ef; [|discriminate].
  destruct (n_kind cn) eqn:Ek; try discriminate.
  destruct (lower_block cfg _ _ p 0 0 body) as [b'|]; cbn [rbind] in H; [|discriminate].
  destruct (rmap (tr (c_nsp c)) bases) as [bs|] eqn:Eb; cbn [rbind] in H; [|discriminate].
  destruct (rmap _ kws) as [ks|] eqn:Ekw; cbn [rbind] in H; [|discriminate].
  match type of H with (let! create := ?g in _) = _ => destruct g as [cr|] eqn:Ec end; cbn [rbind] in H; [|discriminate].
  destruct (get_load_name (c_nsp c) [] false name) as [ld|] eqn:El; cbn [rbind] in H; [|discriminate].
  match type of H with (let! decorated := ?g in _) = _ => destruct g as [dec|] end; cbn [rbind ret] in H; [|discriminate].
  injection H as <-.
  eexists cn, bs, ks, cr, ld, _. split; [reflexivity|]. split; [exact Ek|]. split; [reflexivity|]. split; [reflexivity|].
  split; [exact Ec|]. split; reflexivity.
Qed.

Lemma rmap_length {X Y} (f : X -> res Y) l : forall ys, rmap f l = inl ys -> length ys = length l.
Proof.
  induction l as [|x r IH]; intros ys H; cbn [rmap] in H.
  - injection H as <-. reflexivity.
  - destruct (f x) as [y|]; cbn [rbind] in H; [|discriminate].
    destruct (rmap f r) as [ys'|]; cbn [rbind ret] in H; [|discriminate].
    injection H as <-. cbn. f_equal. apply IH. reflexivity.
Qed.

(* the whole statement list of a class statement: creation, the loader (class body run against a dictionary), installation of
   the dictionary's items on the created class, and only THEN the decorators - the last listed first, each applied to the
   class name as it is bound at that moment and rebinding it *)
Theorem classdef_decorators_last : forall cfg c p name ln bases kws body decs es,
  lower_stmt cfg c p (SClassDef name ln bases kws body decs) = inl es ->
  exists create loader_body load decorated,
    get_load_name (c_nsp c) [] false name = inl load /\
    rmap (fun d => let! d' := tr (c_nsp c) d in get_assign (c_nsp c) name (call d' [load])) (rev decs) = inl decorated /\
    length decorated = length decs /\
    es = [create;
          NamedExpr (ol "loader" (path_str p)) loader_body;
          ListComp (call (Name "setattr") [load; Name (ol "key" (path_str p)); Name (ol "value" (path_str p))])
                   [(ETuple [Name (ol "key" (path_str p)); Name (ol "value" (path_str p))],
                     call (Attribute (call (Name (ol "loader" (path_str p))) []) "items") [], [], false)]]
         ++ decorated.
Proof.
  intros cfg c p name ln bases kws body decs es H. cbn [lower_stmt] in H.
  destruct (find_inner (c_nsp c) name ln) as [cn|] eqn:Ef; [|discriminate].
  destruct (n_kind cn) eqn:Ek; try discriminate.
  destruct (lower_block cfg _ _ p 0 0 body) as [b'|]; cbn [rbind] in H; [|discriminate].
  destruct (rmap (tr (c_nsp c)) bases) as [bs|] eqn:Eb; cbn [rbind] in H; [|discriminate].
  destruct (rmap _ kws) as [ks|] eqn:Ekw; cbn [rbind] in H; [|discriminate].
  match type of H with (let! create := ?g in _) = _ => destruct g as [cr|] eqn:Ec end; cbn [rbind] in H; [|discriminate].
  destruct (get_load_name (c_nsp c) [] false name) as [ld|] eqn:El; cbn [rbind] in H; [|discriminate].
  match type of H with (let! decorated := ?g in _) = _ => destruct g as [dec|] eqn:Ed end; cbn [rbind ret] in H; [|discriminate].
  injection H as <-.
  eexists cr, _, ld, dec. split; [reflexivity|]. split; [exact Ed|]. split; [|reflexivity].
  apply rmap_length in Ed. rewrite Ed, rev_length. reflexivity.
Qed.

Example members_example :
  run_stores nat [("a", 1); ("b", 2); ("a", 3); ("c", 4); ("b", 5)] [] = [("a", 3); ("b", 5); ("c", 4)].
Proof. reflexivity. Qed.
