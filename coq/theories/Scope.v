(* C06: which variable an emitted access denotes, against Python's resolution rule.

   Python (language reference 4.2.2): a name that a function scope neither binds nor declares is looked up in the
   nearest enclosing FUNCTION scope that binds it (class scopes are skipped); a scope on the way that declares it
   `global` ends the search at the module.  The converter keeps a function's variable either as a local of the lambda
   that stands for the function (bound with `:=`, or a parameter) or, when an inner namespace needs it, in the function's
   dictionary; class members live in the class dictionary; module variables are module variables. *)
From Coq Require Import String List ZArith Bool Arith.
From OL Require Import PyAst Namespace Lower.
Import ListNotations.
Local Open Scope string_scope.
Local Open Scope list_scope.

(* ---------- Python's rule on the stack of enclosing scopes (innermost first) ---------- *)
Inductive rbinding := RBinder (id : nat) | RGlobal.

Fixpoint ref_walk (stack : list anc) (x : ident) : rbinding :=
  match stack with
  | [] => RGlobal
  | a :: r =>
      match an_kind a with
      | NClass => ref_walk r x                 (* class scopes do not take part *)
      | NGlobal => RGlobal
      | NFunction =>
          match lookup_sym (an_syms a) x with
          | Some s => if sy_local s then RBinder (an_id a)
                      else if sy_declglobal s then RGlobal
                      else ref_walk r x
          | None => ref_walk r x
          end
      end
  end.

(* generate_nsp's search (find_origin) finds Python's binder: whenever it answers, the answer is the nearest enclosing
   function that binds the name - unless a scope on the way declares the name global, in which case CPython does not
   report the name as free and the search is never started *)
Theorem origin_is_nearest_binder : forall stack x j p,
  find_origin stack x = inl (j, p) -> ref_walk stack x = RBinder j \/ ref_walk stack x = RGlobal.
Proof.
  induction stack as [|a r IH]; intros x j p H; cbn [find_origin ref_walk] in *.
  - discriminate.
  - destruct (an_kind a).
    + discriminate.
    + destruct (lookup_sym (an_syms a) x) as [s|]; [|discriminate].
      destruct (sy_local s).
      * injection H as <- _. left. reflexivity.
      * destruct (sy_declglobal s); [right; reflexivity|]. eapply IH. exact H.
    + eapply IH. exact H.
Qed.

(* and conversely: when Python's rule finds a binder, the search finds the same one (or stops with the KeyError of a
   symbol table that does not mention the name, which CPython's tables never do for a free name) *)
Theorem nearest_binder_is_found : forall stack x j,
  ref_walk stack x = RBinder j ->
  (exists p, find_origin stack x = inl (j, p)) \/ find_origin stack x = inr EKey.
Proof.
  induction stack as [|a r IH]; intros x j H; cbn [find_origin ref_walk] in *.
  - discriminate.
  - destruct (an_kind a).
    + discriminate.
    + destruct (lookup_sym (an_syms a) x) as [s|]; [|right; reflexivity].
      destruct (sy_local s).
      * injection H as <-. left. eexists. reflexivity.
      * destruct (sy_declglobal s); [discriminate|]. apply IH. exact H.
    + apply IH. exact H.
Qed.

(* ---------- what an emitted access denotes ---------- *)
Inductive cell :=
| CLocal (id : nat)                 (* a local of the lambda that stands for function [id] *)
| CDict (id : nat)                  (* the entry in the dictionary of function [id] *)
| CMember (id : nat)                (* the entry in the dictionary of class [id] *)
| CModule                           (* the module variable (or builtin) *)
| CMemberElse (id : nat) (c : cell) (* class lookup: the member when present, else [c] *)
| CInner.                           (* a variable of an enclosing lambda / comprehension of the same expression *)

(* the forms get_load_name / get_assign emit *)
Inductive access :=
| APlain                            (* Name x   /  (x := v) *)
| ADict (o : nat)                   (* __ol_nonlocal_o['x'] *)
| AMember (c : nat)                 (* __ol_classnsp_c['x'] *)
| AGlobals                          (* globals()['x'] *)
| AMemberElse (c : nat) (a : access).

Fixpoint render (x : ident) (a : access) : expr :=
  match a with
  | APlain => Name x
  | ADict o => Subscript (nonlocal_dict o) (cstr x)
  | AMember c => Subscript (class_dict c) (cstr x)
  | AGlobals => globals_item x
  | AMemberElse c a' => IfExp (Compare (cstr x) [In] [class_dict c]) (Subscript (class_dict c) (cstr x)) (render x a')
  end.

(* a plain name inside nested lambdas denotes the local of the nearest enclosing function lambda that binds it (the
   lambda of a function binds the function's locals and parameters; class loaders bind no user name), else the module *)
Fixpoint name_cell (links : list link) (x : ident) : cell :=
  match links with
  | [] => CModule
  | l :: r =>
      match lk_kind l with
      | NGlobal => CModule
      | NClass => name_cell r x
      | NFunction =>
          match lookup_sym (lk_syms l) x with
          | Some s => if sy_local s then CLocal (lk_id l) else name_cell r x
          | None => name_cell r x
          end
      end
  end.

Fixpoint cell_of (links : list link) (x : ident) (a : access) : cell :=
  match a with
  | APlain => name_cell links x
  | ADict o => CDict o
  | AMember c => CMember c
  | AGlobals => CModule
  | AMemberElse c a' => CMemberElse c (cell_of links x a')
  end.

(* ---------- the decisions of namespaces.py as accesses ---------- *)
Definition global_access (n : nsp) (x : ident) : access :=
  if hidden_by_local (self_link n :: n_chain n) x then AGlobals else APlain.

Fixpoint enclosing_access (n : nsp) (links : list link) (x : ident) : access :=
  match links with
  | [] => global_access n x
  | l :: r =>
      match lk_kind l with
      | NGlobal => global_access n x
      | NClass => enclosing_access n r x
      | NFunction =>
          match lookup_sym (lk_syms l) x with
          | None => enclosing_access n r x
          | Some s =>
              if sy_local s then (if mem x (lk_inner_nonlocal l) then ADict (lk_id l) else APlain)
              else match assoc_nat x (lk_outer_map l) with
                   | Some o => ADict o
                   | None => global_access n x
                   end
          end
      end
  end.

Lemma get_load_global_render n x : get_load_global n x = render x (global_access n x).
Proof. unfold get_load_global, global_access. destruct (hidden_by_local _ _); reflexivity. Qed.

Lemma load_from_enclosing_render n : forall links x, load_from_enclosing n links x = render x (enclosing_access n links x).
Proof.
  induction links as [|l r IH]; intros x; cbn [load_from_enclosing enclosing_access].
  - apply get_load_global_render.
  - destruct (lk_kind l); [apply get_load_global_render| |apply IH].
    destruct (lookup_sym (lk_syms l) x) as [s|]; [|apply IH].
    destruct (sy_local s).
    + destruct (mem x (lk_inner_nonlocal l)); reflexivity.
    + destruct (assoc_nat x (lk_outer_map l)); [reflexivity|apply get_load_global_render].
Qed.

(* THEOREM (module names stay module names): the access get_load_global emits denotes the module variable - a plain
   name only when no lambda of an enclosing function binds that name *)
Theorem global_load_is_module : forall n x,
  cell_of (self_link n :: n_chain n) x (global_access n x) = CModule.
Proof.
  intros n x. unfold global_access. generalize (self_link n :: n_chain n) as links.
  intros links. destruct (hidden_by_local links x) eqn:E; [reflexivity|]. cbn [cell_of].
  induction links as [|l r IH]; [reflexivity|]. cbn [hidden_by_local name_cell] in *.
  destruct (lk_kind l); [reflexivity| |apply IH; exact E].
  destruct (lookup_sym (lk_syms l) x) as [s|]; [|apply IH; exact E].
  destruct (sy_local s); [discriminate|apply IH; exact E].
Qed.

(* THEOREM (class members are invisible from lambda / comprehension bodies): the access emitted for a name inside such a
   body in a class never goes to a class dictionary *)
Definition no_member (a : access) : Prop :=
  match a with AMember _ | AMemberElse _ _ => False | _ => True end.

Theorem class_inner_never_member : forall n links x, no_member (enclosing_access n links x).
Proof.
  intros n. assert (G : forall x, no_member (global_access n x)).
  { intros x. unfold global_access. destruct (hidden_by_local _ _); exact I. }
  induction links as [|l r IH]; intros x; cbn [enclosing_access]; [apply G|].
  destruct (lk_kind l); [apply G| |apply IH].
  destruct (lookup_sym (lk_syms l) x) as [s|]; [|apply IH].
  destruct (sy_local s).
  - destruct (mem x (lk_inner_nonlocal l)); exact I.
  - destruct (assoc_nat x (lk_outer_map l)); [exact I|apply G].
Qed.

(* THEOREM (the lookup from inside a class body follows Python's rule): when the outer map of every enclosing function
   says what Python's walk from that function says, the access emitted for a name in a lambda / comprehension body of a
   class denotes the variable of the nearest enclosing function that binds the name - through that function's dictionary
   or as the local of its lambda - and the module variable when there is none *)
Definition link_anc (l : link) : anc := mkAnc (lk_id l) (lk_kind l) (lk_syms l).

Definition maps_ok (links : list link) (x : ident) : Prop :=
  forall pre l post, links = pre ++ l :: post -> lk_kind l = NFunction ->
    forall s, lookup_sym (lk_syms l) x = Some s -> sy_local s = false ->
      ref_walk (map link_anc (l :: post)) x =
        match assoc_nat x (lk_outer_map l) with Some o => RBinder o | None => RGlobal end.

Theorem enclosing_load_follows_python : forall n links x,
  maps_ok links x ->
  match ref_walk (map link_anc links) x with
  | RBinder j => enclosing_access n links x = ADict j \/ (enclosing_access n links x = APlain /\ name_cell links x = CLocal j)
  | RGlobal => enclosing_access n links x = global_access n x
  end.
Proof.
  intros n. induction links as [|l r IH]; intros x Hm.
  - reflexivity.
  - assert (Hm' : maps_ok r x).
    { intros pre l' post E. apply (Hm (l :: pre) l' post). rewrite E. reflexivity. }
    destruct (lk_kind l) eqn:Ek.
    + cbn [map ref_walk enclosing_access link_anc an_kind]. rewrite Ek. reflexivity.
    + destruct (lookup_sym (lk_syms l) x) as [s|] eqn:El.
      * destruct (sy_local s) eqn:Es.
        -- cbn [map ref_walk enclosing_access link_anc an_kind an_syms an_id name_cell]. rewrite Ek, El, Es.
           destruct (mem x (lk_inner_nonlocal l)); [left; reflexivity|right; split; reflexivity].
        -- rewrite (Hm [] l r eq_refl Ek s El Es).
           cbn [enclosing_access]. rewrite Ek, El, Es.
           destruct (assoc_nat x (lk_outer_map l)); [left; reflexivity|reflexivity].
      * specialize (IH x Hm').
        cbn [map ref_walk enclosing_access link_anc an_kind an_syms an_id name_cell]. rewrite Ek, El. exact IH.
    + specialize (IH x Hm').
      cbn [map ref_walk enclosing_access link_anc an_kind an_syms an_id name_cell]. rewrite Ek. exact IH.
Qed.

(* ---------- one namespace: loads and stores of a name meet in the same cell ---------- *)
Definition store_access (n : nsp) (x : ident) : option access :=
  match n_kind n with
  | NGlobal => Some APlain
  | NFunction =>
      match lookup_sym (n_syms n) x with
      | None => None
      | Some s =>
          if sy_declglobal s then Some AGlobals
          else match assoc_nat x (n_outer_map n) with
               | Some o => Some (ADict o)
               | None => if mem x (n_inner_nonlocal n) then Some (ADict (n_id n)) else Some APlain
               end
      end
  | NClass =>
      match lookup_sym (n_syms n) x with
      | None => None
      | Some s =>
          if sy_declglobal s then Some AGlobals
          else match assoc_nat x (n_outer_map n) with
               | Some o => Some (ADict o)
               | None => Some (AMember (n_id n))
               end
      end
  end.

Definition store_form (x : ident) (a : access) (v : expr) : expr :=
  match a with
  | APlain => NamedExpr x v
  | ADict o => setitem (nonlocal_dict o) x v
  | AMember c => setitem (class_dict c) x v
  | AGlobals => setitem globals_call x v
  | AMemberElse _ _ => v
  end.

Lemma get_assign_store n x v : get_assign n x v = match store_access n x with Some a => inl (store_form x a v) | None => inr EKey end.
Proof.
  unfold get_assign, store_access. destruct (n_kind n); [reflexivity| |].
  - destruct (lookup_sym (n_syms n) x) as [s|]; [|reflexivity]. destruct (sy_declglobal s); [reflexivity|].
    destruct (assoc_nat x (n_outer_map n)); [reflexivity|]. destruct (mem x (n_inner_nonlocal n)); reflexivity.
  - destruct (lookup_sym (n_syms n) x) as [s|]; [|reflexivity]. destruct (sy_declglobal s); [reflexivity|].
    destruct (assoc_nat x (n_outer_map n)); reflexivity.
Qed.

(* the value of an assignment expression is read from where it was stored *)
Lemma get_load_assigned_store n x : get_load_assigned n x = match store_access n x with Some a => inl (render x a) | None => inr EKey end.
Proof.
  unfold get_load_assigned, store_access. destruct (n_kind n); [reflexivity| |].
  - destruct (lookup_sym (n_syms n) x) as [s|]; [|reflexivity]. destruct (sy_declglobal s); [reflexivity|].
    destruct (assoc_nat x (n_outer_map n)); [reflexivity|]. destruct (mem x (n_inner_nonlocal n)); reflexivity.
  - destruct (lookup_sym (n_syms n) x) as [s|]; [|reflexivity]. destruct (sy_declglobal s); [reflexivity|].
    destruct (assoc_nat x (n_outer_map n)); reflexivity.
Qed.

Definition load_access (n : nsp) (bd : list ident) (inn : bool) (x : ident) : access :=
  match n_kind n with
  | NGlobal => APlain
  | NFunction =>
      if mem x bd then APlain
      else if mem x (n_inner_nonlocal n) then ADict (n_id n)
      else match assoc_nat x (n_outer_map n) with
           | Some o => ADict o
           | None => match lookup_sym (n_syms n) x with
                     | Some s => if sy_local s then APlain else global_access n x
                     | None => global_access n x
                     end
           end
  | NClass =>
      if mem x bd then APlain
      else if inn then enclosing_access n (n_chain n) x
      else match lookup_sym (n_syms n) x with
           | None => global_access n x
           | Some s =>
               match assoc_nat x (n_outer_map n) with
               | Some o => ADict o
               | None => if sy_global s then global_access n x else AMemberElse (n_id n) (global_access n x)
               end
           end
  end.

Lemma get_load_name_render n bd inn x : get_load_name n bd inn x = inl (render x (load_access n bd inn x)).
Proof.
  unfold get_load_name, load_access. destruct (n_kind n); [reflexivity| |].
  - destruct (mem x bd); [reflexivity|]. destruct (mem x (n_inner_nonlocal n)); [reflexivity|].
    destruct (assoc_nat x (n_outer_map n)); [reflexivity|].
    destruct (lookup_sym (n_syms n) x) as [s|]; [destruct (sy_local s); [reflexivity|]|]; unfold ret; rewrite get_load_global_render; reflexivity.
  - destruct (mem x bd); [reflexivity|]. destruct inn.
    + unfold ret. rewrite load_from_enclosing_render. reflexivity.
    + destruct (lookup_sym (n_syms n) x) as [s|]; [|unfold ret; rewrite get_load_global_render; reflexivity].
      destruct (assoc_nat x (n_outer_map n)); [reflexivity|].
      destruct (sy_global s); unfold ret; rewrite get_load_global_render; reflexivity.
Qed.

(* CPython's symbol flags are consistent: a declared global is neither local nor free; what an inner namespace takes
   from this function is local here and hence not taken from further out; a name bound here without declaration is local *)
Definition sym_ok (n : nsp) (x : ident) : bool :=
  match n_kind n with NGlobal => true | _ =>
  match lookup_sym (n_syms n) x with
  | None => true
  | Some s =>
      (if sy_declglobal s then negb (sy_local s) && negb (mem x (n_inner_nonlocal n)) &&
                               match assoc_nat x (n_outer_map n) with None => true | Some _ => false end else true) &&
      (if mem x (n_inner_nonlocal n) then sy_local s else true) &&
      (if sy_local s then match assoc_nat x (n_outer_map n) with None => true | Some _ => false end else true)
  end end.

Definition own_cell (n : nsp) (x : ident) (a : access) : cell := cell_of (self_link n :: n_chain n) x a.

(* THEOREM (function namespaces): for a name the function binds, the place a store writes and the place a load at function
   level reads are the same cell *)
Theorem function_load_store_agree : forall n x a s,
  n_kind n = NFunction -> sym_ok n x = true -> lookup_sym (n_syms n) x = Some s ->
  (sy_declglobal s = true \/ sy_local s = true \/ assoc_nat x (n_outer_map n) <> None) ->
  store_access n x = Some a ->
  own_cell n x (load_access n [] false x) =
    match a with APlain => CLocal (n_id n) | _ => own_cell n x a end.
Proof.
  intros n x a s Hk Hok Hl Hb Hs. unfold sym_ok in Hok. rewrite Hk, Hl in Hok.
  unfold store_access in Hs. rewrite Hk, Hl in Hs. unfold load_access. rewrite Hk. cbn [mem existsb].
  unfold own_cell.
  destruct (sy_declglobal s) eqn:Ed.
  - injection Hs as <-.
    apply andb_prop in Hok as [Hok H3]. apply andb_prop in Hok as [Hok H2].
    apply andb_prop in Hok as [Hok Ho]. apply andb_prop in Hok as [Hloc Hin].
    apply negb_true_iff in Hloc, Hin. rewrite Hin.
    destruct (assoc_nat x (n_outer_map n)); [discriminate|]. rewrite Hl, Hloc.
    rewrite global_load_is_module. reflexivity.
  - apply andb_prop in Hok as [Hok H3]. apply andb_prop in Hok as [_ H2].
    destruct (assoc_nat x (n_outer_map n)) as [o|] eqn:Eo.
    + injection Hs as <-. destruct (mem x (n_inner_nonlocal n)) eqn:Ei.
      * destruct (sy_local s); discriminate.
      * reflexivity.
    + destruct (mem x (n_inner_nonlocal n)) eqn:Ei.
      * injection Hs as <-. reflexivity.
      * injection Hs as <-. destruct Hb as [Hb|[Hb|Hb]]; [discriminate| |congruence].
        rewrite Hl, Hb. cbn [cell_of name_cell self_link lk_kind lk_syms lk_id]. rewrite Hk, Hl, Hb. reflexivity.
Qed.

(* THEOREM (class namespaces): a class-level load of a member reads the class dictionary first - the cell a store
   writes - and the module variable until then (LOAD_NAME) *)
Theorem class_load_store_agree : forall n x s,
  n_kind n = NClass -> lookup_sym (n_syms n) x = Some s -> sy_declglobal s = false -> sy_global s = false ->
  assoc_nat x (n_outer_map n) = None ->
  store_access n x = Some (AMember (n_id n)) /\
  own_cell n x (load_access n [] false x) = CMemberElse (n_id n) CModule.
Proof.
  intros n x s Hk Hl Hd Hg Ho. unfold store_access, load_access, own_cell. rewrite Hk, Hl, Hd, Ho, Hg. cbn [mem existsb].
  split; [reflexivity|]. cbn [cell_of]. rewrite global_load_is_module. reflexivity.
Qed.

(* THEOREM (inner binders win): a name bound by an enclosing lambda / comprehension of the same expression is loaded as a
   plain name in every kind of namespace, and an assignment expression on it stays a plain binding *)
Theorem inner_binder_wins : forall n bd inn x, mem x bd = true -> get_load_name n bd inn x = inl (Name x).
Proof.
  intros n bd inn x H. unfold get_load_name. destruct (n_kind n); [reflexivity| |]; rewrite H; reflexivity.
Qed.

Theorem walrus_in_lambda_is_local : forall n bd inn t v v',
  mem t bd = true -> transf n bd inn v = inl v' -> transf n bd inn (NamedExpr t v) = inl (NamedExpr t v').
Proof. intros n bd inn t v v' H Hv. cbn [transf]. rewrite Hv. cbn [rbind]. rewrite H. reflexivity. Qed.

(* the body of a lambda is transformed with its parameters and its own assignment-expression targets bound; its default
   values with the bindings of the enclosing scope only *)
Theorem lambda_scope : forall n bd inn po ar va ko kd kw de body e',
  transf n bd inn (Lambda po ar va ko kd kw de body) = inl e' ->
  exists kd' de' body',
    rmap (fun o => match o with Some x => rbind (transf n bd inn x) (fun y => ret (Some y)) | None => ret None end) kd = inl kd' /\
    rmap (transf n bd inn) de = inl de' /\
    transf n (po ++ ar ++ ko ++ opt_list va ++ opt_list kw ++ walrus_names body ++ bd) true body = inl body' /\
    e' = Lambda po ar va ko kd' kw de' body'.
Proof.
  intros n bd inn po ar va ko kd kw de body e' H. cbn [transf] in H.
  match type of H with rbind ?a _ = _ => destruct a as [kd'|] eqn:E1 end; cbn [rbind] in H; [|discriminate].
  match type of H with rbind ?a _ = _ => destruct a as [de'|] eqn:E2 end; cbn [rbind] in H; [|discriminate].
  match type of H with rbind ?a _ = _ => destruct a as [body'|] eqn:E3 end; cbn [rbind ret] in H; [|discriminate].
  injection H as <-. exists kd', de', body'. repeat split; assumption.
Qed.

(* ---------- the hypotheses as boolean checks (evaluated on every explored symbol table) ---------- *)
Definition rbinding_eqb (a b : rbinding) : bool :=
  match a, b with
  | RGlobal, RGlobal => true
  | RBinder i, RBinder j => Nat.eqb i j
  | _, _ => false
  end.
Lemma rbinding_eqb_eq a b : rbinding_eqb a b = true -> a = b.
Proof. destruct a, b; cbn; try discriminate; [|reflexivity]. intros H. apply Nat.eqb_eq in H. subst. reflexivity. Qed.

Fixpoint maps_okb (links : list link) (x : ident) : bool :=
  match links with
  | [] => true
  | l :: post =>
      (match lk_kind l with
       | NFunction =>
           match lookup_sym (lk_syms l) x with
           | Some s => if sy_local s then true
                       else rbinding_eqb (ref_walk (map link_anc (l :: post)) x)
                              (match assoc_nat x (lk_outer_map l) with Some o => RBinder o | None => RGlobal end)
           | None => true
           end
       | _ => true
       end) && maps_okb post x
  end.

Lemma maps_okb_sound : forall links x, maps_okb links x = true -> maps_ok links x.
Proof.
  induction links as [|l0 r IH]; intros x H pre l post E Hk s Hl Hs.
  - destruct pre; discriminate.
  - cbn [maps_okb] in H. apply andb_prop in H as [H1 H2].
    destruct pre as [|p pre].
    + cbn [app] in E. injection E as <- <-. rewrite Hk, Hl, Hs in H1. apply rbinding_eqb_eq. exact H1.
    + cbn [app] in E. injection E as _ E. eapply (IH x H2 pre l post E Hk s Hl Hs).
Qed.

(* all namespaces of a tree *)
Fixpoint all_nsp (n : nsp) : list nsp :=
  match n with Nsp _ _ _ _ _ _ _ _ _ _ _ _ inner _ => n :: flat_map all_nsp inner end.

(* every outer-map entry points at a namespace on the chain that keeps the name in its dictionary (no access to a
   variable can miss the dictionary once one access uses it), and the chain recorded in a namespace is the real one *)
Definition dict_ok (n : nsp) : bool :=
  forallb (fun kv =>
     existsb (fun l => Nat.eqb (lk_id l) (snd kv) && mem (fst kv) (lk_inner_nonlocal l)
                       && match lk_kind l with NFunction => true | _ => false end) (n_chain n))
    (n_outer_map n).

Definition names_of (n : nsp) : list ident :=
  map sy_name (n_syms n) ++ flat_map (fun l => map sy_name (lk_syms l)) (n_chain n).

Definition nsp_ok (n : nsp) : bool :=
  dict_ok n && forallb (fun x => sym_ok n x && maps_okb (self_link n :: n_chain n) x) (names_of n).

Definition tree_ok (root : nsp) : bool := forallb nsp_ok (all_nsp root).
