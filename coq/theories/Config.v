(* C10: the option-object state machine of oneliner/config.py.
   Two executable models: [step] keeps settings per object (what the property demands and what the
   repaired code does), [step_shared] keeps one cell per option for all objects (the descriptor
   storing the value on itself, as the code did before the "fix:" commit).  The specification
   [spec_eff] is written independently of both, directly from the property text. *)
From Coq Require Import String List Bool Arith NArith Lia.
From OL Require Import Sexp PyAst.
From OLGen Require Import Tables.
Import ListNotations.
Open Scope string_scope.
Open Scope list_scope.

Definition settings := list (string * string).    (* newest first *)

Inductive action :=
| ANew                                   (* Configs()            -> new object id = number of objects so far *)
| ASet (o : nat) (name value : string)   (* setattr(obj, name, value) *)
| AConvert (o : option nat)              (* convert_code_string(p, configs=obj / None) *)
| AReseed.                               (* random.seed(...) : no effect on options *)

Inductive output :=
| ONone
| OSet (accepted : bool)
| OEff (vals : list (string * string)).  (* the option values in force for that conversion *)

(* ---- the option table (generated from the code) ---- *)
Definition opt_names : list string := map (fun r => fst (fst r)) config_table.
Definition lookup_opt (n : string) : option (list string * string) :=
  match find (fun r => String.eqb (fst (fst r)) n) config_table with
  | Some r => Some (snd (fst r), snd r)
  | None => None
  end.
Definition default_of (n : string) : string :=
  match lookup_opt n with Some (_, d) => d | None => "" end.
Definition valid (n v : string) : bool :=
  match lookup_opt n with
  | Some (choices, _) => existsb (String.eqb v) choices
  | None => false
  end.

Fixpoint assoc (n : string) (s : settings) : option string :=
  match s with
  | [] => None
  | (k, v) :: r => if String.eqb k n then Some v else assoc n r
  end.

Definition eff_of (s : settings) : list (string * string) :=
  map (fun n => (n, match assoc n s with Some v => v | None => default_of n end)) opt_names.

(* ---- per-instance model ---- *)
Definition world := list settings.   (* object id -> its own settings *)

Fixpoint update {X} (l : list X) (i : nat) (f : X -> X) : list X :=
  match l, i with
  | [], _ => []
  | x :: r, 0 => f x :: r
  | x :: r, S j => x :: update r j f
  end.

Definition step (w : world) (a : action) : world * output :=
  match a with
  | ANew => (w ++ [[]], ONone)
  | ASet o n v =>
      if valid n v && Nat.ltb o (length w) then (update w o (fun s => (n, v) :: s), OSet true)
      else (w, OSet false)
  | AConvert None => (w, OEff (eff_of []))
  | AConvert (Some o) =>
      match nth_error w o with
      | Some s => (w, OEff (eff_of s))
      | None => (w, ONone)
      end
  | AReseed => (w, ONone)
  end.

Fixpoint run (w : world) (h : list action) : list output :=
  match h with
  | [] => []
  | a :: r => let (w', o) := step w a in o :: run w' r
  end.

(* ---- shared-cell model (one value per option, whatever the object) ---- *)
Definition sworld := (nat * settings)%type.  (* number of objects, the shared cells *)

Definition step_shared (w : sworld) (a : action) : sworld * output :=
  let (n0, cells) := w in
  match a with
  | ANew => ((S n0, cells), ONone)
  | ASet o n v =>
      if valid n v && Nat.ltb o n0 then ((n0, (n, v) :: cells), OSet true) else (w, OSet false)
  | AConvert None => (w, OEff (eff_of cells))
  | AConvert (Some o) => if Nat.ltb o n0 then (w, OEff (eff_of cells)) else (w, ONone)
  | AReseed => (w, ONone)
  end.

Fixpoint run_shared (w : sworld) (h : list action) : list output :=
  match h with
  | [] => []
  | a :: r => let (w', o) := step_shared w a in o :: run_shared w' r
  end.

(* ---- specification, straight from the property text ----
   [past] is the history so far, newest action first. *)
Fixpoint count_new (past : list action) : nat :=
  match past with
  | [] => 0
  | ANew :: r => S (count_new r)
  | _ :: r => count_new r
  end.

(* the last valid value set on object [o] for option [n]; an object exists only after its ANew *)
Fixpoint last_set (past : list action) (o : nat) (n : string) : option string :=
  match past with
  | [] => None
  | ASet o' n' v :: r =>
      if Nat.eqb o o' && String.eqb n' n && valid n' v && Nat.ltb o' (count_new r) then Some v
      else last_set r o n
  | _ :: r => last_set r o n
  end.

Definition spec_eff (past : list action) (o : option nat) : list (string * string) :=
  map (fun n => (n, match o with
                    | Some o' => match last_set past o' n with Some v => v | None => default_of n end
                    | None => default_of n
                    end)) opt_names.

Definition spec_out (past : list action) (a : action) : output :=
  match a with
  | ANew => ONone
  | ASet o n v => OSet (valid n v && Nat.ltb o (count_new past))
  | AConvert None => OEff (spec_eff past None)
  | AConvert (Some o) => if Nat.ltb o (count_new past) then OEff (spec_eff past (Some o)) else ONone
  | AReseed => ONone
  end.

Fixpoint spec_run (past : list action) (h : list action) : list output :=
  match h with
  | [] => []
  | a :: r => spec_out past a :: spec_run (a :: past) r
  end.

(* ---- codecs ---- *)
Definition action_of (x : sexp) : option action :=
  match x with
  | L [A "new"] => Some ANew
  | L [A "set"; o; n; v] =>
      match n_of o, bytes_of n, bytes_of v with
      | Some o', Some n', Some v' => Some (ASet (N.to_nat o') n' v')
      | _, _, _ => None
      end
  | L [A "convert"; L []] => Some (AConvert None)
  | L [A "convert"; L [o]] => option_map (fun o' => AConvert (Some (N.to_nat o'))) (n_of o)
  | L [A "reseed"] => Some AReseed
  | _ => None
  end.

Definition sx_output (o : output) : sexp :=
  match o with
  | ONone => L [A "none"]
  | OSet b => L [A "set"; sx_bool b]
  | OEff vs => L (A "eff" :: map (fun kv => L [sx_ident (fst kv); sx_ident (snd kv)]) vs)
  end.
