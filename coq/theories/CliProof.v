From Coq Require Import String Ascii List Bool Arith.
From OL Require Import Sexp PyAst Config Cli.
From OLGen Require Import Tables.
Import ListNotations.
Open Scope string_scope.
Open Scope list_scope.

Lemma apply_C_good s a : good_C a = true -> exists s', apply_C s a = inl s'.
Proof.
  unfold good_C, apply_C. destruct (split_eq a "") as [|n [|v [|x r]]]; try discriminate.
  intros H. apply andb_true_iff in H. destruct H as [H1 H2]. rewrite H1, H2. cbn. eauto.
Qed.

Lemma apply_C_bad s a : good_C a = false -> exists v, apply_C s a = inr v /\ v <> VOk.
Proof.
  unfold good_C, apply_C. destruct (split_eq a "") as [|n [|v [|x r]]];
    try (intros _; eexists; split; [reflexivity|discriminate]).
  intros H. destruct (existsb (String.eqb n) opt_names); cbn in *.
  - rewrite H. eexists; split; [reflexivity|discriminate].
  - eexists; split; [reflexivity|discriminate].
Qed.

Lemma apply_all_bad : forall cs s, existsb (fun a => negb (good_C a)) cs = true ->
  exists v, apply_all s cs = inr v /\ v <> VOk.
Proof.
  induction cs as [|a r IH]; intros s H; [discriminate|]. cbn in H. cbn [apply_all].
  destruct (good_C a) eqn:G.
  - destruct (apply_C_good s a G) as [s' ->]. apply IH. exact H.
  - destruct (apply_C_bad s a G) as [v [-> Hv]]. exists v. split; [reflexivity|exact Hv].
Qed.

Lemma apply_all_good : forall cs s, forallb good_C cs = true -> exists s', apply_all s cs = inl s'.
Proof.
  induction cs as [|a r IH]; intros s H; [eexists; reflexivity|]. cbn in H. apply andb_true_iff in H.
  destruct H as [G H]. cbn [apply_all]. destruct (apply_C_good s a G) as [s' ->]. apply IH. exact H.
Qed.

(* If ANY -C argument is malformed, names an unknown option or gives an illegal value, the run is an
   error and the effect trace is empty: in particular the output file is neither opened nor written. *)
Theorem bad_option_no_output : forall cs unp out,
  existsb (fun a => negb (good_C a)) cs = true ->
  fst (cli cs unp out) <> VOk /\ snd (cli cs unp out) = [].
Proof.
  intros cs unp out H. unfold cli. destruct (apply_all_bad cs [] H) as [v [-> Hv]]. split; [exact Hv|reflexivity].
Qed.

(* Otherwise: read, then (open + write | print) exactly the text for the accumulated options *)
Theorem good_options_effects : forall cs unp out,
  forallb good_C cs = true ->
  exists s, apply_all [] cs = inl s /\
    cli cs unp out =
      (VOk, FRead :: (let s' := match unp with Some u => ("unparser", u) :: s | None => s end in
                      if out then [FOpenOut; FWrite s'] else [FPrint s'])).
Proof.
  intros cs unp out H. destruct (apply_all_good cs [] H) as [s Hs]. exists s. split; [exact Hs|].
  unfold cli. rewrite Hs. reflexivity.
Qed.

(* the output is touched only in a successful run with -o *)
Corollary output_touched_only_on_success : forall cs unp out,
  existsb touches_output (snd (cli cs unp out)) = true -> fst (cli cs unp out) = VOk /\ out = true.
Proof.
  intros cs unp out. unfold cli. destruct (apply_all [] cs) as [s|v]; cbn; [|discriminate].
  destruct out; cbn; [auto|discriminate].
Qed.

(* the accumulated settings are exactly "last valid value per name" (ties C16 to C10's semantics) *)
Lemma apply_all_settings : forall cs s s', apply_all s cs = inl s' ->
  forall n, assoc n s' = match assoc n (rev (flat_map (fun a => match split_eq a "" with [k; v] => [(k, v)] | _ => [] end) cs)) with
                         | Some v => Some v | None => assoc n s end.
Proof.
  induction cs as [|a r IH]; intros s s' H n; cbn in *.
  - injection H as <-. reflexivity.
  - unfold apply_C in H. destruct (split_eq a "") as [|k [|v [|x y]]] eqn:E; try discriminate.
    destruct (negb (existsb (String.eqb k) opt_names)); [discriminate|].
    destruct (valid k v); [|discriminate].
    rewrite (IH _ _ H n). cbn [app flat_map].
    set (rest := flat_map _ r).
    assert (A : forall (l : settings) kv, assoc n (rev (kv :: l)) =
              match assoc n (rev l) with Some x => Some x | None => assoc n [kv] end).
    { intros l kv. cbn [rev]. induction (rev l) as [|[k1 v1] t IHt]; cbn; [reflexivity|].
      destruct (String.eqb k1 n); [reflexivity|exact IHt]. }
    rewrite A. destruct (assoc n (rev rest)); [reflexivity|]. cbn [assoc].
    destruct (String.eqb k n); reflexivity.
Qed.

Example cli_witness_bad : cli ["unparser=oneliner"; "config_names=x"] None true = (VValueError, []).
Proof. vm_compute. reflexivity. Qed.
Example cli_witness_good :
  exists s, cli ["unparser=oneliner"; "if_style=short_circuit"] None true = (VOk, [FRead; FOpenOut; FWrite s])
            /\ eff_of s = [("unparser", "oneliner"); ("expr_wrapper", "chain_call"); ("if_style", "short_circuit")].
Proof. eexists. split; vm_compute; reflexivity. Qed.
