(* Python expression and statement ASTs (the part of `ast` the converter and the
   unparser look at), their s-expression codecs, and an induction principle. *)
From Coq Require Import String Ascii List ZArith NArith Bool.
From OL Require Import Sexp.
Import ListNotations.
Open Scope string_scope.

Definition ident := string.
Definition text := list N.  (* code points *)
Definition s2t (s : string) : text := map (fun c => N_of_ascii c) (list_ascii_of_string s).

Inductive const :=
| CNone | CTrue | CFalse | CEllipsis
| CInt (z : Z)
| CFloat (repr : list N)      (* CPython's repr text, opaque *)
| CComplex (repr : list N)
| CStr (s : list N)           (* code points *)
| CBytes (repr : list N).

Inductive binop := Add | Sub | Mult | MatMult | Div | Mod | Pow | LShift | RShift | BitOr | BitXor | BitAnd | FloorDiv.
Inductive unop := Invert | Not | UAdd | USub.
Inductive boolop := And | Or.
Inductive cmpop := Eq | NotEq | Lt | LtE | Gt | GtE | Is | IsNot | In | NotIn.

Inductive expr :=
| Name (id : ident)
| Constant (c : const)
| JoinedStr (values : list expr)
| FormattedValue (value : expr) (conversion : Z) (format_spec : option expr)
| Starred (value : expr)
| BinOp (left : expr) (op : binop) (right : expr)
| BoolOp (op : boolop) (values : list expr)
| UnaryOp (op : unop) (operand : expr)
| EList (elts : list expr)
| ETuple (elts : list expr)
| ESet (elts : list expr)
| EDict (keys : list (option expr)) (values : list expr)
| Compare (left : expr) (ops : list cmpop) (comparators : list expr)
| Attribute (value : expr) (attr : ident)
| Subscript (value : expr) (slice : expr)
| Slice (lower upper step : option expr)
| Call (func : expr) (args : list expr) (keywords : list (option ident * expr))
| NamedExpr (target : ident) (value : expr)
| Lambda (posonly args : list ident) (vararg : option ident) (kwonly : list ident)
         (kw_defaults : list (option expr)) (kwarg : option ident) (defaults : list expr)
         (body : expr)
| ListComp (elt : expr) (gens : list (expr * expr * list expr * bool))
| SetComp (elt : expr) (gens : list (expr * expr * list expr * bool))
| GeneratorExp (elt : expr) (gens : list (expr * expr * list expr * bool))
| DictComp (key value : expr) (gens : list (expr * expr * list expr * bool))
| IfExp (test body orelse : expr)
| Yield (value : option expr)
| YieldFrom (value : expr)
| Await (value : expr)
| Other (kind : ident).        (* any node kind outside the table above *)

Definition comprehension := (expr * expr * list expr * bool)%type. (* target, iter, ifs, is_async *)

Record arguments := mkArgs {
  a_posonly : list ident; a_args : list ident; a_vararg : option ident;
  a_kwonly : list ident; a_kw_defaults : list (option expr); a_kwarg : option ident;
  a_defaults : list expr }.

Inductive stmt :=
| SExpr (e : expr)
| SIf (test : expr) (body orelse : list stmt)
| SWhile (test : expr) (body orelse : list stmt)
| SFor (target iter : expr) (body orelse : list stmt)
| SBreak | SContinue | SPass
| SAssign (targets : list expr) (value : expr)
| SAnnAssign (target : expr) (value : option expr)
| SAugAssign (target : expr) (op : binop) (value : expr)
| SFunctionDef (name : ident) (lineno : Z) (args : arguments) (body : list stmt) (decorators : list expr)
| SReturn (value : option expr)
| SGlobal (names : list ident)
| SNonlocal (names : list ident)
| SClassDef (name : ident) (lineno : Z) (bases : list expr) (keywords : list (option ident * expr))
            (body : list stmt) (decorators : list expr)
| SImport (names : list (ident * option ident))
| SImportFrom (module : option ident) (names : list (ident * option ident)) (level : Z)
| SUnsupported (kind : ident).

(* ------------------------------------------------------------------ *)
(* names of operators (shared by codecs)                               *)

Definition binop_name (o : binop) : string :=
  match o with Add => "Add" | Sub => "Sub" | Mult => "Mult" | MatMult => "MatMult" | Div => "Div"
  | Mod => "Mod" | Pow => "Pow" | LShift => "LShift" | RShift => "RShift" | BitOr => "BitOr"
  | BitXor => "BitXor" | BitAnd => "BitAnd" | FloorDiv => "FloorDiv" end.
Definition all_binops := [Add; Sub; Mult; MatMult; Div; Mod; Pow; LShift; RShift; BitOr; BitXor; BitAnd; FloorDiv].
Definition unop_name (o : unop) : string :=
  match o with Invert => "Invert" | Not => "Not" | UAdd => "UAdd" | USub => "USub" end.
Definition all_unops := [Invert; Not; UAdd; USub].
Definition boolop_name (o : boolop) : string := match o with And => "And" | Or => "Or" end.
Definition all_boolops := [And; Or].
Definition cmpop_name (o : cmpop) : string :=
  match o with Eq => "Eq" | NotEq => "NotEq" | Lt => "Lt" | LtE => "LtE" | Gt => "Gt" | GtE => "GtE"
  | Is => "Is" | IsNot => "IsNot" | In => "In" | NotIn => "NotIn" end.
Definition all_cmpops := [Eq; NotEq; Lt; LtE; Gt; GtE; Is; IsNot; In; NotIn].

Definition find_by_name {X} (nm : X -> string) (all : list X) (s : string) : option X :=
  find (fun x => String.eqb (nm x) s) all.

Definition binop_eqb (a b : binop) : bool := String.eqb (binop_name a) (binop_name b).

(* ------------------------------------------------------------------ *)
(* encoders                                                            *)

Definition sx_const (c : const) : sexp :=
  match c with
  | CNone => L [A "None"] | CTrue => L [A "True"] | CFalse => L [A "False"] | CEllipsis => L [A "Ellipsis"]
  | CInt z => L [A "int"; sx_z z]
  | CFloat r => L [A "float"; sx_cps r]
  | CComplex r => L [A "complex"; sx_cps r]
  | CStr s => L [A "str"; sx_cps s]
  | CBytes r => L [A "bytes"; sx_cps r]
  end.

Fixpoint sx_expr (e : expr) : sexp :=
  let sx_list := fun l => L (map sx_expr l) in
  let sx_oe := fun o => match o with None => L [] | Some x => L [sx_expr x] end in
  let sx_gens := fun (gs : list (expr * expr * list expr * bool)) =>
    L (map (fun g => match g with (t, i, ifs, a) => L [sx_expr t; sx_expr i; L (map sx_expr ifs); sx_bool a] end) gs) in
  match e with
  | Name id => L [A "Name"; sx_ident id]
  | Constant c => L [A "Constant"; sx_const c]
  | JoinedStr vs => L [A "JoinedStr"; sx_list vs]
  | FormattedValue v c f => L [A "FormattedValue"; sx_expr v; sx_z c; sx_oe f]
  | Starred v => L [A "Starred"; sx_expr v]
  | BinOp l o r => L [A "BinOp"; sx_expr l; A (binop_name o); sx_expr r]
  | BoolOp o vs => L [A "BoolOp"; A (boolop_name o); sx_list vs]
  | UnaryOp o v => L [A "UnaryOp"; A (unop_name o); sx_expr v]
  | EList l => L [A "List"; sx_list l]
  | ETuple l => L [A "Tuple"; sx_list l]
  | ESet l => L [A "Set"; sx_list l]
  | EDict ks vs => L [A "Dict"; L (map sx_oe ks); sx_list vs]
  | Compare l ops cs => L [A "Compare"; sx_expr l; L (map (fun o => A (cmpop_name o)) ops); sx_list cs]
  | Attribute v a => L [A "Attribute"; sx_expr v; sx_ident a]
  | Subscript v s => L [A "Subscript"; sx_expr v; sx_expr s]
  | Slice a b c => L [A "Slice"; sx_oe a; sx_oe b; sx_oe c]
  | Call f args kws => L [A "Call"; sx_expr f; sx_list args;
        L (map (fun kw => match kw with (k, v) => L [sx_opt sx_ident k; sx_expr v] end) kws)]
  | NamedExpr t v => L [A "NamedExpr"; sx_ident t; sx_expr v]
  | Lambda po ar va ko kd kw de body =>
      L [A "Lambda"; L (map sx_ident po); L (map sx_ident ar); sx_opt sx_ident va; L (map sx_ident ko);
         L (map sx_oe kd); sx_opt sx_ident kw; sx_list de; sx_expr body]
  | ListComp e gs => L [A "ListComp"; sx_expr e; sx_gens gs]
  | SetComp e gs => L [A "SetComp"; sx_expr e; sx_gens gs]
  | GeneratorExp e gs => L [A "GeneratorExp"; sx_expr e; sx_gens gs]
  | DictComp k v gs => L [A "DictComp"; sx_expr k; sx_expr v; sx_gens gs]
  | IfExp t b o => L [A "IfExp"; sx_expr t; sx_expr b; sx_expr o]
  | Yield v => L [A "Yield"; sx_oe v]
  | YieldFrom v => L [A "YieldFrom"; sx_expr v]
  | Await v => L [A "Await"; sx_expr v]
  | Other k => L [A "Other"; sx_ident k]
  end.

(* ------------------------------------------------------------------ *)
(* decoders                                                            *)

Definition const_of (x : sexp) : option const :=
  match x with
  | L [A t] => if String.eqb t "None" then Some CNone else if String.eqb t "True" then Some CTrue
               else if String.eqb t "False" then Some CFalse else if String.eqb t "Ellipsis" then Some CEllipsis else None
  | L [A t; v] =>
      if String.eqb t "int" then option_map CInt (z_of v)
      else if String.eqb t "float" then option_map CFloat (cps_of v)
      else if String.eqb t "complex" then option_map CComplex (cps_of v)
      else if String.eqb t "str" then option_map CStr (cps_of v)
      else if String.eqb t "bytes" then option_map CBytes (cps_of v)
      else None
  | _ => None
  end.

Definition bind {X Y} (o : option X) (f : X -> option Y) : option Y :=
  match o with Some x => f x | None => None end.
Notation "'do' x <- o ; k" := (bind o (fun x => k)) (at level 200, x pattern, o at level 100, k at level 200).

Fixpoint expr_of (x : sexp) : option expr :=
  let list_e := fun (y : sexp) => match y with L l => mapM expr_of l | _ => None end in
  let opt_e := fun (y : sexp) => match y with L [] => Some None | L [z] => option_map Some (expr_of z) | _ => None end in
  let gens_of := fun (y : sexp) =>
    match y with
    | L gs => mapM (fun g => match g with
                             | L [t; i; L ifs; a] =>
                                 do t' <- expr_of t; do i' <- expr_of i; do ifs' <- mapM expr_of ifs; do a' <- bool_of a;
                                 Some (t', i', ifs', a')
                             | _ => None end) gs
    | _ => None
    end in
  match x with
  | L (A t :: rest) =>
    if String.eqb t "Name" then match rest with [i] => option_map Name (ident_of i) | _ => None end
    else if String.eqb t "Constant" then match rest with [c] => option_map Constant (const_of c) | _ => None end
    else if String.eqb t "JoinedStr" then match rest with [l] => option_map JoinedStr (list_e l) | _ => None end
    else if String.eqb t "FormattedValue" then
      match rest with [v; c; f] => do v' <- expr_of v; do c' <- z_of c; do f' <- opt_e f; Some (FormattedValue v' c' f') | _ => None end
    else if String.eqb t "Starred" then match rest with [v] => option_map Starred (expr_of v) | _ => None end
    else if String.eqb t "BinOp" then
      match rest with [l; A o; r] => do l' <- expr_of l; do o' <- find_by_name binop_name all_binops o; do r' <- expr_of r; Some (BinOp l' o' r') | _ => None end
    else if String.eqb t "BoolOp" then
      match rest with [A o; l] => do o' <- find_by_name boolop_name all_boolops o; do l' <- list_e l; Some (BoolOp o' l') | _ => None end
    else if String.eqb t "UnaryOp" then
      match rest with [A o; v] => do o' <- find_by_name unop_name all_unops o; do v' <- expr_of v; Some (UnaryOp o' v') | _ => None end
    else if String.eqb t "List" then match rest with [l] => option_map EList (list_e l) | _ => None end
    else if String.eqb t "Tuple" then match rest with [l] => option_map ETuple (list_e l) | _ => None end
    else if String.eqb t "Set" then match rest with [l] => option_map ESet (list_e l) | _ => None end
    else if String.eqb t "Dict" then
      match rest with [L ks; vs] => do ks' <- mapM opt_e ks; do vs' <- list_e vs; Some (EDict ks' vs') | _ => None end
    else if String.eqb t "Compare" then
      match rest with [l; L ops; cs] =>
        do l' <- expr_of l;
        do ops' <- mapM (fun o => match o with A s => find_by_name cmpop_name all_cmpops s | _ => None end) ops;
        do cs' <- list_e cs; Some (Compare l' ops' cs') | _ => None end
    else if String.eqb t "Attribute" then
      match rest with [v; a] => do v' <- expr_of v; do a' <- ident_of a; Some (Attribute v' a') | _ => None end
    else if String.eqb t "Subscript" then
      match rest with [v; s] => do v' <- expr_of v; do s' <- expr_of s; Some (Subscript v' s') | _ => None end
    else if String.eqb t "Slice" then
      match rest with [a; b; c] => do a' <- opt_e a; do b' <- opt_e b; do c' <- opt_e c; Some (Slice a' b' c') | _ => None end
    else if String.eqb t "Call" then
      match rest with [f; args; L kws] =>
        do f' <- expr_of f; do args' <- list_e args;
        do kws' <- mapM (fun kw => match kw with L [k; v] => do k' <- opt_of ident_of k; do v' <- expr_of v; Some (k', v') | _ => None end) kws;
        Some (Call f' args' kws') | _ => None end
    else if String.eqb t "NamedExpr" then
      match rest with [i; v] => do i' <- ident_of i; do v' <- expr_of v; Some (NamedExpr i' v') | _ => None end
    else if String.eqb t "Lambda" then
      match rest with [L po; L ar; va; L ko; L kd; kw; de; body] =>
        do po' <- mapM ident_of po; do ar' <- mapM ident_of ar; do va' <- opt_of ident_of va;
        do ko' <- mapM ident_of ko; do kd' <- mapM opt_e kd; do kw' <- opt_of ident_of kw;
        do de' <- list_e de; do body' <- expr_of body;
        Some (Lambda po' ar' va' ko' kd' kw' de' body') | _ => None end
    else if String.eqb t "ListComp" then
      match rest with [e; gs] => do e' <- expr_of e; do gs' <- gens_of gs; Some (ListComp e' gs') | _ => None end
    else if String.eqb t "SetComp" then
      match rest with [e; gs] => do e' <- expr_of e; do gs' <- gens_of gs; Some (SetComp e' gs') | _ => None end
    else if String.eqb t "GeneratorExp" then
      match rest with [e; gs] => do e' <- expr_of e; do gs' <- gens_of gs; Some (GeneratorExp e' gs') | _ => None end
    else if String.eqb t "DictComp" then
      match rest with [k; v; gs] => do k' <- expr_of k; do v' <- expr_of v; do gs' <- gens_of gs; Some (DictComp k' v' gs') | _ => None end
    else if String.eqb t "IfExp" then
      match rest with [a; b; c] => do a' <- expr_of a; do b' <- expr_of b; do c' <- expr_of c; Some (IfExp a' b' c') | _ => None end
    else if String.eqb t "Yield" then match rest with [v] => option_map Yield (opt_e v) | _ => None end
    else if String.eqb t "YieldFrom" then match rest with [v] => option_map YieldFrom (expr_of v) | _ => None end
    else if String.eqb t "Await" then match rest with [v] => option_map Await (expr_of v) | _ => None end
    else if String.eqb t "Other" then match rest with [k] => option_map Other (ident_of k) | _ => None end
    else None
  | _ => None
  end.

Definition alias_of (x : sexp) : option (ident * option ident) :=
  match x with L [n; a] => do n' <- ident_of n; do a' <- opt_of ident_of a; Some (n', a') | _ => None end.

Definition kws_of (x : sexp) : option (list (option ident * expr)) :=
  match x with
  | L kws => mapM (fun kw => match kw with L [k; v] => do k' <- opt_of ident_of k; do v' <- expr_of v; Some (k', v') | _ => None end) kws
  | _ => None
  end.

Definition args_of (x : sexp) : option arguments :=
  match x with
  | L [L po; L ar; va; L ko; L kd; kw; L de] =>
      do po' <- mapM ident_of po; do ar' <- mapM ident_of ar; do va' <- opt_of ident_of va;
      do ko' <- mapM ident_of ko; do kd' <- mapM (opt_of expr_of) kd; do kw' <- opt_of ident_of kw;
      do de' <- mapM expr_of de;
      Some (mkArgs po' ar' va' ko' kd' kw' de')
  | _ => None
  end.

Fixpoint stmt_of (x : sexp) : option stmt :=
  let block := fun (y : sexp) => match y with L l => mapM stmt_of l | _ => None end in
  match x with
  | L (A t :: rest) =>
    if String.eqb t "Expr" then match rest with [e] => option_map SExpr (expr_of e) | _ => None end
    else if String.eqb t "If" then
      match rest with [c; b; o] => do c' <- expr_of c; do b' <- block b; do o' <- block o; Some (SIf c' b' o') | _ => None end
    else if String.eqb t "While" then
      match rest with [c; b; o] => do c' <- expr_of c; do b' <- block b; do o' <- block o; Some (SWhile c' b' o') | _ => None end
    else if String.eqb t "For" then
      match rest with [tg; it; b; o] => do tg' <- expr_of tg; do it' <- expr_of it; do b' <- block b; do o' <- block o; Some (SFor tg' it' b' o') | _ => None end
    else if String.eqb t "Break" then Some SBreak
    else if String.eqb t "Continue" then Some SContinue
    else if String.eqb t "Pass" then Some SPass
    else if String.eqb t "Assign" then
      match rest with [L ts; v] => do ts' <- mapM expr_of ts; do v' <- expr_of v; Some (SAssign ts' v') | _ => None end
    else if String.eqb t "AnnAssign" then
      match rest with [tg; v] => do tg' <- expr_of tg; do v' <- opt_of expr_of v; Some (SAnnAssign tg' v') | _ => None end
    else if String.eqb t "AugAssign" then
      match rest with [tg; A o; v] => do tg' <- expr_of tg; do o' <- find_by_name binop_name all_binops o; do v' <- expr_of v; Some (SAugAssign tg' o' v') | _ => None end
    else if String.eqb t "FunctionDef" then
      match rest with [n; ln; ar; b; L ds] =>
        do n' <- ident_of n; do ln' <- z_of ln; do ar' <- args_of ar; do b' <- block b; do ds' <- mapM expr_of ds;
        Some (SFunctionDef n' ln' ar' b' ds') | _ => None end
    else if String.eqb t "Return" then match rest with [v] => option_map SReturn (opt_of expr_of v) | _ => None end
    else if String.eqb t "Global" then match rest with [L ns] => option_map SGlobal (mapM ident_of ns) | _ => None end
    else if String.eqb t "Nonlocal" then match rest with [L ns] => option_map SNonlocal (mapM ident_of ns) | _ => None end
    else if String.eqb t "ClassDef" then
      match rest with [n; ln; L bs; kws; b; L ds] =>
        do n' <- ident_of n; do ln' <- z_of ln; do bs' <- mapM expr_of bs; do kws' <- kws_of kws; do b' <- block b; do ds' <- mapM expr_of ds;
        Some (SClassDef n' ln' bs' kws' b' ds') | _ => None end
    else if String.eqb t "Import" then match rest with [L ns] => option_map SImport (mapM alias_of ns) | _ => None end
    else if String.eqb t "ImportFrom" then
      match rest with [m; L ns; lv] => do m' <- opt_of ident_of m; do ns' <- mapM alias_of ns; do lv' <- z_of lv; Some (SImportFrom m' ns' lv') | _ => None end
    else if String.eqb t "Unsupported" then match rest with [k] => option_map SUnsupported (ident_of k) | _ => None end
    else None
  | _ => None
  end.

Definition block_of (x : sexp) : option (list stmt) :=
  match x with L l => mapM stmt_of l | _ => None end.

(* ------------------------------------------------------------------ *)
(* induction principle with Forall on nested lists                      *)

Section ExprInd.
  Variable P : expr -> Prop.
  Definition Pl (l : list expr) := Forall P l.
  Definition Po (o : option expr) := match o with Some x => P x | None => True end.
  Definition Pg (gs : list comprehension) :=
    Forall (fun g => match g with (t, i, ifs, _) => P t /\ P i /\ Pl ifs end) gs.
  Hypothesis HName : forall i, P (Name i).
  Hypothesis HConstant : forall c, P (Constant c).
  Hypothesis HJoinedStr : forall vs, Pl vs -> P (JoinedStr vs).
  Hypothesis HFormattedValue : forall v c f, P v -> Po f -> P (FormattedValue v c f).
  Hypothesis HStarred : forall v, P v -> P (Starred v).
  Hypothesis HBinOp : forall l o r, P l -> P r -> P (BinOp l o r).
  Hypothesis HBoolOp : forall o vs, Pl vs -> P (BoolOp o vs).
  Hypothesis HUnaryOp : forall o v, P v -> P (UnaryOp o v).
  Hypothesis HList : forall l, Pl l -> P (EList l).
  Hypothesis HTuple : forall l, Pl l -> P (ETuple l).
  Hypothesis HSet : forall l, Pl l -> P (ESet l).
  Hypothesis HDict : forall ks vs, Forall Po ks -> Pl vs -> P (EDict ks vs).
  Hypothesis HCompare : forall l ops cs, P l -> Pl cs -> P (Compare l ops cs).
  Hypothesis HAttribute : forall v a, P v -> P (Attribute v a).
  Hypothesis HSubscript : forall v s, P v -> P s -> P (Subscript v s).
  Hypothesis HSlice : forall a b c, Po a -> Po b -> Po c -> P (Slice a b c).
  Hypothesis HCall : forall f args kws, P f -> Pl args -> Forall (fun kw => P (snd kw)) kws -> P (Call f args kws).
  Hypothesis HNamedExpr : forall t v, P v -> P (NamedExpr t v).
  Hypothesis HLambda : forall po ar va ko kd kw de body,
      Forall Po kd -> Pl de -> P body -> P (Lambda po ar va ko kd kw de body).
  Hypothesis HListComp : forall e gs, P e -> Pg gs -> P (ListComp e gs).
  Hypothesis HSetComp : forall e gs, P e -> Pg gs -> P (SetComp e gs).
  Hypothesis HGeneratorExp : forall e gs, P e -> Pg gs -> P (GeneratorExp e gs).
  Hypothesis HDictComp : forall k v gs, P k -> P v -> Pg gs -> P (DictComp k v gs).
  Hypothesis HIfExp : forall t b o, P t -> P b -> P o -> P (IfExp t b o).
  Hypothesis HYield : forall v, Po v -> P (Yield v).
  Hypothesis HYieldFrom : forall v, P v -> P (YieldFrom v).
  Hypothesis HAwait : forall v, P v -> P (Await v).
  Hypothesis HOther : forall k, P (Other k).

  Fixpoint expr_ind' (e : expr) : P e :=
    let fl := fix fl (l : list expr) : Pl l :=
      match l with [] => Forall_nil _ | x :: r => Forall_cons _ (expr_ind' x) (fl r) end in
    let fo := fun (o : option expr) => match o return Po o with Some x => expr_ind' x | None => I end in
    let flo := fix flo (l : list (option expr)) : Forall Po l :=
      match l with [] => Forall_nil _ | x :: r => Forall_cons _ (fo x) (flo r) end in
    let fg := fix fg (gs : list comprehension) : Pg gs :=
      match gs with
      | [] => Forall_nil _
      | (t, i, ifs, a) :: r => Forall_cons (t, i, ifs, a) (conj (expr_ind' t) (conj (expr_ind' i) (fl ifs))) (fg r)
      end in
    let fk := fix fk (kws : list (option ident * expr)) : Forall (fun kw => P (snd kw)) kws :=
      match kws with [] => Forall_nil _ | (k, v) :: r => Forall_cons (k, v) (expr_ind' v) (fk r) end in
    match e with
    | Name i => HName i
    | Constant c => HConstant c
    | JoinedStr vs => HJoinedStr vs (fl vs)
    | FormattedValue v c f => HFormattedValue v c f (expr_ind' v) (fo f)
    | Starred v => HStarred v (expr_ind' v)
    | BinOp l o r => HBinOp l o r (expr_ind' l) (expr_ind' r)
    | BoolOp o vs => HBoolOp o vs (fl vs)
    | UnaryOp o v => HUnaryOp o v (expr_ind' v)
    | EList l => HList l (fl l)
    | ETuple l => HTuple l (fl l)
    | ESet l => HSet l (fl l)
    | EDict ks vs => HDict ks vs (flo ks) (fl vs)
    | Compare l ops cs => HCompare l ops cs (expr_ind' l) (fl cs)
    | Attribute v a => HAttribute v a (expr_ind' v)
    | Subscript v s => HSubscript v s (expr_ind' v) (expr_ind' s)
    | Slice a b c => HSlice a b c (fo a) (fo b) (fo c)
    | Call f args kws => HCall f args kws (expr_ind' f) (fl args) (fk kws)
    | NamedExpr t v => HNamedExpr t v (expr_ind' v)
    | Lambda po ar va ko kd kw de body => HLambda po ar va ko kd kw de body (flo kd) (fl de) (expr_ind' body)
    | ListComp e gs => HListComp e gs (expr_ind' e) (fg gs)
    | SetComp e gs => HSetComp e gs (expr_ind' e) (fg gs)
    | GeneratorExp e gs => HGeneratorExp e gs (expr_ind' e) (fg gs)
    | DictComp k v gs => HDictComp k v gs (expr_ind' k) (expr_ind' v) (fg gs)
    | IfExp t b o => HIfExp t b o (expr_ind' t) (expr_ind' b) (expr_ind' o)
    | Yield v => HYield v (fo v)
    | YieldFrom v => HYieldFrom v (expr_ind' v)
    | Await v => HAwait v (expr_ind' v)
    | Other k => HOther k
    end.
End ExprInd.

Section StmtInd.
  Variable P : stmt -> Prop.
  Hypothesis HExpr : forall e, P (SExpr e).
  Hypothesis HIf : forall t b o, Forall P b -> Forall P o -> P (SIf t b o).
  Hypothesis HWhile : forall t b o, Forall P b -> Forall P o -> P (SWhile t b o).
  Hypothesis HFor : forall tg it b o, Forall P b -> Forall P o -> P (SFor tg it b o).
  Hypothesis HBreak : P SBreak.
  Hypothesis HContinue : P SContinue.
  Hypothesis HPass : P SPass.
  Hypothesis HAssign : forall ts v, P (SAssign ts v).
  Hypothesis HAnnAssign : forall t v, P (SAnnAssign t v).
  Hypothesis HAugAssign : forall t o v, P (SAugAssign t o v).
  Hypothesis HFunctionDef : forall n ln a b d, Forall P b -> P (SFunctionDef n ln a b d).
  Hypothesis HReturn : forall v, P (SReturn v).
  Hypothesis HGlobal : forall ns, P (SGlobal ns).
  Hypothesis HNonlocal : forall ns, P (SNonlocal ns).
  Hypothesis HClassDef : forall n ln bs kws b d, Forall P b -> P (SClassDef n ln bs kws b d).
  Hypothesis HImport : forall ns, P (SImport ns).
  Hypothesis HImportFrom : forall m ns lv, P (SImportFrom m ns lv).
  Hypothesis HUnsupported : forall k, P (SUnsupported k).

  Fixpoint stmt_ind' (s : stmt) : P s :=
    let fl := fix fl (l : list stmt) : Forall P l :=
      match l with [] => Forall_nil _ | x :: r => Forall_cons _ (stmt_ind' x) (fl r) end in
    match s with
    | SExpr e => HExpr e
    | SIf t b o => HIf t b o (fl b) (fl o)
    | SWhile t b o => HWhile t b o (fl b) (fl o)
    | SFor tg it b o => HFor tg it b o (fl b) (fl o)
    | SBreak => HBreak | SContinue => HContinue | SPass => HPass
    | SAssign ts v => HAssign ts v
    | SAnnAssign t v => HAnnAssign t v
    | SAugAssign t o v => HAugAssign t o v
    | SFunctionDef n ln a b d => HFunctionDef n ln a b d (fl b)
    | SReturn v => HReturn v
    | SGlobal ns => HGlobal ns
    | SNonlocal ns => HNonlocal ns
    | SClassDef n ln bs kws b d => HClassDef n ln bs kws b d (fl b)
    | SImport ns => HImport ns
    | SImportFrom m ns lv => HImportFrom m ns lv
    | SUnsupported k => HUnsupported k
    end.
End StmtInd.
