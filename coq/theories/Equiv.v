(* C01: the three options change the shape of the output, never what it does.

   (1) if_style: the conditional expression `b if t else o` and the short-circuit form
       `not not t and [b] or o` (`(True if t else False) and [b] or o` for an and/or condition) reach the same state - for ALL sub-expressions, oracles and fuels - in the
       evaluator of the scaffolding expressions (KSem.run);
   (2) expr_wrapper: the list display [e1, ..., en] and the chained call  (lambda: (_ := lambda __: _))()(e1)...(en)
       perform the effects of e1 ... en once each, in that order - for every n - under call-by-value evaluation. *)
From Coq Require Import String Ascii List ZArith Bool Arith Lia.
From OL Require Import Sexp PyAst Namespace Lower KSem KSimBase.
Import ListNotations.
Local Open Scope string_scope.
Local Open Scope list_scope.

Section IfStyles.
  Variable orc : nat -> bool.
  Notation Ev := (Ev orc).


  Lemma run_boolop_or f es s : run orc (S f) (MExpr (BoolOp Or es)) s = run orc f (MOr es VNone) s.
  Proof. reflexivity. Qed.
  Lemma run_or_cons f e r last s :
    run orc (S f) (MOr (e :: r) last) s =
    match run orc f (MExpr e) s with
    | Some (v, s1) => if truthy v then Some (v, s1) else run orc f (MOr r v) s1
    | None => None end.
  Proof. reflexivity. Qed.
  Lemma run_or_nil f last s : run orc (S f) (MOr [] last) s = Some (last, s).
  Proof. reflexivity. Qed.

  Lemma Ev_or_true s a b v s1 : Ev (MExpr a) s (v, s1) -> truthy v = true -> Ev (MExpr (BoolOp Or [a; b])) s (v, s1).
  Proof. intros [f H] Ht. exists (S (S f)). rewrite run_boolop_or, run_or_cons, H, Ht. reflexivity. Qed.
  Lemma Ev_or_false s a b v s1 w s2 : Ev (MExpr a) s (v, s1) -> truthy v = false -> Ev (MExpr b) s1 (w, s2) ->
    Ev (MExpr (BoolOp Or [a; b])) s (w, s2).
  Proof.
    intros H1 Ht H2. destruct (Ev2 orc _ _ _ _ _ _ H1 H2) as [f [A B]]. exists (S (S (S (S f)))).
    rewrite run_boolop_or, run_or_cons.
    rewrite (run_mono orc _ _ _ _ A (S (S f))) by lia. rewrite Ht.
    rewrite run_or_cons. rewrite (run_mono orc _ _ _ _ B (S f)) by lia.
    rewrite run_or_nil. destruct (truthy w); reflexivity.
  Qed.
  Lemma Ev_one s : Ev (MExpr (cint 1)) s (VInt 1, s).
  Proof. exists 1. reflexivity. Qed.

  Lemma Ev_ifexp_inv s t b o r : Ev (MExpr (IfExp t b o)) s r ->
    exists v s1, Ev (MExpr t) s (v, s1) /\ (if truthy v then Ev (MExpr b) s1 r else Ev (MExpr o) s1 r).
  Proof.
    intros [f H]. destruct f as [|f]; [discriminate|]. cbn [run] in H.
    destruct (run orc f (MExpr t) s) as [[v s1]|] eqn:Et; [|discriminate].
    exists v, s1. split; [exists f; exact Et|]. destruct (truthy v); exists f; exact H.
  Qed.

  (* the two ways the converter reduces the condition to a bool *)
  Definition once_not (t : expr) : expr := UnaryOp Not (UnaryOp Not t).
  Definition once_if (t : expr) : expr := IfExp t ctrue cfalse.
  Definition short_form_gen (once : expr -> expr) (t b o : expr) : expr :=
    BoolOp Or [BoolOp And [once t; EList [b]]; o].

  Lemma once_not_ok t s vt s1 : Ev (MExpr t) s (vt, s1) -> Ev (MExpr (once_not t)) s (VBool (truthy vt), s1).
  Proof.
    intros Ht. pose proof (Ev_not orc _ _ _ _ (Ev_not orc _ _ _ _ Ht)) as Hnn.
    cbn [truthy] in Hnn. rewrite negb_involutive in Hnn. exact Hnn.
  Qed.
  Lemma once_if_ok t s vt s1 : Ev (MExpr t) s (vt, s1) -> Ev (MExpr (once_if t)) s (VBool (truthy vt), s1).
  Proof.
    intros Ht. unfold once_if. destruct (truthy vt) eqn:Tv.
    - eapply Ev_if_true; [exact Ht|exact Tv|apply Ev_true].
    - eapply Ev_if_false; [exact Ht|exact Tv|apply Ev_false].
  Qed.

  (* THEOREM: whatever the condition and the branches are, the short-circuit form reaches the state the conditional
     expression reaches (the condition is evaluated once, exactly one branch runs) *)
  Theorem if_styles_agree_gen : forall once,
    (forall t s vt s1, Ev (MExpr t) s (vt, s1) -> Ev (MExpr (once t)) s (VBool (truthy vt), s1)) ->
    forall t b o s v s',
    Ev (MExpr (IfExp t b o)) s (v, s') -> exists v', Ev (MExpr (short_form_gen once t b o)) s (v', s').
  Proof.
    intros once Honce t b o s v s' H. destruct (Ev_ifexp_inv _ _ _ _ _ H) as [vt [s1 [Ht Hbr]]].
    pose proof (Honce _ _ _ _ Ht) as Hnn.
    unfold short_form_gen. destruct (truthy vt) eqn:Tv.
    - (* the body runs; the one-element list is true whatever the body returns *)
      assert (Hb1 : Ev (MExpr (EList [b])) s1 (VList 1, s')).
      { apply (Ev_elist orc [b] s1 s'). eapply ES_cons; [exact Hbr|apply ES_nil]. }
      exists (VList 1). apply Ev_or_true; [|reflexivity].
      eapply Ev_and_true; [exact Hnn|reflexivity|exact Hb1].
    - (* the other branch runs *)
      exists v. eapply Ev_or_false; [apply Ev_and_false; [exact Hnn|reflexivity]|reflexivity|exact Hbr].
  Qed.

  Theorem if_styles_agree : forall t b o s v s',
    Ev (MExpr (IfExp t b o)) s (v, s') ->
    (exists v', Ev (MExpr (short_form_gen once_not t b o)) s (v', s')) /\
    (exists v', Ev (MExpr (short_form_gen once_if t b o)) s (v', s')).
  Proof.
    intros. split; eapply if_styles_agree_gen; eauto using once_not_ok, once_if_ok.
  Qed.
End IfStyles.

(* ---------- expr_wrapper ---------- *)
Section Wrappers.
  Variable S : Type.                           (* the state the statements act on *)
  Variable item : expr -> S -> option S.       (* the effect of evaluating one converted statement *)

  (* a list display evaluates its elements from left to right *)
  Fixpoint eval_list (es : list expr) (s : S) : option S :=
    match es with
    | [] => Some s
    | e :: r => match item e s with Some s1 => eval_list r s1 | None => None end
    end.

  (* call-by-value evaluation of the chained call: the callee, then the argument, then the application.  The callee is
     always the function `_` = `lambda __: _`, whose application returns `_` itself (the name `_` is a local of the helper
     lambda that created it, so the arguments cannot rebind it). *)
  Definition is_runner (e : expr) : bool :=
    match e with
    | Call f [] [] =>
        match f with
        | Lambda [] [] None [] [] None [] (NamedExpr "_" (Lambda [] ["__"] None [] [] None [] (Name "_"))) => true
        | _ => false
        end
    | _ => false
    end.

  Fixpoint eval_chain (e : expr) (s : S) : option S :=
    if is_runner e then Some s                 (* the helper lambda is called: it binds and returns `_` *)
    else match e with
         | Call f [a] [] =>
             match eval_chain f s with         (* the callee: `_` again *)
             | Some s1 => item a s1            (* then the argument; the application returns `_` *)
             | None => None
             end
         | _ => None
         end.

  Lemma eval_chain_runner s : eval_chain chain_runner s = Some s.
  Proof. reflexivity. Qed.

  Lemma eval_chain_call f a s : eval_chain (call f [a]) s = match eval_chain f s with Some s1 => item a s1 | None => None end.
  Proof. unfold call. cbn [eval_chain is_runner]. reflexivity. Qed.

  Lemma fold_chain : forall rest acc s,
    eval_chain (fold_left (fun c n => call c [n]) rest acc) s =
    match eval_chain acc s with Some s1 => eval_list rest s1 | None => None end.
  Proof.
    induction rest as [|x r IH]; intros acc s; cbn [fold_left eval_list].
    - destruct (eval_chain acc s); reflexivity.
    - rewrite IH, eval_chain_call. destruct (eval_chain acc s) as [s1|]; [|reflexivity]. destruct (item x s1); reflexivity.
  Qed.

  (* THEOREM: for every number of statements, the chained call performs their effects once each, in order: exactly what
     the list display does *)
  Theorem wrappers_agree : forall es s, es <> [] -> eval_chain (chain_call es) s = eval_list es s.
  Proof.
    intros es s Hne. destruct es as [|e0 rest]; [contradiction|]. unfold chain_call. rewrite fold_chain.
    rewrite eval_chain_call, eval_chain_runner. cbn [eval_list]. destruct (item e0 s); reflexivity.
  Qed.
End Wrappers.
