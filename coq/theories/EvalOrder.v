(* C07: order and multiplicity of the evaluation of source subexpressions.
   [events e]: the probe subexpressions p(k) that evaluating e evaluates, in Python's left-to-right order
   (function before arguments, arguments before keywords, operands left to right, a lambda evaluates its defaults
   but not its body, a conditional evaluates its test and then ONE branch - defined when both branches evaluate the
   same probes).  [src_*]: the order the language reference prescribes for the statement.  Theorems: they coincide. *)
From Coq Require Import String List ZArith Bool Arith Lia.
From OL Require Import Sexp PyAst Namespace Lower FuncDef ClassNs.
From OLGen Require Import Tables.
Import ListNotations.
Open Scope string_scope.
Open Scope list_scope.

Definition oapp (a b : option (list Z)) : option (list Z) :=
  match a, b with Some x, Some y => Some (x ++ y) | _, _ => None end.

Fixpoint zl_eqb (a b : list Z) : bool :=
  match a, b with
  | [], [] => true
  | x :: a', y :: b' => Z.eqb x y && zl_eqb a' b'
  | _, _ => false
  end.
Lemma zl_eqb_refl a : zl_eqb a a = true.
Proof. induction a; cbn; [reflexivity|]. rewrite Z.eqb_refl. exact IHa. Qed.

(* p(k) *)
Definition is_probe (e : expr) : option Z :=
  match e with
  | Call (Name f) args kws =>
      match kws with
      | [] => match args with
              | [x] => match x with Constant (CInt k) => if String.eqb f "p" then Some k else None | _ => None end
              | _ => None
              end
      | _ => None
      end
  | _ => None
  end.

Fixpoint events (e : expr) : option (list Z) :=
  let evl := fix evl (l : list expr) : option (list Z) :=
    match l with [] => Some [] | x :: r => oapp (events x) (evl r) end in
  let evo := fun (o : option expr) => match o with Some x => events x | None => Some [] end in
  let evlo := fix evlo (l : list (option expr)) : option (list Z) :=
    match l with [] => Some [] | x :: r => oapp (evo x) (evlo r) end in
  match e with
  | Name _ | Constant _ => Some []
  | Call f args kws =>
      match is_probe e with
      | Some k => Some [k]
      | None =>
          oapp (events f) (oapp (evl args)
            ((fix evk (l : list (option ident * expr)) : option (list Z) :=
                match l with [] => Some [] | kw :: r => oapp (events (snd kw)) (evk r) end) kws))
      end
  | NamedExpr _ v => events v
  | EList es | ETuple es => evl es
  | Attribute v _ => events v
  | Subscript v s => oapp (events v) (events s)
  | Slice a b c => oapp (evo a) (oapp (evo b) (evo c))
  | BinOp l _ r => oapp (events l) (events r)
  | UnaryOp _ v => events v
  | IfExp t b o =>
      match events b, events o with
      | Some eb, Some eo => if zl_eqb eb eo then oapp (events t) (Some eb) else None
      | _, _ => None
      end
  | Lambda _ _ _ _ kd _ de _ => oapp (evl de) (evlo kd)       (* positional defaults, then keyword-only defaults *)
  | EDict [] [] => Some []                                     (* the empty display the class creation passes *)
  | _ => None
  end.

Fixpoint events_seq (es : list expr) : option (list Z) :=
  match es with [] => Some [] | x :: r => oapp (events x) (events_seq r) end.

Lemma oapp_nil_r a : oapp a (Some []) = a.
Proof. destruct a; cbn; [rewrite app_nil_r|]; reflexivity. Qed.
Lemma oapp_nil_l a : oapp (Some []) a = a.
Proof. destruct a; reflexivity. Qed.
Lemma oapp_assoc a b c : oapp (oapp a b) c = oapp a (oapp b c).
Proof. destruct a, b, c; cbn; try reflexivity. rewrite app_assoc. reflexivity. Qed.
Lemma events_seq_app a b : events_seq (a ++ b) = oapp (events_seq a) (events_seq b).
Proof.
  induction a as [|x r IH]; cbn [app events_seq]; [destruct (events_seq b); reflexivity|].
  rewrite IH, oapp_assoc. reflexivity.
Qed.

(* an expression the rewriting leaves unchanged at module level (probes, names, attribute chains ...) *)
Definition stable (g : nsp) (e : expr) : Prop := tr g e = inl e.

(* ---------------- reference orders (language reference 7.2, 7.2.1, 8.7) ---------------- *)
Definition target_events (t : expr) : option (list Z) :=
  match t with
  | Name _ => Some []
  | Attribute o _ => events o
  | Subscript o i => oapp (events o) (events i)
  | _ => None
  end.

(* assignment: the value, then the targets from left to right (object, then index) *)
Fixpoint src_targets (ts : list expr) : option (list Z) :=
  match ts with [] => Some [] | t :: r => oapp (target_events t) (src_targets r) end.
Definition src_assign (ts : list expr) (v : expr) : option (list Z) := oapp (events v) (src_targets ts).

(* augmented assignment: the target's object (and index) once, then the value *)
Definition src_augassign (t v : expr) : option (list Z) := oapp (target_events t) (events v).

(* def: decorators from top to bottom, then the parameter defaults *)
Definition src_def (decs : list expr) (args : arguments) : option (list Z) :=
  oapp (events_seq decs) (oapp (events_seq (a_defaults args))
       ((fix evlo (l : list (option expr)) : option (list Z) :=
           match l with [] => Some [] | Some x :: r => oapp (events x) (evlo r) | None :: r => evlo r end) (a_kw_defaults args))).

Section Order.
  Variable g : nsp.
  Hypothesis Hg : n_kind g = NGlobal.

  Definition simple_target (t : expr) : Prop :=
    match t with
    | Name _ => True
    | Attribute o _ => stable g o
    | Subscript o i => stable g o /\ stable g i /\ (match i with Slice _ _ _ | ETuple _ => False | _ => True end)
    | _ => False
    end.

  Lemma store_events p t v : simple_target t -> events v = Some [] ->
    exists es, assign_auto g p t v = inl es /\ events_seq es = target_events t.
  Proof.
    intros Ht Hv. destruct t; try contradiction; cbn [assign_auto simple_target] in *.
    - unfold get_assign. rewrite Hg. cbn [rbind ret]. eexists. split; [reflexivity|]. cbn [events_seq events target_events]. rewrite Hv. reflexivity.
    - unfold assign_attribute. unfold stable in Ht. rewrite Ht. cbn [rbind ret]. eexists. split; [reflexivity|].
      cbn [events_seq target_events]. unfold call, cstr. cbn [events]. rewrite Hv.
      destruct (events t) as [l|]; cbn; [rewrite !app_nil_r|]; reflexivity.
    - destruct Ht as [Ho [Hi Hs]]. unfold assign_subscript. unfold stable in Ho, Hi. rewrite Ho. cbn [rbind]. rewrite Hi. cbn [rbind ret].
      eexists. split; [reflexivity|]. cbn [events_seq target_events].
      assert (Hc : convert_index t2 = t2) by (destruct t2; try reflexivity; contradiction). rewrite Hc.
      unfold call. cbn [events]. rewrite Hv.
      destruct (events t1) as [l1|]; destruct (events t2) as [l2|]; cbn; rewrite ?app_nil_r; reflexivity.
  Qed.

  Lemma stores_events : forall ts p k v, Forall simple_target ts -> events v = Some [] ->
    exists es,
      (fix go (ts : list expr) (k : nat) : res (list expr) :=
         match ts with
         | [] => ret []
         | t :: r => let! a := assign_auto g (k :: p) t v in let! b := go r (S k) in ret (a ++ b)
         end) ts k = inl es /\ events_seq es = src_targets ts.
  Proof.
    induction ts as [|t r IH]; intros p k v HF Hv.
    - exists []. split; reflexivity.
    - inversion HF as [|? ? Ht Hr]; subst.
      destruct (store_events (k :: p) t v Ht Hv) as [a [Ha Ea]].
      destruct (IH p (S k) v Hr Hv) as [b [Hb Eb]].
      exists (a ++ b). split.
      + rewrite Ha. cbn [rbind]. rewrite Hb. reflexivity.
      + rewrite events_seq_app, Ea, Eb. reflexivity.
  Qed.

  (* ASSIGNMENT, any number of targets, each a name / attribute / subscript: the value exactly once and first, then the
     targets' objects and indices from left to right - Python's order *)
  Theorem assign_order : forall cfg loops ru p ts v,
    ts <> [] -> Forall simple_target ts -> stable g v ->
    exists es, lower_stmt cfg (mkCtx g loops ru) p (SAssign ts v) = inl es /\ events_seq es = src_assign ts v.
  Proof.
    intros cfg loops ru p ts v Hne HF Hv. cbn [lower_stmt c_nsp]. unfold stable in Hv. rewrite Hv. cbn [rbind].
    unfold src_assign.
    assert (Shared : forall ts0, Forall simple_target ts0 ->
              exists es, (let! stores :=
                            (fix go (ts1 : list expr) (k : nat) {struct ts1} : res (list expr) :=
                               match ts1 with
                               | [] => ret []
                               | t :: r => let! a := assign_auto g (k :: p) t (Name (ol "assign" (path_str p))) in let! b := go r (S k) in ret (a ++ b)
                               end) ts0 0 in ret ([NamedExpr (ol "assign" (path_str p)) v] ++ stores)) = inl es /\
                         events_seq es = oapp (events v) (src_targets ts0)).
    { intros ts0 HF0. destruct (stores_events ts0 p 0 (Name (ol "assign" (path_str p))) HF0 eq_refl) as [es [He Ee]].
      rewrite He. cbn [rbind ret]. eexists. split; [reflexivity|]. cbn [app events_seq events]. rewrite Ee. reflexivity. }
    destruct ts as [|t [|t2 r]]; [contradiction| |exact (Shared _ HF)].
    inversion HF as [|? ? Ht _]; subst. destruct t; try contradiction; try exact (Shared _ HF).
    (* a single name: the value is stored directly *)
    cbn [shared_value assign_auto]. unfold get_assign. rewrite Hg. cbn [rbind ret app]. eexists. split; [reflexivity|].
    cbn [events_seq events src_targets target_events]. destruct (events v); reflexivity.
  Qed.

  (* AUGMENTED ASSIGNMENT to a name: the value exactly once (whichever branch runs) *)
  Theorem augassign_name_order : forall cfg loops ru p x op v evs,
    stable g v -> events v = Some evs ->
    exists es, lower_stmt cfg (mkCtx g loops ru) p (SAugAssign (Name x) op v) = inl es /\ events_seq es = Some evs.
  Proof.
    intros cfg loops ru p x op v evs Hv He. cbn [lower_stmt c_nsp]. unfold lower_augassign. unfold stable in Hv. rewrite Hv. cbn [rbind].
    unfold get_load_name, get_assign. rewrite Hg. cbn [rbind ret]. eexists. split; [reflexivity|].
    unfold call, cstr, aug_expr. cbn. rewrite He. cbn. rewrite ?app_nil_r, zl_eqb_refl. cbn. rewrite ?app_nil_r. reflexivity.
  Qed.

  (* ... to an attribute: the object exactly once, then the value exactly once *)
  Theorem augassign_attr_order : forall cfg loops ru p o a op v eo evs,
    stable g o -> stable g v -> events o = Some eo -> events v = Some evs ->
    exists es, lower_stmt cfg (mkCtx g loops ru) p (SAugAssign (Attribute o a) op v) = inl es /\
               events_seq es = Some (eo ++ evs).
  Proof.
    intros cfg loops ru p o a op v eo evs Ho Hv Eo Ev. cbn [lower_stmt c_nsp]. unfold lower_augassign. unfold stable in Ho, Hv.
    rewrite Hv. cbn [rbind]. rewrite Ho. cbn [rbind ret]. eexists. split; [reflexivity|].
    unfold call, cstr, aug_expr. cbn. rewrite Eo, Ev. cbn. rewrite ?app_nil_r, zl_eqb_refl. cbn. rewrite ?app_nil_r. reflexivity.
  Qed.

  (* ... to a subscript: object once, index once, then the value once *)
  Theorem augassign_sub_order : forall cfg loops ru p o i op v eo ei evs,
    stable g o -> stable g i -> (match i with Slice _ _ _ | ETuple _ => False | _ => True end) -> stable g v ->
    events o = Some eo -> events i = Some ei -> events v = Some evs ->
    exists es, lower_stmt cfg (mkCtx g loops ru) p (SAugAssign (Subscript o i) op v) = inl es /\
               events_seq es = Some (eo ++ ei ++ evs).
  Proof.
    intros cfg loops ru p o i op v eo ei evs Ho Hi Hs Hv Eo Ei Ev. cbn [lower_stmt c_nsp]. unfold lower_augassign. unfold stable in Ho, Hi, Hv.
    rewrite Hv. cbn [rbind]. rewrite Ho. cbn [rbind].
    assert (Hc : convert_index i = i) by (destruct i; try reflexivity; contradiction). rewrite Hc, Hi. cbn [rbind ret].
    eexists. split; [reflexivity|].
    unfold call, cstr, aug_expr. cbn. rewrite Eo, Ei, Ev. cbn. rewrite ?app_nil_r, zl_eqb_refl. cbn. rewrite ?app_nil_r, <- ?app_assoc. reflexivity.
  Qed.
End Order.

(* DECORATORS and DEFAULTS *)
Lemma events_call1 d f : (forall c, f <> Constant c) -> events (call d [f]) = oapp (events d) (events f).
Proof.
  intros Hf. unfold call. cbn [events].
  assert (P : is_probe (Call d [f] []) = None).
  { unfold is_probe. destruct d; try reflexivity. destruct f; try reflexivity. exfalso. eapply Hf. reflexivity. }
  rewrite P. destruct (events d), (events f); cbn; rewrite ?app_nil_r; reflexivity.
Qed.

(* decorate [d_n; ...; d_1] f = d_1( ... d_n(f)) evaluates d_1 first: for the source order [d_1 (top); ...; d_n] the
   decorator expressions are evaluated top-down, then what f evaluates (its defaults); application is bottom-up *)
Lemma decorate_events : forall ds f, (forall c, f <> Constant c) ->
  events (decorate ds f) = oapp (events_seq (rev ds)) (events f).
Proof.
  induction ds as [|d r IH]; intros f Hf; cbn [decorate fold_left rev].
  - cbn. destruct (events f); reflexivity.
  - fold (decorate r (call d [f])). rewrite IH by (intros c; unfold call; discriminate).
    rewrite events_seq_app. cbn [events_seq]. rewrite oapp_nil_r, oapp_assoc, events_call1 by exact Hf. reflexivity.
Qed.

Lemma decorate_not_const : forall ds f, (forall c, f <> Constant c) -> forall c, decorate ds f <> Constant c.
Proof.
  induction ds as [|d r IH]; intros f Hf c; cbn [decorate fold_left]; [apply Hf|].
  fold (decorate r (call d [f])). apply IH. intros c'. unfold call. discriminate.
Qed.

Lemma rmap_stable g l : Forall (stable g) l -> rmap (tr g) l = inl l.
Proof.
  induction 1 as [|x r Hx Hr IH]; [reflexivity|]. cbn [rmap]. unfold stable in Hx. rewrite Hx. cbn [rbind]. rewrite IH. reflexivity.
Qed.

Lemma evl_events_seq l :
  (fix evl (l : list expr) : option (list Z) := match l with [] => Some [] | x :: r => oapp (events x) (evl r) end) l = events_seq l.
Proof. induction l; cbn; [reflexivity|]. rewrite IHl. reflexivity. Qed.

(* a def at module level with decorators and defaults that the rewriting leaves unchanged: the emitted expression
   evaluates the decorators top-down, then the positional defaults, then the keyword-only defaults - once each *)
Theorem def_order : forall cfg g loops ru p name ln args body decs es,
  n_kind g = NGlobal -> Forall (stable g) decs -> Forall (stable g) (a_defaults args) ->
  Forall (fun d => match d with Some x => stable g x | None => True end) (a_kw_defaults args) ->
  lower_stmt cfg (mkCtx g loops ru) p (SFunctionDef name ln args body decs) = inl es ->
  events_seq es = src_def decs args.
Proof.
  intros cfg g loops ru p name ln args body decs es Hg Hd Hde Hkd H.
  destruct (funcdef_shape _ _ _ _ _ _ _ _ _ H) as [fn [ds [kds [decs' [lbody [e [A [B [C [D E]]]]]]]]]].
  cbn [c_nsp] in *.
  rewrite (rmap_stable g _ Hde) in B. injection B as <-.
  assert (Hrev : Forall (stable g) (rev decs)) by (apply Forall_rev; exact Hd).
  rewrite (rmap_stable g _ Hrev) in D. injection D as <-.
  assert (Hkds : kds = a_kw_defaults args).
  { clear -C Hkd. revert kds C. induction Hkd as [|d r Hd Hr IH]; intros kds C; cbn [rmap] in C.
    - injection C as <-. reflexivity.
    - destruct d as [x|].
      + unfold stable in Hd. rewrite Hd in C. cbn [rbind ret] in C.
        destruct (rmap _ r) as [r'|] eqn:Er; cbn [rbind ret] in C; [|discriminate]. injection C as <-. f_equal. apply IH. reflexivity.
      + cbn [rbind ret] in C. destruct (rmap _ r) as [r'|] eqn:Er; cbn [rbind ret] in C; [|discriminate]. injection C as <-. f_equal. apply IH. reflexivity. }
  subst kds. cbn zeta in E. destruct E as [E ->]. unfold get_assign in E. rewrite Hg in E.
  cbn [events_seq]. rewrite oapp_nil_r.
  assert (Hlam : forall lam, (forall c, lam <> Constant c) ->
            events (hook_wrap p (n_is_method fn) name decs (decorate (rev decs) lam))
            = oapp (events_seq decs) (events lam)).
  { intros lam Hl. unfold hook_wrap.
    assert (Hw : forall d, events d = Some [] ->
              events (call d [decorate (rev decs) lam]) = oapp (events_seq decs) (events lam)).
    { intros d Hdv. rewrite events_call1 by (apply decorate_not_const; exact Hl).
      rewrite decorate_events by exact Hl. rewrite rev_involutive, Hdv. apply oapp_nil_l. }
    destruct (n_is_method fn && is_class_hook name).
    - destruct decs as [|d0 dr]; apply Hw; reflexivity.
    - rewrite decorate_events by exact Hl. rewrite rev_involutive. reflexivity. }
  injection E as <-. cbn [events]. rewrite Hlam by (intros c; discriminate).
  unfold src_def. f_equal. cbn [events]. rewrite evl_events_seq. f_equal.
  clear. induction (a_kw_defaults args) as [|[x|] r IH]; cbn; [reflexivity| |]; rewrite IH; [reflexivity|].
  match goal with |- match ?X with _ => _ end = _ => destruct X; reflexivity end.
Qed.

(* CLASS HEADER: the bases, then the keywords in the order written - `metaclass=` among them (fix e4f4404) *)
Lemma rmap_kws_stable g (kws : list (option ident * expr)) : Forall (fun kw => stable g (snd kw)) kws ->
  rmap (fun kw => let! v := tr g (snd kw) in ret (fst kw, v)) kws = inl kws.
Proof.
  induction 1 as [|[k v] r Hx Hr IH]; [reflexivity|]. cbn [rmap snd fst] in *. unfold stable in Hx. rewrite Hx. cbn [rbind].
  rewrite IH. reflexivity.
Qed.

Lemma evk_events_seq (kws : list (option ident * expr)) :
  (fix evk (l : list (option ident * expr)) : option (list Z) :=
     match l with [] => Some [] | kw :: r => oapp (events (snd kw)) (evk r) end) kws = events_seq (map snd kws).
Proof. induction kws as [|kw r IH]; cbn; [reflexivity|]. rewrite IH. reflexivity. Qed.

Theorem class_header_order : forall cfg g loops ru p name ln bases kws body decs es,
  n_kind g = NGlobal -> Forall (stable g) bases -> Forall (fun kw => stable g (snd kw)) kws ->
  lower_stmt cfg (mkCtx g loops ru) p (SClassDef name ln bases kws body decs) = inl es ->
  exists create rest, es = create :: rest /\
    events create = oapp (events_seq bases) (events_seq (map snd kws)).
Proof.
  intros cfg g loops ru p name ln bases kws body decs es Hg Hb Hk H.
  destruct (classdef_shape _ _ _ _ _ _ _ _ _ _ H) as [cn [bases' [kws' [create [load [rest [A [B [C [D [E [F ->]]]]]]]]]]]].
  cbn [c_nsp] in *.
  rewrite (rmap_stable g _ Hb) in C. injection C as <-.
  rewrite (rmap_kws_stable g kws Hk) in D. injection D as <-.
  unfold get_assign in E. rewrite Hg in E. injection E as <-.
  eexists _, rest. split; [reflexivity|]. cbn [events]. unfold class_create.
  destruct (existsb is_meta_kw kws).
  - cbn [events is_probe]. rewrite evk_events_seq, evl_events_seq.
    destruct (events_seq bases), (events_seq (map snd kws)); cbn; rewrite ?app_nil_r; reflexivity.
  - unfold cstr. cbn [events].
    match goal with |- context [is_probe ?c] => assert (P : is_probe c = None) by (destruct kws; reflexivity); rewrite P end.
    rewrite evk_events_seq. cbn [events]. rewrite evl_events_seq.
    destruct (events_seq bases), (events_seq (map snd kws)); cbn; rewrite ?app_nil_r; reflexivity.
Qed.
