(* The fragment of the statement-layer theorem (StmtCore.v), as a decidable predicate over programs: every expression the
   program itself contains lies in the core of the C03 round trip, store targets and signatures have the supported shapes.
   Definitions only (also evaluated by the extracted binary to count how many explored programs satisfy the hypothesis). *)
From Coq Require Import String List ZArith Bool Arith.
From OL Require Import Sexp PyAst Parse.
Import ListNotations.
Open Scope string_scope.
Open Scope list_scope.

(* indexes of store targets: slices (also inside an index tuple) become slice() calls *)
Definition oecb (o : option expr) : bool := match o with Some x => ecore x | None => true end.
Definition slice_ok (a b c : option expr) : bool := oecb a && oecb b && oecb c.
Definition item_ok (x : expr) : bool := match x with Slice a b c => slice_ok a b c | _ => ecore x end.
Definition index_ok (s : expr) : bool :=
  match s with
  | Slice a b c => slice_ok a b c
  | ETuple items => forallb item_ok items
  | _ => ecore s
  end.

(* ---- store targets ---- *)
Fixpoint target_ok (t : expr) : bool :=
  match t with
  | Name _ => true
  | Attribute v _ => ecore v
  | Subscript v s => ecore v && index_ok s
  | ETuple l | EList l => forallb (fun x => match x with Starred y => target_ok y | _ => target_ok x end) l
  | _ => false
  end.

Definition aug_target_ok (t : expr) : bool :=
  match t with
  | Name _ => true
  | Subscript par s => ecore par && index_ok s
  | Attribute par _ => ecore par
  | _ => false
  end.

(* ---- statements ---- *)
Definition args_ok (a : arguments) : bool :=
  forallb ecore (a_defaults a) && forallb oecb (a_kw_defaults a) &&
  Nat.leb (length (a_defaults a)) (length (a_posonly a ++ a_args a)) &&
  Nat.eqb (length (a_kw_defaults a)) (length (a_kwonly a)).

Fixpoint stmt_ok (s : stmt) : bool :=
  match s with
  | SExpr e => ecore e
  | SIf t b o | SWhile t b o => ecore t && forallb stmt_ok b && forallb stmt_ok o
  | SFor tg it b o => target_ok tg && ecore it && forallb stmt_ok b && forallb stmt_ok o
  | SAssign ts v => forallb target_ok ts && ecore v
  | SAnnAssign t v => target_ok t && oecb v
  | SAugAssign t _ v => aug_target_ok t && ecore v
  | SImportFrom _ _ lv => (0 <=? lv)%Z
  | SFunctionDef _ _ a b decs => args_ok a && forallb ecore decs && forallb stmt_ok b
  | SClassDef _ _ bases kws b decs =>
      forallb core bases && forallb (fun kw : option ident * expr => ecore (snd kw)) kws && forallb ecore decs && forallb stmt_ok b
  | SReturn v => oecb v
  | _ => true
  end.

