(* Model of oneliner/namespaces.py: what CPython's symtable reports (input data), the namespace
   tree built by generate_nsp, and get_assign / get_load_name. *)
From Coq Require Import String Ascii List ZArith NArith Bool Arith.
From OL Require Import Sexp PyAst.
Import ListNotations.
Open Scope string_scope.
Open Scope list_scope.

(* ---------- errors of the converter, by exception class ---------- *)
Inductive err := ESyntax | ERuntime | ENotImpl | EAssert | EKey | EAttr | EOther.
Definition err_name (e : err) : string :=
  match e with ESyntax => "SyntaxError" | ERuntime => "RuntimeError" | ENotImpl => "NotImplementedError"
  | EAssert => "AssertionError" | EKey => "KeyError" | EAttr => "AttributeError" | EOther => "Exception" end.
Definition res (X : Type) := (X + err)%type.
Definition ret {X} (x : X) : res X := inl x.
Definition fail {X} (e : err) : res X := inr e.
Definition rbind {X Y} (r : res X) (f : X -> res Y) : res Y :=
  match r with inl x => f x | inr e => inr e end.
Notation "'let!' x ':=' r 'in' k" := (rbind r (fun x => k)) (at level 200, x pattern, r at level 100, k at level 200).

Section RMap.
  Context {X Y : Type} (f : X -> res Y).
  Fixpoint rmap (l : list X) : res (list Y) :=
    match l with
    | [] => ret []
    | x :: r => let! y := f x in let! ys := rmap r in ret (y :: ys)
    end.
End RMap.

(* ---------- symtable facts ---------- *)
Record symbol := mkSym {
  sy_name : ident; sy_assigned : bool; sy_param : bool; sy_global : bool;
  sy_declglobal : bool; sy_nonlocal : bool; sy_free : bool; sy_local : bool }.

Inductive stkind := KModule | KFunction | KClass | KOther.

Inductive symtab :=
  ST (kind : stkind) (name : ident) (lineno : Z) (syms : list symbol)
     (frees nonlocals params methods : list ident) (children : list symtab).

Definition st_kind (t : symtab) := match t with ST k _ _ _ _ _ _ _ _ => k end.
Definition st_name (t : symtab) := match t with ST _ n _ _ _ _ _ _ _ => n end.
Definition st_lineno (t : symtab) := match t with ST _ _ l _ _ _ _ _ _ => l end.
Definition st_syms (t : symtab) := match t with ST _ _ _ s _ _ _ _ _ => s end.
Definition st_frees (t : symtab) := match t with ST _ _ _ _ f _ _ _ _ => f end.
Definition st_nonlocals (t : symtab) := match t with ST _ _ _ _ _ n _ _ _ => n end.
Definition st_params (t : symtab) := match t with ST _ _ _ _ _ _ p _ _ => p end.
Definition st_methods (t : symtab) := match t with ST _ _ _ _ _ _ _ m _ => m end.
Definition st_children (t : symtab) := match t with ST _ _ _ _ _ _ _ _ c => c end.

Definition lookup_sym (syms : list symbol) (n : ident) : option symbol :=
  find (fun s => String.eqb (sy_name s) n) syms.

Definition mem (n : ident) (l : list ident) : bool := existsb (String.eqb n) l.

(* codecs *)
Definition symbol_of (x : sexp) : option symbol :=
  match x with
  | L [n; a; p; g; dg; nl; fr; lc] =>
      do n' <- ident_of n; do a' <- bool_of a; do p' <- bool_of p; do g' <- bool_of g;
      do dg' <- bool_of dg; do nl' <- bool_of nl; do fr' <- bool_of fr; do lc' <- bool_of lc;
      Some (mkSym n' a' p' g' dg' nl' fr' lc')
  | _ => None
  end.

Fixpoint symtab_of (x : sexp) : option symtab :=
  match x with
  | L [A k; n; ln; L syms; L fr; L nl; L ps; L ms; L ch] =>
      do k' <- (if String.eqb k "module" then Some KModule else if String.eqb k "function" then Some KFunction
                else if String.eqb k "class" then Some KClass else if String.eqb k "other" then Some KOther else None);
      do n' <- ident_of n; do ln' <- z_of ln; do syms' <- mapM symbol_of syms;
      do fr' <- mapM ident_of fr; do nl' <- mapM ident_of nl; do ps' <- mapM ident_of ps; do ms' <- mapM ident_of ms;
      do ch' <- mapM symtab_of ch;
      Some (ST k' n' ln' syms' fr' nl' ps' ms' ch')
  | _ => None
  end.

(* ---------- namespaces ---------- *)
Inductive nkind := NGlobal | NFunction | NClass.

(* what a namespace knows of an enclosing namespace (outer_nsp links): id, kind, symbols, inner_nonlocal_names,
   outer_nonlocal_map *)
Definition link := (nat * nkind * list symbol * list ident * list (ident * nat))%type.

(* the static part of a namespace: everything generate_nsp computes *)
Inductive nsp :=
  Nsp (id : nat) (kind : nkind) (name : ident) (lineno : Z) (syms : list symbol) (params : list ident)
      (outer_map : list (ident * nat))        (* nonlocal/free name -> id of the function namespace it was born in *)
      (inner_nonlocal : list ident)           (* names captured by inner namespaces *)
      (nonlocal_params : list ident)          (* captured names that are parameters *)
      (is_method zero_super : bool)
      (globals_in_comp : list ident)          (* class only *)
      (inner : list nsp)
      (chain : list link).                    (* the enclosing namespaces, innermost first *)

Definition n_id (n : nsp) := match n with Nsp i _ _ _ _ _ _ _ _ _ _ _ _ _ => i end.
Definition n_kind (n : nsp) := match n with Nsp _ k _ _ _ _ _ _ _ _ _ _ _ _ => k end.
Definition n_name (n : nsp) := match n with Nsp _ _ x _ _ _ _ _ _ _ _ _ _ _ => x end.
Definition n_lineno (n : nsp) := match n with Nsp _ _ _ l _ _ _ _ _ _ _ _ _ _ => l end.
Definition n_syms (n : nsp) := match n with Nsp _ _ _ _ s _ _ _ _ _ _ _ _ _ => s end.
Definition n_params (n : nsp) := match n with Nsp _ _ _ _ _ p _ _ _ _ _ _ _ _ => p end.
Definition n_outer_map (n : nsp) := match n with Nsp _ _ _ _ _ _ m _ _ _ _ _ _ _ => m end.
Definition n_inner_nonlocal (n : nsp) := match n with Nsp _ _ _ _ _ _ _ x _ _ _ _ _ _ => x end.
Definition n_nonlocal_params (n : nsp) := match n with Nsp _ _ _ _ _ _ _ _ x _ _ _ _ _ => x end.
Definition n_is_method (n : nsp) := match n with Nsp _ _ _ _ _ _ _ _ _ b _ _ _ _ => b end.
Definition n_zero_super (n : nsp) := match n with Nsp _ _ _ _ _ _ _ _ _ _ b _ _ _ => b end.
Definition n_globals_in_comp (n : nsp) := match n with Nsp _ _ _ _ _ _ _ _ _ _ _ g _ _ => g end.
Definition n_inner (n : nsp) := match n with Nsp _ _ _ _ _ _ _ _ _ _ _ _ i _ => i end.
Definition n_chain (n : nsp) := match n with Nsp _ _ _ _ _ _ _ _ _ _ _ _ _ c => c end.
(* PendingFunctionDef.__init__ records the definition's positional parameters in the function's namespace
   (first_parameter); generate_nsp leaves symtable's parameter list here *)
Definition set_params (n : nsp) (ps : list ident) : nsp :=
  match n with Nsp i k x l s _ m a b c d g inn ch => Nsp i k x l s ps m a b c d g inn ch end.
Lemma set_params_id n ps : n_id (set_params n ps) = n_id n. Proof. destruct n; reflexivity. Qed.
Lemma set_params_kind n ps : n_kind (set_params n ps) = n_kind n. Proof. destruct n; reflexivity. Qed.
Lemma set_params_syms n ps : n_syms (set_params n ps) = n_syms n. Proof. destruct n; reflexivity. Qed.
Lemma set_params_inner n ps : n_inner (set_params n ps) = n_inner n. Proof. destruct n; reflexivity. Qed.
Lemma set_params_chain n ps : n_chain (set_params n ps) = n_chain n. Proof. destruct n; reflexivity. Qed.
Lemma set_params_outer_map n ps : n_outer_map (set_params n ps) = n_outer_map n. Proof. destruct n; reflexivity. Qed.
Lemma set_params_inner_nonlocal n ps : n_inner_nonlocal (set_params n ps) = n_inner_nonlocal n. Proof. destruct n; reflexivity. Qed.

(* an ancestor on generate_nsp's stack *)
Record anc := mkAnc { an_id : nat; an_kind : nkind; an_syms : list symbol }.

(* a capture recorded on an outer function namespace: (id of that namespace, name, is parameter) *)
Definition mark := (nat * ident * bool)%type.

(* search the origin of a nonlocal/free name: innermost function ancestor in which the name is
   local.  [stack] is innermost first. *)
Fixpoint find_origin (stack : list anc) (n : ident) : res (nat * bool) :=
  match stack with
  | [] => fail ERuntime
  | a :: r =>
      match an_kind a with
      | NClass => find_origin r n
      | NGlobal => fail EAssert          (* assert isinstance(outer, NamespaceFunction) *)
      | NFunction =>
          match lookup_sym (an_syms a) n with
          | None => fail EKey              (* symtable lookup raises KeyError *)
          | Some s =>
              if sy_local s                  (* born where it is local (is_local()) *)
              then ret (an_id a, sy_param s)
              else find_origin r n
          end
      end
  end.

(* NamespaceFunction.__init__: frees then nonlocals, in the order symtable lists them; the implicit
   __class__ of a method (PEP 3135) is skipped and only sets the zero-argument-super flag *)
Fixpoint scan_function (is_method : bool) (stack : list anc) (names : list ident)
  : res (list (ident * nat) * list mark * bool) :=
  match names with
  | [] => ret ([], [], false)
  | n :: r =>
      if is_method && String.eqb n "__class__" then
        let! rest := scan_function is_method stack r in
        match rest with (m, marks, _) => ret (m, marks, true) end
      else
        let! o := find_origin stack n in
        let! rest := scan_function is_method stack r in
        match rest with (m, marks, z) => ret ((n, fst o) :: m, (fst o, n, snd o) :: marks, z) end
  end.

(* NamespaceClass.__init__: every symbol that is nonlocal or free *)
Fixpoint scan_class (stack : list anc) (syms : list symbol) : res (list (ident * nat) * list mark) :=
  match syms with
  | [] => ret ([], [])
  | s :: r =>
      if sy_nonlocal s || sy_free s then
        let! o := find_origin stack (sy_name s) in
        let! rest := scan_class stack r in
        ret ((sy_name s, fst o) :: fst rest, (fst o, sy_name s, snd o) :: snd rest)
      else scan_class stack r
  end.

(* update_globals_from_lambda_or_comp: global symbols of a lambda/comprehension table and of all
   tables below it *)
Fixpoint globals_below (t : symtab) : list ident :=
  match t with
  | ST _ _ _ syms _ _ _ _ ch =>
      map sy_name (filter sy_global syms) ++ flat_map globals_below ch
  end.

Definition is_comp_table (t : symtab) : bool :=
  mem (st_name t) ["listcomp"; "genexpr"; "setcomp"; "dictcomp"] && mem ".0" (st_params t).

(* later dict assignments win (outer_nonlocal_map[name] = outer) *)
Definition assoc_nat (n : ident) (m : list (ident * nat)) : option nat :=
  match find (fun kv => String.eqb (fst kv) n) (rev m) with Some kv => Some (snd kv) | None => None end.

(* Pass 1: the tree with outer maps; ids in pre-order; marks collected.
   [host_lt_312]: comprehension tables exist and are skipped (before 3.12). *)
Fixpoint build (host_lt_312 : bool) (stack : list anc) (parent_kind : nkind) (parent_methods : list ident)
         (next : nat) (t : symtab) {struct t}
  : res (option nsp * list mark * list ident * nat) :=
  (* result: namespace (None when the table is skipped), marks, globals contributed to a class parent, next id *)
  match t with
  | ST k name ln syms frees nonlocals params methods ch =>
    let children := fun (stack' : list anc) (kind' : nkind) (next' : nat) =>
      (fix go (ch : list symtab) (next : nat) : res (list nsp * list mark * list ident * nat) :=
         match ch with
         | [] => ret ([], [], [], next)
         | c :: r =>
             let! x := build host_lt_312 stack' kind' methods next c in
             match x with (on, marks, gl, next1) =>
               let! y := go r next1 in
               match y with (ns, marks2, gl2, next2) =>
                 ret ((match on with Some n => [n] | None => [] end) ++ ns, marks ++ marks2, gl ++ gl2, next2)
               end
             end
         end) ch next' in
    match k with
    | KFunction =>
        if String.eqb name "lambda" || (host_lt_312 && is_comp_table t) then
          ret (None, [], match parent_kind with NClass => globals_below t | _ => [] end, next)
        else
          let is_method := match parent_kind with NClass => mem name parent_methods | _ => false end in
          let! sc := scan_function is_method stack (frees ++ nonlocals) in
          match sc with (omap, marks, zsuper) =>
            let me := mkAnc next NFunction syms in
            let! cs := children (me :: stack) NFunction (S next) in
            match cs with (inner, marks2, _, next') =>
              ret (Some (Nsp next NFunction name ln syms params omap [] [] is_method zsuper [] inner []),
                   marks ++ marks2, [], next')
            end
          end
    | KClass =>
        let! sc := scan_class stack syms in
        let me := mkAnc next NClass syms in
        let! cs := children (me :: stack) NClass (S next) in
        match cs with (inner, marks2, gl, next') =>
          ret (Some (Nsp next NClass name ln syms [] (fst sc) [] [] false false gl inner []),
               snd sc ++ marks2, [], next')
        end
    | _ => ret (None, [], [], next)     (* unknown table kind: warned about and skipped *)
    end
  end.

(* Pass 2: distribute the marks; record the chain of enclosing namespaces *)
Fixpoint fill (marks : list mark) (ch : list link) (n : nsp) : nsp :=
  match n with
  | Nsp i k name ln syms params omap _ _ im zs gl inner _ =>
      let mine := filter (fun m => Nat.eqb (fst (fst m)) i) marks in
      let inl := map (fun m => snd (fst m)) mine in
      Nsp i k name ln syms params omap
          inl
          (map (fun m => snd (fst m)) (filter (fun m => snd m) mine))
          im zs gl (map (fill marks ((i, k, syms, inl, omap) :: ch)) inner) ch
  end.

Definition generate_nsp (host_lt_312 : bool) (root : symtab) : res nsp :=
  match root with
  | ST _ name ln syms _ _ _ methods ch =>
      let me := mkAnc 0 NGlobal syms in
      let! cs :=
        (fix go (ch : list symtab) (next : nat) : res (list nsp * list mark * nat) :=
           match ch with
           | [] => ret ([], [], next)
           | c :: r =>
               let! x := build host_lt_312 [me] NGlobal [] next c in
               match x with (on, marks, _, next1) =>
                 let! y := go r next1 in
                 match y with (ns, marks2, next2) =>
                   ret ((match on with Some n => [n] | None => [] end) ++ ns, marks ++ marks2, next2)
                 end
               end
           end) ch 1 in
      match cs with (inner, marks, _) =>
        ret (fill marks [] (Nsp 0 NGlobal name ln syms [] [] [] [] false false [] inner []))
      end
  end.

(* ---------- names of the per-namespace helpers ---------- *)
(* an injective, underscore-free numeral: binary, least significant bit first ("0" for zero) *)
Fixpoint pos_code (p : positive) : string :=
  match p with
  | xH => "1"
  | xO q => String "0" (pos_code q)
  | xI q => String "1" (pos_code q)
  end.
Definition ncode (n : nat) : string :=
  match N.of_nat n with N0 => "0" | Npos p => pos_code p end.

Definition ol (kind : string) (suffix : string) : ident := ("__ol_" ++ kind ++ "_" ++ suffix)%string.
Definition nonlocal_dict (i : nat) : expr := Name (ol "nonlocal" (ncode i)).
Definition class_dict (i : nat) : expr := Name (ol "classnsp" (ncode i)).
Definition retv_name (i : nat) : ident := ol "retv" (ncode i).
Definition ret_flag (i : nat) : ident := ol "ret" (ncode i).

Definition cstr (s : string) : expr := Constant (CStr (s2t s)).
Definition call (f : expr) (args : list expr) : expr := Call f args [].
Definition setitem (d : expr) (name : ident) (v : expr) : expr :=
  call (Attribute d "__setitem__") [cstr name; v].
Definition globals_call : expr := call (Name "globals") [].

(* ---------- get_assign / get_load_name ---------- *)
Definition get_assign (n : nsp) (name : ident) (v : expr) : res expr :=
  match n_kind n with
  | NGlobal => ret (NamedExpr name v)
  | NFunction =>
      match lookup_sym (n_syms n) name with
      | None => fail EKey
      | Some s =>
          if sy_declglobal s then ret (setitem globals_call name v)
          else match assoc_nat name (n_outer_map n) with
               | Some o => ret (setitem (nonlocal_dict o) name v)
               | None =>
                   if mem name (n_inner_nonlocal n) then ret (setitem (nonlocal_dict (n_id n)) name v)
                   else ret (NamedExpr name v)
               end
      end
  | NClass =>
      match lookup_sym (n_syms n) name with
      | None => fail EKey
      | Some s =>
          if sy_declglobal s then ret (setitem globals_call name v)
          else match assoc_nat name (n_outer_map n) with
               | Some o => ret (setitem (nonlocal_dict o) name v)
               | None => ret (setitem (class_dict (n_id n)) name v)
               end
      end
  end.

(* globals()[name] *)
Definition globals_item (name : ident) : expr := Subscript globals_call (cstr name).

Definition self_link (n : nsp) : link := (n_id n, n_kind n, n_syms n, n_inner_nonlocal n, n_outer_map n).
Definition lk_id (l : link) : nat := match l with (i, _, _, _, _) => i end.
Definition lk_kind (l : link) : nkind := match l with (_, k, _, _, _) => k end.
Definition lk_syms (l : link) : list symbol := match l with (_, _, s, _, _) => s end.
Definition lk_inner_nonlocal (l : link) : list ident := match l with (_, _, _, x, _) => x end.
Definition lk_outer_map (l : link) : list (ident * nat) := match l with (_, _, _, _, m) => m end.

(* get_load_global: a plain name unless a local of an enclosing function (or of the function itself) hides it *)
Fixpoint hidden_by_local (links : list link) (name : ident) : bool :=
  match links with
  | [] => false
  | l :: r =>
      match lk_kind l with
      | NGlobal => false
      | NFunction =>
          match lookup_sym (lk_syms l) name with
          | Some s => if sy_local s then true else hidden_by_local r name
          | None => hidden_by_local r name
          end
      | NClass => hidden_by_local r name
      end
  end.
Definition get_load_global (n : nsp) (name : ident) : expr :=
  if hidden_by_local (self_link n :: n_chain n) name then globals_item name else Name name.

(* NamespaceClass._load_from_enclosing: the lookup of a function nested in the class *)
Fixpoint load_from_enclosing (n : nsp) (links : list link) (name : ident) : expr :=
  match links with
  | [] => get_load_global n name
  | l :: r =>
      match lk_kind l with
      | NGlobal => get_load_global n name
      | NClass => load_from_enclosing n r name
      | NFunction =>
          match lookup_sym (lk_syms l) name with
          | None => load_from_enclosing n r name
          | Some s =>
              if sy_local s then
                if mem name (lk_inner_nonlocal l) then Subscript (nonlocal_dict (lk_id l)) (cstr name) else Name name
              else match assoc_nat name (lk_outer_map l) with
                   | Some o => Subscript (nonlocal_dict o) (cstr name)
                   | None => get_load_global n name
                   end
          end
      end
  end.

(* [bound]: the names bound by the lambdas / comprehensions whose body is being transformed (scope_stack, active
   entries); [inner]: whether there is one *)
Definition get_load_name (n : nsp) (bound : list ident) (inner : bool) (name : ident) : res expr :=
  match n_kind n with
  | NGlobal => ret (Name name)
  | NFunction =>
      if mem name bound then ret (Name name)
      else if mem name (n_inner_nonlocal n) then ret (Subscript (nonlocal_dict (n_id n)) (cstr name))
      else match assoc_nat name (n_outer_map n) with
           | Some o => ret (Subscript (nonlocal_dict o) (cstr name))
           | None =>
               match lookup_sym (n_syms n) name with
               | Some s => if sy_local s then ret (Name name) else ret (get_load_global n name)
               | None => ret (get_load_global n name)
               end
           end
  | NClass =>
      if mem name bound then ret (Name name)
      else if inner then ret (load_from_enclosing n (n_chain n) name)
      else match lookup_sym (n_syms n) name with
           | None => ret (get_load_global n name)
           | Some s =>
               match assoc_nat name (n_outer_map n) with
               | Some o => ret (Subscript (nonlocal_dict o) (cstr name))
               | None =>
                   if sy_global s then ret (get_load_global n name)
                   else ret (IfExp (Compare (cstr name) [In] [class_dict (n_id n)])
                                   (Subscript (class_dict (n_id n)) (cstr name))
                                   (get_load_global n name))
               end
           end
  end.

(* get_load_assigned: where get_assign has just stored the name *)
Definition get_load_assigned (n : nsp) (name : ident) : res expr :=
  match n_kind n with
  | NGlobal => ret (Name name)
  | NFunction =>
      match lookup_sym (n_syms n) name with
      | None => fail EKey
      | Some s =>
          if sy_declglobal s then ret (globals_item name)
          else match assoc_nat name (n_outer_map n) with
               | Some o => ret (Subscript (nonlocal_dict o) (cstr name))
               | None =>
                   if mem name (n_inner_nonlocal n) then ret (Subscript (nonlocal_dict (n_id n)) (cstr name))
                   else ret (Name name)
               end
      end
  | NClass =>
      match lookup_sym (n_syms n) name with
      | None => fail EKey
      | Some s =>
          if sy_declglobal s then ret (globals_item name)
          else match assoc_nat name (n_outer_map n) with
               | Some o => ret (Subscript (nonlocal_dict o) (cstr name))
               | None => ret (Subscript (class_dict (n_id n)) (cstr name))
               end
      end
  end.
