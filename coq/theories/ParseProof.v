(* C03: the parser of Parse.v inverts the printer of Parse.v on the whole core, for trees of any depth. *)
From Coq Require Import String Ascii List ZArith NArith Bool Arith Lia.
From OL Require Import PyAst Unparse Parse.
From OLGen Require Import Tables.
Import ListNotations.
Local Open Scope string_scope.
Local Open Scope list_scope.

(* "for all sufficiently large fuel" *)
Definition Ev (m : mode) (ts : list pt) (r : expr * list pt) : Prop :=
  exists f0, forall f, f0 <= f -> pc f m ts = Some r.

Ltac ev_start f0 := exists (S f0); intros f Hf; destruct f as [|f]; [lia|]; cbn [pc].

Lemma Ev_atom_name i r : Ev MAtom (PN i :: r) (Name i, r).
Proof. ev_start 0. reflexivity. Qed.
Lemma Ev_atom_lit c r : Ev MAtom (PL c :: r) (Constant c, r).
Proof. ev_start 0. reflexivity. Qed.
Lemma Ev_atom_paren r e r' : Ev (MExpr TOP) r (e, PK ")" :: r') -> Ev MAtom (PK "(" :: r) (e, r').
Proof.
  intros [f0 H]. ev_start f0. change (String.eqb "(" "(") with true. cbv iota. rewrite H by lia.
  change (String.eqb ")" ")") with true. reflexivity.
Qed.

Lemma Ev_expr_atom n ts a r res :
  classify_prefix ts = PAtom -> Ev MAtom ts (a, r) -> Ev (MLoop n a CNone) r res -> Ev (MExpr n) ts res.
Proof. intros Hc [f1 H1] [f2 H2]. ev_start (Nat.max f1 f2). rewrite Hc, H1 by lia. apply H2. lia. Qed.

Lemma Ev_expr_un n ts o r v r' res :
  classify_prefix ts = PUn o r -> unop_prec o <= n ->
  Ev (MExpr (slot_UnaryOp o)) r (v, r') -> Ev (MLoop n (UnaryOp o v) CNone) r' res -> Ev (MExpr n) ts res.
Proof.
  intros Hc Hp [f1 H1] [f2 H2]. ev_start (Nat.max f1 f2). rewrite Hc. apply Nat.leb_le in Hp. rewrite Hp, H1 by lia. apply H2. lia.
Qed.

Lemma Ev_expr_lam' n ts r b r' res :
  classify_prefix ts = PLam r ->
  node_prec_Lambda <= n -> Ev (MExpr slot_Lambda_body) r (b, r') -> Ev (MLoop n (lambda0 b) CNone) r' res ->
  Ev (MExpr n) ts res.
Proof.
  intros Hc Hp [f1 H1] [f2 H2]. ev_start (Nat.max f1 f2). rewrite Hc. apply Nat.leb_le in Hp. rewrite Hp, H1 by lia. apply H2. lia.
Qed.
Lemma Ev_expr_lam n r b r' res :
  node_prec_Lambda <= n -> Ev (MExpr slot_Lambda_body) r (b, r') -> Ev (MLoop n (lambda0 b) CNone) r' res ->
  Ev (MExpr n) (PK "lambda" :: PK ":" :: r) res.
Proof. apply Ev_expr_lam'. reflexivity. Qed.

Lemma Ev_expr_wal' n ts t r v r' res :
  classify_prefix ts = PWal t r ->
  node_prec_NamedExpr <= n -> Ev (MExpr slot_NamedExpr_value) r (v, r') -> Ev (MLoop n (NamedExpr t v) CNone) r' res ->
  Ev (MExpr n) ts res.
Proof.
  intros Hc Hp [f1 H1] [f2 H2]. ev_start (Nat.max f1 f2). rewrite Hc. apply Nat.leb_le in Hp. rewrite Hp, H1 by lia. apply H2. lia.
Qed.
Lemma Ev_expr_wal n t r v r' res :
  node_prec_NamedExpr <= n -> Ev (MExpr slot_NamedExpr_value) r (v, r') -> Ev (MLoop n (NamedExpr t v) CNone) r' res ->
  Ev (MExpr n) (PN t :: PK ":=" :: r) res.
Proof. apply Ev_expr_wal'. reflexivity. Qed.

(* does the loop go on at level n? *)
Definition continues (n : nat) (ts : list pt) : bool :=
  match classify ts with
  | KDot _ _ | KLPar _ | KLBr _ => true
  | KIf _ => Nat.leb node_prec_IfExp n
  | KBool o _ => Nat.leb (boolop_prec o) n
  | KCmp _ _ => Nat.leb node_prec_Compare n
  | KBin o _ => Nat.leb (binop_prec o) n
  | KOther => false
  end.

Lemma Ev_loop_stop n l ch ts : continues n ts = false -> Ev (MLoop n l ch) ts (l, ts).
Proof.
  intros H. ev_start 0. unfold continues in H. destruct (classify ts); try discriminate; try rewrite H; reflexivity.
Qed.

Lemma Ev_loop_dot' n l ch ts a r res :
  classify ts = KDot a r -> Ev (MLoop n (Attribute l a) CNone) r res -> Ev (MLoop n l ch) ts res.
Proof. intros Hc [f1 H1]. ev_start f1. rewrite Hc. apply H1. lia. Qed.
Lemma Ev_loop_dot n l ch a r res : Ev (MLoop n (Attribute l a) CNone) r res -> Ev (MLoop n l ch) (PK "." :: PN a :: r) res.
Proof. apply Ev_loop_dot'. reflexivity. Qed.

Lemma Ev_loop_call' n l ch ts r args r' res :
  classify ts = KLPar r ->
  Ev (MArgs []) r (ETuple args, r') -> Ev (MLoop n (Call l args []) CNone) r' res -> Ev (MLoop n l ch) ts res.
Proof. intros Hc [f1 H1] [f2 H2]. ev_start (Nat.max f1 f2). rewrite Hc, H1 by lia. apply H2. lia. Qed.
Lemma Ev_loop_call n l ch r args r' res :
  Ev (MArgs []) r (ETuple args, r') -> Ev (MLoop n (Call l args []) CNone) r' res -> Ev (MLoop n l ch) (PK "(" :: r) res.
Proof. apply Ev_loop_call'. reflexivity. Qed.

Lemma Ev_loop_sub' n l ch ts r s r' res :
  classify ts = KLBr r ->
  Ev (MExpr slot_Subscript_slice) r (s, PK "]" :: r') -> Ev (MLoop n (Subscript l s) CNone) r' res ->
  Ev (MLoop n l ch) ts res.
Proof.
  intros Hc [f1 H1] [f2 H2]. ev_start (Nat.max f1 f2). rewrite Hc, H1 by lia.
  change (String.eqb "]" "]") with true. cbv iota. apply H2. lia.
Qed.
Lemma Ev_loop_sub n l ch r s r' res :
  Ev (MExpr slot_Subscript_slice) r (s, PK "]" :: r') -> Ev (MLoop n (Subscript l s) CNone) r' res ->
  Ev (MLoop n l ch) (PK "[" :: r) res.
Proof. apply Ev_loop_sub'. reflexivity. Qed.

Lemma Ev_loop_if' n l ch ts r t r' o r'' res :
  classify ts = KIf r -> node_prec_IfExp <= n ->
  Ev (MExpr slot_IfExp_test) r (t, PK "else" :: r') -> Ev (MExpr slot_IfExp_orelse) r' (o, r'') ->
  Ev (MLoop n (IfExp t l o) CNone) r'' res -> Ev (MLoop n l ch) ts res.
Proof.
  intros Hc Hp [f1 H1] [f2 H2] [f3 H3]. ev_start (Nat.max f1 (Nat.max f2 f3)). rewrite Hc. apply Nat.leb_le in Hp.
  rewrite Hp, H1 by lia. change (String.eqb "else" "else") with true. cbv iota. rewrite H2 by lia. apply H3. lia.
Qed.
Lemma Ev_loop_if n l ch r t r' o r'' res :
  node_prec_IfExp <= n ->
  Ev (MExpr slot_IfExp_test) r (t, PK "else" :: r') -> Ev (MExpr slot_IfExp_orelse) r' (o, r'') ->
  Ev (MLoop n (IfExp t l o) CNone) r'' res -> Ev (MLoop n l ch) (PK "if" :: r) res.
Proof. apply Ev_loop_if'. reflexivity. Qed.

Lemma Ev_loop_bool n l ch ts o r v r' res :
  classify ts = KBool o r -> boolop_prec o <= n ->
  Ev (MExpr (slot_BoolOp o)) r (v, r') -> Ev (MLoop n (extend_bool ch l o v) (CBool o)) r' res -> Ev (MLoop n l ch) ts res.
Proof.
  intros Hc Hp [f1 H1] [f2 H2]. ev_start (Nat.max f1 f2). rewrite Hc. apply Nat.leb_le in Hp. rewrite Hp, H1 by lia. apply H2. lia.
Qed.

Lemma Ev_loop_cmp n l ch ts o r c r' res :
  classify ts = KCmp o r -> node_prec_Compare <= n ->
  Ev (MExpr slot_Compare_comparator) r (c, r') -> Ev (MLoop n (extend_cmp ch l o c) CCmp) r' res -> Ev (MLoop n l ch) ts res.
Proof.
  intros Hc Hp [f1 H1] [f2 H2]. ev_start (Nat.max f1 f2). rewrite Hc. apply Nat.leb_le in Hp. rewrite Hp, H1 by lia. apply H2. lia.
Qed.

Lemma Ev_loop_bin n l ch ts o r x r' res :
  classify ts = KBin o r -> binop_prec o <= n ->
  Ev (MExpr (slot_BinOp_right o)) r (x, r') -> Ev (MLoop n (BinOp l o x) CNone) r' res -> Ev (MLoop n l ch) ts res.
Proof.
  intros Hc Hp [f1 H1] [f2 H2]. ev_start (Nat.max f1 f2). rewrite Hc. apply Nat.leb_le in Hp. rewrite Hp, H1 by lia. apply H2. lia.
Qed.

Lemma Ev_args_nil acc r : Ev (MArgs acc) (PK ")" :: r) (ETuple (rev acc), r).
Proof. ev_start 0. reflexivity. Qed.

Lemma Ev_args_more acc ts a r res :
  hd_is ")" ts = false -> Ev (MExpr TOP) ts (a, PK "," :: r) -> Ev (MArgs (a :: acc)) r res -> Ev (MArgs acc) ts res.
Proof.
  intros Hh [f1 H1] [f2 H2]. ev_start (Nat.max f1 f2). rewrite Hh, H1 by lia.
  change (String.eqb "," ",") with true. cbv iota. apply H2. lia.
Qed.

Lemma Ev_args_last acc ts a r :
  hd_is ")" ts = false -> Ev (MExpr TOP) ts (a, PK ")" :: r) -> Ev (MArgs acc) ts (ETuple (rev (a :: acc)), r).
Proof.
  intros Hh [f1 H1]. ev_start f1. rewrite Hh, H1 by lia.
  change (String.eqb ")" ",") with false. change (String.eqb ")" ")") with true. reflexivity.
Qed.

(* the chain flag only matters when the chain's own operator follows *)
Definition chain_free (ch : chain) (ts : list pt) : bool :=
  match ch, classify ts with
  | CBool o, KBool o' _ => negb (boolop_eqb o o')
  | CCmp, KCmp _ _ => false
  | _, _ => true
  end.

Lemma Ev_loop_flag n l ch ts res : chain_free ch ts = true -> Ev (MLoop n l CNone) ts res -> Ev (MLoop n l ch) ts res.
Proof.
  intros Hc [f1 H1]. exists f1. intros f Hf. rewrite <- (H1 f Hf). destruct f as [|f]; [reflexivity|]. cbn [pc].
  unfold chain_free in Hc. destruct (classify ts) as [| | | |o' r|o' r| |]; try reflexivity.
  - destruct ch as [|o|]; try reflexivity. unfold extend_bool. destruct l; try reflexivity.
    apply negb_true_iff in Hc. destruct o, o'; try discriminate; destruct op; reflexivity.
  - destruct ch; try reflexivity. discriminate.
Qed.

(* ---------- operators as descriptors: precedence and the level of the right operand ---------- *)
Inductive desc := DBin (o : binop) | DUn (o : unop) | DBool (o : boolop) | DCmp | DIf | DLam | DWal.
Definition d_prec (d : desc) : nat :=
  match d with
  | DBin o => binop_prec o | DUn o => unop_prec o | DBool o => boolop_prec o | DCmp => node_prec_Compare
  | DIf => node_prec_IfExp | DLam => node_prec_Lambda | DWal => node_prec_NamedExpr
  end.
Definition d_rl (d : desc) : nat :=
  match d with
  | DBin o => slot_BinOp_right o | DUn o => slot_UnaryOp o | DBool o => slot_BoolOp o | DCmp => slot_Compare_comparator
  | DIf => slot_IfExp_orelse | DLam => slot_Lambda_body | DWal => slot_NamedExpr_value
  end.
Definition all_descs : list desc :=
  map DBin all_binops ++ [DUn Invert; DUn Not; DUn UAdd; DUn USub; DBool And; DBool Or; DCmp; DIf; DLam; DWal].
Lemma all_descs_complete d : List.In d all_descs.
Proof. destruct d as [o|o|o| | | |]; try destruct o; cbn; tauto. Qed.

Definition chain_hd (d : desc) (ts : list pt) : bool :=
  match d with DBool o => chain_free (CBool o) ts | DCmp => chain_free CCmp ts | _ => true end.
Definition nowal (ts : list pt) : bool := negb (hd_is ":=" ts).
Definition edge (d : desc) (ts : list pt) : bool := negb (continues (d_rl d) ts) && chain_hd d ts.

(* [safe e rest]: the loops that are open along the right edge of the bare print of e all stop at [rest] *)
Fixpoint safe (e : expr) (rest : list pt) {struct e} : bool :=
  let sub := fun (lvl : nat) (r : expr) => if Nat.leb (node_prec r) lvl then safe r rest else true in
  match e with
  | Name _ => nowal rest
  | BinOp _ o r => edge (DBin o) rest && sub (slot_BinOp_right o) r
  | UnaryOp o v => edge (DUn o) rest && sub (slot_UnaryOp o) v
  | BoolOp o vs =>
      edge (DBool o) rest &&
      (fix lst (vs : list expr) : bool :=
         match vs with [] => true | [v] => sub (slot_BoolOp o) v | _ :: t => lst t end) vs
  | Compare _ _ cs =>
      edge DCmp rest &&
      (fix lst (vs : list expr) : bool :=
         match vs with [] => true | [v] => sub slot_Compare_comparator v | _ :: t => lst t end) cs
  | IfExp _ _ o => edge DIf rest && sub slot_IfExp_orelse o
  | Lambda _ _ _ _ _ _ _ b => edge DLam rest && sub slot_Lambda_body b
  | NamedExpr _ v => edge DWal rest && sub slot_NamedExpr_value v
  | _ => true
  end.

(* a context: what follows a child printed in a slot of level s *)
Definition rest_okb (s : nat) (rest : list pt) : bool :=
  nowal rest &&
  forallb (fun d => if Nat.leb (d_prec d) s then edge d rest && Nat.leb (d_rl d) s else true) all_descs.

Lemma rest_ok_desc s rest d : rest_okb s rest = true -> d_prec d <= s -> edge d rest = true /\ d_rl d <= s.
Proof.
  intros H Hp. unfold rest_okb in H. apply andb_prop in H as [_ H].
  rewrite forallb_forall in H. specialize (H d (all_descs_complete d)). apply Nat.leb_le in Hp. rewrite Hp in H.
  apply andb_prop in H as [H1 H2]. split; [exact H1|apply Nat.leb_le; exact H2].
Qed.

Lemma safe_last_ok (P : expr -> bool) (lvl : nat) (rest : list pt) :
  forall vs, Forall (fun v => node_prec v <= lvl -> safe v rest = true) vs ->
  (fix lst (vs : list expr) : bool :=
     match vs with [] => true | [v] => if Nat.leb (node_prec v) lvl then safe v rest else true | _ :: t => lst t end) vs = true.
Proof.
  induction vs as [|v t IH]; intros HF; [reflexivity|]. inversion HF as [|? ? Hv Ht]; subst.
  destruct t as [|w t'].
  - destruct (Nat.leb (node_prec v) lvl) eqn:E; [apply Hv; apply Nat.leb_le; exact E|reflexivity].
  - apply IH. exact Ht.
Qed.

Lemma safe_of_rest_ok : forall e, core e = true -> forall s rest, node_prec e <= s -> rest_okb s rest = true -> safe e rest = true.
Proof.
  induction e using expr_ind'; intros Hc s rest Hp Hr; cbn [core] in Hc; try discriminate; cbn [safe]; try reflexivity.
  - (* Name *) unfold rest_okb in Hr. apply andb_prop in Hr as [Hr _]. exact Hr.
  - (* BinOp *) apply andb_prop in Hc as [Hc1 Hc2]. destruct (rest_ok_desc s rest (DBin o) Hr Hp) as [He Hl].
    rewrite He. cbn [andb]. destruct (Nat.leb (node_prec e2) (slot_BinOp_right o)) eqn:E; [|reflexivity].
    apply Nat.leb_le in E. apply (IHe2 Hc2 s rest); [cbn [d_rl] in Hl; lia|exact Hr].
  - (* BoolOp *) apply andb_prop in Hc as [_ Hc]. destruct (rest_ok_desc s rest (DBool o) Hr Hp) as [He Hl]. rewrite He. cbn [andb].
    apply (safe_last_ok (fun _ => true)). rewrite forallb_forall in Hc. unfold Pl in H. rewrite Forall_forall in H |- *.
    intros v Hv Hpv. apply (H v Hv (Hc v Hv) s rest); [cbn [d_rl] in Hl; lia|exact Hr].
  - (* UnaryOp *) destruct (rest_ok_desc s rest (DUn o) Hr Hp) as [He Hl]. rewrite He. cbn [andb].
    destruct (Nat.leb (node_prec e) (slot_UnaryOp o)) eqn:E; [|reflexivity].
    apply Nat.leb_le in E. apply (IHe Hc s rest); [cbn [d_rl] in Hl; lia|exact Hr].
  - (* Compare *) apply andb_prop in Hc as [_ Hc]. destruct (rest_ok_desc s rest DCmp Hr Hp) as [He Hl]. rewrite He. cbn [andb].
    apply (safe_last_ok (fun _ => true)). rewrite forallb_forall in Hc. unfold Pl in H. rewrite Forall_forall in H |- *.
    intros v Hv Hpv. apply (H v Hv (Hc v Hv) s rest); [cbn [d_rl] in Hl; lia|exact Hr].
  - (* NamedExpr *) destruct (rest_ok_desc s rest DWal Hr Hp) as [He Hl]. rewrite He. cbn [andb].
    destruct (Nat.leb (node_prec e) slot_NamedExpr_value) eqn:E; [|reflexivity].
    apply Nat.leb_le in E. apply (IHe Hc s rest); [cbn [d_rl] in Hl; lia|exact Hr].
  - (* Lambda *) destruct po; [|discriminate]. destruct ar; [|discriminate]. destruct va; [discriminate|]. destruct ko; [|discriminate].
    destruct kd; [|discriminate]. destruct kw; [discriminate|]. destruct de; [|discriminate].
    destruct (rest_ok_desc s rest DLam Hr Hp) as [He Hl]. rewrite He. cbn [andb].
    destruct (Nat.leb (node_prec e) slot_Lambda_body) eqn:E; [|reflexivity].
    apply Nat.leb_le in E. apply (IHe Hc s rest); [cbn [d_rl] in Hl; lia|exact Hr].
  - (* IfExp *) apply andb_prop in Hc as [Hc Hc3]. destruct (rest_ok_desc s rest DIf Hr Hp) as [He Hl]. rewrite He. cbn [andb].
    destruct (Nat.leb (node_prec e3) slot_IfExp_orelse) eqn:E; [|reflexivity].
    apply Nat.leb_le in E. apply (IHe3 Hc3 s rest); [cbn [d_rl] in Hl; lia|exact Hr].
Qed.

(* ---------- facts about the tables regenerated from the code (finite checks) ---------- *)
Lemma classify_binop o r : classify (PK (binop_text o) :: r) = KBin o r.
Proof. destruct o; reflexivity. Qed.
Lemma classify_boolop o r : classify (PK (bool_key o) :: r) = KBool o r.
Proof. destruct o; reflexivity. Qed.
Lemma classify_cmp o r : (o = Is -> hd_is "not" r = false) -> classify (map PK (cmp_keys o) ++ r) = KCmp o r.
Proof.
  intros H. destruct o; try reflexivity.
  cbn [cmp_keys map app]. unfold classify. cbn [String.eqb Ascii.eqb Bool.eqb andb]. unfold cmp_of.
  cbn [String.eqb Ascii.eqb Bool.eqb andb]. rewrite (H eq_refl). reflexivity.
Qed.
Lemma prefix_unop o r : classify_prefix (PK (unop_key o) :: r) = PUn o r.
Proof. destruct o; reflexivity. Qed.
Lemma prefix_name i r : nowal r = true -> classify_prefix (PN i :: r) = PAtom.
Proof. unfold nowal. intros H. apply negb_true_iff in H. cbn [classify_prefix]. rewrite H. reflexivity. Qed.

Definition closer (k : string) : bool := existsb (String.eqb k) [")"; ","; "]"; "else"].

Lemma continues_closer m k r : closer k = true -> continues m (PK k :: r) = false.
Proof.
  unfold closer. cbn [existsb]. intros H.
  repeat (apply orb_prop in H as [H|H]; [apply String.eqb_eq in H; subst k; reflexivity|]). discriminate.
Qed.

Lemma continues_same_bool o r : continues (slot_BoolOp o) (PK (bool_key o) :: r) = false.
Proof. unfold continues. rewrite classify_boolop. destruct o; reflexivity. Qed.

Lemma cmp_class o r : exists o' r', classify (map PK (cmp_keys o) ++ r) = KCmp o' r'.
Proof.
  destruct o; try (eexists _, _; reflexivity).
  cbn [cmp_keys map app]. unfold classify. cbn [String.eqb Ascii.eqb Bool.eqb andb]. unfold cmp_of.
  cbn [String.eqb Ascii.eqb Bool.eqb andb]. destruct (hd_is "not" r); eexists _, _; reflexivity.
Qed.

Lemma continues_cmp m o r : continues m (map PK (cmp_keys o) ++ r) = Nat.leb node_prec_Compare m.
Proof. unfold continues. destruct (cmp_class o r) as [o' [r' E]]. rewrite E. reflexivity. Qed.

Lemma nowal_cmp o r : nowal (map PK (cmp_keys o) ++ r) = true.
Proof. destruct o; reflexivity. Qed.

(* contexts *)
Lemma ctx_binop o r : rest_okb (slot_BinOp_left o) (PK (binop_text o) :: r) = true.
Proof.
  unfold rest_okb. apply andb_true_intro. split; [destruct o; reflexivity|].
  apply forallb_forall. intros d _. unfold edge, continues, chain_hd, chain_free. rewrite classify_binop.
  destruct o; destruct d as [o'|o'|o'| | | |]; try destruct o'; vm_compute; reflexivity.
Qed.

Lemma ctx_boolop o r : rest_okb (slot_BoolOp o) (PK (bool_key o) :: r) = true.
Proof.
  unfold rest_okb. apply andb_true_intro. split; [destruct o; reflexivity|].
  apply forallb_forall. intros d _. unfold edge, continues, chain_hd, chain_free. rewrite classify_boolop.
  destruct o; destruct d as [o'|o'|o'| | | |]; try destruct o'; vm_compute; reflexivity.
Qed.

Lemma ctx_cmp o r : rest_okb slot_Compare_left (map PK (cmp_keys o) ++ r) = true.
Proof.
  unfold rest_okb. rewrite nowal_cmp. cbn [andb].
  apply forallb_forall. intros d _. unfold edge. rewrite continues_cmp. unfold chain_hd, chain_free.
  destruct (cmp_class o r) as [o' [r' E]]. rewrite E.
  destruct d as [o''|o''|o''| | | |]; try destruct o''; vm_compute; reflexivity.
Qed.

Lemma ctx_if r : rest_okb slot_IfExp_body (PK "if" :: r) = true.
Proof.
  unfold rest_okb. apply andb_true_intro. split; [reflexivity|].
  apply forallb_forall. intros d _. destruct d as [o'|o'|o'| | | |]; try destruct o'; vm_compute; reflexivity.
Qed.

Lemma ctx_closer k r : closer k = true -> rest_okb TOP (PK k :: r) = true.
Proof.
  unfold closer. cbn [existsb]. intros H.
  repeat (apply orb_prop in H as [H|H]; [apply String.eqb_eq in H; subst k;
    unfold rest_okb; apply andb_true_intro; split; [reflexivity|]; apply forallb_forall; intros d _;
    destruct d as [o'|o'|o'| | | |]; try destruct o'; vm_compute; reflexivity|]). discriminate.
Qed.

(* after the value of an attribute / call / subscript *)
Lemma ctx_trailer k r : existsb (String.eqb k) ["."; "("; "["] = true -> rest_okb slot_Attribute_value (PK k :: r) = true.
Proof.
  cbn [existsb]. intros H.
  repeat (apply orb_prop in H as [H|H]; [apply String.eqb_eq in H; subst k;
    unfold rest_okb; apply andb_true_intro; split; [reflexivity|]; apply forallb_forall; intros d _;
    destruct d as [o'|o'|o'| | | |]; try destruct o'; vm_compute; reflexivity|]). discriminate.
Qed.

(* precedences of the nodes of the core *)
Definition np_vals : list nat :=
  [node_prec_Name; node_prec_Constant; node_prec_Compare; node_prec_IfExp; node_prec_Lambda; node_prec_NamedExpr;
   node_prec_Attribute; node_prec_Call; node_prec_Subscript] ++
  map binop_prec all_binops ++ map unop_prec [Invert; Not; UAdd; USub] ++ map boolop_prec [And; Or].

Lemma core_np e : core e = true -> List.In (node_prec e) np_vals.
Proof.
  destruct e; cbn [core]; try discriminate; intros _; cbn [node_prec];
    try (destruct op; vm_compute; tauto); try (destruct o; vm_compute; tauto); vm_compute; tauto.
Qed.

Lemma np_fact (P : nat -> bool) : forallb P np_vals = true -> forall e, core e = true -> P (node_prec e) = true.
Proof. intros H e Hc. rewrite forallb_forall in H. apply H. apply core_np. exact Hc. Qed.

Lemma np_top e : core e = true -> node_prec e <= TOP.
Proof. intros Hc. apply Nat.leb_le. apply (np_fact (fun v => Nat.leb v TOP)); [vm_compute; reflexivity|exact Hc]. Qed.

Lemma np_binop_left e o : core e = true -> node_prec e <= slot_BinOp_left o -> node_prec e <= binop_prec o.
Proof.
  intros Hc H. apply Nat.leb_le in H. apply Nat.leb_le.
  pose proof (np_fact (fun v => implb (Nat.leb v (slot_BinOp_left o)) (Nat.leb v (binop_prec o)))) as F.
  assert (G : forallb (fun v => implb (Nat.leb v (slot_BinOp_left o)) (Nat.leb v (binop_prec o))) np_vals = true)
    by (destruct o; vm_compute; reflexivity).
  specialize (F G e Hc). cbv beta in F. rewrite H in F. exact F.
Qed.

Lemma np_boolop e o : core e = true -> node_prec e <= slot_BoolOp o -> node_prec e <= boolop_prec o.
Proof.
  intros Hc H. apply Nat.leb_le in H. apply Nat.leb_le.
  assert (G : forallb (fun v => implb (Nat.leb v (slot_BoolOp o)) (Nat.leb v (boolop_prec o))) np_vals = true)
    by (destruct o; vm_compute; reflexivity).
  pose proof (np_fact _ G e Hc) as F. cbv beta in F. rewrite H in F. exact F.
Qed.

Lemma np_small (s p : nat) e :
  forallb (fun v => implb (Nat.leb v s) (Nat.leb v p)) np_vals = true -> core e = true -> node_prec e <= s -> node_prec e <= p.
Proof.
  intros G Hc H. apply Nat.leb_le in H. apply Nat.leb_le. pose proof (np_fact _ G e Hc) as F. cbv beta in F. rewrite H in F. exact F.
Qed.

(* ---------- the first token of a printed expression ---------- *)
Definition start_tok (t : pt) : bool :=
  match t with PN _ | PL _ => true | PK k => existsb (String.eqb k) ["("; "lambda"; "not"; "-"; "+"; "~"] end.

Lemma pparen_head b ts rest :
  (exists t r, ts ++ rest = t :: r /\ start_tok t = true) ->
  exists t r, pparen b ts ++ rest = t :: r /\ start_tok t = true.
Proof. intros H. destruct b; [|exact H]. eexists _, _. split; [reflexivity|reflexivity]. Qed.

Lemma pp_head : forall e, core e = true -> forall s rest, exists t r, pp s e ++ rest = t :: r /\ start_tok t = true.
Proof.
  induction e using expr_ind'; intros Hc s rest; cbn [core] in Hc; try discriminate; rewrite pp_unfold; apply pparen_head; cbn [pbody].
  - eexists _, _. split; reflexivity.
  - eexists _, _. split; reflexivity.
  - apply andb_prop in Hc as [Hc1 _]. rewrite <- app_assoc. apply IHe1. exact Hc1.
  - apply andb_prop in Hc as [Hl Hc]. destruct vs as [|v1 [|v2 t]]; try discriminate.
    unfold Pl in H. inversion H as [|? ? H1 _]; subst. cbn [forallb] in Hc. apply andb_prop in Hc as [Hc1 _].
    cbn [map join]. rewrite <- app_assoc. apply H1. exact Hc1.
  - destruct o; eexists _, _; split; reflexivity.
  - apply andb_prop in Hc as [Hc _]. apply andb_prop in Hc as [Hc _]. apply andb_prop in Hc as [Hc1 _].
    rewrite <- app_assoc. apply IHe. exact Hc1.
  - rewrite <- app_assoc. apply pparen_head. apply IHe. exact Hc.
  - apply andb_prop in Hc as [Hc _]. apply andb_prop in Hc as [Hc1 _]. rewrite <- app_assoc. apply IHe1. exact Hc1.
  - destruct kws; [|discriminate]. apply andb_prop in Hc as [Hc1 _]. rewrite <- app_assoc. apply IHe. exact Hc1.
  - eexists _, _. split; reflexivity.
  - eexists _, _. split; reflexivity.
  - apply andb_prop in Hc as [Hc _]. apply andb_prop in Hc as [_ Hc2]. rewrite <- app_assoc. apply IHe2. exact Hc2.
Qed.

Lemma pp_head_not_close e s rest : core e = true -> hd_is ")" (pp s e ++ rest) = false.
Proof.
  intros Hc. destruct (pp_head e Hc s rest) as [t [r [E Ht]]]. rewrite E. destruct t as [i|c|k]; try reflexivity.
  cbn [hd_is is_key start_tok existsb] in *.
  repeat (apply orb_prop in Ht as [Ht|Ht]; [apply String.eqb_eq in Ht; subst k; reflexivity|]). discriminate.
Qed.

(* an expression printed in a slot below `not` does not begin with the keyword `not` (so `is` followed by it is `is`) *)
Lemma pparen_not b ts rest : (b = false -> hd_is "not" (ts ++ rest) = false) -> hd_is "not" (pparen b ts ++ rest) = false.
Proof. destruct b; intros H; [reflexivity|apply H; reflexivity]. Qed.

Definition below_not (s : nat) : Prop := s < unop_prec Not.

Lemma pp_head_not_not : forall e, core e = true -> forall s rest, below_not s -> hd_is "not" (pp s e ++ rest) = false.
Proof.
  unfold below_not.
  induction e using expr_ind'; intros Hc s rest Hs; cbn [core] in Hc; try discriminate; rewrite pp_unfold; apply pparen_not;
    intros Hb; apply Nat.ltb_ge in Hb; cbn [pbody node_prec] in *.
  - reflexivity.
  - reflexivity.
  - apply andb_prop in Hc as [Hc1 _]. rewrite <- app_assoc. apply IHe1; [exact Hc1|destruct o; vm_compute; lia].
  - exfalso. destruct o; vm_compute in Hb, Hs; lia.
  - destruct o; try reflexivity. exfalso. vm_compute in Hb, Hs. lia.
  - apply andb_prop in Hc as [Hc _]. apply andb_prop in Hc as [Hc _]. apply andb_prop in Hc as [Hc1 _].
    rewrite <- app_assoc. apply IHe; [exact Hc1|vm_compute; lia].
  - rewrite <- app_assoc. apply pparen_not. intros _. apply IHe; [exact Hc|vm_compute; lia].
  - apply andb_prop in Hc as [Hc _]. apply andb_prop in Hc as [Hc1 _]. rewrite <- app_assoc. apply IHe1; [exact Hc1|vm_compute; lia].
  - destruct kws; [|discriminate]. apply andb_prop in Hc as [Hc1 _]. rewrite <- app_assoc. apply IHe; [exact Hc1|vm_compute; lia].
  - reflexivity.
  - reflexivity.
  - exfalso. vm_compute in Hb, Hs. lia.
Qed.

(* ---------- the round trip ---------- *)
Definition A_stmt (e : expr) : Prop :=
  forall n rest res, node_prec e <= n -> safe e rest = true ->
    Ev (MLoop n e CNone) rest res -> Ev (MExpr n) (pbody e ++ rest) res.

Lemma child_of_A e : core e = true -> A_stmt e ->
  forall s n rest res, (node_prec e <= s -> node_prec e <= n /\ safe e rest = true) ->
    Ev (MLoop n e CNone) rest res -> Ev (MExpr n) (pp s e ++ rest) res.
Proof.
  intros Hc HA s n rest res Hcond Hloop. rewrite pp_unfold. destruct (Nat.ltb s (node_prec e)) eqn:E.
  - cbn [pparen app]. rewrite <- app_assoc. cbn [app].
    eapply Ev_expr_atom; [reflexivity| |exact Hloop].
    apply Ev_atom_paren. apply HA.
    + apply np_top. exact Hc.
    + apply (safe_of_rest_ok e Hc TOP); [apply np_top; exact Hc|apply ctx_closer; reflexivity].
    + apply Ev_loop_stop. apply continues_closer. reflexivity.
  - apply Nat.ltb_ge in E. destruct (Hcond E) as [Hn Hs]. cbn [pparen]. apply HA; assumption.
Qed.

Lemma edge_stop d rest : edge d rest = true -> continues (d_rl d) rest = false.
Proof. unfold edge. intros H. apply andb_prop in H as [H _]. apply negb_true_iff in H. exact H. Qed.
Lemma edge_chain d rest : edge d rest = true -> chain_hd d rest = true.
Proof. unfold edge. intros H. apply andb_prop in H as [_ H]. exact H. Qed.

Lemma sub_safe lvl r rest :
  (if Nat.leb (node_prec r) lvl then safe r rest else true) = true -> node_prec r <= lvl -> node_prec r <= lvl /\ safe r rest = true.
Proof. intros H Hle. split; [exact Hle|]. apply Nat.leb_le in Hle. rewrite Hle in H. exact H. Qed.

(* right operand of an open operator: parsed at its level, the loop stops at [rest] *)
Lemma right_child e lvl rest :
  core e = true -> A_stmt e ->
  (if Nat.leb (node_prec e) lvl then safe e rest else true) = true -> continues lvl rest = false ->
  Ev (MExpr lvl) (pp lvl e ++ rest) (e, rest).
Proof.
  intros Hc HA Hs Hstop. apply (child_of_A e Hc HA lvl lvl rest).
  - intros Hle. apply sub_safe; assumption.
  - apply Ev_loop_stop. exact Hstop.
Qed.

(* a child followed by a closing token *)
Lemma closed_child e s lvl k rest :
  core e = true -> A_stmt e -> closer k = true -> TOP <= lvl \/ s <= lvl ->
  Ev (MExpr lvl) (pp s e ++ PK k :: rest) (e, PK k :: rest).
Proof.
  intros Hc HA Hk Hl. apply (child_of_A e Hc HA s lvl).
  - intros Hle. split; [pose proof (np_top e Hc); lia|].
    apply (safe_of_rest_ok e Hc TOP); [apply np_top; exact Hc|apply ctx_closer; exact Hk].
  - apply Ev_loop_stop. apply continues_closer. exact Hk.
Qed.

Definition btoks (o : boolop) (ws : list expr) : list pt :=
  flat_map (fun w => PK (bool_key o) :: pp (slot_BoolOp o) w) ws.

Lemma join_cons2 {X} (sep : list X) x y t : join sep (x :: y :: t) = x ++ sep ++ join sep (y :: t).
Proof. reflexivity. Qed.

Lemma join_btoks o v ws : join [PK (bool_key o)] (map (pp (slot_BoolOp o)) (v :: ws)) = pp (slot_BoolOp o) v ++ btoks o ws.
Proof.
  revert v. induction ws as [|w t IH]; intros v.
  - cbn [map join btoks flat_map]. rewrite app_nil_r. reflexivity.
  - cbn [map]. rewrite join_cons2. specialize (IH w). cbn [map] in IH. rewrite IH. reflexivity.
Qed.

Lemma btoks_cons o w ws rest :
  btoks o (w :: ws) ++ rest = PK (bool_key o) :: pp (slot_BoolOp o) w ++ (btoks o ws ++ rest).
Proof. unfold btoks. cbn [flat_map]. cbn [app]. rewrite <- app_assoc. reflexivity. Qed.

Definition lastsub (lvl : nat) (rest : list pt) :=
  fix lst (vs : list expr) : bool :=
    match vs with [] => true | [v] => if Nat.leb (node_prec v) lvl then safe v rest else true | _ :: t => lst t end.

Lemma bool_chain n o rest res :
  boolop_prec o <= n -> continues (slot_BoolOp o) rest = false ->
  forall ws prev L ch, ws <> [] ->
    Forall (fun w => core w = true /\ A_stmt w) ws ->
    (forall w, extend_bool ch L o w = BoolOp o (prev ++ [w])) ->
    lastsub (slot_BoolOp o) rest ws = true ->
    Ev (MLoop n (BoolOp o (prev ++ ws)) (CBool o)) rest res ->
    Ev (MLoop n L ch) (btoks o ws ++ rest) res.
Proof.
  intros Hp Hstop. induction ws as [|w ws' IH]; intros prev L ch Hne HF Hext Hlast Hfin; [contradiction|].
  inversion HF as [|? ? [Hcw HAw] HF']; subst. rewrite btoks_cons.
  destruct ws' as [|w2 t].
  - cbn [btoks flat_map app].
    eapply Ev_loop_bool; [apply classify_boolop|exact Hp| |].
    + apply right_child; [exact Hcw|exact HAw|exact Hlast|exact Hstop].
    + rewrite Hext. exact Hfin.
  - eapply Ev_loop_bool; [apply classify_boolop|exact Hp| |].
    + apply (child_of_A w Hcw HAw (slot_BoolOp o) (slot_BoolOp o)).
      * intros Hle. split; [exact Hle|]. rewrite btoks_cons.
        apply (safe_of_rest_ok w Hcw (slot_BoolOp o)); [exact Hle|apply ctx_boolop].
      * apply Ev_loop_stop. rewrite btoks_cons. apply continues_same_bool.
    + rewrite Hext. apply (IH (prev ++ [w]) (BoolOp o (prev ++ [w])) (CBool o)).
      * discriminate.
      * exact HF'.
      * intros w'. unfold extend_bool. destruct o; reflexivity.
      * exact Hlast.
      * rewrite <- app_assoc. exact Hfin.
Qed.

Definition ctoks : list expr -> list cmpop -> list pt :=
  fix go (cs : list expr) (ops : list cmpop) : list pt :=
    match cs, ops with
    | c :: cs', o :: ops' => map PK (cmp_keys o) ++ pp slot_Compare_comparator c ++ go cs' ops'
    | _, _ => []
    end.

Lemma ctoks_cons c cs o ops rest :
  ctoks (c :: cs) (o :: ops) ++ rest = map PK (cmp_keys o) ++ (pp slot_Compare_comparator c ++ (ctoks cs ops ++ rest)).
Proof. cbn [ctoks]. rewrite <- !app_assoc. reflexivity. Qed.

Lemma ctx_cmp' o r : rest_okb slot_Compare_comparator (map PK (cmp_keys o) ++ r) = true.
Proof. exact (ctx_cmp o r). Qed.

Lemma cmp_chain n l0 rest res :
  node_prec_Compare <= n -> continues slot_Compare_comparator rest = false ->
  forall cs ops pops pcs L ch, cs <> [] -> length ops = length cs ->
    Forall (fun w => core w = true /\ A_stmt w) cs ->
    (forall o c, extend_cmp ch L o c = Compare l0 (pops ++ [o]) (pcs ++ [c])) ->
    lastsub slot_Compare_comparator rest cs = true ->
    Ev (MLoop n (Compare l0 (pops ++ ops) (pcs ++ cs)) CCmp) rest res ->
    Ev (MLoop n L ch) (ctoks cs ops ++ rest) res.
Proof.
  intros Hp Hstop. induction cs as [|c cs' IH]; intros ops pops pcs L ch Hne Hlen HF Hext Hlast Hfin; [contradiction|].
  destruct ops as [|o ops']; [discriminate|]. injection Hlen as Hlen.
  inversion HF as [|? ? [Hcc HAc] HF']; subst. rewrite ctoks_cons.
  assert (Hbn : below_not slot_Compare_comparator) by (unfold below_not; vm_compute; lia).
  destruct cs' as [|c2 t].
  - destruct ops'; [|discriminate]. cbn [ctoks app].
    eapply Ev_loop_cmp; [apply classify_cmp; intros _; apply pp_head_not_not; assumption|exact Hp| |].
    + apply right_child; [exact Hcc|exact HAc|exact Hlast|exact Hstop].
    + rewrite Hext. exact Hfin.
  - destruct ops' as [|o2 ops'']; [discriminate|].
    eapply Ev_loop_cmp; [apply classify_cmp; intros _; apply pp_head_not_not; assumption|exact Hp| |].
    + apply (child_of_A c Hcc HAc slot_Compare_comparator slot_Compare_comparator).
      * intros Hle. split; [exact Hle|]. rewrite ctoks_cons.
        apply (safe_of_rest_ok c Hcc slot_Compare_comparator); [exact Hle|apply ctx_cmp'].
      * apply Ev_loop_stop. rewrite ctoks_cons. rewrite continues_cmp. vm_compute. reflexivity.
    + rewrite Hext. apply (IH (o2 :: ops'') (pops ++ [o]) (pcs ++ [c]) (Compare l0 (pops ++ [o]) (pcs ++ [c])) CCmp).
      * discriminate.
      * exact Hlen.
      * exact HF'.
      * intros o' c'. reflexivity.
      * exact Hlast.
      * rewrite <- !app_assoc. exact Hfin.
Qed.

Lemma args_chain sl rest :
  (sl <= TOP) ->
  forall args acc, args <> [] -> Forall (fun w => core w = true /\ A_stmt w) args ->
    Ev (MArgs acc) (join [PK ","] (map (pp sl) args) ++ PK ")" :: rest) (ETuple (rev acc ++ args), rest).
Proof.
  intros Hsl. induction args as [|x t IH]; intros acc Hne HF; [contradiction|].
  inversion HF as [|? ? [Hcx HAx] HF']; subst.
  destruct t as [|y t'].
  - cbn [map join]. replace (rev acc ++ [x]) with (rev (x :: acc)) by reflexivity.
    apply Ev_args_last; [apply pp_head_not_close; exact Hcx|].
    apply closed_child; [exact Hcx|exact HAx|reflexivity|left; lia].
  - change (join [PK ","] (map (pp sl) (x :: y :: t'))) with (pp sl x ++ [PK ","] ++ join [PK ","] (map (pp sl) (y :: t'))).
    rewrite <- !app_assoc. cbn [app].
    eapply Ev_args_more; [apply pp_head_not_close; exact Hcx| |].
    + apply closed_child; [exact Hcx|exact HAx|reflexivity|left; lia].
    + replace (rev acc ++ x :: y :: t') with (rev (x :: acc) ++ y :: t') by (cbn [rev]; rewrite <- app_assoc; reflexivity).
      apply IH; [discriminate|exact HF'].
Qed.

Lemma safe_parts d rest (b : bool) : edge d rest && b = true -> edge d rest = true /\ b = true.
Proof. intros H. apply andb_prop in H. exact H. Qed.

Lemma Forall_core_A (P := fun e => core e = true -> A_stmt e) vs :
  Forall P vs -> forallb core vs = true -> Forall (fun w => core w = true /\ A_stmt w) vs.
Proof.
  intros HF Hc. rewrite forallb_forall in Hc. rewrite Forall_forall in HF |- *. intros w Hw. split; [apply Hc; exact Hw|].
  apply HF; [exact Hw|apply Hc; exact Hw].
Qed.

Theorem A_all : forall e, core e = true -> A_stmt e.
Proof.
  induction e using expr_ind'; intros Hc; cbn [core] in Hc; try discriminate; intros n rest res Hp Hs Hloop; cbn [pbody].
  - (* Name *) cbn [safe] in Hs. cbn [app]. eapply Ev_expr_atom; [apply prefix_name; exact Hs|apply Ev_atom_name|exact Hloop].
  - (* Constant *) cbn [app]. eapply Ev_expr_atom; [reflexivity|apply Ev_atom_lit|exact Hloop].
  - (* BinOp *) apply andb_prop in Hc as [Hc1 Hc2]. cbn [safe] in Hs. apply safe_parts in Hs as [He Hsub]. cbn [node_prec] in Hp.
    rewrite <- app_assoc. cbn [app].
    apply (child_of_A e1 Hc1 (IHe1 Hc1) (slot_BinOp_left o) n).
    + intros Hle. split; [pose proof (np_binop_left e1 o Hc1 Hle); lia|].
      apply (safe_of_rest_ok e1 Hc1 (slot_BinOp_left o)); [exact Hle|apply ctx_binop].
    + eapply Ev_loop_bin; [apply classify_binop|exact Hp| |exact Hloop].
      apply right_child; [exact Hc2|exact (IHe2 Hc2)|exact Hsub|exact (edge_stop _ _ He)].
  - (* BoolOp *) apply andb_prop in Hc as [Hlen Hc]. destruct vs as [|v1 [|v2 t]]; try discriminate.
    cbn [safe] in Hs. apply safe_parts in Hs as [He Hsub]. cbn [node_prec] in Hp.
    unfold Pl in H. pose proof (Forall_core_A _ H Hc) as HF. inversion HF as [|? ? [Hc1 HA1] HF']; subst.
    rewrite join_btoks. rewrite <- app_assoc.
    apply (child_of_A v1 Hc1 HA1 (slot_BoolOp o) n).
    + intros Hle. split; [pose proof (np_boolop v1 o Hc1 Hle); lia|]. rewrite btoks_cons.
      apply (safe_of_rest_ok v1 Hc1 (slot_BoolOp o)); [exact Hle|apply ctx_boolop].
    + apply (bool_chain n o rest res Hp (edge_stop _ _ He) (v2 :: t) [v1] v1 CNone).
      * discriminate.
      * exact HF'.
      * intros w. reflexivity.
      * exact Hsub.
      * apply Ev_loop_flag; [exact (edge_chain _ _ He)|exact Hloop].
  - (* UnaryOp *) cbn [safe] in Hs. apply safe_parts in Hs as [He Hsub]. cbn [node_prec] in Hp. cbn [app].
    eapply Ev_expr_un; [apply prefix_unop|exact Hp| |exact Hloop].
    apply right_child; [exact Hc|exact (IHe Hc)|exact Hsub|exact (edge_stop _ _ He)].
  - (* Compare *) apply andb_prop in Hc as [Hc Hcs]. apply andb_prop in Hc as [Hc Hlen1]. apply andb_prop in Hc as [Hcl Hlen].
    apply Nat.eqb_eq in Hlen. cbn [safe] in Hs. apply safe_parts in Hs as [He Hsub]. cbn [node_prec] in Hp.
    unfold Pl in H. pose proof (Forall_core_A _ H Hcs) as HF.
    fold ctoks. change ((fix go (cs0 : list expr) (ops0 : list cmpop) {struct cs0} : list pt :=
          match cs0 with
          | [] => []
          | c :: cs' => match ops0 with [] => [] | o :: ops' => map PK (cmp_keys o) ++ pp slot_Compare_comparator c ++ go cs' ops' end
          end) cs ops) with (ctoks cs ops).
    rewrite <- app_assoc.
    destruct cs as [|c1 cs']; [discriminate|]. destruct ops as [|o1 ops']; [discriminate|].
    apply (child_of_A e Hcl (IHe Hcl) slot_Compare_left n).
    + intros Hle. split.
      * assert (G : node_prec e <= node_prec_Compare).
        { apply (np_small slot_Compare_left node_prec_Compare e); [vm_compute; reflexivity|exact Hcl|exact Hle]. }
        lia.
      * rewrite ctoks_cons. apply (safe_of_rest_ok e Hcl slot_Compare_left); [exact Hle|apply ctx_cmp].
    + apply (cmp_chain n e rest res Hp (edge_stop _ _ He) (c1 :: cs') (o1 :: ops') [] [] e CNone).
      * discriminate.
      * exact Hlen.
      * exact HF.
      * intros o c. reflexivity.
      * exact Hsub.
      * apply Ev_loop_flag; [exact (edge_chain _ _ He)|exact Hloop].
  - (* Attribute *) cbn [node_prec] in Hp. rewrite <- app_assoc. cbn [app].
    destruct (int_literal e) eqn:Ei.
    { cbn [pparen app]. rewrite <- app_assoc. cbn [app].
      eapply Ev_expr_atom; [reflexivity| |apply Ev_loop_dot; exact Hloop].
      apply Ev_atom_paren. apply closed_child; [exact Hc|exact (IHe Hc)|reflexivity|left; lia]. }
    cbn [pparen].
    apply (child_of_A e Hc (IHe Hc) slot_Attribute_value n).
    + intros Hle. split.
      * assert (G : node_prec e <= node_prec_Attribute).
        { apply (np_small slot_Attribute_value node_prec_Attribute e); [vm_compute; reflexivity|exact Hc|exact Hle]. }
        lia.
      * apply (safe_of_rest_ok e Hc slot_Attribute_value); [exact Hle|apply ctx_trailer; reflexivity].
    + apply Ev_loop_dot. exact Hloop.
  - (* Subscript *) apply andb_prop in Hc as [Hc _]. apply andb_prop in Hc as [Hc1 Hc2]. cbn [node_prec] in Hp.
    rewrite <- app_assoc. cbn [app]. rewrite <- app_assoc. cbn [app].
    apply (child_of_A e1 Hc1 (IHe1 Hc1) slot_Subscript_value n).
    + intros Hle. split.
      * assert (G : node_prec e1 <= node_prec_Subscript).
        { apply (np_small slot_Subscript_value node_prec_Subscript e1); [vm_compute; reflexivity|exact Hc1|exact Hle]. }
        lia.
      * apply (safe_of_rest_ok e1 Hc1 slot_Attribute_value); [exact Hle|apply ctx_trailer; reflexivity].
    + eapply Ev_loop_sub; [|exact Hloop].
      apply closed_child; [exact Hc2|exact (IHe2 Hc2)|reflexivity|right; lia].
  - (* Call *) destruct kws; [|discriminate]. apply andb_prop in Hc as [Hcf Hca]. cbn [node_prec] in Hp.
    unfold Pl in H. pose proof (Forall_core_A _ H Hca) as HF.
    rewrite <- app_assoc. cbn [app]. rewrite <- app_assoc.
    apply (child_of_A e Hcf (IHe Hcf) slot_Call_func n).
    + intros Hle. split.
      * assert (G : node_prec e <= node_prec_Call).
        { apply (np_small slot_Call_func node_prec_Call e); [vm_compute; reflexivity|exact Hcf|exact Hle]. }
        lia.
      * apply (safe_of_rest_ok e Hcf slot_Attribute_value); [exact Hle|apply ctx_trailer; reflexivity].
    + eapply Ev_loop_call; [|exact Hloop].
      destruct args as [|x [|y t]].
      * cbn [join map app]. apply (Ev_args_nil []).
      * cbn [app]. change (pp slot_Call_onlyarg x) with (join [PK ","] (map (pp slot_Call_onlyarg) [x])).
        apply (args_chain slot_Call_onlyarg rest (Nat.le_refl _) [x] []); [discriminate|exact HF].
      * cbn [app]. apply (args_chain slot_Call_arg rest); [vm_compute; lia|discriminate|exact HF].
  - (* NamedExpr *) cbn [safe] in Hs. apply safe_parts in Hs as [He Hsub]. cbn [node_prec] in Hp. cbn [app].
    eapply Ev_expr_wal; [exact Hp| |exact Hloop].
    apply right_child; [exact Hc|exact (IHe Hc)|exact Hsub|exact (edge_stop _ _ He)].
  - (* Lambda *) destruct po; [|discriminate]. destruct ar; [|discriminate]. destruct va; [discriminate|]. destruct ko; [|discriminate].
    destruct kd; [|discriminate]. destruct kw; [discriminate|]. destruct de; [|discriminate].
    cbn [safe] in Hs. apply safe_parts in Hs as [He Hsub]. cbn [node_prec] in Hp. cbn [app].
    eapply Ev_expr_lam; [exact Hp| |exact Hloop].
    apply right_child; [exact Hc|exact (IHe Hc)|exact Hsub|exact (edge_stop _ _ He)].
  - (* IfExp *) apply andb_prop in Hc as [Hc Hc3]. apply andb_prop in Hc as [Hc1 Hc2].
    cbn [safe] in Hs. apply safe_parts in Hs as [He Hsub]. cbn [node_prec] in Hp.
    rewrite <- app_assoc. cbn [app]. rewrite <- app_assoc. cbn [app].
    apply (child_of_A e2 Hc2 (IHe2 Hc2) slot_IfExp_body n).
    + intros Hle. split.
      * assert (G : node_prec e2 <= node_prec_IfExp).
        { apply (np_small slot_IfExp_body node_prec_IfExp e2); [vm_compute; reflexivity|exact Hc2|exact Hle]. }
        lia.
      * apply (safe_of_rest_ok e2 Hc2 slot_IfExp_body); [exact Hle|apply ctx_if].
    + eapply Ev_loop_if; [exact Hp| | |exact Hloop].
      * apply closed_child; [exact Hc1|exact (IHe1 Hc1)|reflexivity|right; lia].
      * apply right_child; [exact Hc3|exact (IHe3 Hc3)|exact Hsub|exact (edge_stop _ _ He)].
Qed.

(* THEOREM: for every tree of the core, of any depth, the parser reads back exactly the tree from what the printer
   wrote (with any sufficiently large fuel, and nothing left over) *)
Theorem roundtrip_core : forall e, core e = true ->
  exists f0, forall f, f0 <= f -> pc f (MExpr slot_top) (pp slot_top e) = Some (e, []).
Proof.
  intros e Hc. rewrite <- (app_nil_r (pp slot_top e)).
  apply (child_of_A e Hc (A_all e Hc) slot_top slot_top [] (e, [])).
  - intros Hle. split; [exact Hle|]. apply (safe_of_rest_ok e Hc slot_top); [exact Hle|vm_compute; reflexivity].
  - apply Ev_loop_stop. reflexivity.
Qed.
