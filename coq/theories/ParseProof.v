(* C03: the parser of Parse.v inverts the printer of Parse.v on the whole core, for trees of any depth. *)
From Coq Require Import String Ascii List ZArith NArith Bool Arith Lia.
From OL Require Import PyAst Unparse.
From OL Require Import Parse.
From OLGen Require Import Tables.
Import ListNotations.
Local Open Scope string_scope.
Local Open Scope list_scope.

(* "for all sufficiently large fuel" *)
Definition Ev (m : mode) (ts : list pt) (r : expr * list pt) : Prop :=
  exists f0, forall f, f0 <= f -> pc f m ts = Some r.

Ltac ev_start f0 := exists (S f0); intros f Hf; destruct f as [|f]; [lia|]; cbn [pc].

Lemma Ev_atom_name i r : Ev MAtom (PN i :: r) (Name i, r).
Proof. ev_start 0. reflexivity. Qed.
Lemma Ev_atom_lit c r : Ev MAtom (PL c :: r) (Constant c, r).
Proof. ev_start 0. reflexivity. Qed.
Lemma Ev_atom_paren' r res : Ev (MElems ")" [] false) r res -> Ev MAtom (PK "(" :: r) res.
Proof. intros [f0 H]. ev_start f0. change (String.eqb "(" "(") with true. cbv iota. apply H. lia. Qed.
Lemma Ev_atom_list r l r' : Ev (MElems "]" [] false) r (ETuple l, r') -> Ev MAtom (PK "[" :: r) (EList l, r').
Proof.
  intros [f0 H]. ev_start f0. change (String.eqb "[" "(") with false. change (String.eqb "[" "[") with true. cbv iota.
  rewrite H by lia. reflexivity.
Qed.
(* `{`: a set display unless the first element is followed by a colon *)
Definition first_not_key (r : list pt) : Prop :=
  hd_is "*" r = true \/ exists k s1 r1, Ev (MExpr TOP) r (k, PK s1 :: r1) /\ String.eqb s1 ":" = false.

Lemma Ev_atom_set r x l r' :
  hd_is "}" r = false -> hd_is "**" r = false -> first_not_key r ->
  Ev (MElems "}" [] false) r (ETuple (x :: l), r') -> Ev MAtom (PK "{" :: r) (ESet (x :: l), r').
Proof.
  intros H1 H2 Hf [f0 H].
  change (Ev MAtom (PK "{" :: r) (ESet (x :: l), r')).
  destruct Hf as [Hs|[k [s1 [r1 [[f1 E1] Hne]]]]].
  - ev_start f0. change (String.eqb "{" "(") with false. change (String.eqb "{" "[") with false.
    change (String.eqb "{" "{") with true. cbv iota. rewrite H1, H2, Hs, H by lia. reflexivity.
  - ev_start (Nat.max f0 f1). change (String.eqb "{" "(") with false. change (String.eqb "{" "[") with false.
    change (String.eqb "{" "{") with true. cbv iota. rewrite H1, H2.
    destruct (hd_is "*" r); [rewrite H by lia; reflexivity|]. rewrite E1 by lia. rewrite Hne, H by lia. reflexivity.
Qed.

(* one element of a display: `*v` or an expression *)
Definition elem_ev (ts : list pt) (e : expr) (r : list pt) : Prop :=
  (hd_is "*" ts = true /\ exists v, e = Starred v /\ Ev (MExpr slot_Starred_value) (tl ts) (v, r)) \/
  (hd_is "*" ts = false /\ Ev (MExpr TOP) ts (e, r)).

Lemma Ev_elems_close cl acc cm r x : finish cl acc cm = Some x -> Ev (MElems cl acc cm) (PK cl :: r) (x, r).
Proof. intros H. ev_start 0. cbn [hd_is is_key]. rewrite String.eqb_refl, H. reflexivity. Qed.

Lemma Ev_elems_more cl acc cm ts e r res :
  hd_is cl ts = false -> elem_ev ts e (PK "," :: r) -> Ev (MElems cl (e :: acc) true) r res -> Ev (MElems cl acc cm) ts res.
Proof.
  intros Hh [[Hs [v [-> [f1 H1]]]]|[Hs [f1 H1]]] [f2 H2]; ev_start (Nat.max f1 f2); rewrite Hh, Hs, H1 by lia;
    change (String.eqb "," ",") with true; cbv iota; apply H2; lia.
Qed.

Lemma Ev_elems_last cl acc cm ts e r x :
  hd_is cl ts = false -> elem_ev ts e (PK cl :: r) -> String.eqb cl "," = false -> finish cl (e :: acc) cm = Some x ->
  Ev (MElems cl acc cm) ts (x, r).
Proof.
  intros Hh [[Hs [v [-> [f1 H1]]]]|[Hs [f1 H1]]] Hne Hfin; ev_start f1; rewrite Hh, Hs, H1 by lia;
    rewrite Hne, String.eqb_refl, Hfin; reflexivity.
Qed.

Lemma Ev_expr_atom n ts a r res :
  classify_prefix ts = PAtom -> Ev MAtom ts (a, r) -> Ev (MLoop n a CNone) r res -> Ev (MExpr n) ts res.
Proof. intros Hc [f1 H1] [f2 H2]. ev_start (Nat.max f1 f2). rewrite Hc, H1 by lia. apply H2. lia. Qed.

Lemma Ev_expr_un n ts o r v r' res :
  classify_prefix ts = PUn o r -> unop_prec o <= n ->
  Ev (MExpr (slot_UnaryOp o)) r (v, r') -> Ev (MLoop n (UnaryOp o v) CNone) r' res -> Ev (MExpr n) ts res.
Proof.
  intros Hc Hp [f1 H1] [f2 H2]. ev_start (Nat.max f1 f2). rewrite Hc. apply Nat.leb_le in Hp. rewrite Hp, H1 by lia. apply H2. lia.
Qed.

Lemma Ev_expr_lam' n ts r res :
  classify_prefix ts = PLam r -> node_prec_Lambda <= n -> Ev (MParams n pst0) r res -> Ev (MExpr n) ts res.
Proof. intros Hc Hp [f1 H1]. ev_start f1. rewrite Hc. apply Nat.leb_le in Hp. rewrite Hp. apply H1. lia. Qed.
Lemma Ev_expr_lam n r res :
  node_prec_Lambda <= n -> Ev (MParams n pst0) r res -> Ev (MExpr n) (PK "lambda" :: r) res.
Proof. apply Ev_expr_lam'. reflexivity. Qed.

(* ---------- the parameters of a lambda ---------- *)
Definition pcont (n : nat) (st : pst) (rest : list pt) (res : expr * list pt) : Prop :=
  (exists r, rest = PK "," :: r /\ Ev (MParams n st) r res) \/
  (exists r, rest = PK ":" :: r /\ Ev (MParams n st) rest res).

Lemma Ev_params_body n st r b r' res :
  Ev (MExpr slot_Lambda_body) r (b, r') -> Ev (MLoop n (p_lambda st b) CNone) r' res -> Ev (MParams n st) (PK ":" :: r) res.
Proof.
  intros [f1 H1] [f2 H2]. ev_start (Nat.max f1 f2). cbn [hd_is is_key tl]. change (String.eqb ":" ":") with true. cbv iota.
  rewrite H1 by lia. apply H2. lia.
Qed.

Ltac pcont_case Hc f0 :=
  let r := fresh "r" in let f2 := fresh "f" in let E2 := fresh "E" in
  destruct Hc as [[r [-> [f2 E2]]]|[r [-> [f2 E2]]]];
  [ev_start (Nat.max f0 f2) | ev_start (Nat.max f0 f2)].

Lemma Ev_params_slash n st r res : pcont n (p_slash st) r res -> Ev (MParams n st) (PK "/" :: r) res.
Proof.
  intros Hc. destruct Hc as [[r0 [-> [f2 E2]]]|[r0 [-> [f2 E2]]]]; ev_start f2; cbn [hd_is is_key];
    change (String.eqb "/" ":") with false; cbv iota; change (String.eqb "/" "/") with true; cbv iota.
  - change (String.eqb "," ",") with true. cbv iota. apply E2. lia.
  - change (String.eqb ":" ",") with false. change (String.eqb ":" ":") with true. cbv iota. apply E2. lia.
Qed.

Lemma Ev_params_dstar n st k r res : pcont n (p_dstar st k) r res -> Ev (MParams n st) (PK "**" :: PN k :: r) res.
Proof.
  intros Hc. destruct Hc as [[r0 [-> [f2 E2]]]|[r0 [-> [f2 E2]]]]; ev_start f2; cbn [hd_is is_key];
    change (String.eqb "**" ":") with false; cbv iota; change (String.eqb "**" "/") with false; change (String.eqb "**" "**") with true; cbv iota.
  - change (String.eqb "," ",") with true. cbv iota. apply E2. lia.
  - change (String.eqb ":" ",") with false. change (String.eqb ":" ":") with true. cbv iota. apply E2. lia.
Qed.

Lemma Ev_params_star_v n st v r res : pcont n (p_star st (Some v)) r res -> Ev (MParams n st) (PK "*" :: PN v :: r) res.
Proof.
  intros Hc. destruct Hc as [[r0 [-> [f2 E2]]]|[r0 [-> [f2 E2]]]]; ev_start f2; cbn [hd_is is_key];
    change (String.eqb "*" ":") with false; cbv iota; change (String.eqb "*" "/") with false; change (String.eqb "*" "**") with false;
    change (String.eqb "*" "*") with true; cbv iota.
  - change (String.eqb "," ",") with true. cbv iota. apply E2. lia.
  - change (String.eqb ":" ",") with false. change (String.eqb ":" ":") with true. cbv iota. apply E2. lia.
Qed.

Lemma Ev_params_star0 n st r res : pcont n (p_star st None) r res -> Ev (MParams n st) (PK "*" :: r) res.
Proof.
  intros Hc. destruct Hc as [[r0 [-> [f2 E2]]]|[r0 [-> [f2 E2]]]]; ev_start f2; cbn [hd_is is_key];
    change (String.eqb "*" ":") with false; cbv iota; change (String.eqb "*" "/") with false; change (String.eqb "*" "**") with false;
    change (String.eqb "*" "*") with true; cbv iota.
  - change (String.eqb "," ",") with true. cbv iota. apply E2. lia.
  - change (String.eqb ":" ",") with false. change (String.eqb ":" ":") with true. cbv iota. apply E2. lia.
Qed.

Lemma Ev_params_name n st x r res : pcont n (p_name st x None) r res -> Ev (MParams n st) (PN x :: r) res.
Proof.
  intros Hc. destruct Hc as [[r0 [-> [f2 E2]]]|[r0 [-> [f2 E2]]]]; ev_start f2; cbn [hd_is is_key].
  - change (String.eqb "," "=") with false. cbv iota. change (String.eqb "," ",") with true. cbv iota. apply E2. lia.
  - change (String.eqb ":" "=") with false. cbv iota. change (String.eqb ":" ",") with false. change (String.eqb ":" ":") with true. cbv iota. apply E2. lia.
Qed.

Lemma Ev_params_default n st x r0 d r' res :
  Ev (MExpr slot_Lambda_default) r0 (d, r') -> pcont n (p_name st x (Some d)) r' res ->
  Ev (MParams n st) (PN x :: PK "=" :: r0) res.
Proof.
  intros [f1 E1] Hc. destruct Hc as [[r1 [-> [f2 E2]]]|[r1 [-> [f2 E2]]]]; ev_start (Nat.max f1 f2); cbn [hd_is is_key tl];
    change (String.eqb "=" "=") with true; cbv iota; rewrite E1 by lia.
  - change (String.eqb "," ",") with true. cbv iota. apply E2. lia.
  - change (String.eqb ":" ",") with false. change (String.eqb ":" ":") with true. cbv iota. apply E2. lia.
Qed.

Lemma Ev_expr_wal' n ts t r v r' res :
  classify_prefix ts = PWal t r ->
  node_prec_NamedExpr <= n -> Ev (MExpr slot_NamedExpr_value) r (v, r') -> Ev (MLoop n (NamedExpr t v) CNone) r' res ->
  Ev (MExpr n) ts res.
Proof.
  intros Hc Hp [f1 H1] [f2 H2]. ev_start (Nat.max f1 f2). rewrite Hc. apply Nat.leb_le in Hp. rewrite Hp, H1 by lia. apply H2. lia.
Qed.
Lemma Ev_expr_wal n t r v r' res :
  node_prec_NamedExpr <= n -> Ev (MExpr slot_NamedExpr_value) r (v, r') -> Ev (MLoop n (NamedExpr t v) CNone) r' res ->
  Ev (MExpr n) (PN t :: PK ":=" :: r) res.
Proof. apply Ev_expr_wal'. reflexivity. Qed.

(* does the loop go on at level n? *)
Definition continues (n : nat) (ts : list pt) : bool :=
  match classify ts with
  | KDot _ _ | KLPar _ | KLBr _ => true
  | KIf _ => Nat.leb node_prec_IfExp n
  | KBool o _ => Nat.leb (boolop_prec o) n
  | KCmp _ _ => Nat.leb node_prec_Compare n
  | KBin o _ => Nat.leb (binop_prec o) n
  | KOther => false
  end.

Lemma Ev_loop_stop n l ch ts : continues n ts = false -> Ev (MLoop n l ch) ts (l, ts).
Proof.
  intros H. ev_start 0. unfold continues in H. destruct (classify ts); try discriminate; try rewrite H; reflexivity.
Qed.

Lemma Ev_loop_dot' n l ch ts a r res :
  classify ts = KDot a r -> Ev (MLoop n (Attribute l a) CNone) r res -> Ev (MLoop n l ch) ts res.
Proof. intros Hc [f1 H1]. ev_start f1. rewrite Hc. apply H1. lia. Qed.
Lemma Ev_loop_dot n l ch a r res : Ev (MLoop n (Attribute l a) CNone) r res -> Ev (MLoop n l ch) (PK "." :: PN a :: r) res.
Proof. apply Ev_loop_dot'. reflexivity. Qed.

Lemma Ev_loop_call' n l ch ts r fn args kws r' res :
  classify ts = KLPar r ->
  Ev (MArgs [] []) r (Call fn args kws, r') -> Ev (MLoop n (Call l args kws) CNone) r' res -> Ev (MLoop n l ch) ts res.
Proof. intros Hc [f1 H1] [f2 H2]. ev_start (Nat.max f1 f2). rewrite Hc, H1 by lia. apply H2. lia. Qed.
Lemma Ev_loop_call n l ch r fn args kws r' res :
  Ev (MArgs [] []) r (Call fn args kws, r') -> Ev (MLoop n (Call l args kws) CNone) r' res -> Ev (MLoop n l ch) (PK "(" :: r) res.
Proof. apply Ev_loop_call'. reflexivity. Qed.

Lemma Ev_loop_sub' n l ch ts r s r' res :
  classify ts = KLBr r ->
  Ev (MItems []) r (s, PK "]" :: r') -> Ev (MLoop n (Subscript l s) CNone) r' res ->
  Ev (MLoop n l ch) ts res.
Proof.
  intros Hc [f1 H1] [f2 H2]. ev_start (Nat.max f1 f2). rewrite Hc, H1 by lia.
  change (String.eqb "]" "]") with true. cbv iota. apply H2. lia.
Qed.
Lemma Ev_loop_sub n l ch r s r' res :
  Ev (MItems []) r (s, PK "]" :: r') -> Ev (MLoop n (Subscript l s) CNone) r' res ->
  Ev (MLoop n l ch) (PK "[" :: r) res.
Proof. apply Ev_loop_sub'. reflexivity. Qed.

(* the items of an index *)
Lemma Ev_items_last acc ts e r : hd_is "]" ts = false -> hd_is "," r = false ->
  Ev MIndex ts (e, r) -> Ev (MItems acc) ts (match acc with [] => e | _ :: _ => ETuple (rev (e :: acc)) end, r).
Proof. intros H1 H2 [f1 E1]. ev_start f1. rewrite H1, E1 by lia. rewrite H2. destruct acc; reflexivity. Qed.
Lemma Ev_items_more acc ts e r res : hd_is "]" ts = false ->
  Ev MIndex ts (e, PK "," :: r) -> Ev (MItems (e :: acc)) r res -> Ev (MItems acc) ts res.
Proof.
  intros H1 [f1 E1] [f2 E2]. ev_start (Nat.max f1 f2). rewrite H1, E1 by lia. cbn [hd_is is_key tl].
  change (String.eqb "," ",") with true. cbv iota. apply E2. lia.
Qed.
Lemma Ev_items_trailing x acc r : Ev (MItems (x :: acc)) (PK "]" :: r) (ETuple (rev (x :: acc)), PK "]" :: r).
Proof. ev_start 0. reflexivity. Qed.

(* the index of a subscription *)
Lemma Ev_index_plain ts e r : hd_is ":" ts = false -> hd_is ":" r = false ->
  Ev (MExpr slot_Subscript_slice) ts (e, r) -> Ev MIndex ts (e, r).
Proof. intros H1 H2 [f1 E1]. ev_start f1. rewrite H1, E1 by lia. rewrite H2. reflexivity. Qed.
Lemma Ev_index_colon r res : Ev (MSliceUp None) r res -> Ev MIndex (PK ":" :: r) res.
Proof. intros [f1 E1]. ev_start f1. cbn [hd_is is_key tl]. change (String.eqb ":" ":") with true. cbv iota. apply E1. lia. Qed.
Lemma Ev_index_lower ts e r res : hd_is ":" ts = false ->
  Ev (MExpr slot_Subscript_slice) ts (e, PK ":" :: r) -> Ev (MSliceUp (Some e)) r res -> Ev MIndex ts res.
Proof.
  intros H1 [f1 E1] [f2 E2]. ev_start (Nat.max f1 f2). rewrite H1, E1 by lia. cbn [hd_is is_key tl].
  change (String.eqb ":" ":") with true. cbv iota. apply E2. lia.
Qed.
Lemma Ev_up_none lower r res : Ev (MSliceStep lower None) r res -> Ev (MSliceUp lower) (PK ":" :: r) res.
Proof. intros [f1 E1]. ev_start f1. reflexivity || (cbn [slice_stop hd_is is_key orb tl]; apply E1; lia). Qed.
Lemma Ev_up_some lower ts u r res : slice_stop ts = false ->
  Ev (MExpr slot_Slice_upper) ts (u, PK ":" :: r) -> Ev (MSliceStep lower (Some u)) r res -> Ev (MSliceUp lower) ts res.
Proof.
  intros H1 [f1 E1] [f2 E2]. ev_start (Nat.max f1 f2). rewrite H1, E1 by lia. cbn [hd_is is_key tl].
  change (String.eqb ":" ":") with true. cbv iota. apply E2. lia.
Qed.
Lemma Ev_step_none lower upper ts : slice_stop ts = true -> Ev (MSliceStep lower upper) ts (Slice lower upper None, ts).
Proof. intros H. ev_start 0. rewrite H. reflexivity. Qed.
Lemma Ev_step_some lower upper ts st r : slice_stop ts = false ->
  Ev (MExpr slot_Slice_step) ts (st, r) -> Ev (MSliceStep lower upper) ts (Slice lower upper (Some st), r).
Proof. intros H [f1 E1]. ev_start f1. rewrite H, E1 by lia. reflexivity. Qed.

Lemma Ev_loop_if' n l ch ts r t r' o r'' res :
  classify ts = KIf r -> node_prec_IfExp <= n ->
  Ev (MExpr slot_IfExp_test) r (t, PK "else" :: r') -> Ev (MExpr slot_IfExp_orelse) r' (o, r'') ->
  Ev (MLoop n (IfExp t l o) CNone) r'' res -> Ev (MLoop n l ch) ts res.
Proof.
  intros Hc Hp [f1 H1] [f2 H2] [f3 H3]. ev_start (Nat.max f1 (Nat.max f2 f3)). rewrite Hc. apply Nat.leb_le in Hp.
  rewrite Hp, H1 by lia. change (String.eqb "else" "else") with true. cbv iota. rewrite H2 by lia. apply H3. lia.
Qed.
Lemma Ev_loop_if n l ch r t r' o r'' res :
  node_prec_IfExp <= n ->
  Ev (MExpr slot_IfExp_test) r (t, PK "else" :: r') -> Ev (MExpr slot_IfExp_orelse) r' (o, r'') ->
  Ev (MLoop n (IfExp t l o) CNone) r'' res -> Ev (MLoop n l ch) (PK "if" :: r) res.
Proof. apply Ev_loop_if'. reflexivity. Qed.

Lemma Ev_loop_bool n l ch ts o r v r' res :
  classify ts = KBool o r -> boolop_prec o <= n ->
  Ev (MExpr (slot_BoolOp o)) r (v, r') -> Ev (MLoop n (extend_bool ch l o v) (CBool o)) r' res -> Ev (MLoop n l ch) ts res.
Proof.
  intros Hc Hp [f1 H1] [f2 H2]. ev_start (Nat.max f1 f2). rewrite Hc. apply Nat.leb_le in Hp. rewrite Hp, H1 by lia. apply H2. lia.
Qed.

Lemma Ev_loop_cmp n l ch ts o r c r' res :
  classify ts = KCmp o r -> node_prec_Compare <= n ->
  Ev (MExpr slot_Compare_comparator) r (c, r') -> Ev (MLoop n (extend_cmp ch l o c) CCmp) r' res -> Ev (MLoop n l ch) ts res.
Proof.
  intros Hc Hp [f1 H1] [f2 H2]. ev_start (Nat.max f1 f2). rewrite Hc. apply Nat.leb_le in Hp. rewrite Hp, H1 by lia. apply H2. lia.
Qed.

Lemma Ev_loop_bin n l ch ts o r x r' res :
  classify ts = KBin o r -> binop_prec o <= n ->
  Ev (MExpr (slot_BinOp_right o)) r (x, r') -> Ev (MLoop n (BinOp l o x) CNone) r' res -> Ev (MLoop n l ch) ts res.
Proof.
  intros Hc Hp [f1 H1] [f2 H2]. ev_start (Nat.max f1 f2). rewrite Hc. apply Nat.leb_le in Hp. rewrite Hp, H1 by lia. apply H2. lia.
Qed.

(* what follows an argument: a comma and more arguments, or the closing parenthesis *)
Definition args_cont (rest : list pt) (acc : list expr) (kws : list (option ident * expr)) (res : expr * list pt) : Prop :=
  (exists r, rest = PK "," :: r /\ Ev (MArgs acc kws) r res) \/
  (exists r, rest = PK ")" :: r /\ res = (args_carrier acc kws, r)).

Definition is_kwstart (ts : list pt) : bool := match ts with PN _ :: t2 :: _ => is_key "=" t2 | _ => false end.

Lemma Ev_args_close acc kws r : Ev (MArgs acc kws) (PK ")" :: r) (args_carrier acc kws, r).
Proof. ev_start 0. reflexivity. Qed.

Lemma Ev_args_dstar acc kws ts v rest res :
  hd_is ")" ts = false -> hd_is "**" ts = true -> Ev (MExpr slot_Call_kwarg) (tl ts) (v, rest) ->
  args_cont rest acc ((None, v) :: kws) res -> Ev (MArgs acc kws) ts res.
Proof.
  intros H1 H2 [f1 E1] [[r [-> [f2 E2]]]|[r [-> ->]]].
  - ev_start (Nat.max f1 f2). rewrite H1, H2, E1 by lia. change (String.eqb "," ",") with true. cbv iota. apply E2. lia.
  - ev_start f1. rewrite H1, H2, E1 by lia. reflexivity.
Qed.

Lemma Ev_args_star acc kws ts v rest res :
  hd_is ")" ts = false -> hd_is "**" ts = false -> hd_is "*" ts = true -> Ev (MExpr slot_Starred_value) (tl ts) (v, rest) ->
  args_cont rest (Starred v :: acc) kws res -> Ev (MArgs acc kws) ts res.
Proof.
  intros H1 H2 H3 [f1 E1] [[r [-> [f2 E2]]]|[r [-> ->]]].
  - ev_start (Nat.max f1 f2). rewrite H1, H2, H3, E1 by lia. change (String.eqb "," ",") with true. cbv iota. apply E2. lia.
  - ev_start f1. rewrite H1, H2, H3, E1 by lia. reflexivity.
Qed.

Lemma Ev_args_kw acc kws k r0 v rest res :
  Ev (MExpr slot_Call_kwarg) r0 (v, rest) -> args_cont rest acc ((Some k, v) :: kws) res ->
  Ev (MArgs acc kws) (PN k :: PK "=" :: r0) res.
Proof.
  intros [f1 E1] [[r [-> [f2 E2]]]|[r [-> ->]]].
  - ev_start (Nat.max f1 f2). cbn [hd_is is_key]. change (String.eqb "=" "=") with true. cbv iota. rewrite E1 by lia.
    change (String.eqb "," ",") with true. cbv iota. apply E2. lia.
  - ev_start f1. cbn [hd_is is_key]. change (String.eqb "=" "=") with true. cbv iota. rewrite E1 by lia. reflexivity.
Qed.

Lemma Ev_args_pos acc kws ts a rest res :
  hd_is ")" ts = false -> hd_is "**" ts = false -> hd_is "*" ts = false -> is_kwstart ts = false ->
  Ev (MExpr TOP) ts (a, rest) -> args_cont rest (a :: acc) kws res -> Ev (MArgs acc kws) ts res.
Proof.
  intros H1 H2 H3 H4 [f1 E1] Hc.
  assert (G : forall f, f1 <= f ->
    (match ts with
     | PN k :: PK s :: r =>
         if String.eqb s "=" then None
         else pc f (MExpr TOP) ts
     | _ => pc f (MExpr TOP) ts
     end) = Some (a, rest) \/ True) by (intros; right; exact I).
  clear G.
  destruct Hc as [[r [-> [f2 E2]]]|[r [-> ->]]].
  - ev_start (Nat.max f1 f2). rewrite H1, H2, H3.
    destruct ts as [|[i|c|s] [|[i2|c2|s2] r2]]; try (rewrite E1 by lia; change (String.eqb "," ",") with true; cbv iota; apply E2; lia).
    cbn [is_kwstart is_key] in H4. rewrite H4. rewrite E1 by lia. change (String.eqb "," ",") with true. cbv iota. apply E2. lia.
  - ev_start f1. rewrite H1, H2, H3.
    destruct ts as [|[i|c|s] [|[i2|c2|s2] r2]]; try (rewrite E1 by lia; reflexivity).
    cbn [is_kwstart is_key] in H4. rewrite H4. rewrite E1 by lia. reflexivity.
Qed.

(* f(x for x in y): a bare generator expression as the only argument *)
Lemma Ev_args_gen ts a rest fn gens r2 :
  hd_is ")" ts = false -> hd_is "**" ts = false -> hd_is "*" ts = false -> is_kwstart ts = false ->
  Ev (MExpr TOP) ts (a, rest) -> hd_is "for" rest = true ->
  Ev (MGens []) rest (GeneratorExp fn gens, PK ")" :: r2) ->
  Ev (MArgs [] []) ts (args_carrier [GeneratorExp a gens] [], r2).
Proof.
  intros H1 H2 H3 H4 [f1 E1] Hfor [f2 E2].
  ev_start (Nat.max f1 f2). rewrite H1, H2, H3.
  destruct ts as [|[i|c|s] [|[i2|c2|s2] r0]]; try (rewrite E1 by lia; rewrite Hfor; rewrite E2 by lia; reflexivity).
  cbn [is_kwstart is_key] in H4. rewrite H4. rewrite E1 by lia. rewrite Hfor. rewrite E2 by lia. reflexivity.
Qed.

(* ---------- comprehension clauses ---------- *)
Lemma Ev_atom_listcomp r x gs r' : Ev (MElems "]" [] false) r (GeneratorExp x gs, r') -> Ev MAtom (PK "[" :: r) (ListComp x gs, r').
Proof.
  intros [f0 H]. ev_start f0. change (String.eqb "[" "(") with false. change (String.eqb "[" "[") with true. cbv iota.
  rewrite H by lia. reflexivity.
Qed.
Lemma Ev_atom_setcomp r x gs r' :
  hd_is "}" r = false -> hd_is "**" r = false -> first_not_key r ->
  Ev (MElems "}" [] false) r (GeneratorExp x gs, r') -> Ev MAtom (PK "{" :: r) (SetComp x gs, r').
Proof.
  intros H1 H2 Hf [f0 H].
  destruct Hf as [Hs|[k [s1 [r1 [[f1 E1] Hne]]]]].
  - ev_start f0. change (String.eqb "{" "(") with false. change (String.eqb "{" "[") with false.
    change (String.eqb "{" "{") with true. cbv iota. rewrite H1, H2, Hs, H by lia. reflexivity.
  - ev_start (Nat.max f0 f1). change (String.eqb "{" "(") with false. change (String.eqb "{" "[") with false.
    change (String.eqb "{" "{") with true. cbv iota. rewrite H1, H2.
    destruct (hd_is "*" r); [rewrite H by lia; reflexivity|]. rewrite E1 by lia. rewrite Hne, H by lia. reflexivity.
Qed.

(* dict displays *)
Lemma Ev_atom_dict0 r : Ev MAtom (PK "{" :: PK "}" :: r) (EDict [] [], r).
Proof. ev_start 0. reflexivity. Qed.

Lemma Ev_atom_dict_star r res :
  hd_is "}" r = false -> hd_is "**" r = true -> Ev (MDict [] []) r res -> Ev MAtom (PK "{" :: r) res.
Proof.
  intros H1 H2 [f0 H]. ev_start f0. change (String.eqb "{" "(") with false. change (String.eqb "{" "[") with false.
  change (String.eqb "{" "{") with true. cbv iota. rewrite H1, H2. apply H. lia.
Qed.

Lemma Ev_atom_dict_key r k r1 v s2 r2 res :
  hd_is "}" r = false -> hd_is "**" r = false -> hd_is "*" r = false ->
  Ev (MExpr TOP) r (k, PK ":" :: r1) -> Ev (MExpr TOP) r1 (v, PK s2 :: r2) -> String.eqb s2 "for" = false ->
  Ev (MDSep [Some k] [v]) (PK s2 :: r2) res -> Ev MAtom (PK "{" :: r) res.
Proof.
  intros H1 H2 H3 [f1 E1] [f2 E2] Hne [f3 E3]. ev_start (Nat.max f1 (Nat.max f2 f3)).
  change (String.eqb "{" "(") with false. change (String.eqb "{" "[") with false. change (String.eqb "{" "{") with true. cbv iota.
  rewrite H1, H2, H3, E1 by lia. change (String.eqb ":" ":") with true. cbv iota. rewrite E2 by lia. rewrite Hne. apply E3. lia.
Qed.

Lemma Ev_atom_dictcomp r k r1 v r2 fn gens r3 :
  hd_is "}" r = false -> hd_is "**" r = false -> hd_is "*" r = false ->
  Ev (MExpr TOP) r (k, PK ":" :: r1) -> Ev (MExpr TOP) r1 (v, PK "for" :: r2) ->
  Ev (MGens []) (PK "for" :: r2) (GeneratorExp fn gens, PK "}" :: r3) -> Ev MAtom (PK "{" :: r) (DictComp k v gens, r3).
Proof.
  intros H1 H2 H3 [f1 E1] [f2 E2] [f3 E3]. ev_start (Nat.max f1 (Nat.max f2 f3)).
  change (String.eqb "{" "(") with false. change (String.eqb "{" "[") with false. change (String.eqb "{" "{") with true. cbv iota.
  rewrite H1, H2, H3, E1 by lia. change (String.eqb ":" ":") with true. cbv iota. rewrite E2 by lia.
  change (String.eqb "for" "for") with true. cbv iota. rewrite E3 by lia. reflexivity.
Qed.

Lemma Ev_dict_close ks vs r : Ev (MDict ks vs) (PK "}" :: r) (EDict (rev ks) (rev vs), r).
Proof. ev_start 0. reflexivity. Qed.

Lemma Ev_dict_star ks vs ts v r res :
  hd_is "}" ts = false -> hd_is "**" ts = true -> Ev (MExpr slot_Dict_starvalue) (tl ts) (v, r) ->
  Ev (MDSep (None :: ks) (v :: vs)) r res -> Ev (MDict ks vs) ts res.
Proof. intros H1 H2 [f1 E1] [f2 E2]. ev_start (Nat.max f1 f2). rewrite H1, H2, E1 by lia. apply E2. lia. Qed.

Lemma Ev_dict_item ks vs ts k r1 v r2 res :
  hd_is "}" ts = false -> hd_is "**" ts = false -> Ev (MExpr TOP) ts (k, PK ":" :: r1) -> Ev (MExpr TOP) r1 (v, r2) ->
  Ev (MDSep (Some k :: ks) (v :: vs)) r2 res -> Ev (MDict ks vs) ts res.
Proof.
  intros H1 H2 [f1 E1] [f2 E2] [f3 E3]. ev_start (Nat.max f1 (Nat.max f2 f3)). rewrite H1, H2, E1 by lia.
  change (String.eqb ":" ":") with true. cbv iota. rewrite E2 by lia. apply E3. lia.
Qed.

Lemma Ev_dsep_comma ks vs r res : Ev (MDict ks vs) r res -> Ev (MDSep ks vs) (PK "," :: r) res.
Proof. intros [f1 E1]. ev_start f1. change (String.eqb "," ",") with true. cbv iota. apply E1. lia. Qed.
Lemma Ev_dsep_close ks vs r : Ev (MDSep ks vs) (PK "}" :: r) (EDict (rev ks) (rev vs), r).
Proof. ev_start 0. reflexivity. Qed.

Lemma Ev_elems_comp cl cm ts e r fn gens r2 :
  hd_is cl ts = false -> hd_is "*" ts = false -> is_starred e = false ->
  String.eqb "for" cl = false ->
  Ev (MExpr TOP) ts (e, PK "for" :: r) ->
  Ev (MGens []) (PK "for" :: r) (GeneratorExp fn gens, PK cl :: r2) ->
  Ev (MElems cl [] cm) ts (GeneratorExp e gens, r2).
Proof.
  intros Hh Hs Hns Hne [f1 H1] [f2 H2]. ev_start (Nat.max f1 f2). rewrite Hh, Hs, H1 by lia.
  change (String.eqb "for" ",") with false. rewrite Hne. change (String.eqb "for" "for") with true. cbv iota.
  rewrite Hns, H2 by lia. rewrite String.eqb_refl. reflexivity.
Qed.

Lemma Ev_gens_stop acc ts : hd_is "for" ts = false -> Ev (MGens acc) ts (GeneratorExp (Name "") (rev acc), ts).
Proof. intros H. ev_start 0. rewrite H. reflexivity. Qed.

Lemma Ev_gens_for acc r t r1 i r2 res :
  Ev (MExpr slot_Compare_left) r (t, PK "in" :: r1) -> Ev (MExpr slot_comp_iter) r1 (i, r2) ->
  Ev (MIfs t i [] acc) r2 res -> Ev (MGens acc) (PK "for" :: r) res.
Proof.
  intros [f1 H1] [f2 H2] [f3 H3]. ev_start (Nat.max f1 (Nat.max f2 f3)). cbn [hd_is is_key tl].
  change (String.eqb "for" "for") with true. cbv iota. rewrite H1 by lia. change (String.eqb "in" "in") with true. cbv iota.
  rewrite H2 by lia. apply H3. lia.
Qed.

Lemma Ev_ifs_if t i ifs acc r c r' res :
  Ev (MExpr slot_comp_if) r (c, r') -> Ev (MIfs t i (c :: ifs) acc) r' res -> Ev (MIfs t i ifs acc) (PK "if" :: r) res.
Proof.
  intros [f1 H1] [f2 H2]. ev_start (Nat.max f1 f2). cbn [hd_is is_key tl]. change (String.eqb "if" "if") with true. cbv iota.
  rewrite H1 by lia. apply H2. lia.
Qed.

Lemma Ev_ifs_done t i ifs acc ts res :
  hd_is "if" ts = false -> Ev (MGens ((t, i, rev ifs, false) :: acc)) ts res -> Ev (MIfs t i ifs acc) ts res.
Proof. intros H [f1 H1]. ev_start f1. rewrite H. apply H1. lia. Qed.

(* the chain flag only matters when the chain's own operator follows *)
Definition chain_free (ch : chain) (ts : list pt) : bool :=
  match ch, classify ts with
  | CBool o, KBool o' _ => negb (boolop_eqb o o')
  | CCmp, KCmp _ _ => false
  | _, _ => true
  end.

Lemma Ev_loop_flag n l ch ts res : chain_free ch ts = true -> Ev (MLoop n l CNone) ts res -> Ev (MLoop n l ch) ts res.
Proof.
  intros Hc [f1 H1]. exists f1. intros f Hf. rewrite <- (H1 f Hf). destruct f as [|f]; [reflexivity|]. cbn [pc].
  unfold chain_free in Hc. destruct (classify ts) as [| | | |o' r|o' r| |]; try reflexivity.
  - destruct ch as [|o|]; try reflexivity. unfold extend_bool. destruct l; try reflexivity.
    apply negb_true_iff in Hc. destruct o, o'; try discriminate; destruct op; reflexivity.
  - destruct ch; try reflexivity. discriminate.
Qed.

(* ---------- operators as descriptors: precedence and the level of the right operand ---------- *)
Inductive desc := DBin (o : binop) | DUn (o : unop) | DBool (o : boolop) | DCmp | DIf | DLam | DWal.
Definition d_prec (d : desc) : nat :=
  match d with
  | DBin o => binop_prec o | DUn o => unop_prec o | DBool o => boolop_prec o | DCmp => node_prec_Compare
  | DIf => node_prec_IfExp | DLam => node_prec_Lambda | DWal => node_prec_NamedExpr
  end.
Definition d_rl (d : desc) : nat :=
  match d with
  | DBin o => slot_BinOp_right o | DUn o => slot_UnaryOp o | DBool o => slot_BoolOp o | DCmp => slot_Compare_comparator
  | DIf => slot_IfExp_orelse | DLam => slot_Lambda_body | DWal => slot_NamedExpr_value
  end.
Definition all_descs : list desc :=
  map DBin all_binops ++ [DUn Invert; DUn Not; DUn UAdd; DUn USub; DBool And; DBool Or; DCmp; DIf; DLam; DWal].
Lemma all_descs_complete d : List.In d all_descs.
Proof. destruct d as [o|o|o| | | |]; try destruct o; cbn; tauto. Qed.

Definition chain_hd (d : desc) (ts : list pt) : bool :=
  match d with DBool o => chain_free (CBool o) ts | DCmp => chain_free CCmp ts | _ => true end.
Definition nowal (ts : list pt) : bool := negb (hd_is ":=" ts).
Definition edge (d : desc) (ts : list pt) : bool := negb (continues (d_rl d) ts) && chain_hd d ts.

(* [safe e rest]: the loops that are open along the right edge of the bare print of e all stop at [rest] *)
Fixpoint safe (e : expr) (rest : list pt) {struct e} : bool :=
  let sub := fun (lvl : nat) (r : expr) => if Nat.leb (node_prec r) lvl then safe r rest else true in
  match e with
  | Name _ => nowal rest
  | BinOp _ o r => edge (DBin o) rest && sub (slot_BinOp_right o) r
  | UnaryOp o v => edge (DUn o) rest && sub (slot_UnaryOp o) v
  | BoolOp o vs =>
      edge (DBool o) rest &&
      (fix lst (vs : list expr) : bool :=
         match vs with [] => true | [v] => sub (slot_BoolOp o) v | _ :: t => lst t end) vs
  | Compare _ _ cs =>
      edge DCmp rest &&
      (fix lst (vs : list expr) : bool :=
         match vs with [] => true | [v] => sub slot_Compare_comparator v | _ :: t => lst t end) cs
  | IfExp _ _ o => edge DIf rest && sub slot_IfExp_orelse o
  | Lambda _ _ _ _ _ _ _ b => edge DLam rest && sub slot_Lambda_body b
  | NamedExpr _ v => edge DWal rest && sub slot_NamedExpr_value v
  | _ => true
  end.

(* a context: what follows a child printed in a slot of level s *)
Definition rest_okb (s : nat) (rest : list pt) : bool :=
  nowal rest &&
  forallb (fun d => if Nat.leb (d_prec d) s then edge d rest && Nat.leb (d_rl d) s else true) all_descs.

Lemma rest_ok_desc s rest d : rest_okb s rest = true -> d_prec d <= s -> edge d rest = true /\ d_rl d <= s.
Proof.
  intros H Hp. unfold rest_okb in H. apply andb_prop in H as [_ H].
  rewrite forallb_forall in H. specialize (H d (all_descs_complete d)). apply Nat.leb_le in Hp. rewrite Hp in H.
  apply andb_prop in H as [H1 H2]. split; [exact H1|apply Nat.leb_le; exact H2].
Qed.

Lemma safe_last_ok (P : expr -> bool) (lvl : nat) (rest : list pt) :
  forall vs, Forall (fun v => node_prec v <= lvl -> safe v rest = true) vs ->
  (fix lst (vs : list expr) : bool :=
     match vs with [] => true | [v] => if Nat.leb (node_prec v) lvl then safe v rest else true | _ :: t => lst t end) vs = true.
Proof.
  induction vs as [|v t IH]; intros HF; [reflexivity|]. inversion HF as [|? ? Hv Ht]; subst.
  destruct t as [|w t'].
  - destruct (Nat.leb (node_prec v) lvl) eqn:E; [apply Hv; apply Nat.leb_le; exact E|reflexivity].
  - apply IH. exact Ht.
Qed.

Lemma ec_core e : core e && negb (is_starred e) = true -> core e = true.
Proof. intros H. apply andb_prop in H as [H _]. exact H. Qed.
Lemma ec_nostar e : core e && negb (is_starred e) = true -> is_starred e = false.
Proof. intros H. apply andb_prop in H as [_ H]. apply negb_true_iff in H. exact H. Qed.

Lemma safe_of_rest_ok : forall e, core e = true -> forall s rest, node_prec e <= s -> rest_okb s rest = true -> safe e rest = true.
Proof.
  induction e using expr_ind'; intros Hc s rest Hp Hr; cbn [core] in Hc; try discriminate; cbn [safe]; try reflexivity.
  - (* Name *) unfold rest_okb in Hr. apply andb_prop in Hr as [Hr _]. exact Hr.
  - (* BinOp *) apply andb_prop in Hc as [Hc1 Hc2]. destruct (rest_ok_desc s rest (DBin o) Hr Hp) as [He Hl].
    rewrite He. cbn [andb]. destruct (Nat.leb (node_prec e2) (slot_BinOp_right o)) eqn:E; [|reflexivity].
    apply Nat.leb_le in E. apply (IHe2 (ec_core _ Hc2) s rest); [cbn [d_rl] in Hl; lia|exact Hr].
  - (* BoolOp *) apply andb_prop in Hc as [_ Hc]. destruct (rest_ok_desc s rest (DBool o) Hr Hp) as [He Hl]. rewrite He. cbn [andb].
    apply (safe_last_ok (fun _ => true)). rewrite forallb_forall in Hc. unfold Pl in H. rewrite Forall_forall in H |- *.
    intros v Hv Hpv. apply (H v Hv (ec_core _ (Hc v Hv)) s rest); [cbn [d_rl] in Hl; lia|exact Hr].
  - (* UnaryOp *) destruct (rest_ok_desc s rest (DUn o) Hr Hp) as [He Hl]. rewrite He. cbn [andb].
    destruct (Nat.leb (node_prec e) (slot_UnaryOp o)) eqn:E; [|reflexivity].
    apply Nat.leb_le in E. apply (IHe (ec_core _ Hc) s rest); [cbn [d_rl] in Hl; lia|exact Hr].
  - (* Compare *) apply andb_prop in Hc as [_ Hc]. destruct (rest_ok_desc s rest DCmp Hr Hp) as [He Hl]. rewrite He. cbn [andb].
    apply (safe_last_ok (fun _ => true)). rewrite forallb_forall in Hc. unfold Pl in H. rewrite Forall_forall in H |- *.
    intros v Hv Hpv. apply (H v Hv (ec_core _ (Hc v Hv)) s rest); [cbn [d_rl] in Hl; lia|exact Hr].
  - (* NamedExpr *) destruct (rest_ok_desc s rest DWal Hr Hp) as [He Hl]. rewrite He. cbn [andb].
    destruct (Nat.leb (node_prec e) slot_NamedExpr_value) eqn:E; [|reflexivity].
    apply Nat.leb_le in E. apply (IHe (ec_core _ Hc) s rest); [cbn [d_rl] in Hl; lia|exact Hr].
  - (* Lambda *) apply andb_prop in Hc as [Hc _]. apply andb_prop in Hc as [Hc _]. apply andb_prop in Hc as [Hc _]. apply andb_prop in Hc as [Hc _].
    destruct (rest_ok_desc s rest DLam Hr Hp) as [He Hl]. rewrite He. cbn [andb].
    destruct (Nat.leb (node_prec e) slot_Lambda_body) eqn:E; [|reflexivity].
    apply Nat.leb_le in E. apply (IHe (ec_core _ Hc) s rest); [cbn [d_rl] in Hl; lia|exact Hr].
  - (* IfExp *) apply andb_prop in Hc as [Hc Hc3]. destruct (rest_ok_desc s rest DIf Hr Hp) as [He Hl]. rewrite He. cbn [andb].
    destruct (Nat.leb (node_prec e3) slot_IfExp_orelse) eqn:E; [|reflexivity].
    apply Nat.leb_le in E. apply (IHe3 (ec_core _ Hc3) s rest); [cbn [d_rl] in Hl; lia|exact Hr].
Qed.

(* ---------- facts about the tables regenerated from the code (finite checks) ---------- *)
Lemma classify_binop o r : classify (PK (binop_text o) :: r) = KBin o r.
Proof. destruct o; reflexivity. Qed.
Lemma classify_boolop o r : classify (PK (bool_key o) :: r) = KBool o r.
Proof. destruct o; reflexivity. Qed.
Lemma classify_cmp o r : (o = Is -> hd_is "not" r = false) -> classify (map PK (cmp_keys o) ++ r) = KCmp o r.
Proof.
  intros H. destruct o; try reflexivity.
  cbn [cmp_keys map app]. unfold classify. cbn [String.eqb Ascii.eqb Bool.eqb andb]. unfold cmp_of.
  cbn [String.eqb Ascii.eqb Bool.eqb andb]. rewrite (H eq_refl). reflexivity.
Qed.
Lemma prefix_unop o r : classify_prefix (PK (unop_key o) :: r) = PUn o r.
Proof. destruct o; reflexivity. Qed.
Lemma prefix_name i r : nowal r = true -> classify_prefix (PN i :: r) = PAtom.
Proof. unfold nowal. intros H. apply negb_true_iff in H. cbn [classify_prefix]. rewrite H. reflexivity. Qed.

Definition closer (k : string) : bool := existsb (String.eqb k) [")"; ","; "]"; "else"; "}"; "for"; ":"].

Lemma continues_closer m k r : closer k = true -> continues m (PK k :: r) = false.
Proof.
  unfold closer. cbn [existsb]. intros H.
  repeat (apply orb_prop in H as [H|H]; [apply String.eqb_eq in H; subst k; reflexivity|]). discriminate.
Qed.

Lemma continues_same_bool o r : continues (slot_BoolOp o) (PK (bool_key o) :: r) = false.
Proof. unfold continues. rewrite classify_boolop. destruct o; reflexivity. Qed.

Lemma cmp_class o r : exists o' r', classify (map PK (cmp_keys o) ++ r) = KCmp o' r'.
Proof.
  destruct o; try (eexists _, _; reflexivity).
  cbn [cmp_keys map app]. unfold classify. cbn [String.eqb Ascii.eqb Bool.eqb andb]. unfold cmp_of.
  cbn [String.eqb Ascii.eqb Bool.eqb andb]. destruct (hd_is "not" r); eexists _, _; reflexivity.
Qed.

Lemma continues_cmp m o r : continues m (map PK (cmp_keys o) ++ r) = Nat.leb node_prec_Compare m.
Proof. unfold continues. destruct (cmp_class o r) as [o' [r' E]]. rewrite E. reflexivity. Qed.

Lemma nowal_cmp o r : nowal (map PK (cmp_keys o) ++ r) = true.
Proof. destruct o; reflexivity. Qed.

(* contexts *)
Lemma ctx_binop o r : rest_okb (slot_BinOp_left o) (PK (binop_text o) :: r) = true.
Proof.
  unfold rest_okb. apply andb_true_intro. split; [destruct o; reflexivity|].
  apply forallb_forall. intros d _. unfold edge, continues, chain_hd, chain_free. rewrite classify_binop.
  destruct o; destruct d as [o'|o'|o'| | | |]; try destruct o'; vm_compute; reflexivity.
Qed.

Lemma ctx_boolop o r : rest_okb (slot_BoolOp o) (PK (bool_key o) :: r) = true.
Proof.
  unfold rest_okb. apply andb_true_intro. split; [destruct o; reflexivity|].
  apply forallb_forall. intros d _. unfold edge, continues, chain_hd, chain_free. rewrite classify_boolop.
  destruct o; destruct d as [o'|o'|o'| | | |]; try destruct o'; vm_compute; reflexivity.
Qed.

Lemma ctx_cmp o r : rest_okb slot_Compare_left (map PK (cmp_keys o) ++ r) = true.
Proof.
  unfold rest_okb. rewrite nowal_cmp. cbn [andb].
  apply forallb_forall. intros d _. unfold edge. rewrite continues_cmp. unfold chain_hd, chain_free.
  destruct (cmp_class o r) as [o' [r' E]]. rewrite E.
  destruct d as [o''|o''|o''| | | |]; try destruct o''; vm_compute; reflexivity.
Qed.

Lemma ctx_if r : rest_okb slot_IfExp_body (PK "if" :: r) = true.
Proof.
  unfold rest_okb. apply andb_true_intro. split; [reflexivity|].
  apply forallb_forall. intros d _. destruct d as [o'|o'|o'| | | |]; try destruct o'; vm_compute; reflexivity.
Qed.

Lemma ctx_closer k r : closer k = true -> rest_okb TOP (PK k :: r) = true.
Proof.
  unfold closer. cbn [existsb]. intros H.
  repeat (apply orb_prop in H as [H|H]; [apply String.eqb_eq in H; subst k;
    unfold rest_okb; apply andb_true_intro; split; [reflexivity|]; apply forallb_forall; intros d _;
    destruct d as [o'|o'|o'| | | |]; try destruct o'; vm_compute; reflexivity|]). discriminate.
Qed.

(* after the value of an attribute / call / subscript *)
Lemma ctx_trailer k r : existsb (String.eqb k) ["."; "("; "["] = true -> rest_okb slot_Attribute_value (PK k :: r) = true.
Proof.
  cbn [existsb]. intros H.
  repeat (apply orb_prop in H as [H|H]; [apply String.eqb_eq in H; subst k;
    unfold rest_okb; apply andb_true_intro; split; [reflexivity|]; apply forallb_forall; intros d _;
    destruct d as [o'|o'|o'| | | |]; try destruct o'; vm_compute; reflexivity|]). discriminate.
Qed.

(* precedences of the nodes of the core *)
Definition np_vals : list nat :=
  [node_prec_Name; node_prec_Constant; node_prec_Compare; node_prec_IfExp; node_prec_Lambda; node_prec_NamedExpr;
   node_prec_Attribute; node_prec_Call; node_prec_Subscript] ++
  map binop_prec all_binops ++ map unop_prec [Invert; Not; UAdd; USub] ++ map boolop_prec [And; Or].

Lemma core_np e : core e = true -> List.In (node_prec e) np_vals.
Proof.
  destruct e; cbn [core]; try discriminate; intros _; cbn [node_prec];
    try (destruct op; vm_compute; tauto); try (destruct o; vm_compute; tauto); vm_compute; tauto.
Qed.

Lemma np_fact (P : nat -> bool) : forallb P np_vals = true -> forall e, core e = true -> P (node_prec e) = true.
Proof. intros H e Hc. rewrite forallb_forall in H. apply H. apply core_np. exact Hc. Qed.

Lemma np_top e : core e = true -> node_prec e <= TOP.
Proof. intros Hc. apply Nat.leb_le. apply (np_fact (fun v => Nat.leb v TOP)); [vm_compute; reflexivity|exact Hc]. Qed.

Lemma np_binop_left e o : core e = true -> node_prec e <= slot_BinOp_left o -> node_prec e <= binop_prec o.
Proof.
  intros Hc H. apply Nat.leb_le in H. apply Nat.leb_le.
  pose proof (np_fact (fun v => implb (Nat.leb v (slot_BinOp_left o)) (Nat.leb v (binop_prec o)))) as F.
  assert (G : forallb (fun v => implb (Nat.leb v (slot_BinOp_left o)) (Nat.leb v (binop_prec o))) np_vals = true)
    by (destruct o; vm_compute; reflexivity).
  specialize (F G e Hc). cbv beta in F. rewrite H in F. exact F.
Qed.

Lemma np_boolop e o : core e = true -> node_prec e <= slot_BoolOp o -> node_prec e <= boolop_prec o.
Proof.
  intros Hc H. apply Nat.leb_le in H. apply Nat.leb_le.
  assert (G : forallb (fun v => implb (Nat.leb v (slot_BoolOp o)) (Nat.leb v (boolop_prec o))) np_vals = true)
    by (destruct o; vm_compute; reflexivity).
  pose proof (np_fact _ G e Hc) as F. cbv beta in F. rewrite H in F. exact F.
Qed.

Lemma np_small (s p : nat) e :
  forallb (fun v => implb (Nat.leb v s) (Nat.leb v p)) np_vals = true -> core e = true -> node_prec e <= s -> node_prec e <= p.
Proof.
  intros G Hc H. apply Nat.leb_le in H. apply Nat.leb_le. pose proof (np_fact _ G e Hc) as F. cbv beta in F. rewrite H in F. exact F.
Qed.

(* ---------- the first token of a printed expression ---------- *)
Definition start_tok (t : pt) : bool :=
  match t with PN _ | PL _ => true | PK k => existsb (String.eqb k) ["("; "lambda"; "not"; "-"; "+"; "~"; "["; "{"; "*"] end.

(* the first token; it is `*` only for a starred expression *)
Definition head_ok (e : expr) (ts : list pt) : Prop :=
  exists t r, ts = t :: r /\ start_tok t = true /\ (is_key "*" t = true -> is_starred e = true).

Lemma pparen_head e b ts rest : head_ok e (ts ++ rest) -> head_ok e (pparen b ts ++ rest).
Proof. intros H. destruct b; [|exact H]. eexists _, _. split; [reflexivity|]. split; [reflexivity|discriminate]. Qed.

Lemma head_ok_child e e' ts : is_starred e = false -> head_ok e ts -> head_ok e' ts.
Proof. intros Hs [t [r [E [Hst Hk]]]]. exists t, r. split; [exact E|]. split; [exact Hst|]. intros K. specialize (Hk K). congruence. Qed.

Lemma pp_head : forall e, core e = true -> forall s rest, head_ok e (pp s e ++ rest).
Proof.
  induction e using expr_ind'; intros Hc s rest; cbn [core] in Hc; try discriminate; rewrite pp_unfold; apply pparen_head; cbn [pbody].
  - eexists _, _. split; [reflexivity|]. split; [reflexivity|discriminate].
  - eexists _, _. split; [reflexivity|]. split; [reflexivity|discriminate].
  - (* Starred *) eexists _, _. split; [reflexivity|]. split; reflexivity.
  - (* BinOp *) apply andb_prop in Hc as [Hc1 _]. rewrite <- app_assoc.
    apply (head_ok_child e1); [exact (ec_nostar _ Hc1)|]. apply IHe1. exact (ec_core _ Hc1).
  - (* BoolOp *) apply andb_prop in Hc as [Hl Hc]. destruct vs as [|v1 [|v2 t]]; try discriminate.
    unfold Pl in H. inversion H as [|? ? H1 _]; subst. cbn [forallb] in Hc. apply andb_prop in Hc as [Hc1 _].
    cbn [map join]. rewrite <- app_assoc.
    apply (head_ok_child v1); [exact (ec_nostar _ Hc1)|]. apply H1. exact (ec_core _ Hc1).
  - (* UnaryOp *) destruct o; eexists _, _; (split; [reflexivity|]); (split; [reflexivity|discriminate]).
  - (* List *) eexists _, _. split; [reflexivity|]. split; [reflexivity|discriminate].
  - (* Tuple *) destruct l as [|x [|y t]]; eexists _, _; (split; [reflexivity|]); (split; [reflexivity|discriminate]).
  - (* Set *) eexists _, _. split; [reflexivity|]. split; [reflexivity|discriminate].
  - (* Dict *) eexists _, _. split; [reflexivity|]. split; [reflexivity|discriminate].
  - (* Compare *) apply andb_prop in Hc as [Hc _]. apply andb_prop in Hc as [Hc _]. apply andb_prop in Hc as [Hc1 _].
    rewrite <- app_assoc. apply (head_ok_child e); [exact (ec_nostar _ Hc1)|]. apply IHe. exact (ec_core _ Hc1).
  - (* Attribute *) rewrite <- app_assoc. apply pparen_head.
    apply (head_ok_child e); [exact (ec_nostar _ Hc)|]. apply IHe. exact (ec_core _ Hc).
  - (* Subscript *) apply andb_prop in Hc as [Hc1 _]. rewrite <- app_assoc.
    apply (head_ok_child e1); [exact (ec_nostar _ Hc1)|]. apply IHe1. exact (ec_core _ Hc1).
  - (* Call *) apply andb_prop in Hc as [Hc1 _]. rewrite <- app_assoc.
    apply (head_ok_child e); [exact (ec_nostar _ Hc1)|]. apply IHe. exact (ec_core _ Hc1).
  - (* NamedExpr *) eexists _, _. split; [reflexivity|]. split; [reflexivity|discriminate].
  - (* Lambda *) eexists _, _. split; [reflexivity|]. split; [reflexivity|discriminate].
  - (* ListComp *) eexists _, _. split; [reflexivity|]. split; [reflexivity|discriminate].
  - (* SetComp *) eexists _, _. split; [reflexivity|]. split; [reflexivity|discriminate].
  - (* DictComp *) eexists _, _. split; [reflexivity|]. split; [reflexivity|discriminate].
  - (* IfExp *) apply andb_prop in Hc as [Hc _]. apply andb_prop in Hc as [_ Hc2]. rewrite <- app_assoc.
    apply (head_ok_child e2); [exact (ec_nostar _ Hc2)|]. apply IHe2. exact (ec_core _ Hc2).
Qed.

Lemma start_not (k : string) t : start_tok t = true ->
  existsb (String.eqb k) ["("; "lambda"; "not"; "-"; "+"; "~"; "["; "{"; "*"] = false -> is_key k t = false.
Proof.
  intros Ht Hk. destruct t as [i|c|k']; try reflexivity. cbn [is_key start_tok] in *.
  destruct (String.eqb_spec k' k) as [->|]; [|reflexivity]. rewrite Hk in Ht. discriminate.
Qed.

Lemma pp_head_not_key k e s rest : core e = true ->
  existsb (String.eqb k) ["("; "lambda"; "not"; "-"; "+"; "~"; "["; "{"; "*"] = false -> hd_is k (pp s e ++ rest) = false.
Proof.
  intros Hc Hk. destruct (pp_head e Hc s rest) as [t [r [E [Ht _]]]]. rewrite E. cbn [hd_is]. apply start_not; assumption.
Qed.

Lemma pp_head_not_close e s rest : core e = true -> hd_is ")" (pp s e ++ rest) = false.
Proof. intros Hc. apply pp_head_not_key; [exact Hc|reflexivity]. Qed.

Lemma pp_head_nostar e s rest : core e = true -> is_starred e = false -> hd_is "*" (pp s e ++ rest) = false.
Proof.
  intros Hc Hs. destruct (pp_head e Hc s rest) as [t [r [E [_ Hk]]]]. rewrite E. cbn [hd_is].
  destruct (is_key "*" t) eqn:K; [|reflexivity]. specialize (Hk eq_refl). congruence.
Qed.

(* an expression printed in a slot below `not` does not begin with the keyword `not` (so `is` followed by it is `is`) *)
Lemma pparen_not b ts rest : (b = false -> hd_is "not" (ts ++ rest) = false) -> hd_is "not" (pparen b ts ++ rest) = false.
Proof. destruct b; intros H; [reflexivity|apply H; reflexivity]. Qed.

Definition below_not (s : nat) : Prop := s < unop_prec Not.

Lemma pp_head_not_not : forall e, core e = true -> forall s rest, below_not s -> hd_is "not" (pp s e ++ rest) = false.
Proof.
  unfold below_not.
  induction e using expr_ind'; intros Hc s rest Hs; cbn [core] in Hc; try discriminate; rewrite pp_unfold; apply pparen_not;
    intros Hb; apply Nat.ltb_ge in Hb; cbn [pbody node_prec] in *; try reflexivity.
  - (* BinOp *) apply andb_prop in Hc as [Hc1 _]. rewrite <- app_assoc. apply IHe1; [exact (ec_core _ Hc1)|destruct o; vm_compute; lia].
  - (* BoolOp *) exfalso. destruct o; vm_compute in Hb, Hs; lia.
  - (* UnaryOp *) destruct o; try reflexivity. exfalso. vm_compute in Hb, Hs. lia.
  - (* Tuple *) destruct l as [|x [|y t]]; reflexivity.
  - (* Compare *) apply andb_prop in Hc as [Hc _]. apply andb_prop in Hc as [Hc _]. apply andb_prop in Hc as [Hc1 _].
    rewrite <- app_assoc. apply IHe; [exact (ec_core _ Hc1)|vm_compute; lia].
  - (* Attribute *) rewrite <- app_assoc. apply pparen_not. intros _. apply IHe; [exact (ec_core _ Hc)|vm_compute; lia].
  - (* Subscript *) apply andb_prop in Hc as [Hc1 _]. rewrite <- app_assoc.
    apply IHe1; [exact (ec_core _ Hc1)|vm_compute; lia].
  - (* Call *) apply andb_prop in Hc as [Hc1 _]. rewrite <- app_assoc.
    apply IHe; [exact (ec_core _ Hc1)|vm_compute; lia].
  - (* IfExp *) exfalso. vm_compute in Hb, Hs. lia.
Qed.

(* a positional argument is not mistaken for a keyword argument: the token after a leading name is never `=` *)
Lemma pparen_nokw b ts rest : (b = false -> is_kwstart (ts ++ rest) = false) -> is_kwstart (pparen b ts ++ rest) = false.
Proof. destruct b; intros H; [reflexivity|apply H; reflexivity]. Qed.

Lemma pp_nokw : forall e, core e = true -> forall s rest, hd_is "=" rest = false -> is_kwstart (pp s e ++ rest) = false.
Proof.
  induction e using expr_ind'; intros Hc s rest Hr; cbn [core] in Hc; try discriminate; rewrite pp_unfold; apply pparen_nokw;
    intros _; cbn [pbody]; try reflexivity.
  - (* Name *) destruct rest as [|t r]; [reflexivity|exact Hr].
  - (* BinOp *) apply andb_prop in Hc as [Hc1 _]. rewrite <- app_assoc. apply IHe1; [exact (ec_core _ Hc1)|destruct o; reflexivity].
  - (* BoolOp *) apply andb_prop in Hc as [Hl Hc]. destruct vs as [|v1 [|v2 t]]; try discriminate.
    unfold Pl in H. inversion H as [|? ? H1 _]; subst. cbn [forallb] in Hc. apply andb_prop in Hc as [Hc1 _].
    cbn [map join]. rewrite <- app_assoc. apply H1; [exact (ec_core _ Hc1)|destruct o; reflexivity].
  - (* Tuple *) destruct l as [|x [|y t]]; reflexivity.
  - (* Compare *) apply andb_prop in Hc as [Hc Hcs]. apply andb_prop in Hc as [Hc Hl1]. apply andb_prop in Hc as [Hc1 Hlen].
    rewrite <- app_assoc. apply IHe; [exact (ec_core _ Hc1)|].
    destruct cs as [|c cs']; [discriminate|]. destruct ops as [|o ops']; [discriminate|]. destruct o; reflexivity.
  - (* Attribute *) rewrite <- app_assoc. apply pparen_nokw. intros _. apply IHe; [exact (ec_core _ Hc)|reflexivity].
  - (* Subscript *) apply andb_prop in Hc as [Hc1 _]. rewrite <- app_assoc.
    apply IHe1; [exact (ec_core _ Hc1)|reflexivity].
  - (* Call *) apply andb_prop in Hc as [Hc1 _]. rewrite <- app_assoc.
    apply IHe; [exact (ec_core _ Hc1)|reflexivity].
  - (* IfExp *) apply andb_prop in Hc as [Hc _]. apply andb_prop in Hc as [_ Hc2]. rewrite <- app_assoc.
    apply IHe2; [exact (ec_core _ Hc2)|reflexivity].
Qed.

(* ---------- the round trip ---------- *)
Definition A_stmt (e : expr) : Prop :=
  forall n rest res, node_prec e <= n -> safe e rest = true ->
    Ev (MLoop n e CNone) rest res -> Ev (MExpr n) (pbody e ++ rest) res.

Lemma closer_facts k : closer k = true ->
  String.eqb k "*" = false /\ String.eqb k "=" = false /\ String.eqb k "**" = false.
Proof.
  unfold closer. cbn [existsb]. intros H.
  repeat (apply orb_prop in H as [H|H]; [apply String.eqb_eq in H; subst k; repeat split; reflexivity|]). discriminate.
Qed.

(* an expression followed by a closing token, parsed at a level that admits it *)
Lemma closed_bare e lvl k rest :
  core e = true -> A_stmt e -> closer k = true -> node_prec e <= lvl ->
  Ev (MExpr lvl) (pbody e ++ PK k :: rest) (e, PK k :: rest).
Proof.
  intros Hc HA Hk Hl. apply HA; [exact Hl| |].
  - apply (safe_of_rest_ok e Hc TOP); [apply np_top; exact Hc|apply ctx_closer; exact Hk].
  - apply Ev_loop_stop. apply continues_closer. exact Hk.
Qed.

Lemma child_of_A e : core e = true -> is_starred e = false -> A_stmt e ->
  forall s n rest res, (node_prec e <= s -> node_prec e <= n /\ safe e rest = true) ->
    Ev (MLoop n e CNone) rest res -> Ev (MExpr n) (pp s e ++ rest) res.
Proof.
  intros Hc Hns HA s n rest res Hcond Hloop. rewrite pp_unfold. destruct (Nat.ltb s (node_prec e)) eqn:E.
  - cbn [pparen app]. rewrite <- app_assoc. cbn [app].
    eapply Ev_expr_atom; [reflexivity| |exact Hloop].
    apply Ev_atom_paren'.
    assert (Hh : head_ok e (pbody e ++ PK ")" :: rest)).
    { pose proof (pp_head e Hc TOP (PK ")" :: rest)) as Hh. rewrite pp_unfold in Hh.
      assert (Hlt : Nat.ltb TOP (node_prec e) = false) by (apply Nat.ltb_ge; apply np_top; exact Hc).
      rewrite Hlt in Hh. exact Hh. }
    eapply Ev_elems_last.
    + destruct Hh as [t [r [Et [Hst _]]]]. rewrite Et. cbn [hd_is]. apply start_not; [exact Hst|reflexivity].
    + right. split.
      * destruct Hh as [t [r [Et [_ Hk]]]]. rewrite Et. cbn [hd_is].
        destruct (is_key "*" t) eqn:K; [|reflexivity]. specialize (Hk eq_refl). congruence.
      * apply closed_bare; [exact Hc|exact HA|reflexivity|apply np_top; exact Hc].
    + reflexivity.
    + unfold finish. cbn [String.eqb Ascii.eqb Bool.eqb andb negb]. rewrite Hns. reflexivity.
  - apply Nat.ltb_ge in E. destruct (Hcond E) as [Hn Hs]. cbn [pparen]. apply HA; assumption.
Qed.

Lemma edge_stop d rest : edge d rest = true -> continues (d_rl d) rest = false.
Proof. unfold edge. intros H. apply andb_prop in H as [H _]. apply negb_true_iff in H. exact H. Qed.
Lemma edge_chain d rest : edge d rest = true -> chain_hd d rest = true.
Proof. unfold edge. intros H. apply andb_prop in H as [_ H]. exact H. Qed.

Lemma sub_safe lvl r rest :
  (if Nat.leb (node_prec r) lvl then safe r rest else true) = true -> node_prec r <= lvl -> node_prec r <= lvl /\ safe r rest = true.
Proof. intros H Hle. split; [exact Hle|]. apply Nat.leb_le in Hle. rewrite Hle in H. exact H. Qed.

(* right operand of an open operator: parsed at its level, the loop stops at [rest] *)
Lemma right_child e lvl rest :
  core e = true -> is_starred e = false -> A_stmt e ->
  (if Nat.leb (node_prec e) lvl then safe e rest else true) = true -> continues lvl rest = false ->
  Ev (MExpr lvl) (pp lvl e ++ rest) (e, rest).
Proof.
  intros Hc Hns HA Hs Hstop. apply (child_of_A e Hc Hns HA lvl lvl rest).
  - intros Hle. apply sub_safe; assumption.
  - apply Ev_loop_stop. exact Hstop.
Qed.

(* a child followed by a closing token *)
Lemma closed_child e s lvl k rest :
  core e = true -> is_starred e = false -> A_stmt e -> closer k = true -> TOP <= lvl \/ s <= lvl ->
  Ev (MExpr lvl) (pp s e ++ PK k :: rest) (e, PK k :: rest).
Proof.
  intros Hc Hns HA Hk Hl. apply (child_of_A e Hc Hns HA s lvl).
  - intros Hle. split; [pose proof (np_top e Hc); lia|].
    apply (safe_of_rest_ok e Hc TOP); [apply np_top; exact Hc|apply ctx_closer; exact Hk].
  - apply Ev_loop_stop. apply continues_closer. exact Hk.
Qed.

Definition btoks (o : boolop) (ws : list expr) : list pt :=
  flat_map (fun w => PK (bool_key o) :: pp (slot_BoolOp o) w) ws.

Lemma join_cons2 {X} (sep : list X) x y t : join sep (x :: y :: t) = x ++ sep ++ join sep (y :: t).
Proof. reflexivity. Qed.

Lemma join_btoks o v ws : join [PK (bool_key o)] (map (pp (slot_BoolOp o)) (v :: ws)) = pp (slot_BoolOp o) v ++ btoks o ws.
Proof.
  revert v. induction ws as [|w t IH]; intros v.
  - cbn [map join btoks flat_map]. rewrite app_nil_r. reflexivity.
  - cbn [map]. rewrite join_cons2. specialize (IH w). cbn [map] in IH. rewrite IH. reflexivity.
Qed.

Lemma btoks_cons o w ws rest :
  btoks o (w :: ws) ++ rest = PK (bool_key o) :: pp (slot_BoolOp o) w ++ (btoks o ws ++ rest).
Proof. unfold btoks. cbn [flat_map]. cbn [app]. rewrite <- app_assoc. reflexivity. Qed.

Definition lastsub (lvl : nat) (rest : list pt) :=
  fix lst (vs : list expr) : bool :=
    match vs with [] => true | [v] => if Nat.leb (node_prec v) lvl then safe v rest else true | _ :: t => lst t end.

Lemma bool_chain n o rest res :
  boolop_prec o <= n -> continues (slot_BoolOp o) rest = false ->
  forall ws prev L ch, ws <> [] ->
    Forall (fun w => core w = true /\ is_starred w = false /\ A_stmt w) ws ->
    (forall w, extend_bool ch L o w = BoolOp o (prev ++ [w])) ->
    lastsub (slot_BoolOp o) rest ws = true ->
    Ev (MLoop n (BoolOp o (prev ++ ws)) (CBool o)) rest res ->
    Ev (MLoop n L ch) (btoks o ws ++ rest) res.
Proof.
  intros Hp Hstop. induction ws as [|w ws' IH]; intros prev L ch Hne HF Hext Hlast Hfin; [contradiction|].
  inversion HF as [|? ? [Hcw [Hnw HAw]] HF']; subst. rewrite btoks_cons.
  destruct ws' as [|w2 t].
  - cbn [btoks flat_map app].
    eapply Ev_loop_bool; [apply classify_boolop|exact Hp| |].
    + apply right_child; [exact Hcw|exact Hnw|exact HAw|exact Hlast|exact Hstop].
    + rewrite Hext. exact Hfin.
  - eapply Ev_loop_bool; [apply classify_boolop|exact Hp| |].
    + apply (child_of_A w Hcw Hnw HAw (slot_BoolOp o) (slot_BoolOp o)).
      * intros Hle. split; [exact Hle|]. rewrite btoks_cons.
        apply (safe_of_rest_ok w Hcw (slot_BoolOp o)); [exact Hle|apply ctx_boolop].
      * apply Ev_loop_stop. rewrite btoks_cons. apply continues_same_bool.
    + rewrite Hext. apply (IH (prev ++ [w]) (BoolOp o (prev ++ [w])) (CBool o)).
      * discriminate.
      * exact HF'.
      * intros w'. unfold extend_bool. destruct o; reflexivity.
      * exact Hlast.
      * rewrite <- app_assoc. exact Hfin.
Qed.

Definition ctoks : list expr -> list cmpop -> list pt :=
  fix go (cs : list expr) (ops : list cmpop) : list pt :=
    match cs, ops with
    | c :: cs', o :: ops' => map PK (cmp_keys o) ++ pp slot_Compare_comparator c ++ go cs' ops'
    | _, _ => []
    end.

Lemma ctoks_cons c cs o ops rest :
  ctoks (c :: cs) (o :: ops) ++ rest = map PK (cmp_keys o) ++ (pp slot_Compare_comparator c ++ (ctoks cs ops ++ rest)).
Proof. cbn [ctoks]. rewrite <- !app_assoc. reflexivity. Qed.

Lemma ctx_cmp' o r : rest_okb slot_Compare_comparator (map PK (cmp_keys o) ++ r) = true.
Proof. exact (ctx_cmp o r). Qed.

Lemma cmp_chain n l0 rest res :
  node_prec_Compare <= n -> continues slot_Compare_comparator rest = false ->
  forall cs ops pops pcs L ch, cs <> [] -> length ops = length cs ->
    Forall (fun w => core w = true /\ is_starred w = false /\ A_stmt w) cs ->
    (forall o c, extend_cmp ch L o c = Compare l0 (pops ++ [o]) (pcs ++ [c])) ->
    lastsub slot_Compare_comparator rest cs = true ->
    Ev (MLoop n (Compare l0 (pops ++ ops) (pcs ++ cs)) CCmp) rest res ->
    Ev (MLoop n L ch) (ctoks cs ops ++ rest) res.
Proof.
  intros Hp Hstop. induction cs as [|c cs' IH]; intros ops pops pcs L ch Hne Hlen HF Hext Hlast Hfin; [contradiction|].
  destruct ops as [|o ops']; [discriminate|]. injection Hlen as Hlen.
  inversion HF as [|? ? [Hcc [Hnc HAc]] HF']; subst. rewrite ctoks_cons.
  assert (Hbn : below_not slot_Compare_comparator) by (unfold below_not; vm_compute; lia).
  destruct cs' as [|c2 t].
  - destruct ops'; [|discriminate]. cbn [ctoks app].
    eapply Ev_loop_cmp; [apply classify_cmp; intros _; apply pp_head_not_not; assumption|exact Hp| |].
    + apply right_child; [exact Hcc|exact Hnc|exact HAc|exact Hlast|exact Hstop].
    + rewrite Hext. exact Hfin.
  - destruct ops' as [|o2 ops'']; [discriminate|].
    eapply Ev_loop_cmp; [apply classify_cmp; intros _; apply pp_head_not_not; assumption|exact Hp| |].
    + apply (child_of_A c Hcc Hnc HAc slot_Compare_comparator slot_Compare_comparator).
      * intros Hle. split; [exact Hle|]. rewrite ctoks_cons.
        apply (safe_of_rest_ok c Hcc slot_Compare_comparator); [exact Hle|apply ctx_cmp'].
      * apply Ev_loop_stop. rewrite ctoks_cons. rewrite continues_cmp. vm_compute. reflexivity.
    + rewrite Hext. apply (IH (o2 :: ops'') (pops ++ [o]) (pcs ++ [c]) (Compare l0 (pops ++ [o]) (pcs ++ [c])) CCmp).
      * discriminate.
      * exact Hlen.
      * exact HF'.
      * intros o' c'. reflexivity.
      * exact Hlast.
      * rewrite <- !app_assoc. exact Hfin.
Qed.

(* ---------- elements of displays ---------- *)
Definition elemP (w : expr) : Prop :=
  core w = true /\ match w with Starred v => core v = true /\ is_starred v = false /\ A_stmt v | _ => A_stmt w end.

Lemma starred_pp s v : pp s (Starred v) = PK "*" :: pp slot_Starred_value v.
Proof. rewrite pp_unfold. cbn [node_prec pbody]. assert (E : Nat.ltb s node_prec_Starred = false) by (apply Nat.ltb_ge; vm_compute; lia). rewrite E. reflexivity. Qed.

(* one element followed by a closing token *)
Lemma elem_closed w s k rest : elemP w -> closer k = true -> s <= TOP ->
  elem_ev (pp s w ++ PK k :: rest) w (PK k :: rest).
Proof.
  intros [Hc Hw] Hk Hs. destruct (is_starred w) eqn:Es.
  - destruct w; try discriminate. destruct Hw as [Hcv [Hnv HAv]]. rewrite starred_pp. left. split; [reflexivity|].
    exists w. split; [reflexivity|]. cbn [tl app].
    apply closed_child; [exact Hcv|exact Hnv|exact HAv|exact Hk|right; apply Nat.le_refl].
  - right. split; [apply pp_head_nostar; assumption|].
    assert (HA : A_stmt w) by (destruct w; try exact Hw; discriminate).
    apply closed_child; [exact Hc|exact Es|exact HA|exact Hk|left; apply Nat.le_refl].
Qed.

Lemma elem_head_not k w s rest : elemP w ->
  existsb (String.eqb k) ["("; "lambda"; "not"; "-"; "+"; "~"; "["; "{"; "*"] = false -> hd_is k (pp s w ++ rest) = false.
Proof. intros [Hc _] Hk. apply pp_head_not_key; assumption. Qed.

Lemma first_elem_not_key s x t rest : elemP x -> s <= TOP ->
  first_not_key (join [PK ","] (map (pp s) (x :: t)) ++ PK "}" :: rest).
Proof.
  intros Hx Hs.
  assert (G : forall k r1, closer k = true -> String.eqb k ":" = false -> first_not_key (pp s x ++ PK k :: r1)).
  { intros k r1 Hk Hne. destruct (elem_closed x s k r1 Hx Hk Hs) as [[H1 _]|[_ H2]]; [left; exact H1|].
    right. exists x, k, r1. split; [exact H2|exact Hne]. }
  destruct t as [|y t'].
  - cbn [map join]. apply G; reflexivity.
  - cbn [map]. rewrite join_cons2. rewrite <- !app_assoc. cbn [app]. apply G; reflexivity.
Qed.

Lemma elems_chain cl s rest :
  closer cl = true -> String.eqb cl "," = false -> s <= TOP ->
  existsb (String.eqb cl) ["("; "lambda"; "not"; "-"; "+"; "~"; "["; "{"; "*"] = false ->
  forall l acc cm x, l <> [] -> Forall elemP l ->
    finish cl (rev l ++ acc) (cm || Nat.leb 2 (length l)) = Some x ->
    Ev (MElems cl acc cm) (join [PK ","] (map (pp s) l) ++ PK cl :: rest) (x, rest).
Proof.
  intros Hcl Hne Hs Hst. induction l as [|w t IH]; intros acc cm x Hnn HF Hfin; [contradiction|].
  inversion HF as [|? ? Hw HF']; subst.
  destruct t as [|w2 t'].
  - cbn [map join]. cbn [rev app length Nat.leb] in Hfin. rewrite orb_false_r in Hfin.
    eapply Ev_elems_last; [apply elem_head_not; assumption|apply elem_closed; assumption|exact Hne|exact Hfin].
  - cbn [map]. rewrite join_cons2. fold (map (pp s) (w2 :: t')). rewrite <- !app_assoc. cbn [app].
    eapply Ev_elems_more; [apply elem_head_not; assumption|apply elem_closed; [exact Hw|reflexivity|exact Hs]|].
    apply IH; [discriminate|exact HF'|].
    replace (rev (w2 :: t') ++ w :: acc) with (rev (w :: w2 :: t') ++ acc) by (cbn [rev]; rewrite <- !app_assoc; reflexivity).
    rewrite orb_true_r in Hfin. exact Hfin.
Qed.

(* ---------- arguments of a call ---------- *)
Inductive item := IPos (s : nat) (e : expr) | IKw (kw : option ident * expr).
Definition itoks (i : item) : list pt := match i with IPos s e => pp s e | IKw kw => kwp kw end.
Definition iapply (i : item) (st : list expr * list (option ident * expr)) : list expr * list (option ident * expr) :=
  match i with IPos _ e => (e :: fst st, snd st) | IKw kw => (fst st, kw :: snd st) end.
Definition itemP (i : item) : Prop :=
  match i with
  | IPos s e => elemP e /\ s <= TOP
  | IKw kw => core (snd kw) = true /\ is_starred (snd kw) = false /\ A_stmt (snd kw)
  end.

Lemma item_step i acc kws k rest res :
  itemP i -> (k = "," \/ k = ")") ->
  args_cont (PK k :: rest) (fst (iapply i (acc, kws))) (snd (iapply i (acc, kws))) res ->
  Ev (MArgs acc kws) (itoks i ++ PK k :: rest) res.
Proof.
  intros Hi Hk Hc. assert (Hck : closer k = true) by (destruct Hk; subst; reflexivity).
  destruct i as [s e|[[kn|] v]]; cbn [itoks iapply fst snd kwp] in *.
  - destruct Hi as [He Hs]. destruct (elem_closed e s k rest He Hck Hs) as [[H1 [v [-> H2]]]|[H1 H2]].
    + eapply Ev_args_star; [apply elem_head_not; [exact He|reflexivity]|apply elem_head_not; [exact He|reflexivity]|exact H1|exact H2|exact Hc].
    + eapply Ev_args_pos; [apply elem_head_not; [exact He|reflexivity]|apply elem_head_not; [exact He|reflexivity]|exact H1| |exact H2|exact Hc].
      destruct He as [Hce _]. apply pp_nokw; [exact Hce|]. cbn [hd_is is_key]. destruct Hk; subst; reflexivity.
  - destruct Hi as [Hcv [Hnv HAv]]. cbn [snd] in *. cbn [app].
    eapply Ev_args_kw; [|exact Hc].
    apply closed_child; [exact Hcv|exact Hnv|exact HAv|exact Hck|right; apply Nat.le_refl].
  - destruct Hi as [Hcv [Hnv HAv]]. cbn [snd] in *. cbn [app].
    eapply Ev_args_dstar; [reflexivity|reflexivity| |exact Hc]. cbn [tl].
    apply closed_child; [exact Hcv|exact Hnv|exact HAv|exact Hck|right; apply Nat.le_refl].
Qed.

Lemma items_chain rest : forall items acc kws,
  items <> [] -> Forall itemP items ->
  Ev (MArgs acc kws) (join [PK ","] (map itoks items) ++ PK ")" :: rest)
     (args_carrier (fst (fold_left (fun st i => iapply i st) items (acc, kws)))
                   (snd (fold_left (fun st i => iapply i st) items (acc, kws))), rest).
Proof.
  induction items as [|i t IH]; intros acc kws Hne HF; [contradiction|]. inversion HF as [|? ? Hi HF']; subst.
  destruct t as [|i2 t'].
  - cbn [map join fold_left]. apply item_step; [exact Hi|right; reflexivity|]. right. eexists. split; reflexivity.
  - cbn [map]. rewrite join_cons2. fold (map itoks (i2 :: t')). rewrite <- !app_assoc. cbn [app].
    apply item_step; [exact Hi|left; reflexivity|]. left. eexists. split; [reflexivity|].
    cbn [fold_left]. destruct (iapply i (acc, kws)) as [acc' kws'] eqn:Ei. cbn [fst snd].
    apply (IH acc' kws'); [discriminate|exact HF'].
Qed.

Lemma fold_pos s args : forall acc kws,
  fold_left (fun st i => iapply i st) (map (IPos s) args) (acc, kws) = (rev args ++ acc, kws).
Proof. induction args as [|a t IH]; intros acc kws; [reflexivity|]. cbn [map fold_left iapply fst snd]. rewrite IH. cbn [rev]. rewrite <- app_assoc. reflexivity. Qed.
Lemma fold_kw ks : forall acc kws,
  fold_left (fun st i => iapply i st) (map IKw ks) (acc, kws) = (acc, rev ks ++ kws).
Proof. induction ks as [|a t IH]; intros acc kws; [reflexivity|]. cbn [map fold_left iapply fst snd]. rewrite IH. cbn [rev]. rewrite <- app_assoc. reflexivity. Qed.

(* ---------- comprehension clauses ---------- *)
Definition opP (w : expr) : Prop := core w = true /\ is_starred w = false /\ A_stmt w.
Definition genP (g : comprehension) : Prop :=
  match g with
  | (t, i, ifs, a) => a = false /\ (core t = true /\ is_target t = true /\ A_stmt t) /\ opP i /\ Forall opP ifs
  end.

Lemma ctx_if_comp r : rest_okb slot_comp_iter (PK "if" :: r) = true.
Proof.
  unfold rest_okb. apply andb_true_intro. split; [reflexivity|].
  apply forallb_forall. intros d _. destruct d as [o'|o'|o'| | | |]; try destruct o'; vm_compute; reflexivity.
Qed.

(* the iterable or a condition of a clause, followed by `if`, `for` or the closing bracket *)
Lemma comp_child e k rest : opP e -> (closer k = true \/ k = "if") ->
  Ev (MExpr slot_comp_iter) (pp slot_comp_iter e ++ PK k :: rest) (e, PK k :: rest).
Proof.
  intros [Hc [Hns HA]] [Hk| ->].
  - apply closed_child; [exact Hc|exact Hns|exact HA|exact Hk|right; apply Nat.le_refl].
  - apply (child_of_A e Hc Hns HA slot_comp_iter slot_comp_iter).
    + intros Hle. split; [exact Hle|]. apply (safe_of_rest_ok e Hc slot_comp_iter); [exact Hle|apply ctx_if_comp].
    + apply Ev_loop_stop. reflexivity.
Qed.

Lemma target_prec t : is_target t = true -> node_prec t = 0.
Proof. destruct t; try discriminate; reflexivity. Qed.
Lemma target_nostar t : is_target t = true -> is_starred t = false.
Proof. destruct t; try discriminate; reflexivity. Qed.
Lemma target_safe t rest : is_target t = true -> hd_is ":=" rest = false -> safe t rest = true.
Proof. destruct t; try discriminate; intros _ H; cbn [safe]; try reflexivity. unfold nowal. rewrite H. reflexivity. Qed.

Lemma target_child t rest : core t = true -> is_target t = true -> A_stmt t ->
  Ev (MExpr slot_Compare_left) (pp slot_comp_target t ++ PK "in" :: rest) (t, PK "in" :: rest).
Proof.
  intros Hc Ht HA. apply (child_of_A t Hc (target_nostar _ Ht) HA slot_comp_target slot_Compare_left).
  - intros _. split; [rewrite (target_prec _ Ht); lia|apply target_safe; [exact Ht|reflexivity]].
  - apply Ev_loop_stop. reflexivity.
Qed.

Definition iftoks (ifs : list expr) : list pt := flat_map (fun c => PK "if" :: pp slot_comp_if c) ifs.

Lemma iftoks_cons c t rest : iftoks (c :: t) ++ rest = PK "if" :: pp slot_comp_if c ++ (iftoks t ++ rest).
Proof. unfold iftoks. cbn [flat_map app]. rewrite <- app_assoc. reflexivity. Qed.

Lemma ifs_chain t i acc k rest res : closer k = true ->
  forall ifs done, Forall opP ifs ->
    Ev (MGens ((t, i, rev done ++ ifs, false) :: acc)) (PK k :: rest) res ->
    Ev (MIfs t i done acc) (iftoks ifs ++ PK k :: rest) res.
Proof.
  intros Hk. induction ifs as [|c t' IH]; intros done HF H.
  - cbn [iftoks flat_map app]. apply Ev_ifs_done.
    + unfold closer in Hk. cbn [existsb] in Hk. cbn [hd_is is_key].
      repeat (apply orb_prop in Hk as [Hk|Hk]; [apply String.eqb_eq in Hk; subst k; reflexivity|]). discriminate.
    + rewrite app_nil_r in H. exact H.
  - inversion HF as [|? ? Hc HF']; subst. rewrite iftoks_cons.
    assert (Hnext : Ev (MIfs t i (c :: done) acc) (iftoks t' ++ PK k :: rest) res).
    { apply IH; [exact HF'|]. cbn [rev]. rewrite <- app_assoc. exact H. }
    change slot_comp_if with slot_comp_iter. destruct t' as [|c2 t''].
    + eapply Ev_ifs_if; [|exact Hnext]. change slot_comp_if with slot_comp_iter.
      cbn [iftoks flat_map app]. apply (comp_child c k rest); [exact Hc|left; exact Hk].
    + eapply Ev_ifs_if; [|exact Hnext]. change slot_comp_if with slot_comp_iter. rewrite iftoks_cons.
      apply (comp_child c "if"); [exact Hc|right; reflexivity].
Qed.

Lemma gtoks_cons g gs rest : gtoks (g :: gs) ++ rest = gtok g ++ (gtoks gs ++ rest).
Proof. unfold gtoks. cbn [flat_map]. rewrite <- app_assoc. reflexivity. Qed.

Lemma gtok_unfold t i ifs rest :
  gtok (t, i, ifs, false) ++ rest =
  PK "for" :: pp slot_comp_target t ++ PK "in" :: pp slot_comp_iter i ++ (iftoks ifs ++ rest).
Proof. unfold gtok, iftoks. cbn [app]. rewrite <- app_assoc. cbn [app]. rewrite <- app_assoc. reflexivity. Qed.

Lemma tail_form cl rest t' : closer cl = true -> Forall genP t' ->
  exists k restT, gtoks t' ++ PK cl :: rest = PK k :: restT /\ closer k = true.
Proof.
  intros Hcl HF. destruct t' as [|g2 t''].
  - exists cl, rest. split; [reflexivity|exact Hcl].
  - destruct g2 as [[[t2 i2] ifs2] a2]. inversion HF as [|? ? Hg2 _]; subst. destruct Hg2 as [-> _].
    rewrite gtoks_cons, gtok_unfold. eexists _, _. split; reflexivity.
Qed.

Lemma gens_chain cl rest : closer cl = true -> hd_is "for" (PK cl :: rest) = false ->
  forall gs acc, Forall genP gs ->
    Ev (MGens acc) (gtoks gs ++ PK cl :: rest) (GeneratorExp (Name "") (rev acc ++ gs), PK cl :: rest).
Proof.
  intros Hcl Hnf. induction gs as [|g t' IH]; intros acc HF.
  - cbn [gtoks flat_map app]. rewrite app_nil_r. apply Ev_gens_stop. exact Hnf.
  - inversion HF as [|? ? Hg HF']; subst. destruct g as [[[t i] ifs] a]. destruct Hg as [-> [[Hct [Htt HAt]] [Hi Hifs]]].
    specialize (IH ((t, i, ifs, false) :: acc) HF'). cbn [rev] in IH. rewrite <- app_assoc in IH. cbn [app] in IH.
    destruct (tail_form cl rest t' Hcl HF') as [k [restT [ET Hk]]]. rewrite ET in IH.
    rewrite gtoks_cons, gtok_unfold, ET.
    assert (Hafter : Ev (MIfs t i [] acc) (iftoks ifs ++ PK k :: restT)
                        (GeneratorExp (Name "") (rev acc ++ (t, i, ifs, false) :: t'), PK cl :: rest)).
    { apply (ifs_chain t i acc k restT _ Hk ifs []); [exact Hifs|]. cbn [rev app]. exact IH. }
    destruct ifs as [|c ifs'].
    + cbn [iftoks flat_map app] in *. eapply Ev_gens_for; [apply target_child; assumption| |exact Hafter].
      apply (comp_child i k restT); [exact Hi|left; exact Hk].
    + rewrite iftoks_cons in *. eapply Ev_gens_for; [apply target_child; assumption| |exact Hafter].
      apply (comp_child i "if"); [exact Hi|right; reflexivity].
Qed.

(* ---------- dict displays ---------- *)
Definition dkeyP (k : option expr) : Prop := match k with Some x => opP x | None => True end.

Definition dtail (items : list (list pt)) : list pt := flat_map (fun it => PK "," :: it) items.
Lemma join_dtail (it : list pt) items : join [PK ","] (it :: items) = it ++ dtail items.
Proof.
  revert it. induction items as [|i2 t IH]; intros it; [cbn [join dtail flat_map]; rewrite app_nil_r; reflexivity|].
  rewrite join_cons2, IH. reflexivity.
Qed.
Lemma dtail_cons it items rest : dtail (it :: items) ++ rest = PK "," :: it ++ (dtail items ++ rest).
Proof. unfold dtail. cbn [flat_map app]. rewrite <- app_assoc. reflexivity. Qed.

Lemma ditems_some k ks v vs : ditems (Some k :: ks) (v :: vs) = (pp slot_Dict_key k ++ PK ":" :: pp slot_Dict_value v) :: ditems ks vs.
Proof. reflexivity. Qed.
Lemma ditems_none ks v vs : ditems (None :: ks) (v :: vs) = (PK "**" :: pp slot_Dict_starvalue v) :: ditems ks vs.
Proof. reflexivity. Qed.

(* the tokens after an item start with `,` or `}` *)
Lemma dtail_head items rest : exists k r, dtail items ++ PK "}" :: rest = PK k :: r /\ (k = "," \/ k = "}").
Proof. destruct items as [|i t]; [exists "}", rest; split; [reflexivity|right; reflexivity]|]. rewrite dtail_cons. eexists _, _. split; [reflexivity|left; reflexivity]. Qed.

Lemma dict_item_ev k v accK accV tail res :
  dkeyP k -> opP v -> (exists c r, tail = PK c :: r /\ (c = "," \/ c = "}")) ->
  Ev (MDSep (k :: accK) (v :: accV)) tail res ->
  Ev (MDict accK accV)
     (match k with Some x => pp slot_Dict_key x ++ PK ":" :: pp slot_Dict_value v | None => PK "**" :: pp slot_Dict_starvalue v end ++ tail) res.
Proof.
  intros Hk [Cv [Nv Av]] [c [r [-> Hc]]] Hsep.
  assert (Hcl : closer c = true) by (destruct Hc; subst; reflexivity).
  destruct k as [x|].
  - destruct Hk as [Cx [Nx Ax]]. rewrite <- app_assoc. cbn [app].
    eapply Ev_dict_item; [apply pp_head_not_key; [exact Cx|reflexivity]|apply pp_head_not_key; [exact Cx|reflexivity]| | |exact Hsep].
    + apply closed_child; [exact Cx|exact Nx|exact Ax|reflexivity|left; apply Nat.le_refl].
    + apply closed_child; [exact Cv|exact Nv|exact Av|exact Hcl|left; apply Nat.le_refl].
  - cbn [app]. eapply Ev_dict_star; [reflexivity|reflexivity| |exact Hsep]. cbn [tl].
    apply closed_child; [exact Cv|exact Nv|exact Av|exact Hcl|right; apply Nat.le_refl].
Qed.

Lemma dsep_chain rest : forall ks vs accK accV,
  length ks = length vs -> Forall dkeyP ks -> Forall opP vs ->
  Ev (MDSep accK accV) (dtail (ditems ks vs) ++ PK "}" :: rest) (EDict (rev accK ++ ks) (rev accV ++ vs), rest).
Proof.
  induction ks as [|k ks' IH]; intros vs accK accV Hlen HK HV.
  - destruct vs; [|discriminate]. cbn [ditems ditems_t map dtail flat_map app]. rewrite !app_nil_r. apply Ev_dsep_close.
  - destruct vs as [|v vs']; [discriminate|]. injection Hlen as Hlen.
    inversion HK as [|? ? Hk HK']; subst. inversion HV as [|? ? Hv HV']; subst.
    assert (E : ditems (k :: ks') (v :: vs') =
                (match k with Some x => pp slot_Dict_key x ++ PK ":" :: pp slot_Dict_value v | None => PK "**" :: pp slot_Dict_starvalue v end)
                :: ditems ks' vs') by (destruct k; reflexivity).
    rewrite E, dtail_cons. apply Ev_dsep_comma.
    apply dict_item_ev; [exact Hk|exact Hv|apply dtail_head|].
    specialize (IH vs' (k :: accK) (v :: accV) Hlen HK' HV'). cbn [rev] in IH. rewrite <- !app_assoc in IH. exact IH.
Qed.

(* ---------- lambda parameters ---------- *)
Definition imap {A B} (f : A -> B) (i : pitem A) : pitem B :=
  match i with IName x d => IName x (option_map f d) | ISlash => ISlash | IStar v => IStar v | IDStar k => IDStar k end.

Lemma zipd_map {A B} (f : A -> B) : forall names nd de, zipd names nd (map f de) = map (imap f) (zipd names nd de).
Proof.
  induction names as [|x r IH]; intros nd de; [reflexivity|]. cbn [zipd]. destruct nd as [|k].
  - destruct de as [|d de']; cbn [map]; [rewrite <- (IH 0 []); reflexivity|rewrite IH; reflexivity].
  - rewrite IH. reflexivity.
Qed.
Lemma zipk_map {A B} (f : A -> B) : forall ko kd, zipk ko (map (option_map f) kd) = map (imap f) (zipk ko kd).
Proof.
  induction ko as [|k r IH]; intros kd; [destruct kd; reflexivity|]. destruct kd as [|d kd']; cbn [zipk map].
  - rewrite <- (IH []). reflexivity.
  - rewrite IH. reflexivity.
Qed.
Lemma litems_map {A B} (f : A -> B) po ar va ko kw de kd :
  litems po ar va ko kw (map f de) (map (option_map f) kd) = map (imap f) (litems po ar va ko kw de kd).
Proof.
  unfold litems. rewrite map_length, zipd_map, zipk_map.
  rewrite !map_app. f_equal; [|f_equal; [destruct va; [reflexivity|destruct ko; reflexivity]|f_equal; destruct kw; reflexivity]].
  destruct po; [reflexivity|]. rewrite map_app, firstn_map. cbn [map]. rewrite skipn_map. reflexivity.
Qed.

Definition itoks_e (i : pitem expr) : list pt :=
  match i with
  | IName x None => [PN x]
  | IName x (Some d) => PN x :: PK "=" :: pp slot_Lambda_default d
  | ISlash => [PK "/"]
  | IStar None => [PK "*"]
  | IStar (Some v) => [PK "*"; PN v]
  | IDStar k => [PK "**"; PN k]
  end.
Lemma itoks_imap i : itoks_l (imap (pp slot_Lambda_default) i) = itoks_e i.
Proof. destruct i as [x [d|]| |[v|]|k]; reflexivity. Qed.

Definition consume (st : pst) (i : pitem expr) : pst :=
  match i with
  | IName x d => p_name st x d
  | ISlash => p_slash st
  | IStar v => p_star st v
  | IDStar k => p_dstar st k
  end.
Definition pitemP (i : pitem expr) : Prop := match i with IName _ (Some d) => opP d | _ => True end.

Lemma pitem_step n st i rest res : pitemP i -> pcont n (consume st i) rest res -> Ev (MParams n st) (itoks_e i ++ rest) res.
Proof.
  intros Hi Hc. destruct i as [x [d|]| |[v|]|k]; cbn [itoks_e consume app] in *.
  - destruct Hi as [Cd [Nd Ad]].
    assert (Hk : exists k r, rest = PK k :: r /\ closer k = true).
    { destruct Hc as [[r [-> _]]|[r [-> _]]]; eexists _, _; split; reflexivity. }
    destruct Hk as [k [r [-> Hk]]].
    eapply Ev_params_default; [|exact Hc].
    apply closed_child; [exact Cd|exact Nd|exact Ad|exact Hk|right; apply Nat.le_refl].
  - apply Ev_params_name. exact Hc.
  - apply Ev_params_slash. exact Hc.
  - apply Ev_params_star_v. exact Hc.
  - apply Ev_params_star0. exact Hc.
  - apply Ev_params_dstar. exact Hc.
Qed.

Lemma params_chain n tail res : forall items st, items <> [] -> Forall pitemP items ->
  Ev (MParams n (fold_left consume items st)) (PK ":" :: tail) res ->
  Ev (MParams n st) (join [PK ","] (map itoks_e items) ++ PK ":" :: tail) res.
Proof.
  induction items as [|i t IH]; intros st Hne HF H; [contradiction|]. inversion HF as [|? ? Hi HF']; subst.
  destruct t as [|i2 t'].
  - cbn [map join fold_left] in *. apply pitem_step; [exact Hi|]. right. eexists. split; [reflexivity|exact H].
  - cbn [map]. rewrite join_cons2. fold (map itoks_e (i2 :: t')). rewrite <- !app_assoc. cbn [app].
    apply pitem_step; [exact Hi|]. left. eexists. split; [reflexivity|].
    apply IH; [discriminate|exact HF'|exact H].
Qed.

(* what the items add up to *)
Definition pinames (l : list (pitem expr)) : list ident := flat_map (fun i => match i with IName x _ => [x] | _ => [] end) l.
Definition idefs (l : list (pitem expr)) : list expr := flat_map (fun i => match i with IName _ (Some d) => [d] | _ => [] end) l.
Definition idopts (l : list (pitem expr)) : list (option expr) := flat_map (fun i => match i with IName _ d => [d] | _ => [] end) l.
Definition all_names (l : list (pitem expr)) : Prop := Forall (fun i => match i with IName _ _ => True | _ => False end) l.

Lemma pfold_pos : forall l st, all_names l -> q_star st = false ->
  fold_left consume l st = mkP (q_po st) (rev (pinames l) ++ q_ar st) (q_va st) false (q_ko st) (q_kd st) (q_kw st) (rev (idefs l) ++ q_de st).
Proof.
  induction l as [|i t IH]; intros st Hn Hs; [destruct st; cbn in *; subst; reflexivity|].
  inversion Hn as [|? ? Hi Ht]; subst. destruct i as [x d| | |]; try contradiction.
  cbn [fold_left consume]. rewrite IH; [|exact Ht|unfold p_name; rewrite Hs; reflexivity].
  unfold p_name. rewrite Hs. cbn [q_po q_ar q_va q_ko q_kd q_kw q_de pinames idefs flat_map].
  destruct d as [e|]; cbn [app rev]; rewrite <- !app_assoc; reflexivity.
Qed.

Lemma pfold_kwn : forall l st, all_names l -> q_star st = true ->
  fold_left consume l st = mkP (q_po st) (q_ar st) (q_va st) true (rev (pinames l) ++ q_ko st) (rev (idopts l) ++ q_kd st) (q_kw st) (q_de st).
Proof.
  induction l as [|i t IH]; intros st Hn Hs; [destruct st; cbn in *; subst; reflexivity|].
  inversion Hn as [|? ? Hi Ht]; subst. destruct i as [x d| | |]; try contradiction.
  cbn [fold_left consume]. rewrite IH; [|exact Ht|unfold p_name; rewrite Hs; reflexivity].
  unfold p_name. rewrite Hs. cbn [q_po q_ar q_va q_ko q_kd q_kw q_de pinames idopts flat_map app rev]. rewrite <- !app_assoc. reflexivity.
Qed.

Lemma zipd_names : forall names nd de, all_names (zipd names nd de) /\ pinames (zipd names nd de) = names.
Proof.
  induction names as [|x r IH]; intros nd de; [split; [constructor|reflexivity]|]. cbn [zipd].
  destruct nd as [|k]; [destruct de as [|d de']|]; (split; [constructor; [exact I|apply IH]|cbn [pinames flat_map app]; f_equal; apply IH]).
Qed.
Lemma zipd_defs : forall names nd de, nd + length de = length names -> idefs (zipd names nd de) = de.
Proof.
  induction names as [|x r IH]; intros nd de H; cbn [zipd].
  - destruct de; [reflexivity|cbn in H; lia].
  - destruct nd as [|k].
    + destruct de as [|d de']; [cbn in H; lia|]. cbn [idefs flat_map app]. f_equal. apply IH. cbn in H. lia.
    + cbn [idefs flat_map app]. apply IH. cbn in H. lia.
Qed.
Lemma zipk_names : forall ko kd, length kd = length ko -> all_names (zipk ko kd) /\ pinames (zipk ko kd) = ko /\ idopts (zipk ko kd) = kd.
Proof.
  induction ko as [|k r IH]; intros kd H; [destruct kd; [repeat split; constructor|discriminate]|].
  destruct kd as [|d kd']; [discriminate|]. injection H as H. destruct (IH kd' H) as [A [B C]]. cbn [zipk].
  split; [constructor; [exact I|exact A]|]. split; cbn [pinames idopts flat_map app]; f_equal; assumption.
Qed.

Lemma all_names_firstn : forall l k, all_names l -> all_names (firstn k l).
Proof.
  induction l as [|i t IH]; intros k H; [destruct k; constructor|]. inversion H as [|? ? Hi Ht]; subst.
  destruct k; [constructor|]. cbn [firstn]. constructor; [exact Hi|apply IH; exact Ht].
Qed.
Lemma all_names_skipn : forall l k, all_names l -> all_names (skipn k l).
Proof.
  induction l as [|i t IH]; intros k H; [destruct k; constructor|]. inversion H as [|? ? Hi Ht]; subst.
  destruct k; [exact H|]. cbn [skipn]. apply IH. exact Ht.
Qed.

Lemma pinames_firstn : forall l k, all_names l -> pinames (firstn k l) = firstn k (pinames l).
Proof.
  induction l as [|i t IH]; intros k H; [destruct k; reflexivity|]. inversion H as [|? ? Hi Ht]; subst.
  destruct i; try contradiction. destruct k; [reflexivity|]. cbn [firstn pinames flat_map app]. f_equal. apply IH. exact Ht.
Qed.
Lemma pinames_skipn : forall l k, all_names l -> pinames (skipn k l) = skipn k (pinames l).
Proof.
  induction l as [|i t IH]; intros k H; [destruct k; reflexivity|]. inversion H as [|? ? Hi Ht]; subst.
  destruct i; try contradiction. destruct k; [reflexivity|]. cbn [skipn pinames flat_map app]. apply IH. exact Ht.
Qed.
Lemma idefs_app a b : idefs (a ++ b) = idefs a ++ idefs b.
Proof. unfold idefs. apply flat_map_app. Qed.

Lemma zipd_itemP : forall names nd de, Forall opP de -> Forall pitemP (zipd names nd de).
Proof.
  induction names as [|x r IH]; intros nd de HF; [constructor|]. cbn [zipd]. destruct nd as [|k].
  - destruct de as [|d de']; [constructor; [exact I|apply IH; constructor]|].
    inversion HF as [|? ? Hd HF']; subst. constructor; [exact Hd|apply IH; exact HF'].
  - constructor; [exact I|apply IH; exact HF].
Qed.
Lemma zipk_itemP : forall ko kd, Forall (fun o => match o with Some x => opP x | None => True end) kd -> Forall pitemP (zipk ko kd).
Proof.
  induction ko as [|k r IH]; intros kd HF; [destruct kd; constructor|]. destruct kd as [|d kd']; cbn [zipk].
  - constructor; [exact I|apply IH; constructor].
  - inversion HF as [|? ? Hd HF']; subst. constructor; [destruct d; [exact Hd|exact I]|apply IH; exact HF'].
Qed.
Lemma Forall_firstn {X} (P : X -> Prop) : forall l k, Forall P l -> Forall P (firstn k l).
Proof. induction l as [|x t IH]; intros k H; [destruct k; constructor|]. inversion H; subst. destruct k; [constructor|]. cbn. constructor; [assumption|apply IH; assumption]. Qed.
Lemma Forall_skipn {X} (P : X -> Prop) : forall l k, Forall P l -> Forall P (skipn k l).
Proof. induction l as [|x t IH]; intros k H; [destruct k; constructor|]. inversion H; subst. destruct k; [exact H|]. cbn. apply IH; assumption. Qed.

Lemma litems_itemP po ar va ko kw de kd :
  Forall opP de -> Forall (fun o => match o with Some x => opP x | None => True end) kd -> Forall pitemP (litems po ar va ko kw de kd).
Proof.
  intros Hd Hk. unfold litems. apply Forall_app. split.
  - pose proof (zipd_itemP (po ++ ar) (length (po ++ ar) - length de) de Hd) as HZ.
    destruct po; [exact HZ|]. apply Forall_app. split; [apply Forall_firstn; exact HZ|constructor; [exact I|apply Forall_skipn; exact HZ]].
  - apply Forall_app. split; [destruct va; [repeat constructor|destruct ko; repeat constructor]|].
    apply Forall_app. split; [apply zipk_itemP; exact Hk|destruct kw; repeat constructor].
Qed.

Lemma firstn_len_app {X} (a b : list X) : firstn (length a) (a ++ b) = a.
Proof. induction a as [|x t IH]; [reflexivity|]. cbn. f_equal. exact IH. Qed.
Lemma skipn_len_app {X} (a b : list X) : skipn (length a) (a ++ b) = b.
Proof. induction a as [|x t IH]; [reflexivity|]. cbn. exact IH. Qed.

Theorem params_final po ar va ko kd kw de body :
  length de <= length (po ++ ar) -> length kd = length ko ->
  p_lambda (fold_left consume (litems po ar va ko kw de kd) pst0) body = Lambda po ar va ko kd kw de body.
Proof.
  intros Hde Hkd. unfold litems. set (names := po ++ ar). set (Z := zipd names (length names - length de) de).
  destruct (zipd_names names (length names - length de) de) as [HZn HZi]. fold Z in HZn, HZi.
  assert (HZd : idefs Z = de) by (apply zipd_defs; subst names; lia).
  destruct (zipk_names ko kd Hkd) as [HKn [HKi HKd]].
  (* the positional part *)
  assert (Hpos : fold_left consume (match po with [] => Z | _ => firstn (length po) Z ++ ISlash :: skipn (length po) Z end) pst0
                 = mkP po (rev ar) None false [] [] None (rev de)).
  { destruct po as [|p0 pr].
    - rewrite pfold_pos; [|exact HZn|reflexivity]. cbn [pst0 q_po q_ar q_va q_ko q_kd q_kw q_de]. rewrite !app_nil_r, HZi, HZd. reflexivity.
    - set (po := p0 :: pr) in *. rewrite fold_left_app. cbn [fold_left].
      rewrite (pfold_pos (firstn (length po) Z)); [|apply all_names_firstn; exact HZn|reflexivity].
      cbn [consume]. unfold p_slash. cbn [pst0 q_po q_ar q_va q_star q_ko q_kd q_kw q_de].
      rewrite (pfold_pos (skipn (length po) Z)); [|apply all_names_skipn; exact HZn|reflexivity].
      cbn [q_po q_ar q_va q_star q_ko q_kd q_kw q_de]. rewrite !app_nil_r, rev_involutive.
      rewrite pinames_firstn, pinames_skipn, HZi by exact HZn.
      assert (F1 : firstn (length po) names = po) by (apply firstn_len_app).
      assert (F2 : skipn (length po) names = ar) by (apply skipn_len_app).
      rewrite F1, F2. rewrite <- rev_app_distr, <- idefs_app, firstn_skipn, HZd. reflexivity. }
  rewrite !fold_left_app, Hpos.
  (* star, keyword-only, ** *)
  assert (Hfin : forall st0, q_po st0 = po -> q_ar st0 = rev ar -> q_de st0 = rev de -> q_ko st0 = [] -> q_kd st0 = [] -> q_kw st0 = None ->
            (q_star st0 = true \/ ko = []) -> q_va st0 = va ->
            p_lambda (fold_left consume (match kw with Some k => [IDStar k] | None => [] end) (fold_left consume (zipk ko kd) st0)) body
            = Lambda po ar va ko kd kw de body).
  { intros st0 E1 E2 E3 E4 E5 E6 Hst E7.
    assert (Hk : fold_left consume (zipk ko kd) st0 = mkP po (rev ar) va (q_star st0) (rev ko) (rev kd) None (rev de)).
    { destruct Hst as [Hst|Hko].
      - rewrite pfold_kwn; [|exact HKn|exact Hst]. rewrite HKi, HKd, E1, E2, E3, E4, E5, E6, E7, Hst, !app_nil_r. reflexivity.
      - subst ko. destruct kd; [|discriminate]. cbn [zipk fold_left rev].
        destruct st0 as [a1 a2 a3 a4 a5 a6 a7 a8]; cbn [q_po q_ar q_va q_star q_ko q_kd q_kw q_de] in *. subst a1 a2 a3 a5 a6 a7 a8. reflexivity. }
    rewrite Hk. destruct kw as [k|]; cbn [fold_left consume]; unfold p_lambda, p_dstar; cbn [q_po q_ar q_va q_ko q_kd q_kw q_de];
      rewrite !rev_involutive; reflexivity. }
  destruct va as [v|].
  - cbn [fold_left consume]. apply Hfin; try reflexivity. left. reflexivity.
  - destruct ko as [|k0 kr] eqn:Eko.
    + cbn [fold_left]. apply Hfin; try reflexivity. right. reflexivity.
    + rewrite <- Eko in *. cbn [fold_left consume]. apply Hfin; try reflexivity. left. reflexivity.
Qed.

Lemma safe_parts d rest (b : bool) : edge d rest && b = true -> edge d rest = true /\ b = true.
Proof. intros H. apply andb_prop in H. exact H. Qed.

(* what the induction proves of a node: the statement for the node itself; for a starred element, for its value; for a
   slice (which is not an expression on its own), for its parts *)
Definition oQ (o : option expr) : Prop :=
  match o with Some x => core x && negb (is_starred x) = true -> opP x | None => True end.
(* a generator expression is read back in the two positions where it is printed: inside parentheses of its own, and bare as
   the only argument of a call *)
Definition gen_stmt (e : expr) : Prop :=
  (forall rest, Ev (MElems ")" [] false) (pbody e ++ PK ")" :: rest) (e, rest)) /\
  (forall rest, Ev (MArgs [] []) (pbody e ++ PK ")" :: rest) (args_carrier [e] [], rest)).
Definition Q_stmt (e : expr) : Prop :=
  match e with
  | Slice a b c => oQ a /\ oQ b /\ oQ c
  | GeneratorExp _ _ => gen_core e = true -> gen_stmt e
  | _ => core e = true -> match e with Starred v => A_stmt v | _ => A_stmt e end
  end.
(* for a tuple also the statements of its items: an index tuple that contains slices is not an expression of the core itself *)
Definition P_stmt (e : expr) : Prop :=
  Q_stmt e /\ match e with ETuple items => Forall Q_stmt items | _ => True end.

Lemma Q_use e : Q_stmt e -> core e && negb (is_starred e) = true -> core e = true /\ is_starred e = false /\ A_stmt e.
Proof.
  intros H Hc. apply andb_prop in Hc as [Hc Hs]. apply negb_true_iff in Hs. split; [exact Hc|]. split; [exact Hs|].
  destruct e; try discriminate; exact (H Hc).
Qed.

Lemma P_use e : P_stmt e -> core e && negb (is_starred e) = true -> core e = true /\ is_starred e = false /\ A_stmt e.
Proof. intros [H _]. apply Q_use. exact H. Qed.

Lemma Forall_P_ops vs : Forall P_stmt vs -> forallb (fun x => core x && negb (is_starred x)) vs = true ->
  Forall (fun w => core w = true /\ is_starred w = false /\ A_stmt w) vs.
Proof.
  intros HF Hc. rewrite forallb_forall in Hc. rewrite Forall_forall in HF |- *. intros w Hw. apply P_use; [apply HF; exact Hw|apply Hc; exact Hw].
Qed.

Lemma Forall_P_elems l : Forall P_stmt l -> forallb core l = true -> Forall elemP l.
Proof.
  intros HF Hc. rewrite forallb_forall in Hc. rewrite Forall_forall in HF |- *. intros w Hw.
  pose proof (Hc w Hw) as Hcw. pose proof (proj1 (HF w Hw)) as Hp. split; [exact Hcw|].
  destruct w; try discriminate; try exact (Hp Hcw). cbn [core] in Hcw. split; [exact (ec_core _ Hcw)|]. split; [exact (ec_nostar _ Hcw)|exact (Hp Hcw)].
Qed.

Lemma Forall_P_kws kws : Forall (fun kw => P_stmt (snd kw)) kws ->
  forallb (fun kw : option ident * expr => core (snd kw) && negb (is_starred (snd kw))) kws = true ->
  Forall itemP (map IKw kws).
Proof.
  intros HF Hc. rewrite forallb_forall in Hc. rewrite Forall_forall in HF |- *. intros i Hi.
  apply in_map_iff in Hi as [kw [<- Hkw]]. cbn [itemP]. apply P_use; [apply HF; exact Hkw|apply Hc; exact Hkw].
Qed.

Ltac atom_case HA := cbn [app]; eapply Ev_expr_atom; [reflexivity|HA|].

Lemma Forall_P_gens gs : Pg P_stmt gs ->
  forallb (fun g : comprehension => match g with
                    | (t, i, ifs, a) =>
                        core t && is_target t && core i && negb (is_starred i) &&
                        forallb (fun c => core c && negb (is_starred c)) ifs && negb a
                    end) gs = true ->
  Forall genP gs.
Proof.
  unfold Pg. intros HF Hc. rewrite forallb_forall in Hc. rewrite Forall_forall in HF |- *. intros g Hg.
  specialize (HF g Hg). specialize (Hc g Hg). destruct g as [[[t i] ifs] a]. destruct HF as [Pt [Pi Pifs]].
  apply andb_prop in Hc as [Hc Ha]. apply andb_prop in Hc as [Hc Hifs]. apply andb_prop in Hc as [Hc Hni].
  apply andb_prop in Hc as [Hc Hci]. apply andb_prop in Hc as [Hct Htt].
  apply negb_true_iff in Ha. subst a. split; [reflexivity|]. split.
  - split; [exact Hct|]. split; [exact Htt|]. destruct Pt as [Pt _]. destruct t; try discriminate; exact (Pt Hct).
  - split.
    + apply P_use; [exact Pi|]. rewrite Hci, Hni. reflexivity.
    + apply Forall_P_ops; assumption.
Qed.

(* ---------- the index of a subscription ---------- *)
Definition oP (o : option expr) : Prop := match o with Some y => opP y | None => True end.
Definition idxP (x : expr) : Prop := match x with Slice a b c => oP a /\ oP b /\ oP c | _ => opP x end.

Lemma index_item_ev x k rest : idxP x -> (k = "]" \/ k = ",") ->
  Ev MIndex (pp slot_Subscript_slice x ++ PK k :: rest) (x, PK k :: rest).
Proof.
  intros Hx Hk.
  assert (Hcl : closer k = true) by (destruct Hk as [-> | ->]; reflexivity).
  assert (Hst : slice_stop (PK k :: rest) = true) by (destruct Hk as [-> | ->]; reflexivity).
  assert (Hnc : hd_is ":" (PK k :: rest) = false) by (destruct Hk as [-> | ->]; reflexivity).
  assert (Hplain : forall y, opP y -> Ev MIndex (pp slot_Subscript_slice y ++ PK k :: rest) (y, PK k :: rest)).
  { intros y [C2 [N2 A2]].
    apply Ev_index_plain; [apply pp_head_not_key; [exact C2|reflexivity]|exact Hnc|].
    apply closed_child; [exact C2|exact N2|exact A2|exact Hcl|right; apply Nat.le_refl]. }
  destruct x; try (apply Hplain; exact Hx).
  (* a slice: lower : upper : step *)
  destruct Hx as [Qa [Qb Qc]].
  assert (Hpart : forall s y k0 r, s <= TOP -> opP y -> closer k0 = true ->
            Ev (MExpr s) (pp s y ++ PK k0 :: r) (y, PK k0 :: r) /\ slice_stop (pp s y ++ PK k0 :: r) = false /\
            hd_is ":" (pp s y ++ PK k0 :: r) = false).
  { intros s y k0 r Hs0 [Cx [Nx Ax]] Hk0. split; [|split].
    - apply closed_child; [exact Cx|exact Nx|exact Ax|exact Hk0|right; apply Nat.le_refl].
    - unfold slice_stop. rewrite !(pp_head_not_key _ y s _ Cx) by reflexivity. reflexivity.
    - apply pp_head_not_key; [exact Cx|reflexivity]. }
  rewrite pp_unfold. cbn [node_prec pbody].
  assert (E0 : Nat.ltb slot_Subscript_slice node_prec_Slice = false) by (vm_compute; reflexivity). rewrite E0. cbn [pparen].
  rewrite <- !app_assoc. cbn [app]. rewrite <- !app_assoc. cbn [app].
  assert (Hstep : forall lo up, Ev (MSliceStep lo up)
             ((match step with Some y => pp slot_Slice_step y | None => [] end) ++ PK k :: rest)
             (Slice lo up step, PK k :: rest)).
  { intros lo up. destruct step as [y|].
    - destruct (Hpart slot_Slice_step y k rest (ltac:(vm_compute; lia)) Qc Hcl) as [E1 [E2 _]].
      apply Ev_step_some; assumption.
    - cbn [app]. apply Ev_step_none. exact Hst. }
  assert (Hup : forall lo, Ev (MSliceUp lo)
             ((match upper with Some y => pp slot_Slice_upper y | None => [] end) ++ PK ":" ::
              (match step with Some y => pp slot_Slice_step y | None => [] end) ++ PK k :: rest)
             (Slice lo upper step, PK k :: rest)).
  { intros lo. destruct upper as [y|].
    - destruct (Hpart slot_Slice_upper y ":" ((match step with Some y => pp slot_Slice_step y | None => [] end) ++ PK k :: rest)
                  (ltac:(vm_compute; lia)) Qb eq_refl) as [E1 [E2 _]].
      eapply Ev_up_some; [exact E2|exact E1|apply Hstep].
    - cbn [app]. apply Ev_up_none. apply Hstep. }
  destruct lower as [y|].
  - destruct (Hpart slot_Subscript_slice y ":"
                ((match upper with Some y => pp slot_Slice_upper y | None => [] end) ++ PK ":" ::
                 (match step with Some y => pp slot_Slice_step y | None => [] end) ++ PK k :: rest)
                (ltac:(vm_compute; lia)) Qa eq_refl) as [E1 [_ E3]].
    change slot_Slice_lower with slot_Subscript_slice.
    eapply Ev_index_lower; [exact E3|exact E1|apply Hup].
  - cbn [app]. apply Ev_index_colon. apply Hup.
Qed.

Lemma idx_head_not_close x rest : idxP x -> hd_is "]" (pp slot_Subscript_slice x ++ rest) = false.
Proof.
  intros Hx. destruct x; try (destruct Hx as [C _]; apply pp_head_not_key; [exact C|reflexivity]).
  destruct Hx as [Qa _]. rewrite pp_unfold. cbn [node_prec pbody].
  assert (E0 : Nat.ltb slot_Subscript_slice node_prec_Slice = false) by (vm_compute; reflexivity). rewrite E0. cbn [pparen].
  destruct lower as [y|]; [|reflexivity]. destruct Qa as [C _]. rewrite <- !app_assoc. apply pp_head_not_key; [exact C|reflexivity].
Qed.

(* items separated by commas, closed by the bracket: x1, x2, ..., xn] *)
Lemma index_items_chain rest : forall items acc, items <> [] -> (acc <> [] \/ 2 <= length items) -> Forall idxP items ->
  Ev (MItems acc) (join [PK ","] (map (pp slot_Subscript_slice) items) ++ PK "]" :: rest)
     (ETuple (rev acc ++ items), PK "]" :: rest).
Proof.
  induction items as [|x t IH]; intros acc Hne Hsz HF; [contradiction|].
  inversion HF as [|? ? Hx Ht]; subst. destruct t as [|y t'].
  - cbn [map join]. destruct Hsz as [Hacc|Hl]; [|cbn [length] in Hl; lia].
    pose proof (Ev_items_last acc _ x (PK "]" :: rest) (idx_head_not_close x _ Hx) eq_refl (index_item_ev x "]" rest Hx (or_introl eq_refl))) as H.
    destruct acc as [|a0 acc']; [contradiction|]. cbn [rev] in H |- *. exact H.
  - cbn [map]. rewrite (join_cons2 [PK ","]). rewrite <- !app_assoc. cbn [app].
    eapply Ev_items_more; [apply idx_head_not_close; exact Hx|apply (index_item_ev x ","); [exact Hx|right; reflexivity]|].
    assert (Hne1 : y :: t' <> []) by discriminate.
    assert (Hne2 : x :: acc <> [] \/ 2 <= length (y :: t')) by (left; discriminate).
    pose proof (IH (x :: acc) Hne1 Hne2 Ht) as IH'.
    cbn [rev] in IH'. rewrite <- app_assoc in IH'. exact IH'.
Qed.

Lemma core_call f args kws : core (Call f args kws) = true ->
  ecore f = true /\
  ((exists x gs, args = [GeneratorExp x gs] /\ kws = [] /\ gen_core (GeneratorExp x gs) = true) \/
   (forallb core args = true /\ forallb (fun kw => core (snd kw) && negb (is_starred (snd kw))) kws = true)).
Proof.
  cbn [core]. intros H. apply andb_prop in H as [Hf Hm]. split; [exact Hf|].
  destruct args as [|x [|y t]]; destruct kws as [|k kt]; try destruct x;
    try (right; apply andb_prop in Hm; exact Hm).
  left. eexists _, _. split; [reflexivity|]. split; [reflexivity|exact Hm].
Qed.

Theorem A_all : forall e, P_stmt e.
Proof.
  induction e using expr_ind';
    (split; [|first [exact I|unfold Pl in *; eapply Forall_impl; [|eassumption]; intros ? [HQ _]; exact HQ]]);
    unfold Q_stmt; cbn beta iota;
    try (intros Hc; cbn [core] in Hc; try discriminate; cbn beta iota; try (intros n rest res Hp Hs Hloop; cbn [pbody])).
  - (* Name *) cbn [safe] in Hs. cbn [app]. eapply Ev_expr_atom; [apply prefix_name; exact Hs|apply Ev_atom_name|exact Hloop].
  - (* Constant *) cbn [app]. eapply Ev_expr_atom; [reflexivity|apply Ev_atom_lit|exact Hloop].
  - (* Starred: the statement is about the value *)
    destruct (P_use e IHe Hc) as [_ [_ HA]]. apply HA; assumption.
  - (* BinOp *) apply andb_prop in Hc as [Hc1 Hc2].
    destruct (P_use e1 IHe1 Hc1) as [C1 [N1 A1]]. destruct (P_use e2 IHe2 Hc2) as [C2 [N2 A2]].
    cbn [safe] in Hs. apply safe_parts in Hs as [He Hsub]. cbn [node_prec] in Hp.
    rewrite <- app_assoc. cbn [app].
    apply (child_of_A e1 C1 N1 A1 (slot_BinOp_left o) n).
    + intros Hle. split; [pose proof (np_binop_left e1 o C1 Hle); lia|].
      apply (safe_of_rest_ok e1 C1 (slot_BinOp_left o)); [exact Hle|apply ctx_binop].
    + eapply Ev_loop_bin; [apply classify_binop|exact Hp| |exact Hloop].
      apply right_child; [exact C2|exact N2|exact A2|exact Hsub|exact (edge_stop _ _ He)].
  - (* BoolOp *) apply andb_prop in Hc as [Hlen Hc]. destruct vs as [|v1 [|v2 t]]; try discriminate.
    cbn [safe] in Hs. apply safe_parts in Hs as [He Hsub]. cbn [node_prec] in Hp.
    unfold Pl in H. pose proof (Forall_P_ops _ H Hc) as HF. inversion HF as [|? ? [Hc1 [Hn1 HA1]] HF']; subst.
    rewrite join_btoks. rewrite <- app_assoc.
    apply (child_of_A v1 Hc1 Hn1 HA1 (slot_BoolOp o) n).
    + intros Hle. split; [pose proof (np_boolop v1 o Hc1 Hle); lia|]. rewrite btoks_cons.
      apply (safe_of_rest_ok v1 Hc1 (slot_BoolOp o)); [exact Hle|apply ctx_boolop].
    + apply (bool_chain n o rest res Hp (edge_stop _ _ He) (v2 :: t) [v1] v1 CNone).
      * discriminate.
      * exact HF'.
      * intros w. reflexivity.
      * exact Hsub.
      * apply Ev_loop_flag; [exact (edge_chain _ _ He)|exact Hloop].
  - (* UnaryOp *) destruct (P_use e IHe Hc) as [C [N A]].
    cbn [safe] in Hs. apply safe_parts in Hs as [He Hsub]. cbn [node_prec] in Hp. cbn [app].
    eapply Ev_expr_un; [apply prefix_unop|exact Hp| |exact Hloop].
    apply right_child; [exact C|exact N|exact A|exact Hsub|exact (edge_stop _ _ He)].
  - (* List *) unfold Pl in H. pose proof (Forall_P_elems _ H Hc) as HF. cbn [app]. rewrite <- app_assoc. cbn [app].
    eapply Ev_expr_atom; [reflexivity| |exact Hloop]. apply Ev_atom_list.
    destruct l as [|x t].
    + cbn [map join app]. apply (Ev_elems_close "]" [] false rest (ETuple [])). reflexivity.
    + apply (elems_chain "]" slot_List_elt rest); try reflexivity; [vm_compute; lia|discriminate|exact HF|].
      unfold finish. cbn [String.eqb Ascii.eqb Bool.eqb andb]. rewrite app_nil_r, rev_involutive. reflexivity.
  - (* Tuple *) unfold Pl in H. pose proof (Forall_P_elems _ H Hc) as HF.
    destruct l as [|x [|y t]].
    + cbn [map join app]. eapply Ev_expr_atom; [reflexivity| |exact Hloop]. apply Ev_atom_paren'.
      apply (Ev_elems_close ")" [] false rest (ETuple [])). reflexivity.
    + cbn [app]. rewrite <- app_assoc. cbn [app].
      eapply Ev_expr_atom; [reflexivity| |exact Hloop]. apply Ev_atom_paren'.
      inversion HF as [|? ? Hx _]; subst.
      eapply Ev_elems_more; [apply elem_head_not; [exact Hx|reflexivity]|apply elem_closed; [exact Hx|reflexivity|vm_compute; lia]|].
      apply (Ev_elems_close ")" [x] true rest (ETuple [x])). reflexivity.
    + cbn [app]. rewrite <- app_assoc. cbn [app].
      eapply Ev_expr_atom; [reflexivity| |exact Hloop]. apply Ev_atom_paren'.
      apply (elems_chain ")" slot_Tuple_elt rest); try reflexivity; [vm_compute; lia|discriminate|exact HF|].
      unfold finish. cbn [length Nat.leb orb negb andb]. rewrite andb_false_r. rewrite app_nil_r, rev_involutive. reflexivity.
  - (* Set *) apply andb_prop in Hc as [Hlen Hc]. unfold Pl in H. pose proof (Forall_P_elems _ H Hc) as HF.
    destruct l as [|x t]; [discriminate|]. cbn [app]. rewrite <- app_assoc. cbn [app].
    eapply Ev_expr_atom; [reflexivity| |exact Hloop].
    inversion HF as [|? ? Hx HFt]; subst.
    apply Ev_atom_set.
    { change (hd_is "}" (join [PK ","] (map (pp slot_Set_elt) (x :: t)) ++ PK "}" :: rest) = false).
      destruct t as [|y t']; [cbn [map join]|cbn [map]; rewrite join_cons2, <- !app_assoc]; apply elem_head_not; [exact Hx|reflexivity|exact Hx|reflexivity]. }
    { destruct t as [|y t']; [cbn [map join]|cbn [map]; rewrite join_cons2, <- !app_assoc]; apply elem_head_not; [exact Hx|reflexivity|exact Hx|reflexivity]. }
    { apply first_elem_not_key; [exact Hx|vm_compute; lia]. }
    apply (elems_chain "}" slot_Set_elt rest); try reflexivity; [vm_compute; lia|discriminate|exact HF|].
    unfold finish. cbn [String.eqb Ascii.eqb Bool.eqb andb]. rewrite app_nil_r, rev_involutive. reflexivity.
  - (* Dict *) apply andb_prop in Hc as [Hc Hvs]. apply andb_prop in Hc as [Hlen Hks]. apply Nat.eqb_eq in Hlen.
    assert (HK : Forall dkeyP ks).
    { rewrite forallb_forall in Hks. rewrite Forall_forall in H |- *. intros k Hk. specialize (H k Hk). specialize (Hks k Hk).
      destruct k as [x|]; [|exact I]. cbn [dkeyP]. apply P_use; assumption. }
    assert (HV : Forall opP vs) by (unfold Pl in H0; apply Forall_P_ops; assumption).
    cbn [app]. rewrite <- app_assoc. cbn [app].
    eapply Ev_expr_atom; [reflexivity| |exact Hloop].
    destruct ks as [|k ks']; destruct vs as [|v vs']; try discriminate.
    + cbn [ditems ditems_t map join app]. apply Ev_atom_dict0.
    + injection Hlen as Hlen. inversion HK as [|? ? Hk HK']; subst. inversion HV as [|? ? Hv HV']; subst.
      assert (E : ditems (k :: ks') (v :: vs') =
                  (match k with Some x => pp slot_Dict_key x ++ PK ":" :: pp slot_Dict_value v | None => PK "**" :: pp slot_Dict_starvalue v end)
                  :: ditems ks' vs') by (destruct k; reflexivity).
      rewrite E, join_dtail, <- app_assoc.
      pose proof (dsep_chain rest ks' vs' [k] [v] Hlen HK' HV') as Hrest. cbn [rev app] in Hrest.
      destruct (dtail_head (ditems ks' vs') rest) as [c [r [Ec Hc]]]. rewrite Ec in Hrest |- *.
      assert (Hcl : closer c = true) by (destruct Hc; subst; reflexivity).
      destruct Hv as [Cv [Nv Av]].
      destruct k as [x|].
      * destruct Hk as [Cx [Nx Ax]]. rewrite <- app_assoc. cbn [app].
        eapply Ev_atom_dict_key; [apply pp_head_not_key; [exact Cx|reflexivity]|apply pp_head_not_key; [exact Cx|reflexivity]
                                 |apply pp_head_nostar; assumption| | | |exact Hrest].
        -- apply closed_child; [exact Cx|exact Nx|exact Ax|reflexivity|left; apply Nat.le_refl].
        -- apply closed_child; [exact Cv|exact Nv|exact Av|exact Hcl|left; apply Nat.le_refl].
        -- destruct Hc; subst; reflexivity.
      * cbn [app]. apply Ev_atom_dict_star; [reflexivity|reflexivity|].
        eapply Ev_dict_star; [reflexivity|reflexivity| |exact Hrest]. cbn [tl].
        apply closed_child; [exact Cv|exact Nv|exact Av|exact Hcl|right; apply Nat.le_refl].
  - (* Compare *) apply andb_prop in Hc as [Hc Hcs]. apply andb_prop in Hc as [Hc Hlen1]. apply andb_prop in Hc as [Hcl Hlen].
    destruct (P_use e IHe Hcl) as [C [N A]].
    apply Nat.eqb_eq in Hlen. cbn [safe] in Hs. apply safe_parts in Hs as [He Hsub]. cbn [node_prec] in Hp.
    unfold Pl in H. pose proof (Forall_P_ops _ H Hcs) as HF.
    change ((fix go (cs0 : list expr) (ops0 : list cmpop) {struct cs0} : list pt :=
          match cs0 with
          | [] => []
          | c :: cs' => match ops0 with [] => [] | o :: ops' => map PK (cmp_keys o) ++ pp slot_Compare_comparator c ++ go cs' ops' end
          end) cs ops) with (ctoks cs ops).
    rewrite <- app_assoc.
    destruct cs as [|c1 cs']; [discriminate|]. destruct ops as [|o1 ops']; [discriminate|].
    apply (child_of_A e C N A slot_Compare_left n).
    + intros Hle. split.
      * assert (G : node_prec e <= node_prec_Compare).
        { apply (np_small slot_Compare_left node_prec_Compare e); [vm_compute; reflexivity|exact C|exact Hle]. }
        lia.
      * rewrite ctoks_cons. apply (safe_of_rest_ok e C slot_Compare_left); [exact Hle|apply ctx_cmp].
    + apply (cmp_chain n e rest res Hp (edge_stop _ _ He) (c1 :: cs') (o1 :: ops') [] [] e CNone).
      * discriminate.
      * exact Hlen.
      * exact HF.
      * intros o c. reflexivity.
      * exact Hsub.
      * apply Ev_loop_flag; [exact (edge_chain _ _ He)|exact Hloop].
  - (* Attribute *) destruct (P_use e IHe Hc) as [C [N A]]. cbn [node_prec] in Hp. rewrite <- app_assoc. cbn [app].
    destruct (int_literal e) eqn:Ei.
    { cbn [pparen app]. rewrite <- app_assoc. cbn [app].
      eapply Ev_expr_atom; [reflexivity| |apply Ev_loop_dot; exact Hloop].
      apply Ev_atom_paren'.
      eapply Ev_elems_last; [apply pp_head_not_close; exact C|right; split; [apply pp_head_nostar; assumption|]|reflexivity|].
      - apply closed_child; [exact C|exact N|exact A|reflexivity|left; apply Nat.le_refl].
      - unfold finish. cbn [String.eqb Ascii.eqb Bool.eqb andb negb]. rewrite N. reflexivity. }
    cbn [pparen].
    apply (child_of_A e C N A slot_Attribute_value n).
    + intros Hle. split.
      * assert (G : node_prec e <= node_prec_Attribute).
        { apply (np_small slot_Attribute_value node_prec_Attribute e); [vm_compute; reflexivity|exact C|exact Hle]. }
        lia.
      * apply (safe_of_rest_ok e C slot_Attribute_value); [exact Hle|apply ctx_trailer; reflexivity].
    + apply Ev_loop_dot. exact Hloop.
  - (* Subscript *) apply andb_prop in Hc as [Hc1 Hc2].
    destruct (P_use e1 IHe1 Hc1) as [C1 [N1 A1]]. cbn [node_prec] in Hp.
    rewrite <- app_assoc. cbn [app]. rewrite <- app_assoc. cbn [app].
    apply (child_of_A e1 C1 N1 A1 slot_Subscript_value n).
    + intros Hle. split.
      * assert (G : node_prec e1 <= node_prec_Subscript).
        { apply (np_small slot_Subscript_value node_prec_Subscript e1); [vm_compute; reflexivity|exact C1|exact Hle]. }
        lia.
      * apply (safe_of_rest_ok e1 C1 slot_Attribute_value); [exact Hle|apply ctx_trailer; reflexivity].
    + eapply Ev_loop_sub; [|exact Hloop].
      (* one item: an expression or a slice *)
      assert (Hone : idxP e2 -> Ev (MItems []) (pp slot_Subscript_slice e2 ++ PK "]" :: rest) (e2, PK "]" :: rest)).
      { intros Hx. apply (Ev_items_last [] _ e2 (PK "]" :: rest)); [apply idx_head_not_close; exact Hx|reflexivity|].
        apply index_item_ev; [exact Hx|left; reflexivity]. }
      assert (Hexpr : forall x, P_stmt x -> core x && negb (is_starred x) = true -> opP x) by (intros x Px Hx; exact (P_use x Px Hx)).
      assert (Hq : forall o, oQ o -> match o with Some y => core y && negb (is_starred y) | None => true end = true -> oP o).
      { intros [y|] Qy Hy; [exact (Qy Hy)|exact I]. }
      assert (Hslice : forall a b c, Q_stmt (Slice a b c) ->
                (match a with Some y => core y && negb (is_starred y) | None => true end) &&
                (match b with Some y => core y && negb (is_starred y) | None => true end) &&
                (match c with Some y => core y && negb (is_starred y) | None => true end) = true -> idxP (Slice a b c)).
      { intros a b c [Qa [Qb Qc]] Hs3. apply andb_prop in Hs3 as [Hs3 Hcc]. apply andb_prop in Hs3 as [Hca Hcb].
        split; [apply Hq; assumption|]. split; apply Hq; assumption. }
      destruct e2; try (apply Hone; apply (Hexpr _ IHe2 Hc2)).
      * (* an index tuple: with a slice among its items it is printed bare *)
        unfold index_toks. destruct (existsb is_slice elts) eqn:Es; [|apply Hone; apply (Hexpr _ IHe2 Hc2)].
        destruct IHe2 as [_ HQ].
        assert (HF : Forall idxP elts).
        { rewrite forallb_forall in Hc2. rewrite Forall_forall in HQ |- *. intros x Hin. specialize (HQ x Hin). specialize (Hc2 x Hin).
          destruct x; try (apply (Q_use _ HQ Hc2)). apply Hslice; assumption. }
        change slot_Subscript_tuple_item with slot_Subscript_slice.
        destruct elts as [|x [|y t]]; [discriminate Es| |].
        -- (* one item: x,] *)
           inversion HF as [|? ? Hx _]; subst. cbn [map join app]. rewrite <- app_assoc. cbn [app].
           eapply Ev_items_more; [apply idx_head_not_close; exact Hx|apply index_item_ev; [exact Hx|right; reflexivity]|].
           apply (Ev_items_trailing x [] rest).
        -- rewrite app_nil_r.
           apply (index_items_chain rest (x :: y :: t) []); [discriminate|right; cbn [length]; lia|exact HF].
      * (* a slice *) apply Hone. destruct IHe2 as [HQ _]. apply Hslice; assumption.
  - (* Slice: nothing of its own, the parts' statements are handed on *)
    assert (G : forall o, Po P_stmt o -> oQ o).
    { intros [x|] Hx; [|exact I]. cbn [Po oQ] in *. intros Hcx. apply P_use; assumption. }
    split; [apply G; exact H|]. split; [apply G; exact H0|apply G; exact H1].
  - (* Call *) assert (Hc' : core (Call e args kws) = true) by exact Hc. clear Hc.
    apply core_call in Hc' as [Hcf Hm].
    assert (Hold : forallb core args = true ->
                   forallb (fun kw => core (snd kw) && negb (is_starred (snd kw))) kws = true ->
                   Ev (MExpr n) (pbody (Call e args kws) ++ rest) res).
    { intros Hca Hck. cbn [pbody].
      destruct (P_use e IHe Hcf) as [C [N A]]. cbn [node_prec] in Hp.
      unfold Pl in H. pose proof (Forall_P_elems _ H Hca) as HFa. pose proof (Forall_P_kws _ H0 Hck) as HFk.
      rewrite <- app_assoc. cbn [app]. rewrite <- app_assoc.
      apply (child_of_A e C N A slot_Call_func n).
      + intros Hle. split.
        * assert (G : node_prec e <= node_prec_Call).
          { apply (np_small slot_Call_func node_prec_Call e); [vm_compute; reflexivity|exact C|exact Hle]. }
          lia.
        * apply (safe_of_rest_ok e C slot_Attribute_value); [exact Hle|apply ctx_trailer; reflexivity].
      + assert (Hitems : forall s, s <= TOP -> (args <> [] \/ kws <> []) ->
                  Ev (MArgs [] []) (join [PK ","] (map (pp s) args ++ map kwp kws) ++ PK ")" :: rest)
                     (Call (Name "") args kws, rest)).
        { intros s Hsl Hne.
          replace (map (pp s) args ++ map kwp kws) with (map itoks (map (IPos s) args ++ map IKw kws))
            by (rewrite map_app, !map_map; reflexivity).
          pose proof (items_chain rest (map (IPos s) args ++ map IKw kws) [] []) as HI.
          rewrite fold_left_app, fold_pos, fold_kw in HI. cbn [fst snd] in HI. rewrite !app_nil_r in HI.
          unfold args_carrier in HI. rewrite !rev_involutive in HI. apply HI.
          - destruct Hne as [Hne|Hne]; [destruct args; [contradiction|discriminate]|destruct kws; [contradiction|]].
            destruct args; discriminate.
          - apply Forall_app. split; [|exact HFk]. rewrite Forall_forall in HFa |- *. intros i Hi.
            apply in_map_iff in Hi as [a [<- Ha]]. split; [apply HFa; exact Ha|exact Hsl]. }
        eapply Ev_loop_call; [|exact Hloop].
        destruct args as [|x [|y t]]; destruct kws as [|k1 kt].
        * cbn [map join app]. apply (Ev_args_close [] []).
        * apply (Hitems slot_Call_arg); [vm_compute; lia|right; discriminate].
        * cbn [app]. change (pp slot_Call_onlyarg x) with (join [PK ","] (map (pp slot_Call_onlyarg) [x] ++ map kwp [])).
          apply (Hitems slot_Call_onlyarg); [apply Nat.le_refl|left; discriminate].
        * apply (Hitems slot_Call_arg); [vm_compute; lia|left; discriminate].
        * apply (Hitems slot_Call_arg); [vm_compute; lia|left; discriminate].
        * apply (Hitems slot_Call_arg); [vm_compute; lia|left; discriminate]. }
    cbn [pbody] in Hold.
    destruct Hm as [[x [gs [-> [-> Hm]]]]|[Ha Hk]]; [|apply Hold; assumption].
    (* f(x for x in y) *)
    clear Hold. inversion H as [|? ? Hgen _]; subst. destruct Hgen as [Hgen _]. cbn beta iota in Hgen.
    destruct (Hgen Hm) as [_ Harg].
    destruct (P_use e IHe Hcf) as [C [N A]]. cbn [node_prec] in Hp.
    rewrite <- app_assoc. cbn [app]. rewrite <- app_assoc.
    apply (child_of_A e C N A slot_Call_func n).
    + intros Hle. split.
      * assert (G : node_prec e <= node_prec_Call).
        { apply (np_small slot_Call_func node_prec_Call e); [vm_compute; reflexivity|exact C|exact Hle]. }
        lia.
      * apply (safe_of_rest_ok e C slot_Attribute_value); [exact Hle|apply ctx_trailer; reflexivity].
    + eapply Ev_loop_call; [|exact Hloop]. rewrite pp_unfold.
      change (Nat.ltb slot_Call_onlyarg (node_prec (GeneratorExp x gs))) with false. cbn [pparen app]. apply Harg.
  - (* NamedExpr *) destruct (P_use e IHe Hc) as [C [N A]].
    cbn [safe] in Hs. apply safe_parts in Hs as [He Hsub]. cbn [node_prec] in Hp. cbn [app].
    eapply Ev_expr_wal; [exact Hp| |exact Hloop].
    apply right_child; [exact C|exact N|exact A|exact Hsub|exact (edge_stop _ _ He)].
  - (* Lambda *) apply andb_prop in Hc as [Hc Hckd]. apply andb_prop in Hc as [Hc Hcde]. apply andb_prop in Hc as [Hc Hlk].
    apply andb_prop in Hc as [Hcb Hld]. apply Nat.leb_le in Hld. apply Nat.eqb_eq in Hlk.
    destruct (P_use e IHe Hcb) as [C [N A]].
    assert (HDE : Forall opP de) by (unfold Pl in H0; apply Forall_P_ops; assumption).
    assert (HKD : Forall (fun o => match o with Some x => opP x | None => True end) kd).
    { rewrite forallb_forall in Hckd. rewrite Forall_forall in H |- *. intros o Ho. specialize (H o Ho). specialize (Hckd o Ho).
      destruct o as [x|]; [|exact I]. apply P_use; assumption. }
    cbn [safe] in Hs. apply safe_parts in Hs as [He Hsub]. cbn [node_prec] in Hp. cbn [app].
    change (map (fun o : option expr => match o with Some x => Some (pp slot_Lambda_kwdefault x) | None => None end) kd)
      with (map (option_map (pp slot_Lambda_default)) kd).
    rewrite litems_map, map_map, (map_ext _ _ itoks_imap). rewrite <- app_assoc. cbn [app].
    apply Ev_expr_lam; [exact Hp|].
    assert (Hbody : forall st, p_lambda st e = Lambda po ar va ko kd kw de e ->
               Ev (MParams n st) (PK ":" :: pp slot_Lambda_body e ++ rest) res).
    { intros st Est. eapply Ev_params_body; [|rewrite Est; exact Hloop].
      apply right_child; [exact C|exact N|exact A|exact Hsub|exact (edge_stop _ _ He)]. }
    pose proof (params_final po ar va ko kd kw de e Hld Hlk) as Hfin.
    destruct (litems po ar va ko kw de kd) as [|i0 it] eqn:Ei.
    + cbn [map join app]. apply Hbody. exact Hfin.
    + rewrite <- Ei in *. apply params_chain; [rewrite Ei; discriminate|apply litems_itemP; assumption|]. apply Hbody. exact Hfin.
  - (* ListComp *) apply andb_prop in Hc as [Hc Hgs]. apply andb_prop in Hc as [Hcx Hlen].
    destruct (P_use e IHe Hcx) as [C [N A]]. pose proof (Forall_P_gens _ H Hgs) as HG.
    cbn [app]. rewrite <- !app_assoc. cbn [app].
    eapply Ev_expr_atom; [reflexivity| |exact Hloop]. apply Ev_atom_listcomp.
    destruct gs as [|g1 gt]; [discriminate|].
    destruct g1 as [[[t1 i1] ifs1] a1]. inversion HG as [|? ? Hg1 _]; subst. destruct Hg1 as [-> _].
    eapply (Ev_elems_comp "]" false _ e _ (Name "")).
    + apply pp_head_not_key; [exact C|reflexivity].
    + apply pp_head_nostar; assumption.
    + exact N.
    + reflexivity.
    + rewrite gtoks_cons, gtok_unfold. apply closed_child; [exact C|exact N|exact A|reflexivity|left; apply Nat.le_refl].
    + rewrite <- gtok_unfold, <- gtoks_cons. apply (gens_chain "]" rest eq_refl eq_refl _ [] HG).
  - (* SetComp *) apply andb_prop in Hc as [Hc Hgs]. apply andb_prop in Hc as [Hcx Hlen].
    destruct (P_use e IHe Hcx) as [C [N A]]. pose proof (Forall_P_gens _ H Hgs) as HG.
    cbn [app]. rewrite <- !app_assoc. cbn [app].
    eapply Ev_expr_atom; [reflexivity| |exact Hloop].
    destruct gs as [|g1 gt]; [discriminate|].
    destruct g1 as [[[t1 i1] ifs1] a1]. inversion HG as [|? ? Hg1 _]; subst. destruct Hg1 as [-> _].
    assert (Hfirst : Ev (MExpr TOP) (pp slot_SetComp_elt e ++ gtoks ((t1, i1, ifs1, false) :: gt) ++ PK "}" :: rest)
                        (e, gtoks ((t1, i1, ifs1, false) :: gt) ++ PK "}" :: rest)).
    { rewrite gtoks_cons, gtok_unfold. apply closed_child; [exact C|exact N|exact A|reflexivity|left; apply Nat.le_refl]. }
    apply Ev_atom_setcomp.
    { apply pp_head_not_key; [exact C|reflexivity]. }
    { apply pp_head_not_key; [exact C|reflexivity]. }
    { right. rewrite gtoks_cons, gtok_unfold in Hfirst |- *. eexists _, _, _. split; [exact Hfirst|reflexivity]. }
    eapply (Ev_elems_comp "}" false _ e _ (Name "")).
    + apply pp_head_not_key; [exact C|reflexivity].
    + apply pp_head_nostar; assumption.
    + exact N.
    + reflexivity.
    + rewrite gtoks_cons, gtok_unfold. apply closed_child; [exact C|exact N|exact A|reflexivity|left; apply Nat.le_refl].
    + rewrite <- gtok_unfold, <- gtoks_cons. apply (gens_chain "}" rest eq_refl eq_refl _ [] HG).
  - (* GeneratorExp: inside its own parentheses, and bare as the only argument of a call *)
    unfold gen_core, ecore, gens_core in Hc. apply andb_prop in Hc as [Hc Hgs]. apply andb_prop in Hc as [Hcx Hlen].
    destruct (P_use e IHe Hcx) as [C [N A]]. pose proof (Forall_P_gens _ H Hgs) as HG.
    destruct gs as [|g1 gt]; [discriminate|].
    destruct g1 as [[[t1 i1] ifs1] a1]. inversion HG as [|? ? Hg1 _]; subst. destruct Hg1 as [-> _].
    assert (Hfirst : forall rest, Ev (MExpr TOP) (pp slot_GeneratorExp_elt e ++ gtoks ((t1, i1, ifs1, false) :: gt) ++ PK ")" :: rest)
                        (e, gtoks ((t1, i1, ifs1, false) :: gt) ++ PK ")" :: rest)).
    { intros rest. rewrite gtoks_cons, gtok_unfold. apply closed_child; [exact C|exact N|exact A|reflexivity|left; apply Nat.le_refl]. }
    assert (Hgens : forall rest, Ev (MGens []) (gtoks ((t1, i1, ifs1, false) :: gt) ++ PK ")" :: rest)
                      (GeneratorExp (Name "") ((t1, i1, ifs1, false) :: gt), PK ")" :: rest)).
    { intros rest. apply (gens_chain ")" rest eq_refl eq_refl _ [] HG). }
    split; intros rest; cbn [pbody]; rewrite <- app_assoc.
    + eapply (Ev_elems_comp ")" false _ e _ (Name "")).
      * apply pp_head_not_key; [exact C|reflexivity].
      * apply pp_head_nostar; assumption.
      * exact N.
      * reflexivity.
      * specialize (Hfirst rest). rewrite gtoks_cons, gtok_unfold in Hfirst |- *. exact Hfirst.
      * specialize (Hgens rest). rewrite gtoks_cons, gtok_unfold in Hgens. exact Hgens.
    + eapply (Ev_args_gen _ e _ (Name "")).
      * apply pp_head_not_key; [exact C|reflexivity].
      * apply pp_head_not_key; [exact C|reflexivity].
      * apply pp_head_nostar; assumption.
      * apply pp_nokw; [exact C|]. rewrite gtoks_cons, gtok_unfold. reflexivity.
      * apply Hfirst.
      * rewrite gtoks_cons, gtok_unfold. reflexivity.
      * apply Hgens.
  - (* DictComp *) apply andb_prop in Hc as [Hc Hgs]. apply andb_prop in Hc as [Hc Hlen]. apply andb_prop in Hc as [Hck Hcv].
    destruct (P_use e1 IHe1 Hck) as [Ck [Nk Ak]]. destruct (P_use e2 IHe2 Hcv) as [Cv [Nv Av]].
    pose proof (Forall_P_gens _ H Hgs) as HG.
    cbn [app]. rewrite <- !app_assoc. cbn [app]. rewrite <- !app_assoc. cbn [app].
    eapply Ev_expr_atom; [reflexivity| |exact Hloop].
    destruct gs as [|g1 gt]; [discriminate|].
    destruct g1 as [[[t1 i1] ifs1] a1]. inversion HG as [|? ? Hg1 _]; subst. destruct Hg1 as [-> _].
    eapply (Ev_atom_dictcomp _ e1 _ e2 _ (Name "")).
    + apply pp_head_not_key; [exact Ck|reflexivity].
    + apply pp_head_not_key; [exact Ck|reflexivity].
    + apply pp_head_nostar; assumption.
    + apply closed_child; [exact Ck|exact Nk|exact Ak|reflexivity|left; apply Nat.le_refl].
    + rewrite gtoks_cons, gtok_unfold. apply closed_child; [exact Cv|exact Nv|exact Av|reflexivity|left; apply Nat.le_refl].
    + rewrite <- gtok_unfold, <- gtoks_cons. apply (gens_chain "}" rest eq_refl eq_refl _ [] HG).
  - (* IfExp *) apply andb_prop in Hc as [Hc Hc3]. apply andb_prop in Hc as [Hc1 Hc2].
    destruct (P_use e1 IHe1 Hc1) as [C1 [N1 A1]]. destruct (P_use e2 IHe2 Hc2) as [C2 [N2 A2]]. destruct (P_use e3 IHe3 Hc3) as [C3 [N3 A3]].
    cbn [safe] in Hs. apply safe_parts in Hs as [He Hsub]. cbn [node_prec] in Hp.
    rewrite <- app_assoc. cbn [app]. rewrite <- app_assoc. cbn [app].
    apply (child_of_A e2 C2 N2 A2 slot_IfExp_body n).
    + intros Hle. split.
      * assert (G : node_prec e2 <= node_prec_IfExp).
        { apply (np_small slot_IfExp_body node_prec_IfExp e2); [vm_compute; reflexivity|exact C2|exact Hle]. }
        lia.
      * apply (safe_of_rest_ok e2 C2 slot_IfExp_body); [exact Hle|apply ctx_if].
    + eapply Ev_loop_if; [exact Hp| | |exact Hloop].
      * apply closed_child; [exact C1|exact N1|exact A1|reflexivity|right; lia].
      * apply right_child; [exact C3|exact N3|exact A3|exact Hsub|exact (edge_stop _ _ He)].
Qed.

(* THEOREM: for every tree of the core, of any depth, the parser reads back exactly the tree from what the printer
   wrote (with any sufficiently large fuel, and nothing left over) *)
Theorem roundtrip_core : forall e, core e = true -> is_starred e = false ->
  exists f0, forall f, f0 <= f -> pc f (MExpr slot_top) (pp slot_top e) = Some (e, []).
Proof.
  intros e Hc Hns. rewrite <- (app_nil_r (pp slot_top e)).
  assert (HA : A_stmt e) by (destruct (A_all e) as [H _]; destruct e; try discriminate; exact (H Hc)).
  apply (child_of_A e Hc Hns HA slot_top slot_top [] (e, [])).
  - intros Hle. split; [exact Hle|]. apply (safe_of_rest_ok e Hc slot_top); [exact Hle|vm_compute; reflexivity].
  - apply Ev_loop_stop. reflexivity.
Qed.

(* a generator expression as a whole expression: (x for x in y) *)
Theorem roundtrip_gen : forall e, gen_core e = true ->
  exists f0, forall f, f0 <= f -> pc f (MExpr slot_top) (pp slot_top e) = Some (e, []).
Proof.
  intros e0 Hc.
  assert (Hx : exists x gs, e0 = GeneratorExp x gs) by (destruct e0; try discriminate Hc; eexists _, _; reflexivity).
  destruct Hx as [x [gs ->]].
  destruct (A_all (GeneratorExp x gs)) as [HG _]. destruct (HG Hc) as [Hpar _].
  rewrite pp_unfold. change (Nat.ltb slot_top (node_prec (GeneratorExp x gs))) with true. cbn [pparen].
  change (PK "(" :: pbody (GeneratorExp x gs) ++ [PK ")"]) with (PK "(" :: pbody (GeneratorExp x gs) ++ PK ")" :: []).
  eapply Ev_expr_atom; [reflexivity|apply Ev_atom_paren'; apply Hpar|apply Ev_loop_stop; reflexivity].
Qed.

Theorem roundtrip_core_top : forall e, core_top e = true ->
  exists f0, forall f, f0 <= f -> pc f (MExpr slot_top) (pp slot_top e) = Some (e, []).
Proof.
  intros e H. apply orb_prop in H as [H|H]; [|apply roundtrip_gen; exact H].
  apply andb_prop in H as [Hc Hs]. apply negb_true_iff in Hs. apply roundtrip_core; assumption.
Qed.
