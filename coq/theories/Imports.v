(* C14: an abstract import system.  Module names are lists of components; the world records which modules are
   loaded and the order in which module bodies were executed.  [stmt_*]: the statements' semantics written from the
   language reference (7.11); [op_*]: the semantics of importlib.import_module / __import__ / attribute reads, written
   from the importlib documentation.  The theorems show that the operations the converter emits leave the same
   bindings, the same loaded set and the same execution order as the statements. *)
From Coq Require Import String List Bool Arith Lia.
Import ListNotations.
Open Scope string_scope.
Open Scope list_scope.

Definition modname := list string.

Section Imports.
  Variable exists_mod : modname -> bool.          (* the finder locates the module *)
  Variable has_attr : modname -> string -> bool.  (* the module's own code defines this attribute *)

  Record world := mkW { loaded : list modname; order : list modname (* oldest first *) }.

  Inductive value := VMod (m : modname) | VAttr (m : modname) (a : string).

  Definition mn_eqb (a b : modname) : bool := if list_eq_dec string_dec a b then true else false.
  Definition is_loaded (w : world) (m : modname) : bool := existsb (mn_eqb m) (loaded w).

  (* import one module whose parent is already loaded *)
  Definition load_one (w : world) (m : modname) : option world :=
    if is_loaded w m then Some w
    else if exists_mod m then Some (mkW (loaded w ++ [m]) (order w ++ [m])) else None.

  (* non-empty prefixes, shortest first *)
  Fixpoint prefixes_from (pre : modname) (rest : modname) : list modname :=
    match rest with
    | [] => []
    | c :: r => (pre ++ [c]) :: prefixes_from (pre ++ [c]) r
    end.

  Fixpoint load_all (w : world) (ms : list modname) : option world :=
    match ms with
    | [] => Some w
    | m :: r => match load_one w m with Some w1 => load_all w1 r | None => None end
    end.

  (* import a.b.c : parents first *)
  Definition load_chain (w : world) (m : modname) : option world := load_all w (prefixes_from [] m).

  Definition top_of (m : modname) : modname := match m with c :: _ => [c] | [] => [] end.

  (* ---------------- operations emitted by the converter ---------------- *)
  Definition op_import_module (w : world) (m : modname) : option (world * value) :=
    match load_chain w m with Some w1 => Some (w1, VMod m) | None => None end.

  (* __import__(name) with an empty fromlist returns the top-level package *)
  Definition op_dunder_import_top (w : world) (m : modname) : option (world * value) :=
    match load_chain w m with Some w1 => Some (w1, VMod (top_of m)) | None => None end.

  (* _handle_fromlist: names that are not attributes are tried as submodules, in fromlist order; a missing
     submodule is not an error here (the attribute read fails later) *)
  Fixpoint handle_fromlist (w : world) (m : modname) (names : list string) : world :=
    match names with
    | [] => w
    | n :: r =>
        if has_attr m n then handle_fromlist w m r
        else match load_one w (m ++ [n]) with
             | Some w1 => handle_fromlist w1 m r
             | None => handle_fromlist w m r
             end
    end.

  (* __import__(name, globals, locals, fromlist, level) with a non-empty fromlist returns the module itself;
     [abs] is the absolute name after resolving `level` against the package *)
  Definition op_dunder_import_from (w : world) (abs : modname) (names : list string) : option (world * value) :=
    match load_chain w abs with
    | Some w1 => Some (handle_fromlist w1 abs names, VMod abs)
    | None => None
    end.

  (* tmp.name *)
  Definition op_getattr (w : world) (m : modname) (n : string) : option value :=
    if has_attr m n then Some (VAttr m n)
    else if is_loaded w (m ++ [n]) then Some (VMod (m ++ [n])) else None.

  (* ---------------- statements (language reference 7.11) ---------------- *)
  Definition binding := (string * value)%type.

  (* import a.b.c          binds a      to the top-level package
     import a.b.c as x     binds x      to the module a.b.c *)
  Definition stmt_import (w : world) (m : modname) (asname : option string) : option (world * list binding) :=
    match load_chain w m with
    | Some w1 =>
        match asname, m with
        | Some x, _ => Some (w1, [(x, VMod m)])
        | None, c :: _ => Some (w1, [(c, VMod [c])])
        | None, [] => None
        end
    | None => None
    end.

  (* from m import n1 as x1, n2 ... : for each identifier in turn - is it an attribute of the module?  if not, try to
     import the submodule and look again; ImportError otherwise *)
  Fixpoint from_names (w : world) (m : modname) (names : list (string * option string)) : option (world * list binding) :=
    match names with
    | [] => Some (w, [])
    | (n, a) :: r =>
        let x := match a with Some y => y | None => n end in
        if has_attr m n then
          match from_names w m r with Some (w', bs) => Some (w', (x, VAttr m n) :: bs) | None => None end
        else
          match load_one w (m ++ [n]) with
          | Some w1 => match from_names w1 m r with Some (w', bs) => Some (w', (x, VMod (m ++ [n])) :: bs) | None => None end
          | None => None
          end
    end.

  Definition stmt_from (w : world) (abs : modname) (names : list (string * option string)) : option (world * list binding) :=
    match load_chain w abs with
    | Some w1 => from_names w1 abs names
    | None => None
    end.

  (* ---------------- what the converter emits, as a composition of operations ---------------- *)
  (* import m [as x]  ->  x := importlib.import_module("m")      |      top := __import__("a.b.c") *)
  Definition emitted_import (w : world) (m : modname) (asname : option string) : option (world * list binding) :=
    match asname, m with
    | Some x, _ => match op_import_module w m with Some (w1, v) => Some (w1, [(x, v)]) | None => None end
    | None, [c] => match op_import_module w m with Some (w1, v) => Some (w1, [(c, v)]) | None => None end
    | None, c :: _ :: _ => match op_dunder_import_top w m with Some (w1, v) => Some (w1, [(c, v)]) | None => None end
    | None, [] => None
    end.

  (* tmp := __import__(m, globals(), locals(), [n1, n2, ...], level);  x1 := tmp.n1;  x2 := tmp.n2 ... *)
  Fixpoint emitted_binds (w : world) (m : modname) (names : list (string * option string)) : option (list binding) :=
    match names with
    | [] => Some []
    | (n, a) :: r =>
        let x := match a with Some y => y | None => n end in
        match op_getattr w m n, emitted_binds w m r with
        | Some v, Some bs => Some ((x, v) :: bs)
        | _, _ => None
        end
    end.

  Definition emitted_from (w : world) (abs : modname) (names : list (string * option string)) : option (world * list binding) :=
    match op_dunder_import_from w abs (map fst names) with
    | Some (w1, _) => match emitted_binds w1 abs names with Some bs => Some (w1, bs) | None => None end
    | None => None
    end.

  (* ---------------- theorems ---------------- *)
  Theorem import_equiv : forall w m a, emitted_import w m a = stmt_import w m a.
  Proof.
    intros w m a. unfold emitted_import, stmt_import, op_import_module, op_dunder_import_top.
    destruct a as [x|]; destruct m as [|c [|c2 r]]; destruct (load_chain w _); try reflexivity.
  Qed.

  Lemma load_one_loaded w m w1 : load_one w m = Some w1 -> forall x, is_loaded w x = true -> is_loaded w1 x = true.
  Proof.
    unfold load_one. destruct (is_loaded w m); [intros H; injection H as <-; auto|].
    destruct (exists_mod m); [|discriminate]. intros H; injection H as <-. intros x Hx.
    unfold is_loaded in *. cbn [loaded]. rewrite existsb_app, Hx. reflexivity.
  Qed.

  Lemma load_one_is_loaded w m w1 : load_one w m = Some w1 -> is_loaded w1 m = true.
  Proof.
    unfold load_one. destruct (is_loaded w m) eqn:E; [intros H; injection H as <-; exact E|].
    destruct (exists_mod m); [|discriminate]. intros H; injection H as <-.
    unfold is_loaded. cbn [loaded]. rewrite existsb_app. cbn. unfold mn_eqb at 2. destruct (list_eq_dec string_dec m m); [|contradiction].
    apply orb_true_r.
  Qed.

  Lemma handle_fromlist_keeps w m names x : is_loaded w x = true -> is_loaded (handle_fromlist w m names) x = true.
  Proof.
    revert w. induction names as [|n r IH]; intros w H; cbn; [exact H|].
    destruct (has_attr m n); [apply IH; exact H|].
    destruct (load_one w (m ++ [n])) as [w1|] eqn:E; [apply IH; eapply load_one_loaded; eauto|apply IH; exact H].
  Qed.

  (* the statement's name-by-name processing and the emitted "load everything, then read the attributes" agree *)
  Lemma from_names_equiv : forall names w m w' bs,
    from_names w m names = Some (w', bs) ->
    handle_fromlist w m (map fst names) = w' /\
    forall wf, (forall x, is_loaded w' x = true -> is_loaded wf x = true) -> emitted_binds wf m names = Some bs.
  Proof.
    induction names as [|[n a] r IH]; intros w m w' bs H; cbn in H.
    - injection H as <- <-. split; [reflexivity|]. intros wf _. reflexivity.
    - cbn [map fst handle_fromlist emitted_binds]. destruct (has_attr m n) eqn:Ea.
      + destruct (from_names w m r) as [[w2 bs2]|] eqn:E; [|discriminate]. injection H as <- <-.
        destruct (IH _ _ _ _ E) as [A B]. split; [exact A|]. intros wf Hwf. unfold op_getattr. rewrite Ea, (B wf Hwf). reflexivity.
      + destruct (load_one w (m ++ [n])) as [w1|] eqn:El; [|discriminate].
        destruct (from_names w1 m r) as [[w2 bs2]|] eqn:E; [|discriminate]. injection H as <- <-.
        destruct (IH _ _ _ _ E) as [A B]. split; [exact A|]. intros wf Hwf. unfold op_getattr. rewrite Ea.
        assert (L : is_loaded wf (m ++ [n]) = true).
        { apply Hwf. rewrite <- A. apply handle_fromlist_keeps. eapply load_one_is_loaded. exact El. }
        rewrite L, (B wf Hwf). reflexivity.
  Qed.

  (* whenever the statement succeeds, the emitted code leaves the same world (loaded set and execution order) and the
     same bindings in the same order - for any number of clauses, aliases, attributes and not-yet-imported submodules *)
  Theorem from_equiv : forall w abs names r, stmt_from w abs names = Some r -> emitted_from w abs names = Some r.
  Proof.
    intros w abs names [w' bs] H. unfold stmt_from in H. unfold emitted_from, op_dunder_import_from.
    destruct (load_chain w abs) as [w1|]; [|discriminate].
    destruct (from_names_equiv _ _ _ _ _ H) as [A B]. rewrite A. rewrite (B w' (fun x Hx => Hx)). reflexivity.
  Qed.

  (* execution order never loses or reorders what was already executed *)
  Lemma load_one_order w m w1 : load_one w m = Some w1 -> exists suffix, order w1 = order w ++ suffix.
  Proof.
    unfold load_one. destruct (is_loaded w m); [intros H; injection H as <-; exists []; rewrite app_nil_r; reflexivity|].
    destruct (exists_mod m); [|discriminate]. intros H; injection H as <-. exists [m]. reflexivity.
  Qed.
End Imports.

(* a concrete import system for non-vacuity: pkg, pkg.sub, pkg.mod (which defines `attr`) *)
Definition ex_exists (m : modname) : bool :=
  existsb (fun x => if list_eq_dec string_dec m x then true else false) [["pkg"]; ["pkg"; "sub"]; ["pkg"; "mod"]; ["other"]].
Definition ex_attr (m : modname) (a : string) : bool :=
  (if list_eq_dec string_dec m ["pkg"; "mod"] then true else false) && String.eqb a "attr".

Example from_example :
  stmt_from ex_exists ex_attr (mkW [] []) ["pkg"] [("sub", None); ("mod", Some "m")]
  = Some (mkW [["pkg"]; ["pkg"; "sub"]; ["pkg"; "mod"]] [["pkg"]; ["pkg"; "sub"]; ["pkg"; "mod"]],
          [("sub", VMod ["pkg"; "sub"]); ("m", VMod ["pkg"; "mod"])]).
Proof. reflexivity. Qed.

(* ---------------- the tie to the converter model: what lower_import / lower_importfrom emit ---------------- *)
From OL Require Import Sexp PyAst Namespace Lower.

Lemma lower_import_alias g name x : n_kind g = NGlobal ->
  lower_import g [(name, Some x)] = inl [NamedExpr x (call (Attribute (Name "__ol_importlib") "import_module") [cstr name])].
Proof. intros H. unfold lower_import. cbn [rmap snd fst]. unfold get_assign. rewrite H. reflexivity. Qed.

Lemma lower_import_plain g name : n_kind g = NGlobal -> has_dot name = false ->
  lower_import g [(name, None)] = inl [NamedExpr name (call (Attribute (Name "__ol_importlib") "import_module") [cstr name])].
Proof. intros H Hd. unfold lower_import. cbn [rmap snd fst]. rewrite Hd. unfold get_assign. rewrite H. reflexivity. Qed.

Lemma lower_import_dotted g name : n_kind g = NGlobal -> has_dot name = true ->
  lower_import g [(name, None)] = inl [NamedExpr (before_dot name) (call (Name "__import__") [cstr name])].
Proof. intros H Hd. unfold lower_import. cbn [rmap snd fst]. rewrite Hd. unfold get_assign. rewrite H. reflexivity. Qed.

Lemma rmap_cons {X Y} (f : X -> res Y) x r :
  rmap f (x :: r) = (let! y := f x in let! ys := rmap f r in ret (y :: ys)).
Proof. reflexivity. Qed.

Lemma lower_importfrom_shape g p m names lv : n_kind g = NGlobal ->
  forallb (fun al : ident * option ident => negb (String.eqb (fst al) "*")) names = true ->
  lower_importfrom g p m names lv =
  inl (NamedExpr (ol "mod" (path_str p))
         (call (Name "__import__")
            [cstr (match m with Some x => x | None => "" end); call (Name "globals") []; call (Name "locals") [];
             EList (map (fun al => cstr (fst al)) names); cint lv])
       :: map (fun al => NamedExpr (match snd al with Some a => a | None => fst al end)
                                   (Attribute (Name (ol "mod" (path_str p))) (fst al))) names).
Proof.
  intros H Hs. unfold lower_importfrom. cbv zeta.
  match goal with |- (let! binds := ?R in _) = _ =>
    assert (A : R = inl (map (fun al : ident * option ident => NamedExpr (match snd al with Some a => a | None => fst al end)
                                              (Attribute (Name (ol "mod" (path_str p))) (fst al))) names)) end.
  { induction names as [|al r IH]; [reflexivity|]. cbn [forallb] in Hs. apply andb_true_iff in Hs. destruct Hs as [H1 H2].
    rewrite rmap_cons. cbn [map]. apply negb_true_iff in H1.
    match goal with |- context [if ?c then _ else _] => change c with (String.eqb (fst al) "*") end.
    rewrite H1. unfold get_assign at 1. rewrite H. cbn [rbind ret].
    rewrite (IH H2). reflexivity. }
  rewrite A. reflexivity.
Qed.

(* a star import is refused *)
Lemma lower_importfrom_star g p m lv : lower_importfrom g p m [("*", None)] lv = inr ERuntime.
Proof. reflexivity. Qed.
(* C14: the modules named by ONE import statement are imported in the order written, each by its own expression *)
Definition import_bound (al : ident * option ident) : ident :=
  match snd al with Some a => a | None => if has_dot (fst al) then before_dot (fst al) else fst al end.
Definition import_value (al : ident * option ident) : expr :=
  match snd al with
  | None => if has_dot (fst al) then call (Name "__import__") [cstr (fst al)]
            else call (Attribute (Name "__ol_importlib") "import_module") [cstr (fst al)]
  | Some _ => call (Attribute (Name "__ol_importlib") "import_module") [cstr (fst al)]
  end.

Theorem lower_import_in_order : forall n names, n_kind n = NGlobal ->
  lower_import n names = inl (map (fun al => NamedExpr (import_bound al) (import_value al)) names).
Proof.
  intros n names Hg. unfold lower_import. induction names as [|[nm a] r IH]; [reflexivity|].
  cbn [rmap map]. rewrite IH. unfold import_bound, import_value. cbn [fst snd].
  destruct a as [a|]; [|destruct (has_dot nm)]; unfold get_assign; rewrite Hg; reflexivity.
Qed.

