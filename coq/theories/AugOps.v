(* C13: augmented assignment.  The operator table of the converter (generated from the code) is the
   in-place method the data model prescribes, and the expression emitted for a name target rebinds the
   name in both branches. *)
From Coq Require Import String List ZArith Bool.
From OL Require Import Sexp PyAst Namespace Lower.
From OLGen Require Import Tables.
Import ListNotations.
Open Scope string_scope.
Open Scope list_scope.

(* Python data model 3.3.8: x op= y first tries type(x).__iop__ *)
Definition ref_binary_stem (o : binop) : string :=
  match o with
  | Add => "add" | Sub => "sub" | Mult => "mul" | MatMult => "matmul" | Div => "truediv" | FloorDiv => "floordiv"
  | Mod => "mod" | Pow => "pow" | LShift => "lshift" | RShift => "rshift" | BitAnd => "and" | BitXor => "xor" | BitOr => "or"
  end.
Definition ref_inplace_name (o : binop) : string := ("__i" ++ ref_binary_stem o ++ "__")%string.

Lemma op_table_correct : forall o, aug_op_name o = ref_inplace_name o.
Proof. destruct o; reflexivity. Qed.

Lemma op_table_injective : forall a b, aug_op_name a = aug_op_name b -> a = b.
Proof. intros a b H; destruct a, b; try reflexivity; vm_compute in H; discriminate. Qed.

(* shape of the code emitted for  `x op= value`  at module level *)
Lemma aug_name_global : forall (g : nsp) p x op value v',
  n_kind g = NGlobal -> tr g value = inl v' ->
  lower_augassign g p (Name x) op value =
  inl [IfExp (call (Name "hasattr") [Name x; cstr (aug_op_name op)])
             (NamedExpr x (call (Attribute (Name x) (aug_op_name op)) [v']))
             (NamedExpr x (BinOp (Name x) op v'))].
Proof.
  intros g p x op value v' Hg Ht. unfold lower_augassign. rewrite Ht. cbn [rbind].
  unfold get_load_name, get_assign. rewrite Hg. reflexivity.
Qed.

(* ---- a small object model: what Python binds, what the emitted expression binds ---- *)
Section ObjectModel.
  Variable Val : Type.
  Variable has_inplace : Val -> binop -> bool.          (* hasattr(x, '__iop__') *)
  Variable inplace : Val -> binop -> Val -> Val.        (* x.__iop__(v), a value (not NotImplemented) *)
  Variable binary : Val -> binop -> Val -> Val.         (* x op v *)

  (* Python: x = type(x).__iop__(x, v) if defined, else x = x op v *)
  Definition py_augassign (x : Val) (o : binop) (v : Val) : Val :=
    if has_inplace x o then inplace x o v else binary x o v.

  (* the emitted conditional: test, then exactly one of the two stores *)
  Definition emitted_binding (x : Val) (o : binop) (v : Val) : Val :=
    let test := has_inplace x o in
    if test then (* x := x.__iop__(v) *) inplace x o v else (* x := x op v *) binary x o v.

  Lemma emitted_binds_what_python_binds : forall x o v, emitted_binding x o v = py_augassign x o v.
  Proof. reflexivity. Qed.
End ObjectModel.
