(* C13: augmented assignment.  The operator table of the converter (generated from the code) is the
   in-place method the data model prescribes, and the expression emitted for a name target rebinds the
   name in both branches. *)
From Coq Require Import String List ZArith Bool.
From OL Require Import Sexp PyAst Namespace Lower.
From OLGen Require Import Tables.
Import ListNotations.
Open Scope string_scope.
Open Scope list_scope.

(* Python data model 3.3.8: x op= y first tries type(x).__iop__ *)
Definition ref_binary_stem (o : binop) : string :=
  match o with
  | Add => "add" | Sub => "sub" | Mult => "mul" | MatMult => "matmul" | Div => "truediv" | FloorDiv => "floordiv"
  | Mod => "mod" | Pow => "pow" | LShift => "lshift" | RShift => "rshift" | BitAnd => "and" | BitXor => "xor" | BitOr => "or"
  end.
Definition ref_inplace_name (o : binop) : string := ("__i" ++ ref_binary_stem o ++ "__")%string.

Lemma op_table_correct : forall o, aug_op_name o = ref_inplace_name o.
Proof. destruct o; reflexivity. Qed.

Lemma op_table_injective : forall a b, aug_op_name a = aug_op_name b -> a = b.
Proof. intros a b H; destruct a, b; try reflexivity; vm_compute in H; discriminate. Qed.

(* shape of the code emitted for  `x op= value`  at module level *)
Lemma aug_name_global : forall (g : nsp) p x op value v',
  n_kind g = NGlobal -> tr g value = inl v' ->
  lower_augassign g p (Name x) op value =
  inl [IfExp (call (Name "hasattr") [Name x; cstr (aug_op_name op)])
             (NamedExpr x (call (Attribute (Name x) (aug_op_name op)) [v']))
             (NamedExpr x (BinOp (Name x) op v'))].
Proof.
  intros g p x op value v' Hg Ht. unfold lower_augassign. rewrite Ht. cbn [rbind].
  unfold get_load_name, get_assign. rewrite Hg. reflexivity.
Qed.

(* ---- a small object model: what Python binds, what the emitted expression binds ---- *)
Section ObjectModel.
  Variable Val : Type.
  Variable has_inplace : Val -> binop -> bool.          (* hasattr(x, '__iop__') *)
  Variable inplace : Val -> binop -> Val -> Val.        (* x.__iop__(v), a value (not NotImplemented) *)
  Variable binary : Val -> binop -> Val -> Val.         (* x op v *)

  (* Python: x = type(x).__iop__(x, v) if defined, else x = x op v *)
  Definition py_augassign (x : Val) (o : binop) (v : Val) : Val :=
    if has_inplace x o then inplace x o v else binary x o v.

  (* the emitted conditional: test, then exactly one of the two stores *)
  Definition emitted_binding (x : Val) (o : binop) (v : Val) : Val :=
    let test := has_inplace x o in
    if test then (* x := x.__iop__(v) *) inplace x o v else (* x := x op v *) binary x o v.

  Lemma emitted_binds_what_python_binds : forall x o v, emitted_binding x o v = py_augassign x o v.
  Proof. reflexivity. Qed.
End ObjectModel.

(* ---- the object model WITH NotImplemented: an in-place method may decline ---- *)
Section ObjectModelNI.
  Variable Val : Type.
  Variable not_implemented : Val.                                (* the singleton NotImplemented *)
  Variable has_inplace : Val -> binop -> bool.                   (* hasattr(x, '__iop__') *)
  Variable inplace : Val -> binop -> Val -> option Val.          (* x.__iop__(v); None = it returned NotImplemented *)
  Variable binary : Val -> binop -> Val -> Val.                  (* x op v (itself with the reflected fallback) *)

  (* Python (data model 3.3.8): try __iop__; if it is missing OR returns NotImplemented, fall back to x op v *)
  Definition py_augassign_ni (x : Val) (o : binop) (v : Val) : Val :=
    if has_inplace x o then match inplace x o v with Some r => r | None => binary x o v end
    else binary x o v.

  (* the emitted conditional stores whatever the method call returns *)
  Definition emitted_binding_ni (x : Val) (o : binop) (v : Val) : Val :=
    if has_inplace x o then match inplace x o v with Some r => r | None => not_implemented end
    else binary x o v.

  (* what IS proved: whenever the in-place method (if any) does not decline, the stored value is Python's *)
  Lemma emitted_binds_when_not_declined : forall x o v,
    (has_inplace x o = true -> inplace x o v <> None) ->
    emitted_binding_ni x o v = py_augassign_ni x o v.
  Proof.
    intros x o v H. unfold emitted_binding_ni, py_augassign_ni.
    destruct (has_inplace x o); [|reflexivity].
    destruct (inplace x o v) as [r|]; [reflexivity|]. exfalso. apply H; reflexivity.
  Qed.
End ObjectModelNI.

(* the unrestricted statement is FALSE: a declining in-place method makes the emitted code store NotImplemented
   (known finding K-inplace-notimplemented; witness on the real code:  s = {1}; s |= R()  with R defining __ror__) *)
Lemma emitted_binding_ni_refuted :
  exists (x v : nat) (o : binop),
    emitted_binding_ni nat 0 (fun _ _ => true) (fun _ _ _ => None) (fun _ _ _ => 7) x o v
    <> py_augassign_ni nat (fun _ _ => true) (fun _ _ _ => None) (fun _ _ _ => 7) x o v.
Proof. exists 1, 2, BitOr. vm_compute. discriminate. Qed.
