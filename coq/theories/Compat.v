(* C15: the version-sensitive choices of the project's unparser, over the precedence table regenerated from the code.

   Python 3.8 accepts an unparenthesised assignment expression as a positional call argument only among the slots the
   unparser has (not as a subscript index, set element, keyword value, comprehension condition ...: those came with 3.9 /
   3.10); string literals inside a replacement field of an f-string must not reuse the quote of the f-string before
   3.12. *)
From Coq Require Import String List ZArith NArith Bool Arith Lia.
From OL Require Import PyAst Unparse.
From OLGen Require Import Tables.
Import ListNotations.
Local Open Scope string_scope.

(* slots (by name) in which a child of precedence PREC_NAMEDEXPR is printed without parentheses *)
Definition bare_walrus_slots : list string :=
  map fst (filter (fun np => Nat.leb node_prec_NamedExpr (snd np)) slot_table).

Lemma bare_walrus_slots_value : bare_walrus_slots = ["Call_arg"; "Call_onlyarg"].
Proof. vm_compute. reflexivity. Qed.

Theorem walrus_bare_only_as_call_argument : forall name p,
  List.In (name, p) slot_table -> node_prec_NamedExpr <= p -> name = "Call_arg" \/ name = "Call_onlyarg".
Proof.
  intros name p Hin Hle.
  assert (H : List.In name bare_walrus_slots).
  { unfold bare_walrus_slots. apply in_map_iff. exists (name, p). split; [reflexivity|].
    apply filter_In. split; [exact Hin|]. apply Nat.leb_le. exact Hle. }
  rewrite bare_walrus_slots_value in H. cbn in H. destruct H as [H|[H|[]]]; [left|right]; symmetry; exact H.
Qed.

(* the operator slots (parameterised by the operator) and the top level are all below it *)
Theorem walrus_parenthesised_under_operators :
  (forall o, slot_BinOp_left o < node_prec_NamedExpr) /\ (forall o, slot_BinOp_right o < node_prec_NamedExpr) /\
  (forall o, slot_UnaryOp o < node_prec_NamedExpr) /\ (forall o, slot_BoolOp o < node_prec_NamedExpr) /\
  slot_top < node_prec_NamedExpr.
Proof.
  repeat split; try (intros o; destruct o; vm_compute; lia). vm_compute. lia.
Qed.

(* the unparser wraps an assignment expression in parentheses in every slot below its precedence *)
Theorem walrus_wrapped : forall slot q t v,
  slot < node_prec_NamedExpr ->
  exists body, utoks slot q (NamedExpr t v) = TP "(" :: body ++ [TP ")"].
Proof.
  intros slot q t v H. cbn [utoks node_prec]. apply Nat.ltb_lt in H. rewrite H. cbn [paren]. eexists. reflexivity.
Qed.

(* and leaves it bare in the two call-argument slots *)
Theorem walrus_bare_in_call : forall q t v,
  utoks slot_Call_arg q (NamedExpr t v) = TName t :: TP ":=" :: utoks slot_NamedExpr_value q v /\
  utoks slot_Call_onlyarg q (NamedExpr t v) = TName t :: TP ":=" :: utoks slot_NamedExpr_value q v.
Proof. intros q t v. split; cbn [utoks node_prec]; reflexivity. Qed.

(* quote alternation: a string constant or f-string is written with the quote its context does not use; the parts of
   a replacement field are printed with the f-string's own quote as their context, so the literals directly inside a
   field use the other quote *)
Theorem quote_alternates : forall slot q c,
  utoks slot q (Constant c) = paren (Nat.ltb slot node_prec_Constant) [TLit c (const_text (flipq q) c)].
Proof. intros. reflexivity. Qed.

Lemma flipq_differs : forall q, (q = SQ \/ q = DQ) -> flipq q <> q /\ (flipq q = SQ \/ flipq q = DQ).
Proof. intros q [->| ->]; vm_compute; split; try discriminate; auto. Qed.

Lemma flipq_twice_repeats : forall q, (q = SQ \/ q = DQ) -> flipq (flipq q) = q.
Proof. intros q [->| ->]; reflexivity. Qed.
