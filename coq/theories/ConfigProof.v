(* C10: proofs about the option-object state machine (see Config.v). *)
From Coq Require Import String List Bool Arith NArith Lia.
From OL Require Import Sexp PyAst Config.
From OLGen Require Import Tables.
Import ListNotations.
Open Scope string_scope.
Open Scope list_scope.

Lemma nth_error_update_same {X} (l : list X) i f :
  nth_error (update l i f) i = option_map f (nth_error l i).
Proof. revert i; induction l as [|x r IH]; intros [|i]; cbn; auto. Qed.

Lemma nth_error_update_other {X} (l : list X) i j f :
  i <> j -> nth_error (update l i f) j = nth_error l j.
Proof. revert i j; induction l as [|x r IH]; intros [|i] [|j] H; cbn; auto; try (exfalso; lia); try (apply IH; lia). Qed.

Lemma length_update {X} (l : list X) i f : length (update l i f) = length l.
Proof. revert i; induction l as [|x r IH]; intros [|i]; cbn; auto. Qed.

Lemma last_set_bound past o n v : last_set past o n = Some v -> o < count_new past.
Proof.
  induction past as [|a r IH]; cbn [last_set count_new]; [discriminate|].
  destruct a as [|o' n' v'|c|]; cbn [last_set count_new]; intros H; try (specialize (IH H); lia).
  destruct (Nat.eqb o o' && String.eqb n' n && valid n' v' && Nat.ltb o' (count_new r)) eqn:E.
  - repeat rewrite andb_true_iff in E. destruct E as [[[E1 _] _] E4].
    apply Nat.eqb_eq in E1. apply Nat.ltb_lt in E4. lia.
  - auto.
Qed.

(* the concrete world agrees with the history *)
Definition Inv (w : world) (past : list action) : Prop :=
  length w = count_new past /\
  forall o s, nth_error w o = Some s -> forall n, assoc n s = last_set past o n.

Lemma Inv_init : Inv [] [].
Proof. split; [reflexivity|]. intros [|o] s H; discriminate. Qed.

Lemma step_spec w past a :
  Inv w past -> snd (step w a) = spec_out past a /\ Inv (fst (step w a)) (a :: past).
Proof.
  intros [Hlen Hs]. destruct a as [|o n v|[o|]|]; cbn [step spec_out].
  - (* new *) split; [reflexivity|]. cbn [fst]. split.
    + rewrite app_length; cbn. lia.
    + intros o s Hn n. cbn [last_set].
      destruct (Nat.lt_ge_cases o (length w)) as [Hlt|Hge].
      * rewrite nth_error_app1 in Hn by exact Hlt. apply Hs; exact Hn.
      * rewrite nth_error_app2 in Hn by exact Hge.
        destruct (o - length w) as [|k] eqn:E; cbn in Hn; [|destruct k; discriminate].
        injection Hn as <-. cbn.
        destruct (last_set past o n) eqn:L; [|reflexivity].
        apply last_set_bound in L. lia.
  - (* set *) rewrite <- Hlen.
    destruct (valid n v && Nat.ltb o (length w)) eqn:E; cbn [fst snd]; (split; [reflexivity|]).
    + split; [rewrite length_update; exact Hlen|].
      intros o' s Hn n'. cbn [last_set]. rewrite <- Hlen.
      apply andb_true_iff in E. destruct E as [Ev El].
      destruct (Nat.eq_dec o o') as [->|Hne].
      * rewrite nth_error_update_same in Hn.
        destruct (nth_error w o') as [s0|] eqn:E0; [|discriminate]. injection Hn as <-.
        cbn [assoc]. rewrite Nat.eqb_refl, Ev, El. cbn.
        destruct (String.eqb n n'); [reflexivity|]. apply Hs; exact E0.
      * rewrite nth_error_update_other in Hn by exact Hne.
        replace (Nat.eqb o' o) with false by (symmetry; apply Nat.eqb_neq; lia). cbn.
        apply Hs; exact Hn.
    + split; [exact Hlen|]. intros o' s Hn n'. cbn [last_set]. rewrite <- Hlen.
      replace (Nat.eqb o' o && String.eqb n n' && valid n v && Nat.ltb o (length w)) with false.
      * apply Hs; exact Hn.
      * symmetry. apply andb_false_iff in E.
        destruct E as [E|E]; rewrite E; rewrite ?andb_false_r; reflexivity.
  - (* convert obj *) rewrite <- Hlen.
    destruct (nth_error w o) as [s|] eqn:E.
    + assert (Hlt : o < length w) by (apply nth_error_Some; congruence).
      apply Nat.ltb_lt in Hlt. rewrite Hlt. cbn [fst snd]. split.
      * f_equal. unfold eff_of, spec_eff. apply map_ext. intros n. rewrite (Hs _ _ E). reflexivity.
      * split; [exact Hlen|]. intros o' s' Hn n'. cbn [last_set]. apply Hs; exact Hn.
    + assert (Hge : ~ o < length w) by (intros Hlt; apply nth_error_Some in Hlt; congruence).
      apply Nat.ltb_nlt in Hge. rewrite Hge. cbn [fst snd]. split; [reflexivity|].
      split; [exact Hlen|]. intros o' s' Hn n'. cbn [last_set]. apply Hs; exact Hn.
  - (* convert None *) cbn [fst snd]. split; [reflexivity|].
    split; [exact Hlen|]. intros o' s' Hn n'. cbn [last_set]. apply Hs; exact Hn.
  - (* reseed *) cbn [fst snd]. split; [reflexivity|].
    split; [exact Hlen|]. intros o' s' Hn n'. cbn [last_set]. apply Hs; exact Hn.
Qed.

Lemma run_spec h : forall w past, Inv w past -> run w h = spec_run past h.
Proof.
  induction h as [|a r IH]; intros w past HI; cbn [run spec_run]; [reflexivity|].
  destruct (step_spec w past a HI) as [Ho HI'].
  destruct (step w a) as [w' o]. cbn [fst snd] in *. rewrite Ho. f_equal. apply IH; exact HI'.
Qed.

(* Every conversion in every history uses exactly the last valid values set on *its own* option
   object (defaults otherwise), and a conversion without options uses the defaults. *)
Theorem history_correct : forall h, run [] h = spec_run [] h.
Proof. intros h. apply run_spec. exact Inv_init. Qed.

(* Consequences spelled out. *)
Corollary convert_none_uses_defaults : forall h1 h2,
  nth_error (run [] (h1 ++ AConvert None :: h2)) (length h1)
  = Some (OEff (map (fun n => (n, default_of n)) opt_names)).
Proof.
  intros h1 h2. rewrite history_correct.
  assert (G : forall past, nth_error (spec_run past (h1 ++ AConvert None :: h2)) (length h1)
                           = Some (OEff (map (fun n => (n, default_of n)) opt_names))).
  { induction h1 as [|a r IH]; intros past; cbn; [reflexivity|]. apply IH. }
  apply G.
Qed.

(* The shared-cell model violates the specification: setting an option on one object changes what
   another object (and a call without options) converts with. *)
Definition witness_history : list action :=
  [ANew; ANew; ASet 0 "unparser" "oneliner"; AConvert (Some 1); AConvert None].

Theorem shared_model_refuted : run_shared (0, []) witness_history <> spec_run [] witness_history.
Proof. vm_compute. discriminate. Qed.

(* non-vacuity: the witness history is handled by the per-instance model as the spec says,
   and it really exercises a valid set followed by conversions. *)
Example witness_per_instance_ok :
  run [] witness_history = spec_run [] witness_history /\
  nth_error (run [] witness_history) 2 = Some (OSet true).
Proof. split; vm_compute; reflexivity. Qed.

(* the generated option table is well formed: every default is one of the choices *)
Lemma config_table_defaults_valid :
  forallb (fun r => existsb (String.eqb (snd r)) (snd (fst r))) config_table = true.
Proof. vm_compute. reflexivity. Qed.

Lemma config_table_names_distinct : NoDup opt_names.
Proof. vm_compute. repeat constructor; cbn; intuition discriminate. Qed.
