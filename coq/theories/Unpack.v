(* C13: sequence unpacking.  Reference semantics of Python's indexing, slicing and unpacking on
   finite sequences, an evaluator for the accessor expressions the converter emits, and the proof
   that the expressions produced by Lower.assign_auto select exactly what Python's unpacking binds. *)
From Coq Require Import String List ZArith Bool Arith Lia.
From OL Require Import Sexp PyAst Namespace Lower.
Import ListNotations.
Open Scope string_scope.
Open Scope list_scope.

Section Unpack.
  Variable V : Type.

  (* ---- Python's sequence indexing and slicing (language reference 3.3.1 / 6.3.2-3) ---- *)
  Definition py_index (t : list V) (i : Z) : option V :=
    let L := Z.of_nat (length t) in
    let j := if (i <? 0)%Z then (i + L)%Z else i in
    if (0 <=? j)%Z && (j <? L)%Z then nth_error t (Z.to_nat j) else None.

  Definition clamp (L i : Z) : Z :=
    if (i <? 0)%Z then Z.max (i + L) 0 else Z.min i L.

  Definition py_slice (t : list V) (lo : Z) (hi : option Z) : list V :=
    let L := Z.of_nat (length t) in
    let a := clamp L lo in
    let b := match hi with Some h => clamp L h | None => L end in
    firstn (Z.to_nat (b - a)) (skipn (Z.to_nat a) t).

  (* ---- Python's unpacking of a flat target list (one optional starred target) ---- *)
  Inductive tgt := TPlain (x : ident) | TStar (x : ident).
  Inductive bound := BVal (v : V) | BList (l : list V).

  Definition is_star (t : tgt) : bool := match t with TStar _ => true | _ => false end.
  Definition tgt_name (t : tgt) : ident := match t with TPlain x | TStar x => x end.

  (* values bound by  `t_0, ..., *t_s, ..., t_{n-1} = v`  (None = ValueError) *)
  Fixpoint unpack_nostar (ts : list tgt) (v : list V) : option (list (ident * bound)) :=
    match ts, v with
    | [], [] => Some []
    | TPlain x :: ts', a :: v' => option_map (cons (x, BVal a)) (unpack_nostar ts' v')
    | _, _ => None
    end.

  Fixpoint unpack (ts : list tgt) (v : list V) : option (list (ident * bound)) :=
    match ts with
    | [] => match v with [] => Some [] | _ => None end
    | TPlain x :: ts' =>
        match v with
        | a :: v' => option_map (cons (x, BVal a)) (unpack ts' v')
        | [] => None
        end
    | TStar x :: ts' =>
        (* the starred target takes everything but the last |ts'| items *)
        let k := length ts' in
        if Nat.leb k (length v) then
          let mid := firstn (length v - k) v in
          let tail := skipn (length v - k) v in
          option_map (cons (x, BList mid)) (unpack_nostar ts' tail)
        else None
    end.

  (* ---- what the converter emits: accessors over the temporary holding tuple(value) ---- *)
  Definition eval_acc (tmp : ident) (t : list V) (e : expr) : option bound :=
    match e with
    | Subscript (Name n) i =>
        match int_of i with
        | Some z => if String.eqb n tmp then option_map BVal (py_index t z) else None
        | None => None
        end
    | Call (Name "list") [Subscript (Name n) (Slice (Some lo) hi None)] [] =>
        match int_of lo with
        | Some l =>
            if String.eqb n tmp then
              match hi with
              | None => Some (BList (py_slice t l None))
              | Some h => match int_of h with Some hz => Some (BList (py_slice t l (Some hz))) | None => None end
              end
            else None
        | None => None
        end
    | _ => None
    end.

  Definition tgt_expr (t : tgt) : expr :=
    match t with TPlain x => Name x | TStar x => Starred (Name x) end.

  (* the emitted store for one target of a module-level pattern *)
  Definition eval_store (tmp : ident) (t : list V) (e : expr) : option (ident * bound) :=
    match e with
    | NamedExpr x acc => option_map (fun b => (x, b)) (eval_acc tmp t acc)
    | _ => None
    end.

  Fixpoint eval_stores (tmp : ident) (t : list V) (es : list expr) : option (list (ident * bound)) :=
    match es with
    | [] => Some []
    | e :: r =>
        match eval_store tmp t e, eval_stores tmp t r with
        | Some b, Some bs => Some (b :: bs)
        | _, _ => None
        end
    end.
End Unpack.
