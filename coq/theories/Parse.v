(* C03: a reference parser for the operator core of Python's expression grammar (precedence climbing over the
   precedence ladder regenerated from the code) and the printer of the core on the same token alphabet.

   Tokens: names, literals (opaque: their spelling is C04's subject), and punctuation / keywords.  The parser follows the
   grammar of the language reference (6.17 operator precedence; 6.3 primaries; 6.12-6.14 conditional, lambda,
   assignment expressions): unary / binary operators by precedence and associativity, comparison chains, flat and / or
   chains, conditional expressions, parameterless lambdas, assignment expressions, attribute / call / subscript trailers
   and parenthesised groups. *)
From Coq Require Import String Ascii List ZArith NArith Bool Arith Lia.
From OL Require Import PyAst Unparse.
From OLGen Require Import Tables.
Import ListNotations.
Local Open Scope string_scope.
Local Open Scope list_scope.

Inductive pt := PN (i : ident) | PL (c : const) | PK (s : string).

(* ---------- keys of the operators ---------- *)
Definition unop_key (o : unop) : string := match o with Not => "not" | Invert => "~" | UAdd => "+" | USub => "-" end.
Definition bool_key (o : boolop) : string := match o with And => "and" | Or => "or" end.
Definition cmp_keys (o : cmpop) : list string :=
  match o with
  | Eq => ["=="] | NotEq => ["!="] | Lt => ["<"] | LtE => ["<="] | Gt => [">"] | GtE => [">="]
  | Is => ["is"] | IsNot => ["is"; "not"] | In => ["in"] | NotIn => ["not"; "in"]
  end.

Definition all_binops : list binop := [Add; Sub; Mult; MatMult; Div; Mod; Pow; LShift; RShift; BitOr; BitXor; BitAnd; FloorDiv].
Definition binop_of (s : string) : option binop := find (fun o => String.eqb (binop_text o) s) all_binops.

(* a comparison operator at the head of the token list (two-token operators first) *)
Definition is_key (k : string) (t : pt) : bool := match t with PK s => String.eqb s k | _ => false end.
Definition hd_is (k : string) (ts : list pt) : bool := match ts with t :: _ => is_key k t | [] => false end.

Definition cmp_of (ts : list pt) : option (cmpop * list pt) :=
  match ts with
  | PK s :: r =>
      if String.eqb s "not" then (if hd_is "in" r then Some (NotIn, tl r) else None)
      else if String.eqb s "is" then (if hd_is "not" r then Some (IsNot, tl r) else Some (Is, r))
      else if String.eqb s "in" then Some (In, r)
      else if String.eqb s "==" then Some (Eq, r)
      else if String.eqb s "!=" then Some (NotEq, r)
      else if String.eqb s "<" then Some (Lt, r)
      else if String.eqb s "<=" then Some (LtE, r)
      else if String.eqb s ">" then Some (Gt, r)
      else if String.eqb s ">=" then Some (GtE, r)
      else None
  | _ => None
  end.

Definition TOP : nat := slot_Call_onlyarg.      (* inside parentheses / call arguments: any expression of the core *)

(* ---------- the printer of the core (mirrors Unparse.utoks; ParseTie.tie_all proves the two equal on the core) ---------- *)
Definition pparen (b : bool) (ts : list pt) : list pt := if b then PK "(" :: ts ++ [PK ")"] else ts.

(* ---------- the parameter list of a lambda ---------- *)
Section Items.
  Variable D : Type.                 (* what stands for a default value: tokens in the printer, an expression in the proof *)
  Inductive pitem := IName (x : ident) (d : option D) | ISlash | IStar (v : option ident) | IDStar (k : ident).

  (* positional names; the last [length de] of them carry a default *)
  Fixpoint zipd (names : list ident) (nd : nat) (de : list D) : list pitem :=
    match names with
    | [] => []
    | x :: r =>
        match nd with
        | S k => IName x None :: zipd r k de
        | O => match de with
               | d :: de' => IName x (Some d) :: zipd r 0 de'
               | [] => IName x None :: zipd r 0 []
               end
        end
    end.
  Fixpoint zipk (ko : list ident) (kd : list (option D)) : list pitem :=
    match ko, kd with
    | k :: ko', d :: kd' => IName k d :: zipk ko' kd'
    | k :: ko', [] => IName k None :: zipk ko' []
    | [], _ => []
    end.
  Definition litems (po ar : list ident) (va : option ident) (ko : list ident) (kw : option ident)
             (de : list D) (kd : list (option D)) : list pitem :=
    let names := po ++ ar in
    let pos := zipd names (length names - length de) de in
    let pos := match po with [] => pos | _ => firstn (length po) pos ++ ISlash :: skipn (length po) pos end in
    let star := match va with Some v => [IStar (Some v)] | None => match ko with [] => [] | _ => [IStar None] end end in
    let kwa := match kw with Some k => [IDStar k] | None => [] end in
    pos ++ star ++ zipk ko kd ++ kwa.
End Items.
Arguments IName {D}. Arguments ISlash {D}. Arguments IStar {D}. Arguments IDStar {D}.
Arguments zipd {D}. Arguments zipk {D}. Arguments litems {D}.

Definition itoks_l (i : pitem (list pt)) : list pt :=
  match i with
  | IName x None => [PN x]
  | IName x (Some d) => PN x :: PK "=" :: d
  | ISlash => [PK "/"]
  | IStar None => [PK "*"]
  | IStar (Some v) => [PK "*"; PN v]
  | IDStar k => [PK "**"; PN k]
  end.

(* `1.real` would be a float literal followed by a name: the unparser writes (1).real - its own test, on its own text *)
Definition int_literal (v : expr) : bool := all_digits (render (utoks slot_Attribute_value DQ v)).

Definition is_slice (x : expr) : bool := match x with Slice _ _ _ => true | _ => false end.

Fixpoint pp (slot : nat) (e : expr) {struct e} : list pt :=
  let body :=
    match e with
    | Name i => [PN i]
    | Constant c => [PL c]
    | BinOp l o r => pp (slot_BinOp_left o) l ++ PK (binop_text o) :: pp (slot_BinOp_right o) r
    | UnaryOp o v => PK (unop_key o) :: pp (slot_UnaryOp o) v
    | BoolOp o vs => join [PK (bool_key o)] (map (pp (slot_BoolOp o)) vs)
    | Compare l ops cs =>
        pp slot_Compare_left l ++
        (fix go (cs : list expr) (ops : list cmpop) : list pt :=
           match cs, ops with
           | c :: cs', o :: ops' => map PK (cmp_keys o) ++ pp slot_Compare_comparator c ++ go cs' ops'
           | _, _ => []
           end) cs ops
    | IfExp t b o => pp slot_IfExp_body b ++ PK "if" :: pp slot_IfExp_test t ++ PK "else" :: pp slot_IfExp_orelse o
    | Lambda po ar va ko kd kw de body =>
        PK "lambda" ::
        join [PK ","] (map itoks_l (litems po ar va ko kw (map (pp slot_Lambda_default) de)
                                           (map (fun o => match o with Some x => Some (pp slot_Lambda_kwdefault x) | None => None end) kd)))
        ++ PK ":" :: pp slot_Lambda_body body
    | NamedExpr t v => PN t :: PK ":=" :: pp slot_NamedExpr_value v
    | Attribute v a => pparen (int_literal v) (pp slot_Attribute_value v) ++ [PK "."; PN a]
    | Call f args kws =>
        pp slot_Call_func f ++ PK "(" ::
        (match args, kws with
         | [x], [] => pp slot_Call_onlyarg x
         | _, _ => join [PK ","] (map (pp slot_Call_arg) args ++ map (fun kw => match kw with
                          | (None, v) => PK "**" :: pp slot_Call_kwarg v
                          | (Some k, v) => PN k :: PK "=" :: pp slot_Call_kwarg v
                          end) kws)
         end) ++ [PK ")"]
    | Starred v => PK "*" :: pp slot_Starred_value v
    | EList l => PK "[" :: join [PK ","] (map (pp slot_List_elt) l) ++ [PK "]"]
    | ESet l => PK "{" :: join [PK ","] (map (pp slot_Set_elt) l) ++ [PK "}"]
    | ETuple l =>
        match l with
        | [x] => PK "(" :: pp slot_Tuple_elt x ++ [PK ","; PK ")"]
        | _ => PK "(" :: join [PK ","] (map (pp slot_Tuple_elt) l) ++ [PK ")"]
        end
    | EDict ks vs => PK "{" :: join [PK ","] ((fix go (ks : list (option expr)) (vt st : list (list pt)) : list (list pt) :=
                  match ks, vt, st with
                  | Some k :: ks', v :: vt', _ :: st' => (pp slot_Dict_key k ++ PK ":" :: v) :: go ks' vt' st'
                  | None :: ks', _ :: vt', v :: st' => (PK "**" :: v) :: go ks' vt' st'
                  | _, _, _ => []
                  end) ks (map (pp slot_Dict_value) vs) (map (pp slot_Dict_starvalue) vs)) ++ [PK "}"]
    | DictComp k v gs => PK "{" :: pp slot_DictComp_key k ++ PK ":" :: pp slot_DictComp_value v ++ (flat_map (fun g => match g with
                                        | (t, i, ifs, a) =>
                                            (if a : bool then [PK "async"] else []) ++
                                            PK "for" :: pp slot_comp_target t ++ PK "in" :: pp slot_comp_iter i ++
                                            flat_map (fun c => PK "if" :: pp slot_comp_if c) ifs
                                        end) gs) ++ [PK "}"]
    | ListComp x gs => PK "[" :: pp slot_ListComp_elt x ++ (flat_map (fun g => match g with
                                        | (t, i, ifs, a) =>
                                            (if a : bool then [PK "async"] else []) ++
                                            PK "for" :: pp slot_comp_target t ++ PK "in" :: pp slot_comp_iter i ++
                                            flat_map (fun c => PK "if" :: pp slot_comp_if c) ifs
                                        end) gs) ++ [PK "]"]
    | SetComp x gs => PK "{" :: pp slot_SetComp_elt x ++ (flat_map (fun g => match g with
                                        | (t, i, ifs, a) =>
                                            (if a : bool then [PK "async"] else []) ++
                                            PK "for" :: pp slot_comp_target t ++ PK "in" :: pp slot_comp_iter i ++
                                            flat_map (fun c => PK "if" :: pp slot_comp_if c) ifs
                                        end) gs) ++ [PK "}"]
    | GeneratorExp x gs => pp slot_GeneratorExp_elt x ++ (flat_map (fun g => match g with
                                        | (t, i, ifs, a) =>
                                            (if a : bool then [PK "async"] else []) ++
                                            PK "for" :: pp slot_comp_target t ++ PK "in" :: pp slot_comp_iter i ++
                                            flat_map (fun c => PK "if" :: pp slot_comp_if c) ifs
                                        end) gs)
    | Subscript v s =>
        pp slot_Subscript_value v ++ PK "[" ::
        (match s with
         | ETuple items =>
             (* an index tuple that contains a slice is printed without parentheses: a[1:2, 3] *)
             if existsb is_slice items then
               join [PK ","] (map (pp slot_Subscript_tuple_item) items) ++ (match items with [_] => [PK ","] | _ => [] end)
             else pp slot_Subscript_slice s
         | _ => pp slot_Subscript_slice s
         end) ++ [PK "]"]
    | Slice a b c =>
        (match a with Some x => pp slot_Slice_lower x | None => [] end) ++ PK ":" ::
        (match b with Some x => pp slot_Slice_upper x | None => [] end) ++ PK ":" ::
        (match c with Some x => pp slot_Slice_step x | None => [] end)
    | _ => []
    end in
  pparen (Nat.ltb slot (node_prec e)) body.

Definition kwp (kw : option ident * expr) : list pt :=
  match kw with
  | (None, v) => PK "**" :: pp slot_Call_kwarg v
  | (Some k, v) => PN k :: PK "=" :: pp slot_Call_kwarg v
  end.

Definition gtok (g : comprehension) : list pt :=
  match g with
  | (t, i, ifs, a) =>
      (if a : bool then [PK "async"] else []) ++
      PK "for" :: pp slot_comp_target t ++ PK "in" :: pp slot_comp_iter i ++
      flat_map (fun c => PK "if" :: pp slot_comp_if c) ifs
  end.
Definition gtoks (gs : list comprehension) : list pt := flat_map gtok gs.

Fixpoint ditems_t (ks : list (option expr)) (vt st : list (list pt)) : list (list pt) :=
  match ks, vt, st with
  | Some k :: ks', v :: vt', _ :: st' => (pp slot_Dict_key k ++ PK ":" :: v) :: ditems_t ks' vt' st'
  | None :: ks', _ :: vt', v :: st' => (PK "**" :: v) :: ditems_t ks' vt' st'
  | _, _, _ => []
  end.
Definition ditems (ks : list (option expr)) (vs : list expr) : list (list pt) :=
  ditems_t ks (map (pp slot_Dict_value) vs) (map (pp slot_Dict_starvalue) vs).

Definition index_toks (s : expr) : list pt :=
  match s with
  | ETuple items =>
      if existsb is_slice items then
        join [PK ","] (map (pp slot_Subscript_tuple_item) items) ++ (match items with [_] => [PK ","] | _ => [] end)
      else pp slot_Subscript_slice s
  | _ => pp slot_Subscript_slice s
  end.

Definition pbody (e : expr) : list pt :=
  match e with
  | Name i => [PN i]
  | Constant c => [PL c]
  | BinOp l o r => pp (slot_BinOp_left o) l ++ PK (binop_text o) :: pp (slot_BinOp_right o) r
  | UnaryOp o v => PK (unop_key o) :: pp (slot_UnaryOp o) v
  | BoolOp o vs => join [PK (bool_key o)] (map (pp (slot_BoolOp o)) vs)
  | Compare l ops cs =>
      pp slot_Compare_left l ++
      (fix go (cs : list expr) (ops : list cmpop) : list pt :=
         match cs, ops with
         | c :: cs', o :: ops' => map PK (cmp_keys o) ++ pp slot_Compare_comparator c ++ go cs' ops'
         | _, _ => []
         end) cs ops
  | IfExp t b o => pp slot_IfExp_body b ++ PK "if" :: pp slot_IfExp_test t ++ PK "else" :: pp slot_IfExp_orelse o
  | Lambda po ar va ko kd kw de body =>
      PK "lambda" ::
      join [PK ","] (map itoks_l (litems po ar va ko kw (map (pp slot_Lambda_default) de)
                                         (map (fun o => match o with Some x => Some (pp slot_Lambda_kwdefault x) | None => None end) kd)))
      ++ PK ":" :: pp slot_Lambda_body body
  | NamedExpr t v => PN t :: PK ":=" :: pp slot_NamedExpr_value v
  | Attribute v a => pparen (int_literal v) (pp slot_Attribute_value v) ++ [PK "."; PN a]
  | Call f args kws =>
      pp slot_Call_func f ++ PK "(" ::
      (match args, kws with
       | [x], [] => pp slot_Call_onlyarg x
       | _, _ => join [PK ","] (map (pp slot_Call_arg) args ++ map kwp kws)
       end) ++ [PK ")"]
  | Starred v => PK "*" :: pp slot_Starred_value v
  | EList l => PK "[" :: join [PK ","] (map (pp slot_List_elt) l) ++ [PK "]"]
  | ESet l => PK "{" :: join [PK ","] (map (pp slot_Set_elt) l) ++ [PK "}"]
  | ETuple l =>
      match l with
      | [x] => PK "(" :: pp slot_Tuple_elt x ++ [PK ","; PK ")"]
      | _ => PK "(" :: join [PK ","] (map (pp slot_Tuple_elt) l) ++ [PK ")"]
      end
  | EDict ks vs => PK "{" :: join [PK ","] (ditems ks vs) ++ [PK "}"]
  | DictComp k v gs => PK "{" :: pp slot_DictComp_key k ++ PK ":" :: pp slot_DictComp_value v ++ gtoks gs ++ [PK "}"]
  | ListComp x gs => PK "[" :: pp slot_ListComp_elt x ++ gtoks gs ++ [PK "]"]
  | SetComp x gs => PK "{" :: pp slot_SetComp_elt x ++ gtoks gs ++ [PK "}"]
  | GeneratorExp x gs => pp slot_GeneratorExp_elt x ++ gtoks gs
  | Subscript v s => pp slot_Subscript_value v ++ PK "[" :: index_toks s ++ [PK "]"]
  | Slice a b c =>
      (match a with Some x => pp slot_Slice_lower x | None => [] end) ++ PK ":" ::
      (match b with Some x => pp slot_Slice_upper x | None => [] end) ++ PK ":" ::
      (match c with Some x => pp slot_Slice_step x | None => [] end)
  | _ => []
  end.
Lemma pp_unfold slot e : pp slot e = pparen (Nat.ltb slot (node_prec e)) (pbody e).
Proof. destruct e; reflexivity. Qed.

(* the core: the node kinds above, in the shapes the parser produces *)
Definition is_starred (e : expr) : bool := match e with Starred _ => true | _ => false end.
Definition is_name (e : expr) : bool := match e with Name _ => true | _ => false end.
(* targets of comprehension clauses: a name, or a flat tuple / list of names *)
Definition is_target (t : expr) : bool :=
  match t with Name _ => true | ETuple l | EList l => forallb is_name l | _ => false end.

(* [core e]: e is in the core; a starred expression only as an element of a display or a call.  Operand positions use
   [core x && negb (is_starred x)]. *)
(* a literal that is ONE token: a negative number is a minus sign applied to a literal (the parser never produces it, and
   since fix 86a1b7e neither does the converter) *)
Definition lit_ok (c : const) : bool :=
  match c with
  | CInt z => (0 <=? z)%Z
  | CFloat r | CComplex r => negb (starts_with 45%N r) && negb (starts_with 40%N r)
  | _ => true
  end.

Fixpoint core (e : expr) {struct e} : bool :=
  let ec := fun x => core x && negb (is_starred x) in
  match e with
  | Name _ => true
  | Constant c => lit_ok c
  | BinOp l _ r => ec l && ec r
  | UnaryOp _ v => ec v
  | BoolOp _ vs => Nat.leb 2 (length vs) && forallb (fun x => core x && negb (is_starred x)) vs
  | Compare l ops cs => ec l && Nat.eqb (length ops) (length cs) && Nat.leb 1 (length cs)
                        && forallb (fun x => core x && negb (is_starred x)) cs
  | IfExp t b o => ec t && ec b && ec o
  | Lambda po ar va ko kd kw de body =>
      ec body && Nat.leb (length de) (length (po ++ ar)) && Nat.eqb (length kd) (length ko) &&
      forallb (fun x => core x && negb (is_starred x)) de &&
      forallb (fun o => match o with Some x => core x && negb (is_starred x) | None => true end) kd
  | NamedExpr _ v => ec v
  | Attribute v _ => ec v
  | Call f args kws =>
      ec f &&
      match args, kws with
      | [GeneratorExp x gs], [] =>
          (* a generator expression as the only argument is printed without parentheses of its own: f(x for x in y) *)
          ec x && Nat.leb 1 (length gs) &&
          forallb (fun g => match g with
                            | (t, i, ifs, a) =>
                                core t && is_target t && core i && negb (is_starred i) &&
                                forallb (fun c => core c && negb (is_starred c)) ifs && negb a
                            end) gs
      | _, _ => forallb core args && forallb (fun kw => core (snd kw) && negb (is_starred (snd kw))) kws
      end
  | Subscript v s =>
      ec v && match s with
              | Slice a b c =>
                  (match a with Some x => ec x | None => true end) &&
                  (match b with Some x => ec x | None => true end) &&
                  (match c with Some x => ec x | None => true end)
              | ETuple items =>
                  if existsb is_slice items then
                    forallb (fun x => match x with
                                      | Slice a b c =>
                                          (match a with Some y => ec y | None => true end) &&
                                          (match b with Some y => ec y | None => true end) &&
                                          (match c with Some y => ec y | None => true end)
                                      | _ => ec x
                                      end) items
                  else ec s
              | _ => ec s
              end
  | Starred v => ec v
  | EList l | ETuple l => forallb core l
  | ESet l => Nat.leb 1 (length l) && forallb core l
  | EDict ks vs =>
      Nat.eqb (length ks) (length vs) &&
      forallb (fun k => match k with Some x => core x && negb (is_starred x) | None => true end) ks &&
      forallb (fun x => core x && negb (is_starred x)) vs
  | DictComp k v gs =>
      ec k && ec v && Nat.leb 1 (length gs) &&
      forallb (fun g => match g with
                        | (t, i, ifs, a) =>
                            core t && is_target t && core i && negb (is_starred i) &&
                            forallb (fun c => core c && negb (is_starred c)) ifs && negb a
                        end) gs
  | ListComp x gs | SetComp x gs =>
      ec x && Nat.leb 1 (length gs) &&
      forallb (fun g => match g with
                        | (t, i, ifs, a) =>
                            core t && is_target t && core i && negb (is_starred i) &&
                            forallb (fun c => core c && negb (is_starred c)) ifs && negb a
                        end) gs
  | _ => false
  end.
Definition ecore (e : expr) : bool := core e && negb (is_starred e).
(* a clause list of the core *)
Definition gens_core (gs : list comprehension) : bool :=
  forallb (fun g => match g with
                    | (t, i, ifs, a) =>
                        core t && is_target t && core i && negb (is_starred i) &&
                        forallb (fun c => core c && negb (is_starred c)) ifs && negb a
                    end) gs.
(* a generator expression over the core: as an operand it is not in [core] (the theorem covers it in the two positions where
   it is commonly written: the only argument of a call, and a whole parenthesised expression) *)
Definition gen_core (e : expr) : bool :=
  match e with GeneratorExp x gs => ecore x && Nat.leb 1 (length gs) && gens_core gs | _ => false end.
(* the expressions the round trip is proved for *)
Definition core_top (e : expr) : bool := (core e && negb (is_starred e)) || gen_core e.

(* ---------- the parser ---------- *)
Inductive chain := CNone | CBool (o : boolop) | CCmp.

(* the parameter lists collected so far (newest first) *)
Record pst := mkP { q_po : list ident; q_ar : list ident; q_va : option ident; q_star : bool; q_ko : list ident;
                    q_kd : list (option expr); q_kw : option ident; q_de : list expr }.
Definition pst0 : pst := mkP [] [] None false [] [] None [].
Definition p_name (st : pst) (x : ident) (d : option expr) : pst :=
  if q_star st then mkP (q_po st) (q_ar st) (q_va st) true (x :: q_ko st) (d :: q_kd st) (q_kw st) (q_de st)
  else mkP (q_po st) (x :: q_ar st) (q_va st) false (q_ko st) (q_kd st) (q_kw st)
           (match d with Some e => e :: q_de st | None => q_de st end).
Definition p_slash (st : pst) : pst := mkP (rev (q_ar st)) [] (q_va st) (q_star st) (q_ko st) (q_kd st) (q_kw st) (q_de st).
Definition p_star (st : pst) (v : option ident) : pst := mkP (q_po st) (q_ar st) v true (q_ko st) (q_kd st) (q_kw st) (q_de st).
Definition p_dstar (st : pst) (k : ident) : pst := mkP (q_po st) (q_ar st) (q_va st) (q_star st) (q_ko st) (q_kd st) (Some k) (q_de st).
Definition p_lambda (st : pst) (body : expr) : expr :=
  Lambda (q_po st) (rev (q_ar st)) (q_va st) (rev (q_ko st)) (rev (q_kd st)) (q_kw st) (rev (q_de st)) body.

Inductive mode :=
| MExpr (n : nat)                            (* an expression whose top operator has precedence <= n *)
| MLoop (n : nat) (lft : expr) (ch : chain)  (* what may follow [lft] at level n *)
| MAtom
| MElems (close : string) (acc : list expr) (comma : bool)   (* elements of a display / parenthesised form up to [close] *)
| MArgs (acc : list expr) (kws : list (option ident * expr))   (* the rest of a call's arguments *)
| MGens (acc : list comprehension)                             (* comprehension clauses: `for t in i if c ...` *)
| MIfs (t i : expr) (ifs : list expr) (acc : list comprehension)
| MDict (ks : list (option expr)) (vs : list expr)               (* a dict display before an item *)
| MDSep (ks : list (option expr)) (vs : list expr)               (* ... after an item *)
| MParams (n : nat) (st : pst)                                   (* the parameters of a lambda, then its body *)
| MIndex                                                         (* one item of an index: an expression or a slice *)
| MItems (acc : list expr)                                       (* the index of a subscription: one item, or items separated by commas *)
| MSliceUp (lower : option expr)                                 (* after the first colon *)
| MSliceStep (lower upper : option expr).                        (* after the second colon *)

Definition lambda0 (b : expr) : expr := Lambda [] [] None [] [] None [] b.

(* what an expression may start with *)
Inductive prefix := PLam (r : list pt) | PWal (t : ident) (r : list pt) | PUn (o : unop) (r : list pt) | PAtom.
Definition classify_prefix (ts : list pt) : prefix :=
  match ts with
  | PK s :: r =>
      if String.eqb s "lambda" then PLam r
      else if String.eqb s "not" then PUn Not r
      else if String.eqb s "-" then PUn USub r
      else if String.eqb s "+" then PUn UAdd r
      else if String.eqb s "~" then PUn Invert r
      else PAtom
  | PN t :: r => if hd_is ":=" r then PWal t (tl r) else PAtom
  | _ => PAtom
  end.

(* what may follow an expression *)
Inductive follow :=
| KDot (a : ident) (r : list pt) | KLPar (r : list pt) | KLBr (r : list pt) | KIf (r : list pt)
| KBool (o : boolop) (r : list pt) | KCmp (o : cmpop) (r : list pt) | KBin (o : binop) (r : list pt) | KOther.
Definition classify (ts : list pt) : follow :=
  match ts with
  | PK s :: r =>
      if String.eqb s "." then (match r with PN a :: r' => KDot a r' | _ => KOther end)
      else if String.eqb s "(" then KLPar r
      else if String.eqb s "[" then KLBr r
      else if String.eqb s "if" then KIf r
      else if String.eqb s "and" then KBool And r
      else if String.eqb s "or" then KBool Or r
      else match cmp_of ts with
           | Some (o, r') => KCmp o r'
           | None => match binop_of s with Some o => KBin o r | None => KOther end
           end
  | _ => KOther
  end.

Definition boolop_eqb (a b : boolop) : bool := match a, b with And, And | Or, Or => true | _, _ => false end.
Definition extend_bool (ch : chain) (lft : expr) (o : boolop) (v : expr) : expr :=
  match ch, lft with
  | CBool o', BoolOp o'' vs => if boolop_eqb o o' && boolop_eqb o o'' then BoolOp o (vs ++ [v]) else BoolOp o [lft; v]
  | _, _ => BoolOp o [lft; v]
  end.
Definition extend_cmp (ch : chain) (lft : expr) (o : cmpop) (c : expr) : expr :=
  match ch, lft with
  | CCmp, Compare l ops cs => Compare l (ops ++ [o]) (cs ++ [c])
  | _, _ => Compare lft [o] [c]
  end.

(* what a closed element list is: a parenthesised single expression without a comma is that expression *)
Definition finish (close : string) (acc : list expr) (comma : bool) : option expr :=
  if String.eqb close ")" && negb comma then
    match acc with
    | [e] => if is_starred e then None else Some e
    | [] => Some (ETuple [])
    | _ => None
    end
  else Some (ETuple (rev acc)).

(* the carrier of a call's argument lists *)
Definition args_carrier (acc : list expr) (kws : list (option ident * expr)) : expr := Call (Name "") (rev acc) (rev kws).

(* where a part of a slice ends *)
Definition slice_stop (ts : list pt) : bool := hd_is ":" ts || hd_is "]" ts || hd_is "," ts.

Fixpoint pc (f : nat) (m : mode) (ts : list pt) {struct f} : option (expr * list pt) :=
  match f with
  | O => None
  | S f' =>
    match m with
    | MAtom =>
        match ts with
        | PN i :: r => Some (Name i, r)
        | PL c :: r => Some (Constant c, r)
        | PK s :: r =>
            if String.eqb s "(" then pc f' (MElems ")" [] false) r
            else if String.eqb s "[" then
              match pc f' (MElems "]" [] false) r with
              | Some (ETuple l, r') => Some (EList l, r')
              | Some (GeneratorExp x gs, r') => Some (ListComp x gs, r')
              | _ => None
              end
            else if String.eqb s "{" then
              let set_path :=
                match pc f' (MElems "}" [] false) r with
                | Some (ETuple (x :: l), r') => Some (ESet (x :: l), r')
                | Some (GeneratorExp x gs, r') => Some (SetComp x gs, r')
                | _ => None
                end in
              if hd_is "}" r then Some (EDict [] [], tl r)
              else if hd_is "**" r then pc f' (MDict [] []) r
              else if hd_is "*" r then set_path
              else
                match pc f' (MExpr TOP) r with
                | Some (k, PK s1 :: r1) =>
                    if String.eqb s1 ":" then
                      match pc f' (MExpr TOP) r1 with
                      | Some (v, PK s2 :: r2) =>
                          if String.eqb s2 "for" then
                            match pc f' (MGens []) (PK s2 :: r2) with
                            | Some (GeneratorExp _ gens, PK s3 :: r3) =>
                                if String.eqb s3 "}" then Some (DictComp k v gens, r3) else None
                            | _ => None
                            end
                          else pc f' (MDSep [Some k] [v]) (PK s2 :: r2)
                      | _ => None
                      end
                    else set_path
                | _ => None
                end
            else None
        | [] => None
        end
    | MElems close acc comma =>
        if hd_is close ts then
          match finish close acc comma with Some e => Some (e, tl ts) | None => None end
        else
          match (if hd_is "*" ts
                 then match pc f' (MExpr slot_Starred_value) (tl ts) with
                      | Some (v, r) => Some (Starred v, r)
                      | None => None
                      end
                 else pc f' (MExpr TOP) ts) with
          | Some (e, PK s :: r) =>
              if String.eqb s "," then pc f' (MElems close (e :: acc) true) r
              else if String.eqb s close then
                match finish close (e :: acc) comma with Some x => Some (x, r) | None => None end
              else if String.eqb s "for" then
                match acc with
                | [] =>
                    if is_starred e then None
                    else match pc f' (MGens []) (PK s :: r) with
                         | Some (GeneratorExp _ gens, PK s2 :: r2) =>
                             if String.eqb s2 close then Some (GeneratorExp e gens, r2) else None
                         | _ => None
                         end
                | _ => None
                end
              else None
          | _ => None
          end
    | MGens acc =>
        if hd_is "for" ts then
          match pc f' (MExpr slot_Compare_left) (tl ts) with        (* the target stops before `in` *)
          | Some (t, PK s :: r) =>
              if String.eqb s "in" then
                match pc f' (MExpr slot_comp_iter) r with
                | Some (i, r') => pc f' (MIfs t i [] acc) r'
                | None => None
                end
              else None
          | _ => None
          end
        else Some (GeneratorExp (Name "") (rev acc), ts)
    | MIfs t i ifs acc =>
        if hd_is "if" ts then
          match pc f' (MExpr slot_comp_if) (tl ts) with
          | Some (c, r) => pc f' (MIfs t i (c :: ifs) acc) r
          | None => None
          end
        else pc f' (MGens ((t, i, rev ifs, false) :: acc)) ts
    | MDict ks vs =>
        if hd_is "}" ts then Some (EDict (rev ks) (rev vs), tl ts)
        else if hd_is "**" ts then
          match pc f' (MExpr slot_Dict_starvalue) (tl ts) with
          | Some (v, r) => pc f' (MDSep (None :: ks) (v :: vs)) r
          | None => None
          end
        else
          match pc f' (MExpr TOP) ts with
          | Some (k, PK s1 :: r1) =>
              if String.eqb s1 ":" then
                match pc f' (MExpr TOP) r1 with
                | Some (v, r2) => pc f' (MDSep (Some k :: ks) (v :: vs)) r2
                | None => None
                end
              else None
          | _ => None
          end
    | MParams n st =>
        if hd_is ":" ts then
          match pc f' (MExpr slot_Lambda_body) (tl ts) with
          | Some (b, r') => pc f' (MLoop n (p_lambda st b) CNone) r'
          | None => None
          end
        else
          let next := fun (st' : pst) (rest : list pt) =>
            match rest with
            | PK s :: r =>
                if String.eqb s "," then pc f' (MParams n st') r
                else if String.eqb s ":" then pc f' (MParams n st') rest else None
            | _ => None
            end in
          match ts with
          | PK s :: r =>
              if String.eqb s "/" then next (p_slash st) r
              else if String.eqb s "**" then match r with PN k :: r' => next (p_dstar st k) r' | _ => None end
              else if String.eqb s "*" then match r with PN v :: r' => next (p_star st (Some v)) r' | _ => next (p_star st None) r end
              else None
          | PN x :: r =>
              if hd_is "=" r then
                match pc f' (MExpr slot_Lambda_default) (tl r) with
                | Some (d, r') => next (p_name st x (Some d)) r'
                | None => None
                end
              else next (p_name st x None) r
          | _ => None
          end
    | MItems acc =>
        if hd_is "]" ts then
          match acc with [] => None | _ :: _ => Some (ETuple (rev acc), ts) end        (* a trailing comma *)
        else
          match pc f' MIndex ts with
          | Some (e, r) =>
              if hd_is "," r then pc f' (MItems (e :: acc)) (tl r)
              else match acc with [] => Some (e, r) | _ :: _ => Some (ETuple (rev (e :: acc)), r) end
          | None => None
          end
    | MIndex =>
        if hd_is ":" ts then pc f' (MSliceUp None) (tl ts)
        else
          match pc f' (MExpr slot_Subscript_slice) ts with
          | Some (e, r) => if hd_is ":" r then pc f' (MSliceUp (Some e)) (tl r) else Some (e, r)
          | None => None
          end
    | MSliceUp lower =>
        if slice_stop ts then
          (if hd_is ":" ts then pc f' (MSliceStep lower None) (tl ts) else Some (Slice lower None None, ts))
        else
          match pc f' (MExpr slot_Slice_upper) ts with
          | Some (u, r) => if hd_is ":" r then pc f' (MSliceStep lower (Some u)) (tl r) else Some (Slice lower (Some u) None, r)
          | None => None
          end
    | MSliceStep lower upper =>
        if slice_stop ts then Some (Slice lower upper None, ts)
        else
          match pc f' (MExpr slot_Slice_step) ts with
          | Some (st, r) => Some (Slice lower upper (Some st), r)
          | None => None
          end
    | MDSep ks vs =>
        match ts with
        | PK s :: r =>
            if String.eqb s "," then pc f' (MDict ks vs) r
            else if String.eqb s "}" then Some (EDict (rev ks) (rev vs), r) else None
        | _ => None
        end
    | MExpr n =>
        match classify_prefix ts with
        | PLam r => if Nat.leb node_prec_Lambda n then pc f' (MParams n pst0) r else None
        | PWal t r =>
            if Nat.leb node_prec_NamedExpr n then
              match pc f' (MExpr slot_NamedExpr_value) r with
              | Some (v, r') => pc f' (MLoop n (NamedExpr t v) CNone) r'
              | None => None
              end
            else None
        | PUn o r =>
            if Nat.leb (unop_prec o) n then
              match pc f' (MExpr (slot_UnaryOp o)) r with
              | Some (v, r') => pc f' (MLoop n (UnaryOp o v) CNone) r'
              | None => None
              end
            else None
        | PAtom =>
            match pc f' MAtom ts with
            | Some (a, r) => pc f' (MLoop n a CNone) r
            | None => None
            end
        end
    | MLoop n lft ch =>
        match classify ts with
        | KDot a r => pc f' (MLoop n (Attribute lft a) CNone) r
        | KLPar r =>
            match pc f' (MArgs [] []) r with
            | Some (Call _ args kws, r') => pc f' (MLoop n (Call lft args kws) CNone) r'
            | _ => None
            end
        | KLBr r =>
            match pc f' (MItems []) r with
            | Some (s, PK s' :: r') => if String.eqb s' "]" then pc f' (MLoop n (Subscript lft s) CNone) r' else None
            | _ => None
            end
        | KIf r =>
            if Nat.leb node_prec_IfExp n then
              match pc f' (MExpr slot_IfExp_test) r with
              | Some (t, PK s' :: r') =>
                  if String.eqb s' "else" then
                    match pc f' (MExpr slot_IfExp_orelse) r' with
                    | Some (o, r'') => pc f' (MLoop n (IfExp t lft o) CNone) r''
                    | None => None
                    end
                  else None
              | _ => None
              end
            else Some (lft, ts)
        | KBool o r =>
            if Nat.leb (boolop_prec o) n then
              match pc f' (MExpr (slot_BoolOp o)) r with
              | Some (v, r') => pc f' (MLoop n (extend_bool ch lft o v) (CBool o)) r'
              | None => None
              end
            else Some (lft, ts)
        | KCmp o r =>
            if Nat.leb node_prec_Compare n then
              match pc f' (MExpr slot_Compare_comparator) r with
              | Some (c, r') => pc f' (MLoop n (extend_cmp ch lft o c) CCmp) r'
              | None => None
              end
            else Some (lft, ts)
        | KBin o r =>
            if Nat.leb (binop_prec o) n then
              match pc f' (MExpr (slot_BinOp_right o)) r with
              | Some (x, r') => pc f' (MLoop n (BinOp lft o x) CNone) r'
              | None => None
              end
            else Some (lft, ts)
        | KOther => Some (lft, ts)
        end
    | MArgs acc kws =>
        if hd_is ")" ts then Some (args_carrier acc kws, tl ts)
        else
          let after := fun (acc' : list expr) (kws' : list (option ident * expr)) (rest : list pt) =>
            match rest with
            | PK s :: r =>
                if String.eqb s "," then pc f' (MArgs acc' kws') r
                else if String.eqb s ")" then Some (args_carrier acc' kws', r) else None
            | _ => None
            end in
          (* a positional argument; `f(x for x in y)`: a generator expression may stand bare as the ONLY argument *)
          let after_pos := fun (a : expr) (rest : list pt) =>
            if hd_is "for" rest then
              match acc, kws with
              | [], [] =>
                  match pc f' (MGens []) rest with
                  | Some (GeneratorExp _ gens, PK s2 :: r2) =>
                      if String.eqb s2 ")" then Some (args_carrier [GeneratorExp a gens] [], r2) else None
                  | _ => None
                  end
              | _, _ => None
              end
            else after (a :: acc) kws rest in
          if hd_is "**" ts then
            match pc f' (MExpr slot_Call_kwarg) (tl ts) with
            | Some (v, rest) => after acc ((None, v) :: kws) rest
            | None => None
            end
          else if hd_is "*" ts then
            match pc f' (MExpr slot_Starred_value) (tl ts) with
            | Some (v, rest) => after (Starred v :: acc) kws rest
            | None => None
            end
          else
            match ts with
            | PN k :: PK s :: r =>
                if String.eqb s "=" then
                  match pc f' (MExpr slot_Call_kwarg) r with
                  | Some (v, rest) => after acc ((Some k, v) :: kws) rest
                  | None => None
                  end
                else
                  match pc f' (MExpr TOP) ts with
                  | Some (a, rest) => after_pos a rest
                  | None => None
                  end
            | _ =>
                match pc f' (MExpr TOP) ts with
                | Some (a, rest) => after_pos a rest
                | None => None
                end
            end
    end
  end.

Definition parse_core (ts : list pt) : option expr :=
  match pc (4 * length ts + 8) (MExpr slot_top) ts with
  | Some (e, []) => Some e
  | _ => None
  end.

(* ---------- the tie to Unparse.utoks: the unparser's tokens, normalised to the parser's alphabet ---------- *)
Fixpoint words_go (cur : string) (s : string) : list string :=
  match s with
  | EmptyString => match cur with EmptyString => [] | _ => [cur] end
  | String c r =>
      if Ascii.eqb c " "%char then (match cur with EmptyString => words_go EmptyString r | _ => cur :: words_go EmptyString r end)
      else words_go (cur ++ String c EmptyString) r
  end.
Definition words (s : string) : list string := words_go EmptyString s.

Definition norm_tok (t : tok) : list pt :=
  match t with
  | TName s => [PN s]
  | TLit c _ => [PL c]
  | TP s => if String.eqb s ",)" then [PK ","; PK ")"] else map PK (words s)
  | TFText _ => [PK "<f-string>"]
  end.
Definition norm (ts : list tok) : list pt := flat_map norm_tok ts.

Definition pt_key (t : pt) : string :=
  match t with
  | PN i => "N " ++ i
  | PL c => "L " ++ Sexp.sexp_to_string (sx_const c)
  | PK s => "K " ++ s
  end.
Definition pts_eqb (a b : list pt) : bool :=
  (fix go (a b : list pt) : bool :=
     match a, b with
     | [], [] => true
     | x :: a', y :: b' => String.eqb (pt_key x) (pt_key y) && go a' b'
     | _, _ => false
     end) a b.
Definition expr_same (a b : expr) : bool :=
  String.eqb (Sexp.sexp_to_string (sx_expr a)) (Sexp.sexp_to_string (sx_expr b)).

(* (in the core?, unparser tokens = printer tokens?, parser reads the tree back?) *)
Definition core_check (e : expr) : bool * bool * bool :=
  (core_top e, pts_eqb (norm (utoks slot_top DQ e)) (pp slot_top e),
   match parse_core (pp slot_top e) with Some e' => expr_same e e' | None => false end).

Definition sx_pt (t : pt) : Sexp.sexp :=
  match t with
  | PN i => Sexp.L [Sexp.A "N"; Sexp.sx_ident i]
  | PL c => Sexp.L [Sexp.A "L"; sx_const c]
  | PK s => Sexp.L [Sexp.A "K"; Sexp.sx_cps (s2t s)]
  end.
Definition pt_of (x : Sexp.sexp) : option pt :=
  match x with
  | Sexp.L [Sexp.A "N"; i] => option_map PN (Sexp.ident_of i)
  | Sexp.L [Sexp.A "L"; c] => option_map PL (const_of c)
  | Sexp.L [Sexp.A "K"; k] => option_map PK (Sexp.bytes_of k)
  | _ => None
  end.
