(* C09: the helper names of the converter model.  All of them are built by [ol]; they carry the reserved prefix,
   and names built for different purposes or for different statement positions are different. *)
From Coq Require Import String Ascii List ZArith Bool Arith Lia.
From OL Require Import Sexp PyAst Namespace Lower KSem Names.
Import ListNotations.
Open Scope string_scope.

Fixpoint is_prefix_str (p s : string) : bool :=
  match p, s with
  | EmptyString, _ => true
  | String a p', String b s' => Ascii.eqb a b && is_prefix_str p' s'
  | _, EmptyString => false
  end.

Definition reserved (s : ident) : bool := is_prefix_str "__ol_" s.

Theorem helper_reserved : forall k s, reserved (ol k s) = true.
Proof. intros k s. reflexivity. Qed.

(* a user identifier (one that does not carry the reserved prefix) is never a helper name *)
Theorem user_name_not_helper : forall x k s, reserved x = false -> x <> ol k s.
Proof. intros x k s H E. subst x. rewrite helper_reserved in H. discriminate. Qed.

(* the purposes ("kinds") for which the model creates names *)
Definition helper_kinds : list string :=
  ["break"; "interrupt"; "it"; "for"; "while"; "assign"; "augass"; "sllice"; "mod"; "loader"; "key"; "value";
   "retv"; "ret"; "nonlocal"; "classnsp"].

Lemma kinds_diverge : forall k1 k2, List.In k1 helper_kinds -> List.In k2 helper_kinds -> k1 <> k2 ->
  diverge (k1 ++ "_") (k2 ++ "_") = true.
Proof.
  intros k1 k2 H1 H2 Hne. cbn in H1, H2.
  repeat (destruct H1 as [<-|H1]); try contradiction;
    repeat (destruct H2 as [<-|H2]); try contradiction; try reflexivity; contradiction.
Qed.

(* helper names made for different purposes never coincide, whatever their suffixes *)
Theorem helpers_distinct_kinds : forall k1 k2 s1 s2, List.In k1 helper_kinds -> List.In k2 helper_kinds -> k1 <> k2 ->
  ol k1 s1 <> ol k2 s2.
Proof. intros. apply ol_kind_ne. apply kinds_diverge; assumption. Qed.

(* helper names made for the same purpose at different statement positions never coincide *)
Theorem helpers_distinct_positions : forall k p q, p <> q -> ol k (path_str p) <> ol k (path_str q).
Proof. intros k p q Hne E. apply Hne. apply path_str_inj. eapply ol_inj_same. exact E. Qed.

(* ... and per-namespace helpers of different namespaces never coincide *)
Theorem helpers_distinct_namespaces : forall k i j, i <> j -> ol k (ncode i) <> ol k (ncode j).
Proof. intros k i j Hne E. apply Hne. apply ncode_inj. eapply ol_inj_same. exact E. Qed.

(* the position codes are injective (so is the whole naming function, per kind) *)
Theorem position_code_injective : forall p q, path_str p = path_str q -> p = q.
Proof. exact path_str_inj. Qed.

Example fresh_example :
  ol "break" (path_str [1; 0; 2]) <> ol "interrupt" (path_str [1; 0; 2]) /\
  ol "break" (path_str [1; 0; 2]) <> ol "break" (path_str [0; 0; 2]) /\ reserved "itertools" = false.
Proof.
  split; [apply helpers_distinct_kinds; cbn; auto; discriminate|]. split; [apply helpers_distinct_positions; discriminate|reflexivity].
Qed.
