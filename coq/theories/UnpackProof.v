(* C13: the accessors emitted by Lower.assign_auto select what Python's unpacking binds. *)
From Coq Require Import String List ZArith Bool Arith Lia.
From OL Require Import Sexp PyAst Namespace Lower Unpack.
Import ListNotations.
Open Scope string_scope.
Open Scope list_scope.

Section Proof.
  Variable V : Type.
  Variable g : nsp.
  Hypothesis Hg : n_kind g = NGlobal.

  Notation unpack := (unpack V).
  Notation unpack_nostar := (unpack_nostar V).

  Lemma assign_name p x sub : assign_auto g p (Name x) sub = inl [NamedExpr x sub].
  Proof. cbn. unfold get_assign. rewrite Hg. reflexivity. Qed.

  Lemma nth_error_app_pre (pre cur : list V) a :
    nth_error (pre ++ a :: cur) (length pre) = Some a.
  Proof. rewrite nth_error_app2 by lia. rewrite Nat.sub_diag. reflexivity. Qed.

  Lemma py_index_front (pre cur : list V) a :
    py_index V (pre ++ a :: cur) (Z.of_nat (length pre)) = Some a.
  Proof.
    unfold py_index. rewrite app_length. cbn [length].
    replace (Z.of_nat (length pre) <? 0)%Z with false by (symmetry; apply Z.ltb_ge; lia).
    replace ((0 <=? Z.of_nat (length pre))%Z && (Z.of_nat (length pre) <? Z.of_nat (length pre + S (length cur)))%Z)
      with true by (symmetry; apply andb_true_iff; split; [apply Z.leb_le|apply Z.ltb_lt]; lia).
    rewrite Nat2Z.id. apply nth_error_app_pre.
  Qed.

  (* negative index: position i of n targets, counted from the end *)
  Lemma py_index_back (pre cur : list V) a (i n : nat) :
    i < n -> n - i = S (length cur) ->
    py_index V (pre ++ a :: cur) (Z.of_nat i - Z.of_nat n) = Some a.
  Proof.
    intros Hi Hn. unfold py_index. rewrite app_length. cbn [length].
    replace (Z.of_nat i - Z.of_nat n <? 0)%Z with true by (symmetry; apply Z.ltb_lt; lia).
    replace (Z.of_nat i - Z.of_nat n + Z.of_nat (length pre + S (length cur)))%Z
      with (Z.of_nat (length pre)) by lia.
    replace ((0 <=? Z.of_nat (length pre))%Z && (Z.of_nat (length pre) <? Z.of_nat (length pre + S (length cur)))%Z)
      with true by (symmetry; apply andb_true_iff; split; [apply Z.leb_le|apply Z.ltb_lt]; lia).
    rewrite Nat2Z.id. apply nth_error_app_pre.
  Qed.

  Variable tmpn : ident.
  Variable p : path.
  Variable n : nat.     (* number of targets of the whole pattern *)

  Let go := pattern_go (fun p0 t0 v0 => assign_auto g p0 t0 v0) (Name tmpn) (Z.of_nat n) p.

  (* targets after the star: tmp[i - n] *)
  Lemma go_after_star : forall ts index (pre cur : list V) bs,
    n = index + length ts ->
    unpack_nostar ts cur = Some bs ->
    exists stores, go (map (tgt_expr) ts) index true = inl stores /\
                   eval_stores V tmpn (pre ++ cur) stores = Some bs.
  Proof.
    induction ts as [|t ts IH]; intros index pre cur bs Hn Hu.
    - destruct cur; cbn in Hu; [|discriminate]. injection Hu as <-. exists []. split; reflexivity.
    - destruct t as [x|x]; [|destruct cur; discriminate].
      destruct cur as [|a cur]; [discriminate|]. cbn [Unpack.unpack_nostar] in Hu.
      destruct (unpack_nostar ts cur) as [bs'|] eqn:E; [|discriminate]. injection Hu as <-.
      assert (Hlen : length ts = length cur).
      { clear -E. revert cur bs' E. induction ts as [|[y|y] ts IH]; intros [|c cur] bs' E; cbn in E; try discriminate; auto.
        destruct (Unpack.unpack_nostar V ts cur) eqn:E'; [|discriminate]. cbn. f_equal. eapply IH; eauto. }
      specialize (IH (S index) (pre ++ [a]) cur bs' ltac:(cbn [length] in Hn; lia) E).
      destruct IH as [stores [Hgo Hev]].
      exists (NamedExpr x (Subscript (Name tmpn) (nint (Z.of_nat index - Z.of_nat n))) :: stores).
      split.
      + unfold go in *. cbn [map tgt_expr pattern_go]. rewrite assign_name. cbn [rbind].
        rewrite Hgo. reflexivity.
      + rewrite <- app_assoc in Hev. cbn [app] in Hev. cbn [eval_stores eval_store eval_acc].
        rewrite int_of_nint, String.eqb_refl.
        rewrite (py_index_back pre cur a index n) by (cbn [length] in Hn; lia).
        cbn [option_map]. rewrite Hev. reflexivity.
  Qed.

  Lemma unpack_nostar_length : forall ts cur bs, unpack_nostar ts cur = Some bs -> length ts = length cur.
  Proof.
    induction ts as [|[y|y] ts IH]; intros [|c cur] bs E; cbn in E; try discriminate; auto.
    destruct (Unpack.unpack_nostar V ts cur) eqn:E'; [|discriminate]. cbn. f_equal. eapply IH; eauto.
  Qed.

  Lemma py_slice_star (pre cur : list V) (k : nat) (index : nat) :
    length pre = index -> k <= length cur -> n = index + S k ->
    py_slice V (pre ++ cur) (Z.of_nat index)
             (if (Z.of_nat index - Z.of_nat n + 1 =? 0)%Z then None else Some (Z.of_nat index - Z.of_nat n + 1)%Z)
    = firstn (length cur - k) cur.
  Proof.
    intros Hpre Hk Hn. unfold py_slice. rewrite app_length.
    set (Lz := Z.of_nat (length pre + length cur)).
    assert (Ha : clamp Lz (Z.of_nat index) = Z.of_nat index).
    { unfold clamp. replace (Z.of_nat index <? 0)%Z with false by (symmetry; apply Z.ltb_ge; lia).
      apply Z.min_l. subst Lz. lia. }
    rewrite Ha.
    assert (Hb : match (if (Z.of_nat index - Z.of_nat n + 1 =? 0)%Z then None
                        else Some (Z.of_nat index - Z.of_nat n + 1)%Z) with
                 | Some h => clamp Lz h | None => Lz end = (Lz - Z.of_nat k)%Z).
    { destruct (Z.eqb_spec (Z.of_nat index - Z.of_nat n + 1) 0) as [E|E].
      - assert (k = 0) by lia. subst k. lia.
      - unfold clamp.
        replace (Z.of_nat index - Z.of_nat n + 1 <? 0)%Z with true by (symmetry; apply Z.ltb_lt; lia).
        rewrite Z.max_l by (subst Lz; lia). lia. }
    rewrite Hb. rewrite Nat2Z.id. rewrite <- Hpre.
    rewrite skipn_app, skipn_all, Nat.sub_diag. cbn [app skipn].
    f_equal. subst Lz. lia.
  Qed.

  (* targets before (and including) the star *)
  Lemma go_before_star : forall ts index (pre cur : list V) bs,
    length pre = index -> n = index + length ts ->
    unpack ts cur = Some bs ->
    exists stores, go (map (tgt_expr) ts) index false = inl stores /\
                   eval_stores V tmpn (pre ++ cur) stores = Some bs.
  Proof.
    induction ts as [|t ts IH]; intros index pre cur bs Hpre Hn Hu.
    - destruct cur; cbn in Hu; [|discriminate]. injection Hu as <-. exists []. split; reflexivity.
    - destruct t as [x|x].
      + destruct cur as [|a cur]; [discriminate|]. cbn [Unpack.unpack] in Hu.
        destruct (unpack ts cur) as [bs'|] eqn:E; [|discriminate]. injection Hu as <-.
        specialize (IH (S index) (pre ++ [a]) cur bs').
        destruct IH as [stores [Hgo Hev]]; [rewrite app_length; cbn; lia|cbn [length] in Hn; lia|exact E|].
        exists (NamedExpr x (Subscript (Name tmpn) (cint (Z.of_nat index))) :: stores). split.
        * unfold go in *. cbn [map tgt_expr pattern_go]. rewrite assign_name. cbn [rbind]. rewrite Hgo. reflexivity.
        * rewrite <- app_assoc in Hev. cbn [app] in Hev. cbn [eval_stores eval_store eval_acc].
          rewrite int_of_cint, String.eqb_refl. rewrite <- Hpre. rewrite py_index_front. cbn [option_map]. rewrite Hev. reflexivity.
      + cbn [Unpack.unpack] in Hu.
        destruct (Nat.leb (length ts) (length cur)) eqn:Hle; [|discriminate]. apply Nat.leb_le in Hle.
        destruct (unpack_nostar ts (skipn (length cur - length ts) cur)) as [bs'|] eqn:E; [|discriminate].
        injection Hu as <-.
        destruct (go_after_star ts (S index) (pre ++ firstn (length cur - length ts) cur)
                                (skipn (length cur - length ts) cur) bs') as [stores [Hgo Hev]];
          [cbn [length] in Hn; lia|exact E|].
        rewrite <- app_assoc, firstn_skipn in Hev.
        eexists. split.
        * unfold go in *. cbn [map tgt_expr pattern_go]. rewrite assign_name. cbn [rbind]. rewrite Hgo. reflexivity.
        * cbn [app eval_stores eval_store eval_acc call].
          rewrite int_of_cint, String.eqb_refl.
          assert (Hs := py_slice_star pre cur (length ts) index Hpre Hle ltac:(cbn [length] in Hn; lia)).
          destruct (Z.of_nat index - Z.of_nat n + 1 =? 0)%Z; cbn [option_map]; rewrite ?int_of_nint; rewrite Hs, Hev; reflexivity.
  Qed.
End Proof.

(* The theorem: a flat pattern with at most one starred name, at module level. *)
Theorem unpack_flat_correct : forall (V : Type) (g : nsp) (p : path) (ts : list (tgt)) (value : expr) (v : list V) bs,
  n_kind g = NGlobal ->
  unpack V ts v = Some bs ->
  exists stores,
    assign_auto g p (ETuple (map tgt_expr ts)) value
      = inl (NamedExpr (ol "assign" (path_str p)) (call (Name "tuple") [value]) :: stores)
    /\ eval_stores V (ol "assign" (path_str p)) v stores = Some bs.
Proof.
  intros V g p ts value v bs Hg Hu.
  destruct (go_before_star V g Hg (ol "assign" (path_str p)) p (length ts) ts 0 [] v bs) as [stores [Hgo Hev]];
    [reflexivity|lia|exact Hu|].
  exists stores. split; [|exact Hev].
  cbn [assign_auto]. rewrite map_length. rewrite Hgo. reflexivity.
Qed.

(* same for a list pattern *)
Theorem unpack_flat_correct_list : forall (V : Type) (g : nsp) (p : path) (ts : list (tgt)) (value : expr) (v : list V) bs,
  n_kind g = NGlobal ->
  unpack V ts v = Some bs ->
  exists stores,
    assign_auto g p (EList (map tgt_expr ts)) value
      = inl (NamedExpr (ol "assign" (path_str p)) (call (Name "tuple") [value]) :: stores)
    /\ eval_stores V (ol "assign" (path_str p)) v stores = Some bs.
Proof.
  intros V g p ts value v bs Hg Hu.
  destruct (go_before_star V g Hg (ol "assign" (path_str p)) p (length ts) ts 0 [] v bs) as [stores [Hgo Hev]];
    [reflexivity|lia|exact Hu|].
  exists stores. split; [|exact Hev].
  cbn [assign_auto]. rewrite map_length. rewrite Hgo. reflexivity.
Qed.

(* a second starred target is refused *)
Theorem two_stars_rejected : forall (g : nsp) p pre mid post x y value,
  n_kind g = NGlobal ->
  Forall (fun t => exists z, t = Name z) pre -> Forall (fun t => exists z, t = Name z) mid ->
  assign_auto g p (ETuple (pre ++ Starred (Name x) :: mid ++ Starred (Name y) :: post)) value = inr ESyntax.
Proof.
  intros g p pre mid post x y value Hg Hpre Hmid.
  cbn [assign_auto].
  set (len := Z.of_nat _). set (tmp := Name _).
  assert (A : forall l rest i, Forall (fun t => exists z, t = Name z) l ->
              pattern_go (fun p0 t0 v0 => assign_auto g p0 t0 v0) tmp len p rest (i + length l) true = inr ESyntax ->
              pattern_go (fun p0 t0 v0 => assign_auto g p0 t0 v0) tmp len p (l ++ rest) i true = inr ESyntax).
  { induction l as [|t l IH]; intros rest i Hl Hr.
    - cbn in *. rewrite Nat.add_0_r in Hr. exact Hr.
    - inversion Hl as [|? ? [z ->] Hl']; subst. cbn [app pattern_go].
      rewrite assign_name by exact Hg. cbn [rbind].
      rewrite (IH rest (S i) Hl'); [reflexivity|]. cbn [length] in Hr. rewrite <- Nat.add_succ_comm in Hr. exact Hr. }
  assert (B : forall l rest i, Forall (fun t => exists z, t = Name z) l ->
              pattern_go (fun p0 t0 v0 => assign_auto g p0 t0 v0) tmp len p rest (i + length l) false = inr ESyntax ->
              pattern_go (fun p0 t0 v0 => assign_auto g p0 t0 v0) tmp len p (l ++ rest) i false = inr ESyntax).
  { induction l as [|t l IH]; intros rest i Hl Hr.
    - cbn in *. rewrite Nat.add_0_r in Hr. exact Hr.
    - inversion Hl as [|? ? [z ->] Hl']; subst. cbn [app pattern_go].
      rewrite assign_name by exact Hg. cbn [rbind].
      rewrite (IH rest (S i) Hl'); [reflexivity|]. cbn [length] in Hr. rewrite <- Nat.add_succ_comm in Hr. exact Hr. }
  rewrite (B pre _ 0 Hpre); [reflexivity|].
  cbn [pattern_go]. rewrite assign_name by exact Hg. cbn [rbind].
  rewrite (A mid _ _ Hmid); [reflexivity|]. reflexivity.
Qed.

(* non-vacuity: a concrete pattern, computed *)
Example unpack_example :
  unpack nat [TPlain "a"; TStar "b"; TPlain "c"; TPlain "d"] [1; 2; 3; 4; 5]
  = Some [("a", BVal nat 1); ("b", BList nat [2; 3]); ("c", BVal nat 4); ("d", BVal nat 5)].
Proof. reflexivity. Qed.
