(* C04 — the custom unparser preserves literals exactly and never emits a line break. *)
From Coq Require Import String List NArith Bool.
From OL Require Import PyAst Unparse StrLit SingleLine.
Import ListNotations.

(* every string (any code points: quotes, backslashes, controls, line breaks, surrogates, astral), both quotes:
   the escaped text decodes, by Python's escape rules, to exactly the original code points *)
Theorem C04_str_codec : forall q s, is_quote q -> decode q (escape q s) = Some s.
Proof. exact str_codec. Qed.
Print Assumptions C04_str_codec.

Theorem C04_escape_single_line : forall q s, is_quote q -> no_newline (escape q s) = true.
Proof. exact escape_single_line. Qed.
Print Assumptions C04_escape_single_line.

(* literal text inside f-strings and format specs: brace doubling on top of the escaping *)
Theorem C04_fstring_text_codec : forall q s, is_quote q -> fdecode q (double_braces (escape q s)) = Some s.
Proof. exact fstring_text_codec. Qed.
Print Assumptions C04_fstring_text_codec.

(* the whole unparser: no line break in the output for ANY expression tree (f-strings nested to any depth, format specs,
   conversions, every node kind) whose identifiers and number/bytes reprs contain none *)
Theorem C04_unparse_single_line : forall e, lex_ok e = true -> no_newline (unparse e) = true.
Proof. exact unparse_single_line. Qed.
Print Assumptions C04_unparse_single_line.

Example C04_nonvacuous :
  decode SQ (escape SQ [39; 34; 92; 10; 13; 9; 0; 255; 256; 55296; 128512; 123]%N)
  = Some [39; 34; 92; 10; 13; 9; 0; 255; 256; 55296; 128512; 123]%N.
Proof. exact codec_example. Qed.
