(* C08 — unsupported constructs are rejected, never silently dropped or mistranslated. *)
From Coq Require Import String List Bool ZArith.
From OL Require Import PyAst Namespace Lower Reject KSem KSim Depth DeadCode.
From OLGen Require Import Tables.
Import ListNotations.

(* the statement kinds converted are exactly the keys of the code's dispatch table (regenerated each run) *)
Theorem C08_dispatch_table : map fst dispatch_table = supported_kinds.
Proof. exact dispatch_table_kinds. Qed.
Print Assumptions C08_dispatch_table.

(* any statement kind outside that table, at ANY nesting depth and position the traversal reaches
   (module, function, class, loop body, else branch, def/class nested in a loop ...), makes conversion fail *)
Theorem C08_unsupported_stmt_rejected : forall cfg s c p,
  reaches_unsupported s = true -> failed (lower_stmt cfg c p s).
Proof. exact unsupported_stmt_rejected. Qed.
Print Assumptions C08_unsupported_stmt_rejected.

Theorem C08_unsupported_module_rejected : forall cfg root body,
  existsb reaches_unsupported body = true -> failed (lower_module cfg root body).
Proof. exact unsupported_module_rejected. Qed.
Print Assumptions C08_unsupported_module_rejected.

(* generators / coroutines *)
Theorem C08_yield_rejected : forall n comp inn v, transf n comp inn (Yield v) = inr ERuntime.
Proof. exact yield_rejected. Qed.
Theorem C08_yield_from_rejected : forall n comp inn v, transf n comp inn (YieldFrom v) = inr ERuntime.
Proof. exact yield_from_rejected. Qed.
Theorem C08_await_rejected : forall n comp inn v, transf n comp inn (Await v) = inr ERuntime.
Proof. exact await_rejected. Qed.

(* placement *)
Theorem C08_break_outside_loop : forall cfg n r p, lower_stmt cfg (mkCtx n [] r) p SBreak = inr ESyntax.
Proof. exact break_outside_loop. Qed.
Theorem C08_continue_outside_loop : forall cfg n r p, lower_stmt cfg (mkCtx n [] r) p SContinue = inr ESyntax.
Proof. exact continue_outside_loop. Qed.
Theorem C08_return_outside_function : forall cfg c p v,
  n_kind (c_nsp c) <> NFunction -> lower_stmt cfg c p (SReturn v) = inr ESyntax.
Proof. exact return_outside_function. Qed.
Print Assumptions C08_return_outside_function.

(* the FULL statement - a program containing an unsupported statement ANYWHERE is refused - is refuted: the statements after a
   direct break / continue / return of a block are not dispatched (known finding K-dead-code-unchecked; the theorems above are
   about the statements the traversal reaches, `reaches_unsupported`) *)
Theorem C08_dead_code_unchecked_refuted :
  (exists e, lower_module cfg_list top_symtab dead_code_prog = inl e) /\ existsb reaches_unsupported dead_code_prog = false.
Proof. exact dead_code_unchecked. Qed.
Print Assumptions C08_dead_code_unchecked_refuted.

Example C08_nonvacuous :
  reaches_unsupported
    (SFunctionDef "f" 1%Z (mkArgs [] [] None [] [] None [])
       [SWhile (Name "c") [SIf (Name "d") [SPass; SUnsupported "Try"] []] []] []) = true.
Proof. exact reject_example. Qed.

(* a starred element in the target pattern of a comprehension clause - so, in particular, two starred names in one such pattern -
   is refused, for every kind of comprehension, any clause, any nesting of the pattern *)
Theorem C08_starred_comprehension_target_rejected : forall n bd inn x k v gs, existsb clause_star gs = true ->
  failed (transf n bd inn (ListComp x gs)) /\ failed (transf n bd inn (SetComp x gs)) /\
  failed (transf n bd inn (GeneratorExp x gs)) /\ failed (transf n bd inn (DictComp k v gs)).
Proof. exact starred_comprehension_target_rejected. Qed.
Print Assumptions C08_starred_comprehension_target_rejected.
