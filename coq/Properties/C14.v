(* C14 — imports bind the same objects to the same names. *)
From Coq Require Import String List Bool.
From OL Require Import PyAst Namespace Lower Imports.
Import ListNotations.

(* `import a.b.c [as x]`, for module names of any length: the emitted operation (importlib.import_module, or
   __import__ for an un-aliased dotted name) loads the same modules in the same order and binds the same object to the
   same name as the statement - in every abstract import system (any finder, any module attributes) and every state. *)
Theorem C14_import_equiv : forall exists_mod w m a,
  emitted_import exists_mod w m a = stmt_import exists_mod w m a.
Proof. exact import_equiv. Qed.
Print Assumptions C14_import_equiv.

(* `from m import n1 [as x1], n2, ...` (m already resolved to an absolute name; any number of clauses mixing attributes
   and not-yet-imported submodules): whenever the statement succeeds, `tmp := __import__(m, g, l, [n1, n2, ...], level)`
   followed by the attribute reads leaves the same loaded set, the same execution order and the same bindings in order. *)
Theorem C14_from_equiv : forall exists_mod has_attr w abs names r,
  stmt_from exists_mod has_attr w abs names = Some r -> emitted_from exists_mod has_attr w abs names = Some r.
Proof. exact from_equiv. Qed.
Print Assumptions C14_from_equiv.

(* what the converter model emits for the statement forms (tie between the operations above and Lower.v) *)
Theorem C14_lower_import_alias : forall g name x, n_kind g = NGlobal ->
  lower_import g [(name, Some x)] = inl [NamedExpr x (call (Attribute (Name "__ol_importlib") "import_module") [cstr name])].
Proof. exact lower_import_alias. Qed.
Theorem C14_lower_import_plain : forall g name, n_kind g = NGlobal -> has_dot name = false ->
  lower_import g [(name, None)] = inl [NamedExpr name (call (Attribute (Name "__ol_importlib") "import_module") [cstr name])].
Proof. exact lower_import_plain. Qed.
Theorem C14_lower_import_dotted : forall g name, n_kind g = NGlobal -> has_dot name = true ->
  lower_import g [(name, None)] = inl [NamedExpr (before_dot name) (call (Name "__import__") [cstr name])].
Proof. exact lower_import_dotted. Qed.
Theorem C14_lower_importfrom : forall g p m names lv, n_kind g = NGlobal ->
  forallb (fun al : ident * option ident => negb (String.eqb (fst al) "*")) names = true ->
  lower_importfrom g p m names lv =
  inl (NamedExpr (ol "mod" (path_str p))
         (call (Name "__import__")
            [cstr (match m with Some x => x | None => ""%string end); call (Name "globals") []; call (Name "locals") [];
             EList (map (fun al => cstr (fst al)) names); cint lv])
       :: map (fun al => NamedExpr (match snd al with Some a => a | None => fst al end)
                                   (Attribute (Name (ol "mod" (path_str p))) (fst al))) names).
Proof. exact lower_importfrom_shape. Qed.
Print Assumptions C14_lower_importfrom.

(* ONE import statement naming several modules: one expression per module, in the order written (plain, dotted and aliased
   names mixed in any way) *)
Theorem C14_lower_import_in_order : forall n names, n_kind n = NGlobal ->
  lower_import n names = inl (map (fun al => NamedExpr (import_bound al) (import_value al)) names).
Proof. exact lower_import_in_order. Qed.
Print Assumptions C14_lower_import_in_order.

Example C14_nonvacuous :
  stmt_from ex_exists ex_attr (mkW [] []) ["pkg"]%string [("sub", None); ("mod", Some "m")]%string
  = Some (mkW [["pkg"]; ["pkg"; "sub"]; ["pkg"; "mod"]]%string [["pkg"]; ["pkg"; "sub"]; ["pkg"; "mod"]]%string,
          [("sub", VMod ["pkg"; "sub"]); ("m", VMod ["pkg"; "mod"])]%string).
Proof. exact from_example. Qed.
