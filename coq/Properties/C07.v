(* C07 — evaluation order and evaluate-once are preserved. *)
From Coq Require Import String List ZArith Bool.
From OL Require Import PyAst Namespace Lower FuncDef EvalOrder.
Import ListNotations.

(* `events e` is the sequence of probe calls p(k) that evaluating e performs, in Python's left-to-right order, or None when
   an operand order cannot be read off syntactically (a conditional whose branches differ).  `stable g e` says the
   rewriting leaves e unchanged at module level (probes, global names, attribute chains on them ...); the theorems
   quantify over ALL such operand expressions, any number of targets, any operator. *)

(* ASSIGNMENT with any number of targets, each a name / attribute / subscript: the emitted expressions evaluate the value
   exactly once and first, then each target's object and index, targets left to right. *)
Theorem C07_assign_order : forall g, n_kind g = NGlobal -> forall cfg loops ru p ts v,
  ts <> [] -> Forall (simple_target g) ts -> stable g v ->
  exists es, lower_stmt cfg (mkCtx g loops ru) p (SAssign ts v) = inl es /\ events_seq es = src_assign ts v.
Proof. exact assign_order. Qed.
Print Assumptions C07_assign_order.

(* AUGMENTED ASSIGNMENT: target object (and index) once, then the value; the store re-uses the saved object / index. *)
Theorem C07_augassign_name_order : forall g, n_kind g = NGlobal -> forall cfg loops ru p x op v evs,
  stable g v -> events v = Some evs ->
  exists es, lower_stmt cfg (mkCtx g loops ru) p (SAugAssign (Name x) op v) = inl es /\ events_seq es = Some evs.
Proof. exact augassign_name_order. Qed.
Print Assumptions C07_augassign_name_order.

Theorem C07_augassign_attr_order : forall g cfg loops ru p o a op v eo evs,
  stable g o -> stable g v -> events o = Some eo -> events v = Some evs ->
  exists es, lower_stmt cfg (mkCtx g loops ru) p (SAugAssign (Attribute o a) op v) = inl es /\
             events_seq es = Some (eo ++ evs).
Proof. exact augassign_attr_order. Qed.
Print Assumptions C07_augassign_attr_order.

Theorem C07_augassign_sub_order : forall g cfg loops ru p o i op v eo ei evs,
  stable g o -> stable g i -> (match i with Slice _ _ _ | ETuple _ => False | _ => True end) -> stable g v ->
  events o = Some eo -> events i = Some ei -> events v = Some evs ->
  exists es, lower_stmt cfg (mkCtx g loops ru) p (SAugAssign (Subscript o i) op v) = inl es /\
             events_seq es = Some (eo ++ ei ++ evs).
Proof. exact augassign_sub_order. Qed.
Print Assumptions C07_augassign_sub_order.

(* DEF with any decorators and defaults: decorator expressions top-down, then positional defaults, then keyword-only
   defaults, each once, at definition time (application of the decorators is bottom-up: C11_signature_copied). *)
Theorem C07_def_order : forall cfg g loops ru p name ln args body decs es,
  n_kind g = NGlobal -> Forall (stable g) decs -> Forall (stable g) (a_defaults args) ->
  Forall (fun d => match d with Some x => stable g x | None => True end) (a_kw_defaults args) ->
  lower_stmt cfg (mkCtx g loops ru) p (SFunctionDef name ln args body decs) = inl es ->
  events_seq es = src_def decs args.
Proof. exact def_order. Qed.
Print Assumptions C07_def_order.

(* non-vacuity: probes are stable at module level and are recorded; `o(1).a = d(2)[p(3)] = p(0)` *)
Definition g0 : nsp := Nsp 0 NGlobal "top" 0 [] [] [] [] [] false false [] [] [].
Definition probe (k : Z) : expr := Call (Name "p") [Constant (CInt k)] [].
Example C07_nonvacuous :
  stable g0 (probe 0) /\ Forall (simple_target g0) [Attribute (probe 1) "a"; Subscript (probe 2) (probe 3)] /\
  src_assign [Attribute (probe 1) "a"; Subscript (probe 2) (probe 3)] (probe 0) = Some [0; 1; 2; 3]%Z.
Proof.
  split; [reflexivity|]. split; [|reflexivity].
  repeat constructor; reflexivity.
Qed.

(* the header of a class statement at module level: the bases are evaluated first, then the keywords in the order written -
   a `metaclass=` keyword at its place among them (it used to be evaluated before the bases: fix e4f4404) - once each.
   (Class DECORATOR expressions are evaluated after the body: known finding K-class-decorator-late.) *)
Theorem C07_class_header_order : forall cfg g loops ru p name ln bases kws body decs es,
  n_kind g = NGlobal -> Forall (stable g) bases -> Forall (fun kw => stable g (snd kw)) kws ->
  lower_stmt cfg (mkCtx g loops ru) p (SClassDef name ln bases kws body decs) = inl es ->
  exists create rest, es = create :: rest /\
    events create = oapp (events_seq bases) (events_seq (map snd kws)).
Proof. exact class_header_order. Qed.
Print Assumptions C07_class_header_order.
