(* C12 — classes keep their members, bases, metaclass, method kinds and super(). *)
From Coq Require Import String List ZArith Bool.
From OL Require Import PyAst Namespace Lower ClassNs.
Import ListNotations.

(* For EVERY sequence of class-body stores (duplicates, overwrites, any length): running the stores against a dictionary
   and then installing the dictionary's items, in its order, on the created class yields exactly the ordered attribute map
   the stores produce directly: same names, same final values, same first-insertion order. *)
Theorem C12_members_replay : forall (V : Type) (stores : list (ident * V)),
  run_stores V (run_stores V stores []) [] = run_stores V stores [].
Proof. exact members_replay. Qed.
Print Assumptions C12_members_replay.

Theorem C12_last_write_wins : forall (V : Type) stores d k (v : V), olookup V (run_stores V (stores ++ [(k, v)]) d) k = Some v.
Proof. exact last_write_wins. Qed.
Print Assumptions C12_last_write_wins.

(* the class object is created by calling the metaclass (explicit `metaclass=` keyword, else `type`) with the class name,
   the base expressions in source order rewritten in the defining namespace, and the remaining keywords in order; it is bound
   to the class name in the defining namespace (module global / function local or captured / enclosing class member) *)
Theorem C12_header : forall cfg c p name ln bases kws body decs es,
  lower_stmt cfg c p (SClassDef name ln bases kws body decs) = inl es ->
  exists cn bases' kws' create load rest,
    find_inner (c_nsp c) name ln = Some cn /\ n_kind cn = NClass /\
    rmap (tr (c_nsp c)) bases = inl bases' /\
    rmap (fun kw => rbind (tr (c_nsp c) (snd kw)) (fun v => ret (fst kw, v))) kws = inl kws' /\
    get_assign (c_nsp c) name (class_create p name bases' kws') = inl create /\
    get_load_name (c_nsp c) [] false name = inl load /\
    es = create :: rest.
Proof. exact classdef_shape. Qed.
Print Assumptions C12_header.

(* the statement list of a class statement: creation, the loader (the body run against a dictionary), installation of the
   dictionary's items on the created class, and only THEN the decorators - the last listed first, each applied to the class
   name as bound at that moment and rebinding it (a decorator sees the finished members) *)
Theorem C12_decorators_after_members : forall cfg c p name ln bases kws body decs es,
  lower_stmt cfg c p (SClassDef name ln bases kws body decs) = inl es ->
  exists create loader_body load decorated,
    get_load_name (c_nsp c) [] false name = inl load /\
    rmap (fun d => rbind (tr (c_nsp c) d) (fun d' => get_assign (c_nsp c) name (call d' [load]))) (rev decs) = inl decorated /\
    length decorated = length decs /\
    es = [create;
          NamedExpr (ol "loader" (path_str p)) loader_body;
          ListComp (call (Name "setattr") [load; Name (ol "key" (path_str p)); Name (ol "value" (path_str p))])
                   [(ETuple [Name (ol "key" (path_str p)); Name (ol "value" (path_str p))],
                     call (Attribute (call (Name (ol "loader" (path_str p))) []) "items") [], [], false)]]
         ++ decorated.
Proof. exact classdef_decorators_last. Qed.
Print Assumptions C12_decorators_after_members.

Example C12_nonvacuous :
  run_stores nat [("a", 1); ("b", 2); ("a", 3); ("c", 4); ("b", 5)]%string [] = [("a", 3); ("b", 5); ("c", 4)]%string.
Proof. exact members_example. Qed.
