(* C13 — assignment, destructuring and augmented assignment store what Python stores. *)
From Coq Require Import String List ZArith.
From OL Require Import PyAst Namespace Lower Unpack UnpackProof UnpackNested AugOps.
From OLGen Require Import Tables.
Import ListNotations.

(* For EVERY flat target list with at most one starred name, every sequence of a length Python accepts and
   every value type: the accessors the converter emits (t[i], list(t[s:s-n+1 or None]), t[i-n] over
   t = tuple(value)) select exactly what Python's unpacking binds. *)
Theorem C13_unpack_tuple : forall (V : Type) (g : nsp) (p : path) (ts : list tgt) (value : expr) (v : list V) bs,
  n_kind g = NGlobal ->
  unpack V ts v = Some bs ->
  exists stores,
    assign_auto g p (ETuple (map tgt_expr ts)) value
      = inl (NamedExpr (ol "assign" (path_str p)) (call (Name "tuple") [value]) :: stores)
    /\ eval_stores V (ol "assign" (path_str p)) v stores = Some bs.
Proof. exact unpack_flat_correct. Qed.
Print Assumptions C13_unpack_tuple.

Theorem C13_unpack_list : forall (V : Type) (g : nsp) (p : path) (ts : list tgt) (value : expr) (v : list V) bs,
  n_kind g = NGlobal ->
  unpack V ts v = Some bs ->
  exists stores,
    assign_auto g p (EList (map tgt_expr ts)) value
      = inl (NamedExpr (ol "assign" (path_str p)) (call (Name "tuple") [value]) :: stores)
    /\ eval_stores V (ol "assign" (path_str p)) v stores = Some bs.
Proof. exact unpack_flat_correct_list. Qed.
Print Assumptions C13_unpack_list.

(* NESTED patterns, any depth: tuple / list patterns inside each other, at most one starred target per level, a starred
   target that is itself a pattern.  bind is Python's unpacking on nested sequences (reference semantics); run executes the
   emitted stores IN ORDER - temporaries `__ol_assign_<position> := tuple(<accessor>)`, user names receiving accessors
   `tmp[i]`, `tmp[i - n]`, `list(tmp[i:j])` - from the environment in which the first temporary holds the value's items.
   The stores bind exactly what Python binds, in Python's order; in particular the temporaries of different levels never
   overwrite each other (their names are position-derived: Fresh.helpers_distinct_positions). *)
Theorem C13_unpack_nested : forall (A : Type) (g : nsp) (p : path) (ts : list expr) (tuple_form : bool) (value : expr)
    (l : list (val A)) bs,
  n_kind g = NGlobal ->
  let t := if tuple_form then ETuple ts else EList ts in
  bind A t (VSeq A l) = Some bs ->
  exists stores E',
    assign_auto g p t value = inl (NamedExpr (ol "assign" (path_str p)) (call (Name "tuple") [value]) :: stores)
    /\ run A [(ol "assign" (path_str p), l)] stores = Some (E', bs).
Proof. exact unpack_nested_correct. Qed.
Print Assumptions C13_unpack_nested.

Example C13_nested_nonvacuous :
  let t := ETuple [ETuple [Name "a"; ETuple [Name "b"; Starred (Name "c")]]; Starred (Name "d"); EList [Name "e"]] in
  let v := VSeq nat [VSeq nat [VAtom nat 1; VSeq nat [VAtom nat 2; VAtom nat 3; VAtom nat 4]]; VAtom nat 5; VAtom nat 6; VSeq nat [VAtom nat 7]] in
  bind nat t v = Some [("a"%string, VAtom nat 1); ("b"%string, VAtom nat 2); ("c"%string, VSeq nat [VAtom nat 3; VAtom nat 4]);
                       ("d"%string, VSeq nat [VAtom nat 5; VAtom nat 6]); ("e"%string, VAtom nat 7)].
Proof. exact unpack_nested_example. Qed.

(* two starred names in one pattern are refused, wherever they stand *)
Theorem C13_two_stars_rejected : forall (g : nsp) p pre mid post x y value,
  n_kind g = NGlobal ->
  Forall (fun t => exists z, t = Name z) pre -> Forall (fun t => exists z, t = Name z) mid ->
  assign_auto g p (ETuple (pre ++ Starred (Name x) :: mid ++ Starred (Name y) :: post)) value = inr ESyntax.
Proof. exact two_stars_rejected. Qed.
Print Assumptions C13_two_stars_rejected.

(* the operator table read from the code is the data model's table *)
Theorem C13_op_table : forall o, aug_op_name o = ref_inplace_name o.
Proof. exact op_table_correct. Qed.
Print Assumptions C13_op_table.

(* x op= v at module level: one conditional whose two branches both rebind x *)
Theorem C13_aug_name_rebinds : forall (g : nsp) p x op value v',
  n_kind g = NGlobal -> tr g value = inl v' ->
  lower_augassign g p (Name x) op value =
  inl [IfExp (call (Name "hasattr") [Name x; cstr (aug_op_name op)])
             (NamedExpr x (call (Attribute (Name x) (aug_op_name op)) [v']))
             (NamedExpr x (BinOp (Name x) op v'))].
Proof. exact aug_name_global. Qed.
Print Assumptions C13_aug_name_rebinds.

(* augmented assignment with an in-place method that may DECLINE (return NotImplemented): the emitted conditional stores
   Python's value whenever the method, if there is one, does not decline (PARTIAL) ... *)
Theorem C13_aug_binds_when_not_declined_partial : forall (Val : Type) (ni : Val) has_inplace inplace binary x o v,
  (has_inplace x o = true -> inplace x o v <> None) ->
  emitted_binding_ni Val ni has_inplace inplace binary x o v = py_augassign_ni Val has_inplace inplace binary x o v.
Proof. exact emitted_binds_when_not_declined. Qed.
Print Assumptions C13_aug_binds_when_not_declined_partial.

(* ... and the unrestricted statement is refuted: a declining method makes the emitted code store NotImplemented where Python
   falls back to the binary operator (known finding K-inplace-notimplemented, witness replayed on the real code on every run) *)
Theorem C13_aug_binds_refuted :
  exists (x v : nat) (o : binop),
    emitted_binding_ni nat 0 (fun _ _ => true) (fun _ _ _ => None) (fun _ _ _ => 7) x o v
    <> py_augassign_ni nat (fun _ _ => true) (fun _ _ _ => None) (fun _ _ _ => 7) x o v.
Proof. exact emitted_binding_ni_refuted. Qed.
Print Assumptions C13_aug_binds_refuted.

Example C13_nonvacuous :
  unpack nat [TPlain "a"; TStar "b"; TPlain "c"; TPlain "d"] [1; 2; 3; 4; 5]
  = Some [("a"%string, BVal nat 1); ("b"%string, BList nat [2; 3]); ("c"%string, BVal nat 4); ("d"%string, BVal nat 5)].
Proof. exact unpack_example. Qed.
