(* C13 — assignment, destructuring and augmented assignment store what Python stores. *)
From Coq Require Import String List ZArith.
From OL Require Import PyAst Namespace Lower Unpack UnpackProof AugOps.
From OLGen Require Import Tables.
Import ListNotations.

(* For EVERY flat target list with at most one starred name, every sequence of a length Python accepts and
   every value type: the accessors the converter emits (t[i], list(t[s:s-n+1 or None]), t[i-n] over
   t = tuple(value)) select exactly what Python's unpacking binds. *)
Theorem C13_unpack_tuple : forall (V : Type) (g : nsp) (p : path) (ts : list tgt) (value : expr) (v : list V) bs,
  n_kind g = NGlobal ->
  unpack V ts v = Some bs ->
  exists stores,
    assign_auto g p (ETuple (map tgt_expr ts)) value
      = inl (NamedExpr (ol "assign" (path_str p)) (call (Name "tuple") [value]) :: stores)
    /\ eval_stores V (ol "assign" (path_str p)) v stores = Some bs.
Proof. exact unpack_flat_correct. Qed.
Print Assumptions C13_unpack_tuple.

Theorem C13_unpack_list : forall (V : Type) (g : nsp) (p : path) (ts : list tgt) (value : expr) (v : list V) bs,
  n_kind g = NGlobal ->
  unpack V ts v = Some bs ->
  exists stores,
    assign_auto g p (EList (map tgt_expr ts)) value
      = inl (NamedExpr (ol "assign" (path_str p)) (call (Name "tuple") [value]) :: stores)
    /\ eval_stores V (ol "assign" (path_str p)) v stores = Some bs.
Proof. exact unpack_flat_correct_list. Qed.
Print Assumptions C13_unpack_list.

(* two starred names in one pattern are refused, wherever they stand *)
Theorem C13_two_stars_rejected : forall (g : nsp) p pre mid post x y value,
  n_kind g = NGlobal ->
  Forall (fun t => exists z, t = Name z) pre -> Forall (fun t => exists z, t = Name z) mid ->
  assign_auto g p (ETuple (pre ++ Starred (Name x) :: mid ++ Starred (Name y) :: post)) value = inr ESyntax.
Proof. exact two_stars_rejected. Qed.
Print Assumptions C13_two_stars_rejected.

(* the operator table read from the code is the data model's table *)
Theorem C13_op_table : forall o, aug_op_name o = ref_inplace_name o.
Proof. exact op_table_correct. Qed.
Print Assumptions C13_op_table.

(* x op= v at module level: one conditional whose two branches both rebind x *)
Theorem C13_aug_name_rebinds : forall (g : nsp) p x op value v',
  n_kind g = NGlobal -> tr g value = inl v' ->
  lower_augassign g p (Name x) op value =
  inl [IfExp (call (Name "hasattr") [Name x; cstr (aug_op_name op)])
             (NamedExpr x (call (Attribute (Name x) (aug_op_name op)) [v']))
             (NamedExpr x (BinOp (Name x) op v'))].
Proof. exact aug_name_global. Qed.
Print Assumptions C13_aug_name_rebinds.

Example C13_nonvacuous :
  unpack nat [TPlain "a"; TStar "b"; TPlain "c"; TPlain "d"] [1; 2; 3; 4; 5]
  = Some [("a"%string, BVal nat 1); ("b"%string, BList nat [2; 3]); ("c"%string, BVal nat 4); ("d"%string, BVal nat 5)].
Proof. exact unpack_example. Qed.
