(* C16 — the command line writes exactly the API result and validates options. *)
From Coq Require Import String List Bool.
From OL Require Import Config Cli CliProof.
Import ListNotations.

Theorem C16_bad_option_no_output : forall cs unp out,
  existsb (fun a => negb (good_C a)) cs = true ->
  fst (cli cs unp out) <> VOk /\ snd (cli cs unp out) = [].
Proof. exact bad_option_no_output. Qed.
Print Assumptions C16_bad_option_no_output.

Theorem C16_good_options_effects : forall cs unp out,
  forallb good_C cs = true ->
  exists s, apply_all [] cs = inl s /\
    cli cs unp out =
      (VOk, FRead :: (let s' := match unp with Some u => ("unparser"%string, u) :: s | None => s end in
                      if out then [FOpenOut; FWrite s'] else [FPrint s'])).
Proof. exact good_options_effects. Qed.
Print Assumptions C16_good_options_effects.

Theorem C16_output_touched_only_on_success : forall cs unp out,
  existsb touches_output (snd (cli cs unp out)) = true -> fst (cli cs unp out) = VOk /\ out = true.
Proof. exact output_touched_only_on_success. Qed.
Print Assumptions C16_output_touched_only_on_success.

Example C16_nonvacuous_bad : cli ["unparser=oneliner"; "config_names=x"]%string None true = (VValueError, []).
Proof. exact cli_witness_bad. Qed.
