(* C06 — every name resolves to the same variable after lowering of scopes. *)
From Coq Require Import String List ZArith Bool.
From OL Require Import PyAst Namespace Lower Scope ScopeTree.
Import ListNotations.

(* Python's rule (language reference 4.2.2) is [ref_walk]: the nearest enclosing FUNCTION scope that binds the name,
   class scopes skipped, a `global` declaration on the way ends at the module.  A [cell] is where a variable lives in the
   converted program: local of the lambda of function i, entry of the dictionary of function i, entry of the dictionary
   of class i, module variable.  The symbol flags are CPython's (input); their consistency ([sym_ok], [maps_ok], as
   booleans [tree_ok]) is evaluated by the model on every explored symbol table. *)

(* generate_nsp's search for the origin of a free / nonlocal name is Python's rule, for every stack of scopes *)
Theorem C06_origin_is_nearest_binder : forall stack x j p,
  find_origin stack x = inl (j, p) -> ref_walk stack x = RBinder j \/ ref_walk stack x = RGlobal.
Proof. exact origin_is_nearest_binder. Qed.
Print Assumptions C06_origin_is_nearest_binder.

Theorem C06_nearest_binder_is_found : forall stack x j,
  ref_walk stack x = RBinder j ->
  (exists p, find_origin stack x = inl (j, p)) \/ find_origin stack x = inr EKey.
Proof. exact nearest_binder_is_found. Qed.
Print Assumptions C06_nearest_binder_is_found.

(* for the namespace tree of EVERY symbol table on which generate_nsp succeeds: every outer-map entry x -> o of every
   namespace names a FUNCTION on its chain of enclosing namespaces that keeps x in its dictionary - no access can reach
   into a dictionary the owning function does not fill (by induction over the table tree, through both passes) *)
Theorem C06_dict_storage_consistent : forall lt root tree,
  generate_nsp lt root = inl tree -> forallb dict_ok (all_nsp tree) = true.
Proof. exact generate_nsp_dict_ok. Qed.
Print Assumptions C06_dict_storage_consistent.

(* what get_load_name / get_assign / get_load_assigned emit, in every namespace and expression scope, is the rendering of
   an access decision *)
Theorem C06_load_form : forall n bd inn x, get_load_name n bd inn x = inl (render x (load_access n bd inn x)).
Proof. exact get_load_name_render. Qed.
Theorem C06_store_form : forall n x v,
  get_assign n x v = match store_access n x with Some a => inl (store_form x a v) | None => inr EKey end.
Proof. exact get_assign_store. Qed.
Theorem C06_walrus_value_form : forall n x,
  get_load_assigned n x = match store_access n x with Some a => inl (render x a) | None => inr EKey end.
Proof. exact get_load_assigned_store. Qed.
Print Assumptions C06_load_form.

(* module variables: the emitted access is never captured by the lambda of an enclosing function *)
Theorem C06_global_load_is_module : forall n x, cell_of (self_link n :: n_chain n) x (global_access n x) = CModule.
Proof. exact global_load_is_module. Qed.
Print Assumptions C06_global_load_is_module.

(* function namespaces: loads and stores of a bound name meet in one cell *)
Theorem C06_function_load_store_agree : forall n x a s,
  n_kind n = NFunction -> sym_ok n x = true -> lookup_sym (n_syms n) x = Some s ->
  (sy_declglobal s = true \/ sy_local s = true \/ assoc_nat x (n_outer_map n) <> None) ->
  store_access n x = Some a ->
  own_cell n x (load_access n [] false x) = match a with APlain => CLocal (n_id n) | _ => own_cell n x a end.
Proof. exact function_load_store_agree. Qed.
Print Assumptions C06_function_load_store_agree.

(* class namespaces: member stores go to the class dictionary, class-level loads read it first and the module next *)
Theorem C06_class_load_store_agree : forall n x s,
  n_kind n = NClass -> lookup_sym (n_syms n) x = Some s -> sy_declglobal s = false -> sy_global s = false ->
  assoc_nat x (n_outer_map n) = None ->
  store_access n x = Some (AMember (n_id n)) /\
  own_cell n x (load_access n [] false x) = CMemberElse (n_id n) CModule.
Proof. exact class_load_store_agree. Qed.
Print Assumptions C06_class_load_store_agree.

(* lambda / comprehension bodies inside a class body: class members are invisible, the lookup is Python's *)
Theorem C06_class_inner_never_member : forall n links x, no_member (enclosing_access n links x).
Proof. exact class_inner_never_member. Qed.
Theorem C06_enclosing_load_follows_python : forall n links x,
  maps_ok links x ->
  match ref_walk (map link_anc links) x with
  | RBinder j => enclosing_access n links x = ADict j \/ (enclosing_access n links x = APlain /\ name_cell links x = CLocal j)
  | RGlobal => enclosing_access n links x = global_access n x
  end.
Proof. exact enclosing_load_follows_python. Qed.
Print Assumptions C06_enclosing_load_follows_python.
Theorem C06_maps_check_sound : forall links x, maps_okb links x = true -> maps_ok links x.
Proof. exact maps_okb_sound. Qed.

(* names bound inside the expression (lambda parameters, comprehension targets, assignment expressions inside a lambda) *)
Theorem C06_inner_binder_wins : forall n bd inn x, mem x bd = true -> get_load_name n bd inn x = inl (Name x).
Proof. exact inner_binder_wins. Qed.
Theorem C06_walrus_in_lambda_is_local : forall n bd inn t v v',
  mem t bd = true -> transf n bd inn v = inl v' -> transf n bd inn (NamedExpr t v) = inl (NamedExpr t v').
Proof. exact walrus_in_lambda_is_local. Qed.
Theorem C06_lambda_scope : forall n bd inn po ar va ko kd kw de body e',
  transf n bd inn (Lambda po ar va ko kd kw de body) = inl e' ->
  exists kd' de' body',
    rmap (fun o => match o with Some x => rbind (transf n bd inn x) (fun y => ret (Some y)) | None => ret None end) kd = inl kd' /\
    rmap (transf n bd inn) de = inl de' /\
    transf n (po ++ ar ++ ko ++ opt_list va ++ opt_list kw ++ walrus_names body ++ bd) true body = inl body' /\
    e' = Lambda po ar va ko kd' kw de' body'.
Proof. exact lambda_scope. Qed.
Print Assumptions C06_lambda_scope.

(* non-vacuity: f binds x, g (in f) declares it nonlocal, h (in g) reads it: Python's binder for h is f, and find_origin
   agrees (the search used to stop at g) *)
Definition sym (x : ident) (local nl fr : bool) : symbol := mkSym x local false false false nl fr local.
Definition stack_h : list anc :=
  [mkAnc 2 NFunction [sym "x" false true true]; mkAnc 1 NFunction [sym "x" true false false]; mkAnc 0 NGlobal []].
Example C06_nonvacuous :
  ref_walk stack_h "x" = RBinder 1 /\ find_origin stack_h "x" = inl (1, false).
Proof. split; reflexivity. Qed.
