(* C01 — the converted one-liner behaves exactly like the source script: what is proved, for all inputs. *)
From Coq Require Import String List ZArith Bool.
From OL Require Import PyAst Namespace Lower KSem KSimBase KSim Equiv.
Import ListNotations.

(* The property is a statement about whole programs of the supported fragment under all option combinations.  No single
   theorem covers it; its proved components are (a) the three theorems below, (b) the per-construct theorems of C05 (control
   flow), C06 (scopes), C07 (evaluation order), C11 (functions), C12 (classes), C13 (targets), C14 (imports), each over the
   same converter model, whose equality with the real converter's output is checked on every run.  The composition of the
   components into one behavioural theorem is NOT proved (PARTIAL); the whole-program behaviour on the fragment is decided
   by differential execution under the 8 option combinations on four interpreters (support). *)

(* if_style: for ALL conditions and branches, every oracle and fuel: the short-circuit form reaches the state of the
   conditional expression *)
Theorem C01_if_styles_agree_partial : forall orc t b o s v s',
  Ev orc (MExpr (IfExp t b o)) s (v, s') ->
  (exists v', Ev orc (MExpr (short_form_gen once_not t b o)) s (v', s')) /\
  (exists v', Ev orc (MExpr (short_form_gen once_if t b o)) s (v', s')).
Proof. exact if_styles_agree. Qed.
Print Assumptions C01_if_styles_agree_partial.

(* expr_wrapper: for EVERY number of statements and every effect of the statements, the chained call performs the effects
   once each, in order - what the list display does *)
Theorem C01_wrappers_agree_partial : forall (S : Type) (item : expr -> S -> option S) es s,
  es <> [] -> eval_chain S item (chain_call es) s = eval_list S item es s.
Proof. exact wrappers_agree. Qed.
Print Assumptions C01_wrappers_agree_partial.

(* control flow of whole modules: the C05 simulation, restated (list wrapper, conditional expressions) *)
Theorem C01_module_control_flow_partial : forall orc fuel b o tr pos e,
  wf_block false false b = true ->
  exec orc fuel (XBlock b) (mkSst [] 0) = Some (o, mkSst tr pos) ->
  lower_module cfg0 top_symtab (map embed b) = inl e ->
  exists f v s', run orc f (MExpr e) (mkSt [] [] 0) = Some (v, s') /\ s_tr s' = tr /\ s_pos s' = pos.
Proof. exact module_simulation. Qed.
Print Assumptions C01_module_control_flow_partial.

(* the short-circuit form the converter model emits is the one of the theorem *)
Example C01_nonvacuous :
  if_result (mkCfg false true false) false (Name "t") [Name "a"; Name "b"] [Name "c"; Name "d"] =
  short_form_gen once_not (Name "t") (EList [Name "a"; Name "b"]) (EList [Name "c"; Name "d"]) /\
  if_result (mkCfg false true false) true (Name "t") [Name "a"; Name "b"] [Name "c"; Name "d"] =
  short_form_gen once_if (Name "t") (EList [Name "a"; Name "b"]) (EList [Name "c"; Name "d"]) /\
  eval_chain nat (fun e n => Some (Datatypes.S n)) (chain_call [Name "a"; Name "b"; Name "c"]) 0 = Some 3.
Proof. repeat split; reflexivity. Qed.
