(* C10 — conversion is a pure function of (source, options): the option-object state machine. *)
From Coq Require Import String List.
From OL Require Import Config ConfigProof.
Import ListNotations.

(* for ALL histories of {new, set, convert with/without options, reseed}: each conversion runs with the
   last valid values set on its own object (defaults otherwise) *)
Theorem C10_history : forall h, run [] h = spec_run [] h.
Proof. exact history_correct. Qed.
Print Assumptions C10_history.

Theorem C10_none_uses_defaults : forall h1 h2,
  nth_error (run [] (h1 ++ AConvert None :: h2)) (length h1)
  = Some (OEff (map (fun n => (n, default_of n)) opt_names)).
Proof. exact convert_none_uses_defaults. Qed.
Print Assumptions C10_none_uses_defaults.

(* the class-level-cell design (the code before the fix) does NOT satisfy the specification *)
Theorem C10_shared_refuted : run_shared (0, []) witness_history <> spec_run [] witness_history.
Proof. exact shared_model_refuted. Qed.
Print Assumptions C10_shared_refuted.

Example C10_nonvacuous :
  run [] witness_history = spec_run [] witness_history /\
  nth_error (run [] witness_history) 2 = Some (OSet true).
Proof. exact witness_per_instance_ok. Qed.
