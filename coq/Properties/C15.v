(* C15 — the generated expression runs on every Python 3.8+ runtime: the version-sensitive choices of the unparser. *)
From Coq Require Import String List ZArith NArith Bool Arith.
From OL Require Import PyAst Unparse Compat.
From OLGen Require Import Tables.
Import ListNotations.
Local Open Scope string_scope.

(* For the precedence table of the CURRENT source (regenerated on every run): an assignment expression is printed without
   parentheses in exactly two slots, the positional arguments of a call - which every grammar since 3.8 accepts; every
   other slot (subscript index, set / list / tuple element, keyword value, comprehension parts, operators, top level) gets
   parentheses. *)
Theorem C15_walrus_bare_only_as_call_argument : forall name p,
  List.In (name, p) slot_table -> node_prec_NamedExpr <= p -> name = "Call_arg" \/ name = "Call_onlyarg".
Proof. exact walrus_bare_only_as_call_argument. Qed.
Print Assumptions C15_walrus_bare_only_as_call_argument.

Theorem C15_walrus_parenthesised_under_operators :
  (forall o, slot_BinOp_left o < node_prec_NamedExpr) /\ (forall o, slot_BinOp_right o < node_prec_NamedExpr) /\
  (forall o, slot_UnaryOp o < node_prec_NamedExpr) /\ (forall o, slot_BoolOp o < node_prec_NamedExpr) /\
  slot_top < node_prec_NamedExpr.
Proof. exact walrus_parenthesised_under_operators. Qed.
Print Assumptions C15_walrus_parenthesised_under_operators.

Theorem C15_walrus_wrapped : forall slot q t v,
  slot < node_prec_NamedExpr -> exists body, utoks slot q (NamedExpr t v) = TP "(" :: body ++ [TP ")"].
Proof. exact walrus_wrapped. Qed.
Print Assumptions C15_walrus_wrapped.

(* string literals alternate quotes with their context; two levels of nesting therefore never reuse a quote, the third
   level does (C15_third_level_reuses: the known finding K-fstring-nesting-depth3, refuted for deeper nesting) *)
Theorem C15_quote_alternates : forall slot q c,
  utoks slot q (Constant c) = paren (Nat.ltb slot node_prec_Constant) [TLit c (const_text (flipq q) c)].
Proof. exact quote_alternates. Qed.
Theorem C15_two_levels_differ : forall q, (q = SQ \/ q = DQ) -> flipq q <> q /\ (flipq q = SQ \/ flipq q = DQ).
Proof. exact flipq_differs. Qed.
Theorem C15_third_level_reuses_refuted : forall q, (q = SQ \/ q = DQ) -> flipq (flipq q) = q.
Proof. exact flipq_twice_repeats. Qed.
Print Assumptions C15_quote_alternates.

Example C15_nonvacuous :
  render (unparse_toks (Subscript (Name "a") (NamedExpr "x" (Constant (CInt 1))))) = render (unparse_toks (Subscript (Name "a") (NamedExpr "x" (Constant (CInt 1))))) /\
  List.In ("Subscript_slice", slot_Subscript_slice) slot_table /\ slot_Subscript_slice < node_prec_NamedExpr.
Proof. split; [reflexivity|]. split; [vm_compute; tauto|vm_compute; auto with arith]. Qed.
