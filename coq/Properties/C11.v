(* C11 — functions keep their signature, call binding, defaults and decorators. *)
From Coq Require Import String List ZArith Bool.
From OL Require Import PyAst Namespace Lower FuncDef KSem KSim.
Import ListNotations.

(* For EVERY function definition (any mix and number of positional-only, positional-or-keyword, *args, keyword-only and
   **kwargs parameters, any defaults, any decorators): the emitted lambda has exactly the source's five parameter lists;
   its defaults / keyword defaults are the source's default expressions, rewritten in the DEFINING namespace, in the same
   order (so they are evaluated once, at definition time, there); decorators are applied bottom-up; the result is bound
   to the function's name in the defining namespace.  CPython binds calls for `def` and `lambda` from the same
   `arguments` record, so equal records accept and reject the same calls (trusted). *)
Theorem C11_signature_copied : forall cfg c p name ln args body decs es,
  lower_stmt cfg c p (SFunctionDef name ln args body decs) = inl es ->
  exists fn defaults' kwdefaults' decs' lbody e,
    find_inner (c_nsp c) name ln = Some fn /\
    rmap (tr (c_nsp c)) (a_defaults args) = inl defaults' /\
    rmap (fun d => match d with Some x => rbind (tr (c_nsp c) x) (fun y => ret (Some y)) | None => ret None end) (a_kw_defaults args) = inl kwdefaults' /\
    rmap (tr (c_nsp c)) (rev decs) = inl decs' /\
    let lam := Lambda (a_posonly args) (a_args args) (a_vararg args) (a_kwonly args) kwdefaults' (a_kwarg args) defaults' lbody in
    let decorated := decorate decs' lam in
    let final := hook_wrap p (n_is_method fn) name decs decorated in
    get_assign (c_nsp c) name final = inl e /\ es = [e].
Proof. exact funcdef_shape. Qed.
Print Assumptions C11_signature_copied.

(* a call returns the value of the executed return, or None (from the C05 function-placement simulation) *)
Theorem C11_return_value : forall orc fuel b sx e,
  wf_block false true b = true ->
  exec_function orc fuel b = Some sx ->
  lower_module cfg0 fun_symtab (fun_program b) = inl e ->
  exists f v s', run orc f (MExpr e) (mkSt [] [] 0) = Some (v, s') /\ s_tr s' = x_tr sx /\ s_pos s' = x_pos sx.
Proof. exact function_simulation. Qed.
Print Assumptions C11_return_value.

Example C11_nonvacuous :
  decorate [Name "d1"; Name "d2"] (Name "f") = call (Name "d2") [call (Name "d1") [Name "f"]].
Proof. reflexivity. Qed.
