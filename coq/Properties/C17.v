(* C17 — long and deeply nested programs convert without exhausting recursion (the part carried by theorems). *)
From Coq Require Import String List ZArith Bool Arith.
From OL Require Import PyAst Namespace Lower KSem KSim Depth DepthElif GuardNest.
Import ListNotations.

(* expr_wrapper = list: a list display is one level deeper than its deepest element, however many elements it has *)
Theorem C17_wrap_list_depth : forall es d, Forall (fun e => depth e <= d) es -> depth (wrap cfg_list es) <= S d.
Proof. exact wrap_list_depth. Qed.
Print Assumptions C17_wrap_list_depth.

(* so a module of n consecutive simple statements is an expression of depth <= 3, for EVERY n *)
Theorem C17_statements_depth_list : forall n, exists e, lower_module cfg_list top_symtab (marks n) = inl e /\ depth e <= 3.
Proof. exact statements_depth_list. Qed.
Print Assumptions C17_statements_depth_list.

(* expr_wrapper = chain_call (the default): refuted - the nesting depth is at least the number of statements, so the
   size CPython accepts for the source is not accepted for the translation (known finding) *)
Theorem C17_statements_depth_chain_refuted : forall n, 2 <= n ->
  exists e, lower_module cfg_chain_call top_symtab (marks n) = inl e /\ n <= depth e.
Proof. exact statements_depth_chain. Qed.
Print Assumptions C17_statements_depth_chain_refuted.

(* the same family measured by the FULL height of the tree (every child of every node counts, comprehension bodies and
   generators included) *)
Theorem C17_statements_height_list : forall n, exists e, lower_module cfg_list top_symtab (marks n) = inl e /\ height e <= 3.
Proof. exact statements_height_list. Qed.
Print Assumptions C17_statements_height_list.

(* an early exit (`if c(1): break` in a while loop) followed by n statements of the same block: the rest of the block sits
   under ONE test of the exit's flag - height 7 for EVERY n, not one nesting level per statement *)
Theorem C17_guarded_statements_height_list : forall n,
  exists e, lower_module cfg_list top_symtab (guard_prog n) = inl e /\ height e <= 7.
Proof. exact guarded_statements_height_list. Qed.
Print Assumptions C17_guarded_statements_height_list.

(* the same after `if c(1): continue` in a for loop *)
Theorem C17_continued_statements_height_list : forall n,
  exists e, lower_module cfg_list top_symtab (cont_prog n) = inl e /\ height e <= 6.
Proof. exact continued_statements_height_list. Qed.
Print Assumptions C17_continued_statements_height_list.


(* the same after `if c(1): return` in a function body (def f(): <guard>; n statements): height 8 for EVERY n *)
Theorem C17_returned_statements_height_list : forall n,
  exists e, lower_module cfg_list fun_symtab (ret_prog n) = inl e /\ height e <= 8.
Proof. exact returned_statements_height_list. Qed.
Print Assumptions C17_returned_statements_height_list.

(* a chain  if / elif / ... / else  of n tests (Python's own tree nests one If per branch: the source is n + 1 levels deep).
   if_style = short_circuit: the whole chain is ONE flat `or` of n `and` pairs - height at most 6 for EVERY n *)
Theorem C17_elif_chain_height_short : forall n,
  exists e, lower_module cfg_short_list top_symtab (elif_chain n) = inl e /\ height e <= 6.
Proof. exact elif_chain_height_short. Qed.
Print Assumptions C17_elif_chain_height_short.

(* if_style = if_expr: one conditional expression per branch - exactly the nesting of the source plus one, no amplification *)
Theorem C17_elif_chain_height_ifexp : forall n,
  exists e, lower_module cfg_list top_symtab (elif_chain n) = inl e /\ height e = stmt_nest n + 1.
Proof. exact elif_chain_height_ifexp. Qed.
Print Assumptions C17_elif_chain_height_ifexp.

(* the mechanism of the known finding K-guard-clause-nesting, for EVERY statement lowering L, context and block: a statement
   that can take an early exit puts the lowering of the whole REST of the block at least one level below itself (list wrapper),
   so k guard clauses in one block nest the output k levels deep *)
Theorem C17_each_guard_adds_a_level : forall L c p br i s rest es rs bumps flag,
  rest <> [] -> rs <> [] -> L c (i :: br :: p) s = inl es -> is_interrupt s = false ->
  lower_block cfg_list L c p br (S i) rest = inl rs ->
  guard_of c = (bumps, Some flag) -> bumps s = true ->
  exists out, lower_block cfg_list L c p br i (s :: rest) = inl out /\ S (heights rs) <= heights out.
Proof. exact each_guard_adds_a_level. Qed.
Print Assumptions C17_each_guard_adds_a_level.

(* the family of the finding on the converter model: k guards `if c(1): break` and one statement in a while body: height 2k + 5 *)
Example C17_guards_height_grows :
  map guards_height [1; 2; 3; 4; 10; 30] = [Some 7; Some 9; Some 11; Some 13; Some 25; Some 65].
Proof. exact guards_height_grows. Qed.

Example C17_elif_nonvacuous : exists e, lower_module cfg_short_list top_symtab (elif_chain 30) = inl e /\ height e = 6.
Proof. eexists. split; [vm_compute; reflexivity|vm_compute; reflexivity]. Qed.

Example C17_guard_nonvacuous : exists e, lower_module cfg_list top_symtab (guard_prog 40) = inl e /\ height e = 7.
Proof. eexists. split; [vm_compute; reflexivity|vm_compute; reflexivity]. Qed.

Example C17_nonvacuous : exists e, lower_module cfg_list top_symtab (marks 5) = inl e /\ depth e = 3.
Proof. eexists. split; [vm_compute; reflexivity|reflexivity]. Qed.
