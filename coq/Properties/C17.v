(* C17 — long and deeply nested programs convert without exhausting recursion (the part carried by theorems). *)
From Coq Require Import String List ZArith Bool Arith.
From OL Require Import PyAst Namespace Lower KSem KSim Depth.
Import ListNotations.

(* expr_wrapper = list: a list display is one level deeper than its deepest element, however many elements it has *)
Theorem C17_wrap_list_depth : forall es d, Forall (fun e => depth e <= d) es -> depth (wrap cfg_list es) <= S d.
Proof. exact wrap_list_depth. Qed.
Print Assumptions C17_wrap_list_depth.

(* so a module of n consecutive simple statements is an expression of depth <= 3, for EVERY n *)
Theorem C17_statements_depth_list : forall n, exists e, lower_module cfg_list top_symtab (marks n) = inl e /\ depth e <= 3.
Proof. exact statements_depth_list. Qed.
Print Assumptions C17_statements_depth_list.

(* expr_wrapper = chain_call (the default): refuted - the nesting depth is at least the number of statements, so the
   size CPython accepts for the source is not accepted for the translation (known finding) *)
Theorem C17_statements_depth_chain_refuted : forall n, 2 <= n ->
  exists e, lower_module cfg_chain_call top_symtab (marks n) = inl e /\ n <= depth e.
Proof. exact statements_depth_chain. Qed.
Print Assumptions C17_statements_depth_chain_refuted.

Example C17_nonvacuous : exists e, lower_module cfg_list top_symtab (marks 5) = inl e /\ depth e = 3.
Proof. eexists. split; [vm_compute; reflexivity|reflexivity]. Qed.
