(* C05 — break/continue/return/else are lowered with exact statement-level control flow. *)
From Coq Require Import String List ZArith Bool.
From OL Require Import PyAst Namespace Lower KSem KSimBase KSim.
Import ListNotations.

(* Simulation, module level, expr_wrapper = list, if_style = if_expr.
   For EVERY nesting of markers, if/else, while, for, loop-else, break and continue (any depth, any sizes), every oracle
   (schedule of condition outcomes and iterator exhaustion points) and every fuel: if the reference semantics of the
   source runs to completion with trace tr, then the expression produced by the converter model evaluates - under the
   evaluation rules of the scaffolding expressions - with exactly the same trace (markers, each condition evaluation with
   its outcome, iterable evaluation, iter(), every next()) and the same number of oracle consultations.
   Consequences: nothing after a taken break/continue runs; an else clause runs iff its loop was not broken; the iterable
   is evaluated once, iter() is taken once, the iterator is never advanced after a break. *)
Theorem C05_module_simulation : forall orc fuel b o tr pos e,
  wf_block false false b = true ->
  exec orc fuel (XBlock b) (mkSst [] 0) = Some (o, mkSst tr pos) ->
  lower_module cfg0 top_symtab (map embed b) = inl e ->
  exists f v s', run orc f (MExpr e) (mkSt [] [] 0) = Some (v, s') /\ s_tr s' = tr /\ s_pos s' = pos.
Proof. exact module_simulation. Qed.
Print Assumptions C05_module_simulation.

(* Function placement:  def f(): <skeleton with return at any depth>   then   r(f()).
   The call returns the value of the return statement that was taken (None when none was), after exactly the same
   trace; a return inside nested loops stops every enclosing loop and skips every else clause. *)
Theorem C05_function_simulation : forall orc fuel b sx e,
  wf_block false true b = true ->
  exec_function orc fuel b = Some sx ->
  lower_module cfg0 fun_symtab (fun_program b) = inl e ->
  exists f v s', run orc f (MExpr e) (mkSt [] [] 0) = Some (v, s') /\ s_tr s' = x_tr sx /\ s_pos s' = x_pos sx.
Proof. exact function_simulation. Qed.
Print Assumptions C05_function_simulation.

(* the general simulation invariant (any context: inside loops, with any flags in use), for every fuel *)
Theorem C05_simulation_invariant : forall orc f, SimBlock orc f /\ SimWhileLoop orc f /\ SimForLoop orc f.
Proof. exact sim_all. Qed.
Print Assumptions C05_simulation_invariant.

(* the evaluator used above never gets stuck for lack of fuel once it has an answer *)
Theorem C05_run_monotone : forall orc f m s r, run orc f m s = Some r -> forall f', f <= f' -> run orc f' m s = Some r.
Proof. exact run_mono. Qed.
Print Assumptions C05_run_monotone.

(* non-vacuity: a concrete skeleton with nested loops, break, continue and else; its lowering exists, the source
   runs under a concrete oracle, and the traces coincide (computed) *)
Definition c05_example : list sk :=
  [KWhile 1 [KFor 2 [KIf 3 [KBreak] [KContinue]; KMark 4] [KMark 5]; KIf 6 [KBreak] []; KMark 7] [KMark 8]; KMark 9].
Definition c05_orc (i : nat) : bool := nth i [true; true; false; true; true; true; false; false; true; false; true] false.

Example C05_nonvacuous :
  wf_block false false c05_example = true /\
  exists e tr pos o, lower_module cfg0 top_symtab (map embed c05_example) = inl e /\
    exec c05_orc 50 (XBlock c05_example) (mkSst [] 0) = Some (o, mkSst tr pos) /\ length tr = 9 /\
    exists v s', run c05_orc 200 (MExpr e) (mkSt [] [] 0) = Some (v, s') /\ s_tr s' = tr.
Proof.
  split; [reflexivity|]. eexists _, _, _, _. split; [vm_compute; reflexivity|]. split; [vm_compute; reflexivity|].
  split; [reflexivity|]. eexists _, _. split; vm_compute; reflexivity.
Qed.
