(* C02 — accepted input yields one well-formed single-line expression (the part carried by theorems). *)
From Coq Require Import String List NArith ZArith Bool.
From OL Require Import PyAst Unparse StrLit SingleLine Parse ParseProof ParseTie.
From OLGen Require Import Tables.
Import ListNotations.

(* Whatever expression tree the converter hands to the project's own unparser, the text has no line break. *)
Theorem C02_single_line : forall e, lex_ok e = true -> no_newline (unparse e) = true.
Proof. exact unparse_single_line. Qed.
Print Assumptions C02_single_line.

Example C02_nonvacuous :
  lex_ok (Call (Name "print") [Constant (CStr [10; 13; 39; 34; 92]%N);
          JoinedStr [Constant (CStr [10]%N); FormattedValue (Name "x") 114%Z None]] []) = true.
Proof. exact lex_ok_example. Qed.

(* "Exactly one expression": for every output tree inside the core of C03 (every explored output is classified, see the
   evidence: the outputs without f-strings / yield are inside), the tokens of the text the unparser model produces are read by
   the expression parser as exactly that tree, with no token left over.  PARTIAL: outside the core this rests on CPython's
   compile() of every explored output. *)
Theorem C02_core_output_is_one_expression_partial : forall e, core_top e = true ->
  exists f0, forall f, f0 <= f -> pc f (MExpr slot_top) (norm (unparse_toks e)) = Some (e, []).
Proof. exact roundtrip_unparser_core_top. Qed.
Print Assumptions C02_core_output_is_one_expression_partial.
