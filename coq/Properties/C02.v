(* C02 — accepted input yields one well-formed single-line expression (the part carried by theorems). *)
From Coq Require Import String List NArith ZArith Bool.
From OL Require Import PyAst Unparse StrLit SingleLine Namespace Lower KSem KSim Parse ParseProof ParseTie StmtOk StmtCore.
From OLGen Require Import Tables.
Import ListNotations.

(* Whatever expression tree the converter hands to the project's own unparser, the text has no line break. *)
Theorem C02_single_line : forall e, lex_ok e = true -> no_newline (unparse e) = true.
Proof. exact unparse_single_line. Qed.
Print Assumptions C02_single_line.

Example C02_nonvacuous :
  lex_ok (Call (Name "print") [Constant (CStr [10; 13; 39; 34; 92]%N);
          JoinedStr [Constant (CStr [10]%N); FormattedValue (Name "x") 114%Z None]] []) = true.
Proof. exact lex_ok_example. Qed.

(* "Exactly one expression": for every output tree inside the core of C03 (every explored output is classified, see the
   evidence: the outputs without f-strings / yield are inside), the tokens of the text the unparser model produces are read by
   the expression parser as exactly that tree, with no token left over.  PARTIAL: outside the core this rests on CPython's
   compile() of every explored output. *)
Theorem C02_core_output_is_one_expression_partial : forall e, core_top e = true ->
  exists f0, forall f, f0 <= f -> pc f (MExpr slot_top) (norm (unparse_toks e)) = Some (e, []).
Proof. exact roundtrip_unparser_core_top. Qed.
Print Assumptions C02_core_output_is_one_expression_partial.

(* "Exactly one expression" for WHOLE PROGRAMS: for EVERY program of the modelled fragment - any statements (if / while / for
   with else, break / continue / return, assignments with nested and starred patterns, slices, augmented assignments, imports,
   function and class definitions with decorators, defaults, keywords), any nesting, any size, both wrappers, both if styles -
   whose own expressions lie in the core (stmt_ok: decidable, evaluated on every explored program, see the evidence), if the
   converter model returns an expression then the tokens of the text the unparser model prints for it are read back by the
   expression parser as exactly that expression with nothing left over.  (Statement layer: StmtCore.lower_stmt_ok, by induction
   over statements; expression layer: LowerCore; printer = unparser: ParseTie; parser inverts printer: ParseProof.)
   Outside: f-strings in the source (not in the core), and what CPython's COMPILER adds to its grammar (a walrus inside a
   comprehension iterable parses but does not compile: known finding K-walrus-loop-header). *)
Theorem C02_module_output_is_one_expression : forall cfg root body e,
  forallb stmt_ok body = true -> lower_module cfg root body = inl e ->
  exists f0, forall f, f0 <= f -> pc f (MExpr slot_top) (norm (unparse_toks e)) = Some (e, []).
Proof. exact module_output_is_one_expression. Qed.
Print Assumptions C02_module_output_is_one_expression.

Definition c02_example_program : list stmt :=
  [SAssign [Name "x"] (Constant (CInt 0));
   SWhile (Compare (Name "x") [Lt] [Constant (CInt 3)])
     [SAugAssign (Name "x") Add (Constant (CInt 1));
      SIf (Compare (Name "x") [Eq] [Constant (CInt 2)]) [SBreak] [];
      SAugAssign (Subscript (Name "d") (Slice (Some (Constant (CInt 1))) None None)) Add (EList [Name "x"])]
     [SAssign [Name "y"; Attribute (Name "o") "a"] (Subscript (EList [Name "x"; UnaryOp USub (Constant (CInt 1))]) (Constant (CInt 0)))];
   SFor (ETuple [Name "a"; ETuple [Name "b"; Starred (Name "c")]]) (Call (Name "it") [] [])
     [SExpr (Call (Name "print") [Name "a"; Starred (Name "c")] [(Some "sep", Constant (CStr []))]);
      SIf (BoolOp And [Name "a"; Name "b"]) [SContinue] [SPass];
      SAssign [Subscript (Name "m") (ETuple [Slice None None None; Constant (CInt 0)])] (Lambda [] ["q"] None [] [] None [Name "a"] (Name "q"))]
     [];
   SImport [("os.path", None); ("json", Some "J")];
   SImportFrom (Some "os") [("sep", None); ("path", Some "P")] 0]%string.

Example C02_module_nonvacuous :
  forallb stmt_ok c02_example_program = true /\
  (exists e, lower_module (mkCfg true false false) top_symtab c02_example_program = inl e) /\
  (exists e, lower_module (mkCfg false true false) top_symtab c02_example_program = inl e).
Proof. split; [vm_compute; reflexivity|]. split; eexists; vm_compute; reflexivity. Qed.
