(* C02 — accepted input yields one well-formed single-line expression (the part carried by theorems). *)
From Coq Require Import String List NArith ZArith Bool.
From OL Require Import PyAst Unparse StrLit SingleLine.
Import ListNotations.

(* Whatever expression tree the converter hands to the project's own unparser, the text has no line break. *)
Theorem C02_single_line : forall e, lex_ok e = true -> no_newline (unparse e) = true.
Proof. exact unparse_single_line. Qed.
Print Assumptions C02_single_line.

Example C02_nonvacuous :
  lex_ok (Call (Name "print") [Constant (CStr [10; 13; 39; 34; 92]%N);
          JoinedStr [Constant (CStr [10]%N); FormattedValue (Name "x") 114%Z None]] []) = true.
Proof. exact lex_ok_example. Qed.
