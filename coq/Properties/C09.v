(* C09 — helper names never capture or clobber user identifiers (the part carried by theorems). *)
From Coq Require Import String List Bool.
From OL Require Import PyAst Namespace Lower Names Fresh.
Import ListNotations.

(* every helper name the converter model creates carries the reserved prefix ... *)
Theorem C09_helper_reserved : forall k s, reserved (ol k s) = true.
Proof. exact helper_reserved. Qed.
Print Assumptions C09_helper_reserved.

(* ... so an identifier without that prefix - `_`, `__`, `k`, `v`, `self`, `it`, `itertools`, `importlib`, builtins,
   anything - is never equal to a helper name *)
Theorem C09_user_name_not_helper : forall x k s, reserved x = false -> x <> ol k s.
Proof. exact user_name_not_helper. Qed.
Print Assumptions C09_user_name_not_helper.

(* distinct temporaries never share a name: different purposes, different statement positions, different namespaces *)
Theorem C09_distinct_kinds : forall k1 k2 s1 s2, List.In k1 helper_kinds -> List.In k2 helper_kinds -> k1 <> k2 ->
  ol k1 s1 <> ol k2 s2.
Proof. exact helpers_distinct_kinds. Qed.
Theorem C09_distinct_positions : forall k p q, p <> q -> ol k (path_str p) <> ol k (path_str q).
Proof. exact helpers_distinct_positions. Qed.
Theorem C09_distinct_namespaces : forall k i j, i <> j -> ol k (ncode i) <> ol k (ncode j).
Proof. exact helpers_distinct_namespaces. Qed.
Print Assumptions C09_distinct_positions.

Example C09_nonvacuous :
  ol "break" (path_str [1; 0; 2]) <> ol "interrupt" (path_str [1; 0; 2]) /\
  ol "break" (path_str [1; 0; 2]) <> ol "break" (path_str [0; 0; 2]) /\ reserved "itertools" = false.
Proof. exact fresh_example. Qed.
