(* C03 — the custom unparser round-trips every expression tree. *)
From Coq Require Import String List ZArith Bool Arith.
From OL Require Import PyAst Unparse Namespace Lower Parse ParseProof ParseTie LowerCore StmtOk StmtCore.
From OLGen Require Import Tables.
Import ListNotations.
Local Open Scope string_scope.

(* Parse.pc is a precedence-climbing parser of Python's expression grammar restricted to the operator core: all 13 binary,
   4 unary and 2 boolean operators, comparison chains (all 10 operators, `is not` / `not in` as two tokens), conditional
   expressions, lambdas with EVERY parameter list (positional-only `/`, positional, `*args` or a bare `*`,
   keyword-only, `**kwargs`, defaults of any core expression), assignment expressions, attribute / call / subscript trailers (plain, tuple and
   slice indices with any missing parts, index tuples with slices among their items: a[1:2, k, ::3]), calls with positional,
   starred, keyword and double-starred arguments in any number, list / tuple / set / dict displays with starred and
   double-starred elements, list / set / dict comprehensions with any number of `for` clauses and conditions,
   generator expressions in the two positions where they are commonly written (the bare only argument of a call,
   `sum(x for x in y)`, and a whole parenthesised expression),
   parenthesised groups, names and (opaque) literals.  Parse.pp is the unparser on that core, over the precedence ladder and the slot table
   REGENERATED from expr_unparse.py on every run; C03_printer_is_unparser PROVES that it is the unparser model Unparse.utoks
   (the model tied to expr_unparse.py by string equality) with every fragment split into words.

   C03_roundtrip_unparser_core_partial is the statement on the unparser model itself.

   C03_roundtrip_core_partial: for EVERY tree of the core, of any depth and shape, the parser reads back exactly the tree
   from the printed tokens, consuming all of them.  PARTIAL with respect to the property: generator
   expressions as operands of other nodes, f-strings and yield / await are outside the core (decided by
   CPython's parser on all compositions, see the evidence); literals are opaque tokens (C04). *)
Theorem C03_roundtrip_core_partial : forall e, core_top e = true ->
  exists f0, forall f, f0 <= f -> pc f (MExpr slot_top) (pp slot_top e) = Some (e, []).
Proof. exact roundtrip_core_top. Qed.
Print Assumptions C03_roundtrip_core_partial.

(* the printer of the theorem is the unparser model: for every tree of the core the fragments Unparse.utoks emits, split
   into words (Parse.norm: keywords / punctuation / names / opaque literals), are exactly the tokens of Parse.pp *)
Theorem C03_printer_is_unparser : forall e, core_top e = true -> norm (unparse_toks e) = pp slot_top e.
Proof. exact norm_unparse_core_top. Qed.
Print Assumptions C03_printer_is_unparser.

Theorem C03_roundtrip_unparser_core_partial : forall e, core_top e = true ->
  exists f0, forall f, f0 <= f -> pc f (MExpr slot_top) (norm (unparse_toks e)) = Some (e, []).
Proof. exact roundtrip_unparser_core_top. Qed.
Print Assumptions C03_roundtrip_unparser_core_partial.

(* "... or emitted by the converter": the scope-rewriting layer (Lower.transf, the model of expr_transform.py: loads through the
   nonlocal / class dictionaries, globals(), conditional loads, assignment expressions turned into dictionary stores, the explicit
   super(__class__, self)) maps the core into itself - for EVERY namespace, every set of bound names and every expression of
   the core, what the converter emits for it is again an expression the round-trip theorem covers. *)
Theorem C03_scope_rewriting_keeps_core : forall (n : nsp) e bd inn e', core_top e = true -> transf n bd inn e = inl e' ->
  core_top e' = true.
Proof. exact transf_keeps_core_top. Qed.
Print Assumptions C03_scope_rewriting_keeps_core.

(* ... and the STATEMENT layer (Lower.lower_stmt / lower_block / lower_module, the model of pending_nodes.py): every expression
   emitted for a statement of the fragment - loops as comprehensions over takewhile / iterator wrappers, flags and guards,
   destructuring through temporaries and slices, augmented assignments, imports, functions as lambdas over a list display,
   classes through a loader and setattr - is in the core, hence so is the ONE expression a whole program becomes. *)
Theorem C03_statement_layer_keeps_core : forall cfg root body e,
  forallb stmt_ok body = true -> lower_module cfg root body = inl e -> core_top e = true.
Proof. exact lower_module_core_top. Qed.
Print Assumptions C03_statement_layer_keeps_core.

(* the table facts the proof rests on, each a finite check over the regenerated table (a changed precedence or slot
   breaks one of them): an operand printed bare in a slot is followed by a token that does not continue it *)
Theorem C03_context_binop : forall o r, rest_okb (slot_BinOp_left o) (PK (binop_text o) :: r) = true.
Proof. exact ctx_binop. Qed.
Theorem C03_context_boolop : forall o r, rest_okb (slot_BoolOp o) (PK (bool_key o) :: r) = true.
Proof. exact ctx_boolop. Qed.
Theorem C03_context_compare : forall o r, rest_okb slot_Compare_left (map PK (cmp_keys o) ++ r) = true.
Proof. exact ctx_cmp. Qed.
Theorem C03_context_if : forall r, rest_okb slot_IfExp_body (PK "if" :: r) = true.
Proof. exact ctx_if. Qed.
Print Assumptions C03_context_binop.

(* `a is (not b)`: an operand printed below `not` never begins with the keyword `not` *)
Theorem C03_is_not_ambiguity : forall e, core e = true -> forall s rest, below_not s -> hd_is "not" (pp s e ++ rest) = false.
Proof. exact pp_head_not_not. Qed.
Print Assumptions C03_is_not_ambiguity.

(* parentheses exactly when the node binds looser than the slot (the whole unparser model, every node kind) *)
Theorem C03_paren_iff : forall slot q e, exists body,
  utoks slot q e = paren (Nat.ltb slot (node_prec e)) body.
Proof. intros slot q e. destruct e; eexists; reflexivity. Qed.

(* non-vacuity: -a ** -b ** c, a chain, `is (not ...)`, nested conditionals *)
Example C03_nonvacuous :
  let e := IfExp (Compare (Name "a") [Is; NotIn] [UnaryOp Not (Name "b"); Name "c"])
                 (UnaryOp USub (BinOp (Name "a") Pow (UnaryOp USub (BinOp (Name "b") Pow (Name "c")))))
                 (lambda0 (BoolOp And [Name "x"; BoolOp Or [Name "y"; Name "z"]; NamedExpr "w" (Name "v")])) in
  core_top e = true /\ parse_core (pp slot_top e) = Some e.
Proof. split; vm_compute; reflexivity. Qed.
