(* The single extraction file: every directive used is listed here. *)
From Coq Require Extraction.
From Coq Require Import ExtrOcamlBasic ExtrOcamlString.
From OL Require Import Run.
Extraction Language OCaml.
Extraction "modelrun_core.ml" run_line.
