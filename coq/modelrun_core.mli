
type nat =
| O
| S of nat

val option_map : ('a1 -> 'a2) -> 'a1 option -> 'a2 option

val fst : ('a1 * 'a2) -> 'a1

val snd : ('a1 * 'a2) -> 'a2

val length : 'a1 list -> nat

val app : 'a1 list -> 'a1 list -> 'a1 list

type comparison =
| Eq
| Lt
| Gt

val compOpp : comparison -> comparison

type uint =
| Nil
| D0 of uint
| D1 of uint
| D2 of uint
| D3 of uint
| D4 of uint
| D5 of uint
| D6 of uint
| D7 of uint
| D8 of uint
| D9 of uint

type signed_int =
| Pos of uint
| Neg of uint

val revapp : uint -> uint -> uint

val rev : uint -> uint

module Little :
 sig
  val double : uint -> uint

  val succ_double : uint -> uint
 end

val add : nat -> nat -> nat

val mul : nat -> nat -> nat

type positive =
| XI of positive
| XO of positive
| XH

type n =
| N0
| Npos of positive

type z =
| Z0
| Zpos of positive
| Zneg of positive

module Nat :
 sig
  val leb : nat -> nat -> bool

  val ltb : nat -> nat -> bool
 end

module Pos :
 sig
  val succ : positive -> positive

  val add : positive -> positive -> positive

  val add_carry : positive -> positive -> positive

  val mul : positive -> positive -> positive

  val compare_cont : comparison -> positive -> positive -> comparison

  val compare : positive -> positive -> comparison

  val eqb : positive -> positive -> bool

  val iter_op : ('a1 -> 'a1 -> 'a1) -> positive -> 'a1 -> 'a1

  val to_nat : positive -> nat

  val of_uint_acc : uint -> positive -> positive

  val of_uint : uint -> n

  val to_little_uint : positive -> uint

  val to_uint : positive -> uint
 end

module N :
 sig
  val add : n -> n -> n

  val mul : n -> n -> n

  val compare : n -> n -> comparison

  val eqb : n -> n -> bool

  val leb : n -> n -> bool

  val to_nat : n -> nat
 end

val n_of_digits : bool list -> n

val n_of_ascii : char -> n

val nth_error : 'a1 list -> nat -> 'a1 option

val rev0 : 'a1 list -> 'a1 list

val map : ('a1 -> 'a2) -> 'a1 list -> 'a2 list

val flat_map : ('a1 -> 'a2 list) -> 'a1 list -> 'a2 list

val fold_left : ('a1 -> 'a2 -> 'a1) -> 'a2 list -> 'a1 -> 'a1

val forallb : ('a1 -> bool) -> 'a1 list -> bool

val find : ('a1 -> bool) -> 'a1 list -> 'a1 option

val firstn : nat -> 'a1 list -> 'a1 list

val skipn : nat -> 'a1 list -> 'a1 list

module Z :
 sig
  val opp : z -> z

  val compare : z -> z -> comparison

  val ltb : z -> z -> bool

  val to_N : z -> n

  val of_N : n -> z

  val of_uint : uint -> z

  val of_int : signed_int -> z

  val to_int : z -> signed_int
 end

val eqb0 : char list -> char list -> bool

val append : char list -> char list -> char list

val list_ascii_of_string : char list -> char list

val uint_of_char : char -> uint option -> uint option

module NilEmpty :
 sig
  val string_of_uint : uint -> char list

  val uint_of_string : char list -> uint option
 end

module NilZero :
 sig
  val string_of_uint : uint -> char list

  val uint_of_string : char list -> uint option

  val string_of_int : signed_int -> char list

  val int_of_string : char list -> signed_int option
 end

type sexp =
| A of char list
| L of sexp list

val z2s : z -> char list

val s2z : char list -> z option

val n2s : n -> char list

val s2n : char list -> n option

val is_space : char -> bool

val string_of_rev : char list -> char list

val flush : char list -> sexp list -> sexp list

val read_sx :
  char list -> char list -> sexp list -> sexp list list -> sexp list option

val parse_sexps : char list -> sexp list option

val parse_sexp : char list -> sexp option

val print_sx : sexp -> char list -> char list

val sexp_to_string : sexp -> char list

val mapM : ('a1 -> 'a2 option) -> 'a1 list -> 'a2 list option

val ident_of : sexp -> char list option

val sx_ident : char list -> sexp

val z_of : sexp -> z option

val n_of : sexp -> n option

val bool_of : sexp -> bool option

val sx_bool : bool -> sexp

val sx_z : z -> sexp

val sx_n : n -> sexp

val opt_of : (sexp -> 'a1 option) -> sexp -> 'a1 option option

val sx_opt : ('a1 -> sexp) -> 'a1 option -> sexp

val list_of : (sexp -> 'a1 option) -> sexp -> 'a1 list option

val cps_of : sexp -> n list option

val sx_cps : n list -> sexp

type ident = char list

type const =
| CNone
| CTrue
| CFalse
| CEllipsis
| CInt of z
| CFloat of n list
| CComplex of n list
| CStr of n list
| CBytes of n list

type binop =
| Add
| Sub
| Mult
| MatMult
| Div
| Mod
| Pow
| LShift
| RShift
| BitOr
| BitXor
| BitAnd
| FloorDiv

type unop =
| Invert
| Not
| UAdd
| USub

type boolop =
| And
| Or

type cmpop =
| Eq0
| NotEq
| Lt0
| LtE
| Gt0
| GtE
| Is
| IsNot
| In
| NotIn

type expr =
| Name of ident
| Constant of const
| JoinedStr of expr list
| FormattedValue of expr * z * expr option
| Starred of expr
| BinOp of expr * binop * expr
| BoolOp of boolop * expr list
| UnaryOp of unop * expr
| EList of expr list
| ETuple of expr list
| ESet of expr list
| EDict of expr option list * expr list
| Compare of expr * cmpop list * expr list
| Attribute of expr * ident
| Subscript of expr * expr
| Slice of expr option * expr option * expr option
| Call of expr * expr list * (ident option * expr) list
| NamedExpr of ident * expr
| Lambda of ident list * ident list * ident option * ident list
   * expr option list * ident option * expr list * expr
| ListComp of expr * (((expr * expr) * expr list) * bool) list
| SetComp of expr * (((expr * expr) * expr list) * bool) list
| GeneratorExp of expr * (((expr * expr) * expr list) * bool) list
| DictComp of expr * expr * (((expr * expr) * expr list) * bool) list
| IfExp of expr * expr * expr
| Yield of expr option
| YieldFrom of expr
| Await of expr
| Other of ident

type arguments = { a_posonly : ident list; a_args : ident list;
                   a_vararg : ident option; a_kwonly : ident list;
                   a_kw_defaults : expr option list; a_kwarg : ident option;
                   a_defaults : expr list }

type stmt =
| SExpr of expr
| SIf of expr * stmt list * stmt list
| SWhile of expr * stmt list * stmt list
| SFor of expr * expr * stmt list * stmt list
| SBreak
| SContinue
| SPass
| SAssign of expr list * expr
| SAnnAssign of expr * expr option
| SAugAssign of expr * binop * expr
| SFunctionDef of ident * z * arguments * stmt list * expr list
| SReturn of expr option
| SGlobal of ident list
| SNonlocal of ident list
| SClassDef of ident * z * expr list * (ident option * expr) list * stmt list
   * expr list
| SImport of (ident * ident option) list
| SImportFrom of ident option * (ident * ident option) list * z
| SUnsupported of ident

val binop_name : binop -> char list

val all_binops : binop list

val unop_name : unop -> char list

val all_unops : unop list

val boolop_name : boolop -> char list

val all_boolops : boolop list

val cmpop_name : cmpop -> char list

val all_cmpops : cmpop list

val find_by_name : ('a1 -> char list) -> 'a1 list -> char list -> 'a1 option

val sx_const : const -> sexp

val sx_expr : expr -> sexp

val const_of : sexp -> const option

val bind : 'a1 option -> ('a1 -> 'a2 option) -> 'a2 option

val expr_of : sexp -> expr option

val alias_of : sexp -> (ident * ident option) option

val kws_of : sexp -> (ident option * expr) list option

val args_of : sexp -> arguments option

val stmt_of : sexp -> stmt option

val block_of : sexp -> stmt list option

val pREC_NAME : nat

val pREC_ATTR : nat

val pREC_ATTR_SLOT : nat

val pREC_AWAIT_SLOT : nat

val pREC_AWAIT : nat

val pREC_POW_SLOT_LEFT : nat

val pREC_POW : nat

val pREC_INV_UADD_USUB : nat

val pREC_INV_UADD_USUB_SLOT : nat

val pREC_POW_SLOT_RIGHT : nat

val pREC_MULT_SLOT_RIGHT : nat

val pREC_MULT : nat

val pREC_MULT_SLOT_LEFT : nat

val pREC_ADD_SLOT_RIGHT : nat

val pREC_ADD : nat

val pREC_ADD_SLOT_LEFT : nat

val pREC_SHIFT_SLOT_RIGHT : nat

val pREC_SHIFT : nat

val pREC_SHIFT_SLOT_LEFT : nat

val pREC_BITAND_SLOT_RIGHT : nat

val pREC_BITAND : nat

val pREC_BITAND_SLOT_LEFT : nat

val pREC_BITXOR_SLOT_RIGHT : nat

val pREC_BITXOR : nat

val pREC_BITXOR_SLOT_LEFT : nat

val pREC_BITOR_SLOT_RIGHT : nat

val pREC_BITOR : nat

val pREC_BITOR_SLOT_LEFT : nat

val pREC_STARRED_SLOT : nat

val pREC_COMPARE_SLOT : nat

val pREC_COMPARE : nat

val pREC_NOT : nat

val pREC_NOT_SLOT : nat

val pREC_AND_SLOT : nat

val pREC_AND : nat

val pREC_OR_SLOT : nat

val pREC_OR : nat

val pREC_COMPREHENSION_SLOT_ITER : nat

val pREC_IFEXP_SLOT_LEFT : nat

val pREC_IFEXP : nat

val pREC_IFEXP_SLOT_RIGHT : nat

val pREC_FORMAT_EXPR_SLOT : nat

val pREC_LAMBDA : nat

val pREC_EXPR_SLOT : nat

val pREC_CALL_SLOT_KWARG : nat

val pREC_NAMEDEXPR : nat

val pREC_CALL_SLOT_ARG : nat

val pREC_GENEXPR : nat

val pREC_CALL_SLOT_ONLYARG : nat

val pREC_YIELD : nat

val node_prec_Name : nat

val node_prec_Constant : nat

val node_prec_JoinedStr : nat

val node_prec_FormattedValue : nat

val node_prec_Starred : nat

val node_prec_List : nat

val node_prec_Tuple : nat

val node_prec_Set : nat

val node_prec_Dict : nat

val node_prec_Compare : nat

val node_prec_Attribute : nat

val node_prec_Subscript : nat

val node_prec_Slice : nat

val node_prec_Call : nat

val node_prec_NamedExpr : nat

val node_prec_Lambda : nat

val node_prec_ListComp : nat

val node_prec_SetComp : nat

val node_prec_GeneratorExp : nat

val node_prec_DictComp : nat

val node_prec_IfExp : nat

val node_prec_Yield : nat

val node_prec_YieldFrom : nat

val node_prec_Await : nat

val binop_prec : binop -> nat

val unop_prec : unop -> nat

val boolop_prec : boolop -> nat

val binop_text : binop -> char list

val unop_text : unop -> char list

val boolop_text : boolop -> char list

val cmpop_text : cmpop -> char list

val slot_BinOp_left : binop -> nat

val slot_BinOp_right : binop -> nat

val slot_UnaryOp : unop -> nat

val slot_BoolOp : boolop -> nat

val slot_Attribute_value : nat

val slot_Await_value : nat

val slot_Call_arg : nat

val slot_Call_func : nat

val slot_Call_kwarg : nat

val slot_Call_onlyarg : nat

val slot_Compare_comparator : nat

val slot_Compare_left : nat

val slot_DictComp_key : nat

val slot_DictComp_value : nat

val slot_Dict_key : nat

val slot_Dict_starvalue : nat

val slot_Dict_value : nat

val slot_FormattedValue_spec_field : nat

val slot_FormattedValue_value : nat

val slot_GeneratorExp_elt : nat

val slot_IfExp_body : nat

val slot_IfExp_orelse : nat

val slot_IfExp_test : nat

val slot_JoinedStr_field : nat

val slot_Lambda_body : nat

val slot_Lambda_default : nat

val slot_Lambda_kwdefault : nat

val slot_ListComp_elt : nat

val slot_List_elt : nat

val slot_NamedExpr_value : nat

val slot_SetComp_elt : nat

val slot_Set_elt : nat

val slot_Slice_lower : nat

val slot_Slice_step : nat

val slot_Slice_upper : nat

val slot_Starred_value : nat

val slot_Subscript_slice : nat

val slot_Subscript_value : nat

val slot_Tuple_elt : nat

val slot_YieldFrom_value : nat

val slot_Yield_value : nat

val slot_comp_if : nat

val slot_comp_iter : nat

val slot_comp_target : nat

val slot_top : nat

val escape_table_sq : n list list

val escape_table_dq : n list list

type text = n list

val s2t : char list -> text

type tok =
| TName of ident
| TLit of const * text
| TP of char list
| TFText of text

val tok_text : tok -> text

val render : tok list -> text

val iNF : nat

val sQ : n

val dQ : n

val flipq : n -> n

val escape_cp : n -> n -> text

val escape : n -> text -> text

val lBRACE : n

val rBRACE : n

val double_braces : text -> text

val const_text : n -> const -> text

val is_digit : n -> bool

val all_digits : text -> bool

val node_prec : expr -> nat

val join : 'a1 list -> 'a1 list list -> 'a1 list

val paren : bool -> tok list -> tok list

val attach_defaults : tok list list -> tok list list -> tok list list

val attach_kwdefaults : tok list list -> tok list option list -> tok list list

val starts_with : n -> text -> bool

val ends_with : n -> text -> bool

val utoks : nat -> n -> expr -> tok list

val unparse_toks : expr -> tok list

val unparse : expr -> text

val ok : sexp -> sexp

val bad : char list -> sexp

val run_cmd : sexp -> sexp

val run_line : char list -> char list
